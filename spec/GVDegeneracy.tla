---------------------------- MODULE GVDegeneracy ----------------------------
(* C12: bookkeeping of degenerate sets and the frequency cutoff in           *)
(* GroupVelocity._calculate_group_velocity_at_q and rotate_eigenvectors      *)
(* (phonopy/phonon/degeneracy.py: degenerate_sets), as a step machine, and   *)
(* what the property needs from it.                                          *)
(*                                                                           *)
(* Frequencies are integers (units in which the tolerance is Tol); the       *)
(* callers pass eigenvalues/frequencies in ascending order (numpy.linalg.    *)
(* eigh), which is the precondition stated here.                             *)
EXTENDS Integers, Sequences, FiniteSets, TLC

CONSTANTS MaxLen, MaxF, Tols, Cutoffs,
          Observed   \* set of pairs << <<freqs, tol>>, sets >> recorded from the implementation ({} in model runs)

VARIABLES pc, freqs, tol, i, j, fset, done, indices,
          obsv     \* the implementation's recorded result for this input (<<>> if none)
vars == <<pc, freqs, tol, i, j, fset, done, indices, obsv>>

Sorted(f) == \A a, b \in 1..Len(f) : a < b => f[a] <= f[b]
SeqsUpTo(n) == UNION {[1..k -> 0..MaxF] : k \in 1..n}
Inputs == {f \in SeqsUpTo(MaxLen) : Sorted(f)}

AbsI(v) == IF v < 0 THEN -v ELSE v
InSeq(s, v) == \E k \in 1..Len(s) : s[k] = v

Init ==
  /\ pc = "outer"
  /\ IF Observed = {} THEN freqs \in Inputs /\ tol \in Tols /\ obsv = <<>>
                       ELSE \E p \in Observed : freqs = p[1][1] /\ tol = p[1][2] /\ obsv = p[2]
  /\ i = 1 /\ j = 0 /\ fset = <<>> /\ done = <<>> /\ indices = <<>>

(* for i in range(len(freqs)): if i in done: continue; else f_set=[i]; done.append(i) *)
Outer ==
  /\ pc = "outer"
  /\ IF i > Len(freqs) THEN /\ pc' = "end" /\ UNCHANGED <<i, j, fset, done, indices>>
     ELSE IF InSeq(done, i) THEN /\ i' = i + 1 /\ UNCHANGED <<pc, j, fset, done, indices>>
     ELSE /\ fset' = <<i>> /\ done' = Append(done, i) /\ j' = i + 1 /\ pc' = "inner" /\ UNCHANGED <<i, indices>>
  /\ UNCHANGED <<freqs, tol, obsv>>

(* for j in range(i+1, len): if (abs(freqs[f_set] - freqs[j]) < cutoff).any(): f_set.append(j); done.append(j) *)
Inner ==
  /\ pc = "inner"
  /\ IF j > Len(freqs)
       THEN /\ indices' = Append(indices, fset) /\ i' = i + 1 /\ pc' = "outer" /\ UNCHANGED <<j, fset, done>>
       ELSE /\ IF \E k \in 1..Len(fset) : AbsI(freqs[fset[k]] - freqs[j]) < tol
                 THEN /\ fset' = Append(fset, j) /\ done' = Append(done, j)
                 ELSE UNCHANGED <<fset, done>>
            /\ j' = j + 1 /\ UNCHANGED <<pc, i, indices>>
  /\ UNCHANGED <<freqs, tol, obsv>>

Next == Outer \/ Inner
Spec == Init /\ [][Next]_vars

-----------------------------------------------------------------------------
(* requirement: the sets are the classes of "linked by steps smaller than    *)
(* tol"; for ascending input these are maximal runs of consecutive indices   *)
Linked(f, t, a, b) == \A k \in a..(b - 1) : f[k + 1] - f[k] < t           \* a <= b
SameClass(f, t, a, b) == IF a <= b THEN Linked(f, t, a, b) ELSE Linked(f, t, b, a)

ToSet(s) == {s[k] : k \in 1..Len(s)}
ReqPartition(f, sets) ==
  /\ UNION {ToSet(sets[k]) : k \in 1..Len(sets)} = 1..Len(f)
  /\ \A a, b \in 1..Len(sets) : a # b => ToSet(sets[a]) \cap ToSet(sets[b]) = {}
  /\ \A a \in 1..Len(sets) : Len(sets[a]) = Cardinality(ToSet(sets[a]))
ReqClasses(f, t, sets) ==
  \A a, b \in 1..Len(f) :
     (\E k \in 1..Len(sets) : a \in ToSet(sets[k]) /\ b \in ToSet(sets[k])) <=> SameClass(f, t, a, b)
(* the group-velocity code writes results back with a running position: sets *)
(* must come in ascending order of consecutive indices                       *)
ReqConsecutive(sets) ==
  LET flat == [k \in 1..Len(sets) |-> sets[k]] IN
  \A k \in 1..Len(sets) : \A m \in 1..Len(sets[k]) :
     sets[k][m] = m + Cardinality(UNION {ToSet(sets[kk]) : kk \in 1..(k - 1)})

InvPartition == pc = "end" => ReqPartition(freqs, indices)
InvClasses == pc = "end" => ReqClasses(freqs, tol, indices)
InvConsecutive == pc = "end" => ReqConsecutive(indices)

(* cutoff rule: velocity is zeroed exactly for f <= cutoff; such modes are   *)
(* never above the cutoff (decision table, trivial but stated)               *)
Zeroed(f, c) == ~(f > c)
InvCutoff == \A c \in Cutoffs : \A f \in 0..MaxF : Zeroed(f, c) <=> f <= c

(* implementation: recorded outputs (0-based in the code, 1-based here)       *)
Seen == pc = "end" /\ obsv # <<>>
Obs == obsv
ImplPartition == Seen => ReqPartition(freqs, Obs)
ImplClasses == Seen => ReqClasses(freqs, tol, Obs)
ImplConsecutive == Seen => ReqConsecutive(Obs)
ConformsSets == Seen => Obs = indices
=============================================================================
