---------------------------- MODULE GVDegeneracy ----------------------------
(* C12: bookkeeping of degenerate sets and of the frequency cutoff in        *)
(* GroupVelocity._calculate_group_velocity_at_q and rotate_eigenvectors      *)
(* (phonopy/phonon/degeneracy.py: degenerate_sets), as a step machine, and   *)
(* what the property needs from it.                                          *)
(*                                                                           *)
(* Two DIFFERENT numbers are involved:                                       *)
(*   tol    - the degeneracy tolerance: modes are in one class iff they are  *)
(*            linked by steps smaller than tol.  Fixed (degenerate_sets'     *)
(*            default, 1e-4), never taken from the caller's cutoff;          *)
(*   cutoff - GroupVelocity(cutoff_frequency=...): the velocity of a mode    *)
(*            is set to zero iff its frequency is <= cutoff.                 *)
(* The property: whatever the cutoff, the classes are those of tol, so a     *)
(* non-degenerate mode above the cutoff keeps its own eigenvector and its    *)
(* velocity is the gradient of its frequency.                                *)
(*                                                                           *)
(* Frequencies are integers (units in which tol is given); the callers pass  *)
(* eigenvalues/frequencies in ascending order (numpy.linalg.eigh), which is  *)
(* the precondition stated here.                                             *)
EXTENDS Integers, Sequences, FiniteSets, TLC

CONSTANTS MaxLen, MaxF, Tols, Cutoffs,
          Observed   \* set of pairs << <<freqs, tol, cutoff>>, [sets, tolPassed, gv, zeroed] >> recorded from the
                     \* implementation ({} in model runs); gv = TRUE for events of a GroupVelocity object

VARIABLES pc, freqs, tol, cutoff, tolUsed, i, j, fset, done, indices, zeroed,
          obsv     \* the implementation's record for this input (<<>> if none)
vars == <<pc, freqs, tol, cutoff, tolUsed, i, j, fset, done, indices, zeroed, obsv>>

Sorted(f) == \A a, b \in 1..Len(f) : a < b => f[a] <= f[b]
SeqsUpTo(n) == UNION {[1..k -> 0..MaxF] : k \in 1..n}
Inputs == {f \in SeqsUpTo(MaxLen) : Sorted(f)}

AbsI(v) == IF v < 0 THEN -v ELSE v
InSeq(s, v) == \E k \in 1..Len(s) : s[k] = v

Init ==
  /\ pc = "call"
  /\ IF Observed = {} THEN freqs \in Inputs /\ tol \in Tols /\ cutoff \in Cutoffs /\ obsv = <<>>
                       ELSE \E p \in Observed : freqs = p[1][1] /\ tol = p[1][2] /\ cutoff = p[1][3] /\ obsv = p[2]
  /\ tolUsed = 0 /\ i = 1 /\ j = 0 /\ fset = <<>> /\ done = <<>> /\ indices = <<>> /\ zeroed = {}

(* deg_sets = degenerate_sets(freqs): the tolerance handed down is the fixed one, not the cutoff *)
Call ==
  /\ pc = "call"
  /\ tolUsed' = tol
  /\ pc' = "outer"
  /\ UNCHANGED <<freqs, tol, cutoff, i, j, fset, done, indices, zeroed, obsv>>

(* for i in range(len(freqs)): if i in done: continue; else f_set=[i]; done.append(i) *)
Outer ==
  /\ pc = "outer"
  /\ IF i > Len(freqs) THEN /\ pc' = "end" /\ UNCHANGED <<i, j, fset, done, indices>>
     ELSE IF InSeq(done, i) THEN /\ i' = i + 1 /\ UNCHANGED <<pc, j, fset, done, indices>>
     ELSE /\ fset' = <<i>> /\ done' = Append(done, i) /\ j' = i + 1 /\ pc' = "inner" /\ UNCHANGED <<i, indices>>
  /\ UNCHANGED <<freqs, tol, cutoff, tolUsed, zeroed, obsv>>

(* for j in range(i+1, len): if (abs(freqs[f_set] - freqs[j]) < cutoff).any(): f_set.append(j); done.append(j) *)
Inner ==
  /\ pc = "inner"
  /\ IF j > Len(freqs)
       THEN /\ indices' = Append(indices, fset) /\ i' = i + 1 /\ pc' = "outer" /\ UNCHANGED <<j, fset, done>>
       ELSE /\ IF \E k \in 1..Len(fset) : AbsI(freqs[fset[k]] - freqs[j]) < tolUsed
                 THEN /\ fset' = Append(fset, j) /\ done' = Append(done, j)
                 ELSE UNCHANGED <<fset, done>>
            /\ j' = j + 1 /\ UNCHANGED <<pc, i, indices>>
  /\ UNCHANGED <<freqs, tol, cutoff, tolUsed, zeroed, obsv>>

(* for i, f in enumerate(freqs): if f > cutoff: scale else: gv[i] = 0 *)
ZeroBelowCutoff ==
  /\ pc = "end"
  /\ zeroed' = {k \in 1..Len(freqs) : ~(freqs[k] > cutoff)}
  /\ pc' = "done"
  /\ UNCHANGED <<freqs, tol, cutoff, tolUsed, i, j, fset, done, indices, obsv>>

Next == Call \/ Outer \/ Inner \/ ZeroBelowCutoff
Spec == Init /\ [][Next]_vars

-----------------------------------------------------------------------------
(* requirement: the sets are the classes of "linked by steps smaller than    *)
(* tol" (the FIXED tolerance, independent of the cutoff); for ascending      *)
(* input these are maximal runs of consecutive indices                       *)
Linked(f, t, a, b) == \A k \in a..(b - 1) : f[k + 1] - f[k] < t           \* a <= b
SameClass(f, t, a, b) == IF a <= b THEN Linked(f, t, a, b) ELSE Linked(f, t, b, a)

ToSet(s) == {s[k] : k \in 1..Len(s)}
ReqPartition(f, sets) ==
  /\ UNION {ToSet(sets[k]) : k \in 1..Len(sets)} = 1..Len(f)
  /\ \A a, b \in 1..Len(sets) : a # b => ToSet(sets[a]) \cap ToSet(sets[b]) = {}
  /\ \A a \in 1..Len(sets) : Len(sets[a]) = Cardinality(ToSet(sets[a]))
ReqClasses(f, t, sets) ==
  \A a, b \in 1..Len(f) :
     (\E k \in 1..Len(sets) : a \in ToSet(sets[k]) /\ b \in ToSet(sets[k])) <=> SameClass(f, t, a, b)
(* the group-velocity code writes results back with a running position: sets *)
(* must come in ascending order of consecutive indices                       *)
ReqConsecutive(sets) ==
  \A k \in 1..Len(sets) : \A m \in 1..Len(sets[k]) :
     sets[k][m] = m + Cardinality(UNION {ToSet(sets[kk]) : kk \in 1..(k - 1)})
(* the velocity is zeroed exactly for the modes at or below the cutoff *)
ReqZeroed(f, c, z) == z = {k \in 1..Len(f) : f[k] <= c}
(* two modes further apart than tol are never in one set, however large the cutoff *)
ReqCutoffDoesNotMerge(f, t, sets) ==
  \A k \in 1..Len(sets) : \A a, b \in ToSet(sets[k]) : SameClass(f, t, a, b)

AtEnd == pc = "done"
InvPartition == AtEnd => ReqPartition(freqs, indices)
InvClasses == AtEnd => ReqClasses(freqs, tol, indices)
InvConsecutive == AtEnd => ReqConsecutive(indices)
InvZeroed == AtEnd => ReqZeroed(freqs, cutoff, zeroed)
InvCutoffDoesNotMerge == AtEnd => ReqCutoffDoesNotMerge(freqs, tol, indices)

(* implementation: recorded outputs (0-based in the code, 1-based here)       *)
Seen == AtEnd /\ obsv # <<>>
ImplPartition == Seen => ReqPartition(freqs, obsv.sets)
ImplClasses == Seen => ReqClasses(freqs, tol, obsv.sets)
ImplConsecutive == Seen => ReqConsecutive(obsv.sets)
ImplCutoffDoesNotMerge == Seen => ReqCutoffDoesNotMerge(freqs, tol, obsv.sets)
ImplZeroed == (Seen /\ obsv.gv) => ReqZeroed(freqs, cutoff, obsv.zeroed)
ConformsSets == Seen => obsv.sets = indices
ConformsTolerancePassed == Seen => obsv.tolPassed = tolUsed
=============================================================================
