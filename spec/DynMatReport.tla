---------------------------- MODULE DynMatReport ----------------------------
(* C02: what Phonopy.run_qpoints REPORTS is a function of (force constants,   *)
(* masses, q) only.  DynMat.tla fixes that function (the series `herm`,       *)
(* Dyn = CartOf(herm)/(2 lcm D^2)/sqrt(m m'), Freq = sign(e) sqrt|e| Factor); *)
(* this module states that the batch entry point returns it WHATEVER other    *)
(* outputs are requested and WHICHEVER build of the extension is loaded:      *)
(*                                                                            *)
(*   RunQpoints(f), f = [ev, gv, dm] (with_eigenvectors,                      *)
(*   with_group_velocities, with_dynamical_matrices):                         *)
(*     reports  D     = Dyn(case)            if f.dm                          *)
(*              freq  = Freq(case)           always                           *)
(*              V     with  D V = V diag(e)  if f.ev (V unitary)              *)
(*                                                                            *)
(* The machine asks for every option combination on one session (same force   *)
(* constants, masses and q-list); the abstract report carries TOKENS: the     *)
(* machine's D token is the constant "D" and its frequency token "F" - they   *)
(* do not depend on f.  One event = one real session driven through all       *)
(* eight combinations on one build (omp: compiled batch solver whose output   *)
(* buffer is reused for the eigenvectors; serial: one kernel call per q),     *)
(* each run logged as                                                         *)
(*   [ev, gv, dm,                                                             *)
(*    dtok  content token of the returned dynamical_matrices (0 = none;       *)
(*          equal tokens <=> bit-identical arrays),                           *)
(*    ftok  content token of the returned frequencies,                        *)
(*    dOK   returned D equals DynMat's series at every q (1e-10, harness),    *)
(*    fOK   returned frequencies equal sign(e) sqrt|e| Factor of the series,  *)
(*    vOK   returned eigenvectors are unitary and diagonalise the RETURNED D  *)
(*          (and the series' matrix) with the returned eigenvalues,           *)
(*    gOK   group velocities returned iff requested, finite]                  *)
(* Impl* invariants judge the logged runs; Conforms* compare them with the    *)
(* machine's report for the same request.                                     *)
EXTENDS Integers, FiniteSets, TLC

CONSTANT Reports   \* set of [id, build, runs : set of run records]

VARIABLES pc, r, todo, cur, rep
vars == <<pc, r, todo, cur, rep>>

Combos == [ev : BOOLEAN, gv : BOOLEAN, dm : BOOLEAN]
Flags(u) == [ev |-> u.ev, gv |-> u.gv, dm |-> u.dm]

(* the specification's report for request f: tokens that do not depend on f *)
SpecReport(f) == [dm |-> IF f.dm THEN "D" ELSE "none", freq |-> "F", ev |-> IF f.ev THEN "V(D)" ELSE "none"]

NoRun == [none |-> TRUE]
Init == /\ pc = "session" /\ r \in Reports /\ todo = Combos /\ cur = NoRun
        /\ rep = [dm |-> "none", freq |-> "none", ev |-> "none"]

RunQpoints ==   \* the requests of one session, in a fixed order (the order is immaterial)
  /\ pc = "session" /\ todo # {}
  /\ LET f == CHOOSE f \in todo : TRUE IN
       /\ todo' = todo \ {f}
       /\ rep' = SpecReport(f)
       /\ cur' = IF \E u \in r.runs : Flags(u) = f THEN CHOOSE u \in r.runs : Flags(u) = f ELSE [missing |-> f]
  /\ UNCHANGED <<pc, r>>

Finish == /\ pc = "session" /\ todo = {} /\ pc' = "done" /\ UNCHANGED <<r, todo, cur, rep>>

Next == RunQpoints \/ Finish
Spec == Init /\ [][Next]_vars

Logged == "dtok" \in DOMAIN cur
WithD == {u \in r.runs : u.dm}

(* every combination was driven and logged exactly once *)
ImplAllCombinationsLogged ==
  /\ {Flags(u) : u \in r.runs} = Combos /\ Cardinality(r.runs) = Cardinality(Combos)
  /\ "missing" \notin DOMAIN cur
(* the reported D is the lattice Fourier sum of DynMat.tla, whatever else was requested *)
ImplReportedDIsTheSeries == Logged => (cur.dm => cur.dOK)
(* ... and is the SAME array for every request that returns it (a function of the case only) *)
ImplReportedDIndependentOfOptions == \A u, v \in WithD : u.dtok = v.dtok /\ u.dtok # 0
ImplNoDWhenNotRequested == Logged => ((~cur.dm) => cur.dtok = 0)
(* frequencies: always the series' ones; identical arrays among requests that use the same   *)
(* eigen-solver (eigh when eigenvectors are requested, eigvalsh otherwise)                    *)
ImplFrequenciesAreTheSeries == Logged => cur.fOK
ImplFrequenciesIndependentOfOptions == \A u, v \in r.runs : u.ev = v.ev => u.ftok = v.ftok
(* eigenvectors diagonalise the reported D *)
ImplEigenvectorsDiagonaliseReportedD == Logged => (cur.ev => cur.vOK)
ImplGroupVelocities == Logged => cur.gOK

(* the logged run is the machine's report for that request *)
ConformsReport ==
  Logged => /\ (rep.dm = "D") = (cur.dtok # 0)
            /\ (rep.dm = "D") => (cur.dOK /\ \A v \in WithD : v.dtok = cur.dtok)
            /\ cur.fOK
            /\ (rep.ev = "V(D)") => cur.vOK
=============================================================================
