----------------------------- MODULE TetraMesh -----------------------------
(* C11, mesh level: the tetrahedron method on a periodic regular grid        *)
(*   c/tetrahedron_method.c    db_relative_grid_address (4 x 24 x 4 x 3)     *)
(*   structure/tetrahedron_method.py  _create_tetrahedra,                     *)
(*        _get_relative_grid_addresses_from_six_tetrahedra                   *)
(*   c/phonopy.c  phpy_get_tetrahedra_frequenies, phpy_tetrahedron_method_dos *)
(*   c/rgrid.c    rgd_get_double_grid_address / rgd_get_double_grid_index     *)
(*   phonon/tetrahedron_mesh.py  TetrahedronMesh, _get_tetrahedra_frequencies_Py *)
(*   phonon/dos.py  run_tetrahedron_method_dos                                *)
(*                                                                            *)
(* DEFINITION side.  The grid cell with corner c is cut into the six Kuhn     *)
(* simplices that share the main diagonal `diag` (one per order in which the  *)
(* three axes are walked from one end of the diagonal to the other); each has *)
(* 1/6 of the cell volume.  For a periodic field on the grid                  *)
(*    N(w) = (1/Ngp) SUM_cells SUM_{six simplices} (1/6) n_simplex(w)         *)
(* is the cumulative density of the piecewise-linear interpolant, g likewise. *)
(* Re-indexed by grid point: the weight of grid point p is (1/6) x the sum    *)
(* over the 24 simplices that contain p (the star of p) of p's vertex weight. *)
(* Both sides use Tetrahedron!DefW / DefTotal (geometric integrals).          *)
(*                                                                            *)
(* ALGORITHM side (step machine).                                             *)
(*   ChooseCase           a case: mesh, main diagonal, mapping table, grid    *)
(*                        addresses, values on irreducible points, frequency  *)
(*                        list (IN ANY ORDER, repeats allowed), projection     *)
(*                        coefficients                                         *)
(*   RelativeGridAddress  the 24 x 4 table as the Python code builds it       *)
(*   NeighbourLookup      values at the vertices of the 24 simplices around   *)
(*                        every irreducible point: address + relative address,*)
(*                        doubled, reduced, halved, modulo mesh, index,       *)
(*                        mapping table, irreducible index                    *)
(*   Tabulate             closed-form weight of every distinct value tuple    *)
(*   Integrate            (1/6) SUM_24 closed-form weight                     *)
(*   Accumulate           SUM_ir multiplicity x weight x coefficient / Ngp    *)
EXTENDS Tetrahedron

CONSTANT Cases     \* set of case records, see ChooseCase

VARIABLES mpc, cs, table, tvals, geo, memo, iw, dw, dos, cw
mvars == <<mpc, cs, table, tvals, geo, memo, iw, dw, dos, cw>>

Vec3Add(a, b) == <<a[1] + b[1], a[2] + b[2], a[3] + b[3]>>
Vec3Sub(a, b) == <<a[1] - b[1], a[2] - b[2], a[3] - b[3]>>
O3 == <<0, 0, 0>>
Mat(f) == f @@ <<>>     \* force one evaluation of a function expression
RMin(a, b) == IF RLe(a, b) THEN a ELSE b
RMax(a, b) == IF RLe(a, b) THEN b ELSE a
SetSeq(S) ==
  LET RECURSIVE Enum(_)
      Enum(R) == IF R = {} THEN <<>> ELSE LET x == CHOOSE y \in R : TRUE IN <<x>> \o Enum(R \ {x})
  IN Enum(S)
RSumOver(S, F(_)) == LET q == SetSeq(S) IN RSumSeq([t \in 1..Len(q) |-> F(q[t])])

-----------------------------------------------------------------------------
(* -------- geometry of the division: DEFINITION ---------------------------- *)
Perms3 == {<<1, 2, 3>>, <<1, 3, 2>>, <<2, 1, 3>>, <<2, 3, 1>>, <<3, 1, 2>>, <<3, 2, 1>>}
Corners == {<<i, j, k>> : i \in 0..1, j \in 0..1, k \in 0..1}
(* main diagonals 0..3 of the unit cell: start corner and direction *)
DiagStart == <<<<0, 0, 0>>, <<1, 0, 0>>, <<0, 1, 0>>, <<1, 1, 0>>>>
DiagDir == <<<<1, 1, 1>>, <<-1, 1, 1>>, <<1, -1, 1>>, <<1, 1, -1>>>>
Step(d, ax) == [i \in 1..3 |-> IF i = ax THEN DiagDir[d + 1][ax] ELSE 0]
(* Kuhn simplex of diagonal d for the axis order p: four corners of the unit cell *)
Kuhn(d, p) ==
  LET c0 == DiagStart[d + 1]
      c1 == Vec3Add(c0, Step(d, p[1]))
      c2 == Vec3Add(c1, Step(d, p[2]))
      c3 == Vec3Add(c2, Step(d, p[3]))
  IN {c0, c1, c2, c3}
SixDef(d) == {Kuhn(d, p) : p \in Perms3}
(* the star of the origin: every simplex of the periodic tiling that has the  *)
(* origin as a vertex, given by the set of its three other vertices            *)
StarOf(d) == UNION {{{Vec3Sub(x, c) : x \in T \ {c}} : c \in T} : T \in SixDef(d)}

VKey(v) == (v[1] + 2) * 25 + (v[2] + 2) * 5 + (v[3] + 2)
OrderedVecs(S) ==
  LET RECURSIVE Ord(_)
      Ord(R) == IF R = {} THEN <<>>
                ELSE LET m == CHOOSE x \in R : \A y \in R : VKey(x) <= VKey(y) IN <<m>> \o Ord(R \ {m})
  IN Ord(S)

Det3V(a, b, c) == a[1] * (b[2] * c[3] - b[3] * c[2]) - a[2] * (b[1] * c[3] - b[3] * c[1]) + a[3] * (b[1] * c[2] - b[2] * c[1])
(* r in the open cone spanned by the three vectors of S *)
InCone(S, r) ==
  LET s == OrderedVecs(S)
      D == Det3V(s[1], s[2], s[3])
  IN /\ Det3V(r, s[2], s[3]) * D > 0
     /\ Det3V(s[1], r, s[3]) * D > 0
     /\ Det3V(s[1], s[2], r) * D > 0
(* one direction in each of the 48 chambers cut out by the planes x=0, x=+-y, ... *)
(* and on none of the planes spanned by two vectors of {-1,0,1}^3                 *)
Directions ==
  {<<sa * p[1], sb * p[2], sc * p[3]>> :
      sa \in {-1, 1}, sb \in {-1, 1}, sc \in {-1, 1},
      p \in {<<1, 5, 25>>, <<1, 25, 5>>, <<5, 1, 25>>, <<5, 25, 1>>, <<25, 1, 5>>, <<25, 5, 1>>}}
(* 24 unimodular simplices whose cones cover every generic direction exactly  *)
(* once: the star is a triangulation of a neighbourhood of the grid point     *)
StarGeometry(d) ==
  /\ Cardinality(StarOf(d)) = 24
  /\ \A S \in StarOf(d) : /\ Cardinality(S) = 3
                          /\ LET s == OrderedVecs(S) IN RAbs(Det3V(s[1], s[2], s[3])) = 1
  /\ \A r \in Directions : Cardinality({S \in StarOf(d) : InCone(S, r)}) = 1

-----------------------------------------------------------------------------
(* -------- the table as the Python code builds it (ALGORITHM) -------------- *)
Ppd(i) == <<i % 2, (i \div 2) % 2, i \div 4>>
SixLiteral ==
  << << <<0,1,3,7>>, <<0,1,5,7>>, <<0,2,3,7>>, <<0,2,6,7>>, <<0,4,5,7>>, <<0,4,6,7>> >>,
     << <<0,1,2,6>>, <<0,1,4,6>>, <<1,2,3,6>>, <<1,3,6,7>>, <<1,4,5,6>>, <<1,5,6,7>> >>,
     << <<0,1,2,5>>, <<0,2,4,5>>, <<1,2,3,5>>, <<2,3,5,7>>, <<2,4,5,6>>, <<2,5,6,7>> >>,
     << <<0,1,3,4>>, <<0,2,3,4>>, <<1,3,4,5>>, <<2,3,4,6>>, <<3,4,5,7>>, <<3,4,6,7>> >> >>
(* for i in 0..7: for tetra in six: if i in tetra: (ppd[tetra] - ppd[i], position of i) *)
RECURSIVE BuildRows(_, _, _)
BuildRows(six, i, t) ==
  IF i > 7 THEN <<>>
  ELSE IF t > 6 THEN BuildRows(six, i + 1, 1)
  ELSE LET T == six[t] IN
       IF \E k \in 1..4 : T[k] = i
       THEN << [rel |-> [k \in 1..4 |-> Vec3Sub(Ppd(T[k]), Ppd(i))],
                c |-> (CHOOSE k \in 1..4 : T[k] = i) - 1] >> \o BuildRows(six, i, t + 1)
       ELSE BuildRows(six, i, t + 1)
BuildTable(d) == BuildRows(SixLiteral[d + 1], 0, 1)

(* CONTRACT of a table: sequence of [rel |-> 4 vectors, c |-> 0-based position of the origin] *)
RowOthers(r) == {r.rel[k] : k \in (1..4) \ {r.c + 1}}
TableContract(tab, d) ==
  /\ Len(tab) = 24
  /\ \A t \in 1..24 : tab[t].c \in 0..3 /\ tab[t].rel[tab[t].c + 1] = O3
  /\ {RowOthers(tab[t]) : t \in 1..24} = StarOf(d)
  /\ Cardinality({RowOthers(tab[t]) : t \in 1..24}) = 24
(* the choice of the main diagonal: a shortest one for the microzone metric M  *)
(* (M = Gram matrix of the reciprocal basis vectors divided by the mesh,       *)
(* integers up to a common factor)                                             *)
DiagLen2(M, d) ==
  LET x == DiagDir[d + 1]
  IN x[1] * (M[1][1] * x[1] + M[1][2] * x[2] + M[1][3] * x[3])
   + x[2] * (M[2][1] * x[1] + M[2][2] * x[2] + M[2][3] * x[3])
   + x[3] * (M[3][1] * x[1] + M[3][2] * x[2] + M[3][3] * x[3])
ShortestDiagonal(M, d) == \A e \in 0..3 : DiagLen2(M, d) <= DiagLen2(M, e)

-----------------------------------------------------------------------------
(* -------- grid bookkeeping ------------------------------------------------ *)
NGp(m) == m[1] * m[2] * m[3]
(* DEFINITION: index of the grid point congruent to address a, x fastest *)
IndexDef(m, a) == (a[1] % m[1]) + (a[2] % m[2]) * m[1] + (a[3] % m[3]) * m[1] * m[2]
(* ALGORITHM: rgd_get_double_grid_address (is_shift = 0), rgd_get_double_grid_index *)
RgdIndex(m, a) ==
  LET dbl == [i \in 1..3 |-> 2 * a[i]]
      red == [i \in 1..3 |-> IF dbl[i] > m[i] THEN dbl[i] - 2 * m[i] ELSE dbl[i]]
      half == [i \in 1..3 |-> IF red[i] % 2 = 0 THEN red[i] \div 2 ELSE (red[i] - 1) \div 2]
      md == [i \in 1..3 |-> half[i] % m[i]]
  IN md[3] * m[1] * m[2] + md[2] * m[1] + md[1]

IrPoints(map) == {g \in 0..(Len(map) - 1) : map[g + 1] = g}
IrSeq(map) == Ordered(IrPoints(map))
(* position (1-based) of irreducible point r among the irreducible points *)
IrIndex(map, r) == Cardinality({g \in IrPoints(map) : g <= r})
Mult(map, r) == Cardinality({g \in 0..(Len(map) - 1) : map[g + 1] = r})
NBands(c) == Len(c.irvals)
NCoef(c) == Len(c.coef[1])
(* DEFINITION: the field on the full grid, band b (0-based grid index) *)
FullField(c, b) == [g \in 0..(NGp(c.mesh) - 1) |-> c.irvals[b][IrIndex(c.map, c.map[g + 1])]]

WellFormed(c) ==
  /\ Len(c.map) = NGp(c.mesh) /\ Len(c.addr) = NGp(c.mesh)
  /\ \A g \in 0..(NGp(c.mesh) - 1) : /\ c.map[g + 1] \in IrPoints(c.map)
                                     /\ IndexDef(c.mesh, c.addr[g + 1]) = g
  /\ \A b \in 1..NBands(c) : Len(c.irvals[b]) = Cardinality(IrPoints(c.map))

-----------------------------------------------------------------------------
(* -------- DEFINITION of the grid-point weights ---------------------------- *)
(* value tuples (central first) of the 24 simplices around grid point g *)
StarTuples(c, F, g) ==
  LET a == c.addr[g + 1]
  IN [S \in StarOf(c.diag) |->
        LET s == OrderedVecs(S)
        IN <<F[g], F[IndexDef(c.mesh, Vec3Add(a, s[1]))],
                   F[IndexDef(c.mesh, Vec3Add(a, s[2]))],
                   F[IndexDef(c.mesh, Vec3Add(a, s[3]))]>>]
(* <<lower, upper>> of a one-sided pair; lower = upper unless w coincides    *)
(* with a vertex value where the quantity jumps                               *)
BoundsW(f, tp, w) ==
  IF IsTie(tp, w)
  THEN LET l == DefW(f, tp, w, "L", 1) r == DefW(f, tp, w, "R", 1) IN <<RMin(l, r), RMax(l, r)>>
  ELSE LET x == DefW(f, tp, w, "R", 1) IN <<x, x>>
BoundsTotal(f, tp, w) ==
  IF IsTie(tp, w)
  THEN LET l == DefTotal(f, tp, w, "L") r == DefTotal(f, tp, w, "R") IN <<RMin(l, r), RMax(l, r)>>
  ELSE LET x == DefTotal(f, tp, w, "R") IN <<x, x>>
(* cell-wise: tuples of the six simplices of the cell with corner g *)
CellTuples(c, F, g, T) ==
  LET a == c.addr[g + 1]
      s == OrderedVecs(T)
  IN [k \in 1..4 |-> F[IndexDef(c.mesh, Vec3Add(a, s[k]))]]

-----------------------------------------------------------------------------
(* TLC evaluates a LET definition or a nested function expression again at    *)
(* every use inside an action, so every table that is used more than once is  *)
(* a state variable filled by its own step:                                   *)
(*   geo   (requirement side) value tuples of the star of every irreducible   *)
(*         point and of the six simplices of every cell, from the DEFINITION  *)
(*         of the periodic field                                              *)
(*   memo  weights tabulated once per distinct value tuple: algorithm (A),    *)
(*         definition bounds of the vertex weight (D) and of n, g (T)         *)
Init2 ==
  /\ Init      \* the kernel-level variables are not used at this level
  /\ mpc = "choose" /\ cs = [mesh |-> <<1, 1, 1>>] /\ table = <<>> /\ tvals = <<>>
  /\ geo = <<>> /\ memo = <<>> /\ iw = <<>> /\ dw = <<>> /\ dos = <<>> /\ cw = <<>>

(* a case:  mesh, diag, map (Ngp entries, 0-based targets), addr[g+1],        *)
(*          irvals[b][ir], ws (frequencies), coef[ir][m][b] (integers >= 0)   *)
ChooseCase ==
  /\ mpc = "choose"
  /\ \E c \in Cases : cs' = c
  /\ mpc' = "table"
  /\ UNCHANGED <<table, tvals, geo, memo, iw, dw, dos, cw>> /\ UNCHANGED vars

RelativeGridAddress ==
  /\ mpc = "table"
  /\ table' = BuildTable(cs.diag)
  /\ mpc' = "lookup"
  /\ UNCHANGED <<cs, tvals, geo, memo, iw, dw, dos, cw>> /\ UNCHANGED vars

(* tvals[r][b][t] = the four values of simplex t around irreducible point r, *)
(* in table order (the central vertex sits where the table has the origin)   *)
LookupWith(tab) ==
  LET irs == IrSeq(cs.map)
  IN [r \in 1..Len(irs) |->
       [b \in 1..NBands(cs) |->
          [t \in 1..24 |->
             [k \in 1..4 |->
                LET g == RgdIndex(cs.mesh, Vec3Add(cs.addr[irs[r] + 1], tab[t].rel[k]))
                IN cs.irvals[b][IrIndex(cs.map, cs.map[g + 1])]]]]]

NeighbourLookup ==
  /\ mpc = "lookup"
  /\ tvals' = LookupWith(table)
  /\ LET irs == IrSeq(cs.map)
         n == NGp(cs.mesh)
     IN geo' = [star |-> [x \in (1..Len(irs)) \X (1..NBands(cs)) |->
                            StarTuples(cs, FullField(cs, x[2]), irs[x[1]])],
                cell |-> [x \in (1..NBands(cs)) \X (0..(n - 1)) \X SixDef(cs.diag) |->
                            CellTuples(cs, FullField(cs, x[1]), x[2], x[3])]]
  /\ mpc' = "tabulate"
  /\ UNCHANGED <<cs, table, memo, iw, dw, dos, cw>> /\ UNCHANGED vars

ARow(r, b, t) == Central(tvals[r][b][t], table[t].c + 1)
Tabulate ==
  /\ mpc = "tabulate"
  /\ LET Jx == 1..Len(cs.ws)
         atups == {ARow(r, b, t) : r \in 1..Len(tvals), b \in 1..NBands(cs), t \in 1..24}
         dtups == UNION {{geo.star[x][S] : S \in DOMAIN geo.star[x]} : x \in DOMAIN geo.star}
         ctups == {geo.cell[x] : x \in DOMAIN geo.cell}
     IN memo' = [A |-> [x \in atups \X Jx \X Fns |-> AlgoWeight(x[3], x[1], cs.ws[x[2]], TieRule)],
                 D |-> [x \in dtups \X Jx \X Fns |-> BoundsW(x[3], x[1], cs.ws[x[2]])],
                 T |-> [x \in ctups \X Jx \X Fns |-> BoundsTotal(x[3], x[1], cs.ws[x[2]])]]
  /\ mpc' = "integrate"
  /\ UNCHANGED <<cs, table, tvals, geo, iw, dw, dos, cw>> /\ UNCHANGED vars

(* dw is a history variable of the requirement side: the definition's bounds  *)
(* <<lower, upper>> of (1/6) SUM_star (weight of the central vertex) for every *)
(* weight the algorithm computes                                               *)
Integrate ==
  /\ mpc = "integrate"
  /\ iw' = [f \in Fns |-> [r \in 1..Len(tvals) |-> [b \in 1..NBands(cs) |-> [j \in 1..Len(cs.ws) |->
               RDivInt(RSumSeq([t \in 1..24 |-> memo.A[<<ARow(r, b, t), j, f>>]]), 6)]]]]
  /\ dw' = [f \in Fns |-> [r \in 1..Len(tvals) |-> [b \in 1..NBands(cs) |-> [j \in 1..Len(cs.ws) |->
               LET q == SetSeq(DOMAIN geo.star[<<r, b>>])
               IN <<RDivInt(RSumSeq([t \in 1..Len(q) |-> memo.D[<<geo.star[<<r, b>>][q[t]], j, f>>][1]]), 6),
                    RDivInt(RSumSeq([t \in 1..Len(q) |-> memo.D[<<geo.star[<<r, b>>][q[t]], j, f>>][2]]), 6)>>]]]]
  /\ mpc' = "accumulate"
  /\ UNCHANGED <<cs, table, tvals, geo, memo, dos, cw>> /\ UNCHANGED vars

(* SUM_ir SUM_b mult x coef x weight / Ngp ; m = NCoef+1 is the total (coef = 1) *)
AccumulateOf(wgt(_, _, _), c, j, m) ==
  LET irs == IrSeq(c.map)
  IN RDivInt(RSumSeq([r \in 1..Len(irs) |->
        RSumSeq([b \in 1..NBands(c) |->
           RScale(Mult(c.map, irs[r]) * (IF m > NCoef(c) THEN 1 ELSE c.coef[r][m][b]), wgt(r, b, j))])]),
        NGp(c.mesh))

(* cw (requirement side): cell-wise bounds of the total,                       *)
(*   (1/Ngp) SUM_bands SUM_cells SUM_six (1/6) n(w) resp. g(w)                 *)
Accumulate ==
  /\ mpc = "accumulate"
  /\ dos' = [f \in Fns |->
               [j \in 1..Len(cs.ws) |->
                  [m \in 1..(NCoef(cs) + 1) |->
                     LET W(r, b, jj) == iw[f][r][b][jj] IN AccumulateOf(W, cs, j, m)]]]
  /\ cw' = [f \in Fns |-> [j \in 1..Len(cs.ws) |->
               LET q == SetSeq(DOMAIN geo.cell)
                   n == NGp(cs.mesh)
               IN <<RDivInt(RSumSeq([t \in 1..Len(q) |-> memo.T[<<geo.cell[q[t]], j, f>>][1]]), 6 * n),
                    RDivInt(RSumSeq([t \in 1..Len(q) |-> memo.T[<<geo.cell[q[t]], j, f>>][2]]), 6 * n)>>]]
  /\ mpc' = "done"
  /\ UNCHANGED <<cs, table, tvals, geo, memo, iw, dw>> /\ UNCHANGED vars

MNext == ChooseCase \/ RelativeGridAddress \/ NeighbourLookup \/ Tabulate \/ Integrate \/ Accumulate
MSpec == Init2 /\ [][MNext]_<<mvars, vars>>

-----------------------------------------------------------------------------
(* -------- the requirement on results (used on the machine's results here,  *)
(* -------- on logged results in TetraMeshTrace) ---------------------------- *)
MDone == mpc = "done"
Total(c) == NCoef(c) + 1

(* neighbour values are the periodic field at address + relative address *)
ReqLookup(c, tab, tv) ==
  LET irs == IrSeq(c.map)
  IN \A r \in 1..Len(irs) : \A b \in 1..NBands(c) :
       LET F == Mat(FullField(c, b))
       IN \A t \in 1..24 : \A k \in 1..4 :
            tv[r][b][t][k] = F[IndexDef(c.mesh, Vec3Add(c.addr[irs[r] + 1], tab[t].rel[k]))]

ReqGpWeights(c, wts, bounds) ==
  \A f \in DOMAIN wts : \A r \in 1..Len(wts[f]) : \A b \in 1..NBands(c) : \A j \in 1..Len(c.ws) :
     RBetween(bounds[f][r][b][j][1], wts[f][r][b][j], bounds[f][r][b][j][2])

(* accumulated (projected) densities lie between the accumulated bounds (coef >= 0) *)
ReqDos(c, d, bounds) ==
  \A f \in DOMAIN d : \A j \in 1..Len(c.ws) : \A m \in 1..Total(c) :
     LET Lo(r, b, jj) == bounds[f][r][b][jj][1]
         Hi(r, b, jj) == bounds[f][r][b][jj][2]
     IN RBetween(AccumulateOf(Lo, c, j, m), d[f][j][m], AccumulateOf(Hi, c, j, m))

AllVals(c) == {c.irvals[b][i] : b \in 1..NBands(c), i \in 1..Len(c.irvals[1])}
MaxVal(c) == CHOOSE x \in AllVals(c) : \A y \in AllVals(c) : y <= x
(* one state per band per grid point at and above the top of the spectrum *)
ReqNormalised(c, d) ==
  "J" \in DOMAIN d =>
    \A j \in 1..Len(c.ws) : c.ws[j] > MaxVal(c) => d["J"][j][Total(c)] = RInt(NBands(c))
ReqNonNegative(c, d) ==
  \A f \in DOMAIN d : \A j \in 1..Len(c.ws) : \A m \in 1..Total(c) : RLe(RZero, d[f][j][m])
(* projections add up to the total when the coefficients of every mode add up to csum *)
CoefSum(c) == RSumSeq([m \in 1..NCoef(c) |-> RInt(c.coef[1][m][1])])[1]
CoefComplete(c) ==
  \A r \in 1..Len(c.coef) : \A b \in 1..NBands(c) :
     RSumSeq([m \in 1..NCoef(c) |-> RInt(c.coef[r][m][b])])[1] = CoefSum(c)
ReqAdditive(c, d) ==
  CoefComplete(c) =>
    \A f \in DOMAIN d : \A j \in 1..Len(c.ws) :
       RSumSeq([m \in 1..NCoef(c) |-> d[f][j][m]]) = RScale(CoefSum(c), d[f][j][Total(c)])
(* THE FREQUENCY GRID IS A LIST IN ANY ORDER.  cs.ws may be ascending,         *)
(* descending, shuffled or hold a value several times: every requirement above *)
(* is stated per index j and uses cs.ws[j] only, so the result at index j must *)
(* not depend on the other points or on their order.  Two explicit forms:      *)
(*   ReqPointwise       equal frequencies get equal results                   *)
(*   ReqSameAsAscending results for the list as given = results for the same  *)
(*                      points evaluated in ascending order (asc[k] = index   *)
(*                      of the k-th smallest point, dAsc = results of that run) *)
ReqPointwise(c, d) ==
  \A f \in DOMAIN d : \A j1, j2 \in 1..Len(c.ws) : c.ws[j1] = c.ws[j2] => d[f][j1] = d[f][j2]
IsAscendingOrder(c, asc) ==
  /\ Len(asc) = Len(c.ws) /\ {asc[k] : k \in 1..Len(asc)} = 1..Len(c.ws)
  /\ \A k \in 1..(Len(asc) - 1) : c.ws[asc[k]] <= c.ws[asc[k + 1]]
ReqSameAsAscending(c, asc, d, dAsc) ==
  \A f \in DOMAIN d : \A k \in 1..Len(asc) : d[f][asc[k]] = dAsc[f][k]

(* without symmetry reduction the sum over grid points is the cell-wise sum *)
IdentityMap(c) == \A g \in 0..(NGp(c.mesh) - 1) : c.map[g + 1] = g
ReqCellwise(c, d, bounds) ==
  IdentityMap(c) =>
    \A f \in DOMAIN d : \A j \in 1..Len(c.ws) :
       RBetween(bounds[f][j][1], d[f][j][Total(c)], bounds[f][j][2])

-----------------------------------------------------------------------------
(* -------- invariants of the step machine ---------------------------------- *)
MTypeOK == mpc \in {"choose", "table", "lookup", "tabulate", "integrate", "accumulate", "done"}
InvWellFormed == mpc # "choose" => WellFormed(cs)
InvStarGeometry == \A d \in 0..3 : StarGeometry(d)
InvTableContract == mpc = "lookup" => TableContract(table, cs.diag)
InvLookup == mpc = "tabulate" => ReqLookup(cs, table, tvals)
InvGpWeights == mpc = "accumulate" => ReqGpWeights(cs, iw, dw)
InvDos == MDone => ReqDos(cs, dos, dw)
InvNormalised == MDone => ReqNormalised(cs, dos)
InvNonNegative == MDone => ReqNonNegative(cs, dos)
InvAdditive == MDone => ReqAdditive(cs, dos)
InvCellwise == MDone => ReqCellwise(cs, dos, cw)
InvPointwise == MDone => ReqPointwise(cs, dos)
=============================================================================
