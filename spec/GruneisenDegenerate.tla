------------------------- MODULE GruneisenDegenerate -------------------------
(* C12, Grueneisen parameters on a DEGENERATE subspace with a non-hydrostatic *)
(* volume triple (phonopy/gruneisen/core.py: _set_gruneisen;                 *)
(* phonopy/phonon/degeneracy.py: rotate_eigenvectors).                       *)
(*                                                                           *)
(* At V0 two modes share the eigenvalue lam.  In the basis eigh happens to   *)
(* return, dD = D(V+) - D(V-) restricted to the pair is the real symmetric   *)
(* matrix M = [[a, b], [b, c]].  When the plus/minus cells are strained       *)
(* non-hydrostatically, b # 0 in general: dD lifts the degeneracy.  The code *)
(* rotates the pair to the eigenbasis of M, reports THOSE eigenvectors, and  *)
(* must report, per mode,                                                    *)
(*      gamma_i = - <e_i| dD |e_i> / strain / lam / 2     with the REPORTED e_i, *)
(* i.e. the eigenvalues of M, which are also the first-order splittings of   *)
(* the frequencies between V- and V+.  The diagonal (a, c) of the un-rotated *)
(* basis is not that (InvRotationMatters).  Integers: M with a perfect-square *)
(* discriminant, values kept doubled (t = 2 mu).                             *)
EXTENDS Integers, FiniteSets, TLC

CONSTANTS R,          \* range of the matrix entries
          ObservedNH  \* set of [id, perMode, diagonal, split, lifted, orthonormal] recorded from the implementation

VARIABLES pc, M, rep
vars == <<pc, M, rep>>

Squares == {k * k : k \in 0..(4 * R + 2)}
Disc(m) == (m.a - m.c) * (m.a - m.c) + 4 * m.b * m.b
Root(d) == CHOOSE k \in 0..(4 * R + 2) : k * k = d
Mats == {m \in [a : -R..R, b : -R..R, c : -R..R] : Disc(m) \in Squares}

Init == pc = "unrotated" /\ M \in Mats /\ rep = <<2 * M.a, 2 * M.c>>       \* doubled diagonal of the basis handed out by eigh

(* rotate_eigenvectors: eigh of the projected dD; doubled eigenvalues in ascending order *)
Rotate ==
  /\ pc = "unrotated"
  /\ rep' = <<(M.a + M.c) - Root(Disc(M)), (M.a + M.c) + Root(Disc(M))>>
  /\ pc' = "rotated"
  /\ UNCHANGED M

Next == Rotate
Spec == Init /\ [][Next]_vars

(* requirement: the reported per-mode values are the roots of the characteristic polynomial of M *)
IsEigen(t) == t * t - 2 * (M.a + M.c) * t + 4 * (M.a * M.c - M.b * M.b) = 0
ReqPerModeIsEigenvalue == pc = "rotated" => IsEigen(rep[1]) /\ IsEigen(rep[2]) /\ rep[1] + rep[2] = 2 * (M.a + M.c)
(* first-order splitting: the two values differ iff dD lifts the degeneracy *)
ReqLifted == pc = "rotated" => (rep[1] # rep[2] <=> Disc(M) # 0)
(* the un-rotated diagonal is the answer only when the basis already diagonalises dD *)
InvRotationMatters == pc = "unrotated" => ((IsEigen(rep[1]) /\ IsEigen(rep[2])) <=> M.b = 0)

(* recorded from the implementation (non-hydrostatic triples, mesh and band):                                   *)
(*   orthonormal - the reported vectors of each degenerate set are orthonormal eigenvectors of D(V0)            *)
(*   diagonal    - they diagonalise dD within the set                                                           *)
(*   perMode     - gamma_i = -<e_i|dD|e_i>/strain/lam/2 for every mode of every degenerate set                  *)
(*   split       - the values are the splittings of the eigenvalues between V- and V+ (first order)              *)
(*   lifted      - non-vacuity: some degenerate set is really split by dD                                       *)
ImplNonHydrostatic ==
  \A o \in ObservedNH : o.orthonormal /\ o.diagonal /\ o.perMode /\ o.split /\ o.lifted
ImplNH == pc = "rotated" => ImplNonHydrostatic
=============================================================================
