---------------------------- MODULE AccessPaths ----------------------------
(* C14 - one spectrum.  Every access path of phonopy to the phonons at a     *)
(* q-point (run_qpoints, run_band_structure, run_mesh stored / iterated,    *)
(* IterMesh, the direct getters) and every combination of output options    *)
(* must report the SAME functions of (Phonopy state, q, requested           *)
(* direction).                                                              *)
(*                                                                          *)
(* Interpretation boundary (DESIGN 2.3).  Numerical values are named by     *)
(* TOKENS; the harness interprets them (oracle Fourier sum / direct         *)
(* DynamicalMatrix object, numpy eigh) and classifies every array the real  *)
(* code returns as the set of tokens it equals.  A token is a record        *)
(*   [k, q, nt, r, p, o]                                                    *)
(*   k  kind  "D" dynamical matrix, "E" eigenvector matrix diagonalising    *)
(*            that D to its eigenvalues, "F" frequencies of that D,         *)
(*            "GV" group velocities, "Z" zeros, "X" anything else           *)
(*   q  id of the q-point ("G" is Gamma)                                    *)
(*   nt non-analytical term inside D: "none" | "q" (evaluated at q itself)  *)
(*            | "dir" (at Gamma along the requested direction)              *)
(*   r  D rounded to dynamical_matrix_decimals                              *)
(*   p  GV perturbation direction: "none" | "dir"   ("na" for other kinds)  *)
(*   o  band order applied: 0 = ascending eigenvalues, j = the order        *)
(*            estimate_band_connection produced at point j of a path        *)
(*                                                                          *)
(* Requirement side: ReqTok* / Req* below, functions of (sigma, q, dir)     *)
(* only - no flag and no build enters them.                                 *)
(* Implementation side: a step machine transcribing the buffers of          *)
(* QpointsPhonon._run, Mesh._set_phonon, IterMesh.__next__,                 *)
(* BandStructure._solve_dm_on_path and Phonopy.init_mesh, with heap cells,  *)
(* aliasing (eigenvectors = dynmat; dm = dynmat[i] is a VIEW), Python       *)
(* locals that may be unbound, and the branch on phonoc.use_openmp().       *)
(* The places where the pinned tree and a repaired tree differ are          *)
(* switches of the constant record `code` (see CodeSites).                  *)
EXTENDS Integers, Sequences, FiniteSets, TLC

CONSTANTS Cfgs,     \* set of configurations explored by the model-checking runs
          Codes     \* set of code variants explored

VARIABLES pc, cfg, code, i, heap, loc, out, err
vars == <<pc, cfg, code, i, heap, loc, out, err>>

-----------------------------------------------------------------------------
(* tokens *)
(*   u  unit conversion factor applied to a frequency-valued array: "own" = the *)
(*      factor of THIS Phonopy object (part of its state), "default" = VaspToTHz *)
(*      although the object has another one; "na" for D / E                   *)
Tok(k, q, nt, r, p, o, u) == [k |-> k, q |-> q, nt |-> nt, r |-> r, p |-> p, o |-> o, u |-> u]
DTok(q, nt, r) == Tok("D", q, nt, r, "na", 0, "na")
GVTok(q, p, o) == Tok("GV", q, "na", FALSE, p, o, "own")
XTok == Tok("X", "-", "none", FALSE, "na", 0, "na")
ZTok == Tok("Z", "-", "none", FALSE, "na", 0, "na")

(* the uninterpreted primitives: numpy.linalg.eigh / eigvalsh and the        *)
(* frequency conversion applied to a matrix named by token d                *)
EigvecsOf(d) == IF d.k = "D" THEN [d EXCEPT !.k = "E"] ELSE XTok
FreqsU(d, u) == IF d.k = "D" THEN [d EXCEPT !.k = "F", !.u = u] ELSE XTok
FreqsOf(d) == FreqsU(d, "own")
(* x[band_order] *)
Permuted(t, o) == IF t.k \in {"E", "F", "GV"} THEN [t EXCEPT !.o = o] ELSE XTok

-----------------------------------------------------------------------------
(* configurations *)
Paths == {"qpoints", "mesh", "itermesh", "band", "direct"}
Cfg(path, kind, omp, nac, dec, wev, wgv, wdm, conn, dir, shape, meshlen, gc, qs) ==
  [path |-> path, kind |-> kind, omp |-> omp, nac |-> nac, dec |-> dec, wev |-> wev, wgv |-> wgv,
   wdm |-> wdm, conn |-> conn, dir |-> dir, shape |-> shape, meshlen |-> meshlen, gc |-> gc, qs |-> qs]
N(c) == Len(c.qs)

(* the sites where code variants differ; TRUE = repaired behaviour *)
CodeSites == {"dmCopy", "iterInit", "gcPrivate", "closedDir", "ompRound", "iterFactor", "qCopy"}
Pinned   == [s \in CodeSites |-> FALSE]
Repaired == [s \in CodeSites |-> TRUE]

-----------------------------------------------------------------------------
(* REQUIREMENT SIDE: what every path has to report *)

(* is a direction in effect at Gamma, by the definition of the call *)
DirInEffect(c) ==
  CASE c.path \in {"qpoints", "direct"} -> c.dir
    [] c.path = "band" -> c.shape = "radial"      \* path on a line through Gamma, distinct end points
    [] OTHER -> FALSE
ReqNT(c, q) == IF c.nac = "none" THEN "none"
               ELSE IF q # "G" THEN "q" ELSE IF DirInEffect(c) THEN "dir" ELSE "none"
ReqD(c, q) == DTok(q, ReqNT(c, q), c.dec)
ReqOrd(c, j) == IF c.path = "band" /\ c.conn /\ j > 1 THEN j ELSE 0
ReqPert(c) == IF c.path = "qpoints" /\ c.dir THEN "dir" ELSE "none"

WantF(c) == ~(c.path = "direct" /\ c.kind \in {"dm", "dmobj"})
WantE(c) == CASE c.path = "band" -> c.wev \/ c.conn
              [] c.path = "direct" -> c.kind = "freqvec"
              [] OTHER -> c.wev
WantD(c) == (c.path = "qpoints" /\ c.wdm) \/ (c.path = "direct" /\ c.kind \in {"dm", "dmobj"})
WantGV(c) == c.wgv /\ c.path \in {"qpoints", "mesh", "band"}
ReqGc(c) == IF c.path \in {"mesh", "itermesh"}
              THEN (IF c.meshlen \/ c.gc THEN "gamma" ELSE "mp") ELSE "na"

ReqTokF(c, j) == Permuted(FreqsOf(ReqD(c, c.qs[j])), ReqOrd(c, j))
ReqTokE(c, j) == Permuted(EigvecsOf(ReqD(c, c.qs[j])), ReqOrd(c, j))
ReqTokD(c, j) == ReqD(c, c.qs[j])
ReqTokGV(c, j) == GVTok(c.qs[j], ReqPert(c), ReqOrd(c, j))

(* An observation o has slots that are SETS of tokens (everything the       *)
(* reported array equals).                                                  *)
SlotOK(c, want, slot, ReqT(_, _)) ==
  IF want THEN Len(slot) = N(c) /\ \A j \in 1..N(c) : ReqT(c, j) \in slot[j]
          ELSE slot = <<>>

ReqNoError(c, o) == o.err = "none"
ReqFreq(c, o)    == o.err = "none" => SlotOK(c, WantF(c), o.freq, ReqTokF)
ReqEigvec(c, o)  == o.err = "none" => SlotOK(c, WantE(c), o.eigvec, ReqTokE)
ReqDynmat(c, o)  == o.err = "none" => SlotOK(c, WantD(c), o.dm, ReqTokD)
ReqGV(c, o)      == o.err = "none" => SlotOK(c, WantGV(c), o.gv, ReqTokGV)
ReqGrid(c, o)    == o.err = "none" => o.gc = ReqGc(c)
(* the reported eigenvectors diagonalise the REPORTED dynamical matrix to   *)
(* the REPORTED eigenvalues                                                 *)
ReqDiag(c, o) ==
  (o.err = "none" /\ o.dm # <<>> /\ o.eigvec # <<>> /\ o.freq # <<>>) =>
     \A j \in 1..N(c) :
        \E d \in o.dm[j] : /\ d.k = "D"
                           /\ Permuted(EigvecsOf(d), ReqOrd(c, j)) \in o.eigvec[j]
                           /\ Permuted(FreqsOf(d), ReqOrd(c, j)) \in o.freq[j]
(* band connection only re-orders: all reported quantities at a point carry *)
(* the same order (and the harness confirms it is a permutation)            *)
ReqSameOrder(c, o) ==
  o.err = "none" =>
    \A j \in 1..N(c) :
      \A s \in {o.freq, o.eigvec, o.gv} :
         s # <<>> => \E t \in s[j] : t.o = ReqOrd(c, j)

(* files written from the results (yaml / hdf5): the same numbers to the     *)
(* printed precision.  A file record is [fmt, field, present, digits, milli]: *)
(* digits = decimals found in the text, milli = max |file - memory| in        *)
(* thousandths of the last printed digit (hdf5: 0 iff bit-identical).        *)
FileDigits == [frequency |-> 10, eigenvector |-> 14, group_velocity |-> 7,
               dynamical_matrix |-> 10, qposition |-> 7]
WantField(c, field) ==
  CASE field \in {"frequency", "qposition"} -> TRUE
    [] field = "eigenvector" -> WantE(c)
    [] field = "group_velocity" -> WantGV(c)
    [] field = "dynamical_matrix" -> WantD(c)
ReqFile(c, f) ==
  /\ f.present = WantField(c, f.field)
  /\ f.present => IF f.fmt = "yaml" THEN f.digits = FileDigits[f.field] /\ f.milli <= 501
                                    ELSE f.milli = 0

(* BATCH INDEPENDENCE.  ReqTokF/E/D/GV(c, j) are functions of c.qs[j] (and of the state and the *)
(* direction of the call) alone: what element j of a reported array is does not depend on how  *)
(* many q-points the call was given nor on the position of q in the batch.  The C loop over    *)
(* q-points of the OpenMP build computes the elements concurrently; the harness therefore also *)
(* makes LARGE batched calls and logs, besides the tokens of a sample of elements, the fact    *)
(* bulk: every element of the batch equals the per-q-point result of the dynamical-matrix      *)
(* object on the same build and the same batch on the serial build ("na" for small calls).     *)
ReqBulk(c, o) == o.bulk # "bad"

Requirement(c, o) ==
  /\ ReqNoError(c, o) /\ ReqFreq(c, o) /\ ReqEigvec(c, o) /\ ReqDynmat(c, o)
  /\ ReqGV(c, o) /\ ReqGrid(c, o) /\ ReqDiag(c, o) /\ ReqSameOrder(c, o)

-----------------------------------------------------------------------------
(* IMPLEMENTATION SIDE *)

(* references: <<cell, index>>; <<0,0>> = unbound local, <<-1,0>> = None   *)
Unb == <<0, 0>>
NoneRef == <<-1, 0>>
Deref(h, r) == h[r[1]][r[2]]
Q(j) == cfg.qs[j]

(* PRESENTATION of the q-point argument (cfg.lay).  The same VALUES may be handed over as a  *)
(* list, a tuple, a C array, a Fortran array, a transposed view, a strided row slice, a        *)
(* column slice of a wider array, a float32 / integer array (values exactly representable),    *)
(* or a read-only array.  The requirement side never mentions lay: tokens depend on the value  *)
(* of q only.  Implementation: the C wrapper reads the q-points from the raw data pointer, so  *)
(* run_dynamical_matrix_solver_c has to pass it a C-contiguous double copy of anything else;   *)
(* code.qCopy = FALSE is a solver that hands over a non-contiguous array as it is (the         *)
(* numbers read are then those of other q-points or of no q-point: an "X").                    *)
Lays == {"list", "tuple", "carray", "farray", "tview", "strided", "colslice", "f32", "int", "readonly"}
NonContiguous == {"farray", "tview", "strided", "colslice"}
Scrambled == ~code["qCopy"] /\ cfg.lay \in NonContiguous
GV(q, p, o) == IF Scrambled THEN XTok ELSE GVTok(q, p, o)

(* DynamicalMatrix(.NAC).run(q, q_direction) followed by the               *)
(* `dynamical_matrix` property (which rounds when decimals is set).         *)
(* qdir: "None" | "zero" (a zero vector) | "vec"                            *)
PyDmRun(c, q, qdir) ==
  LET nt == IF c.nac = "none" THEN "none"
            ELSE LET normzero == IF qdir = "None" THEN q = "G" ELSE qdir = "zero"
                 IN IF normzero THEN "none"                 \* self._run(q): plain matrix
                    ELSE IF q = "G" THEN (IF qdir = "vec" THEN "dir" ELSE "none")
                    ELSE "q"                                \* the kernel ignores the direction away from Gamma
  IN IF Scrambled THEN XTok ELSE DTok(q, nt, c.dec)

(* one matrix of run_dynamical_matrix_solver_c(dm, qpoints, nac_q_direction) *)
SolverC(c, cd, q, hasdir) ==
  IF Scrambled THEN XTok ELSE
  DTok(q,
       IF c.nac = "none" THEN "none" ELSE IF q = "G" THEN (IF hasdir THEN "dir" ELSE "none") ELSE "q",
       cd["ompRound"] /\ c.dec)

EmptyLoc == [dynmat |-> Unb, evs |-> Unb, dm |-> Unb, dmlist |-> <<>>, eigvecs |-> Unb,
             prev |-> Unb, order |-> 0, gv |-> <<>>, qdir |-> "None", freq |-> XTok]
EmptyOut == [err |-> "none", freq |-> <<>>, eigvec |-> <<>>, dm |-> <<>>, gv |-> <<>>, gc |-> "na"]

Init ==
  /\ pc = "choose" /\ cfg \in Cfgs /\ code \in Codes
  /\ i = 0 /\ heap = <<>> /\ loc = EmptyLoc /\ out = EmptyOut /\ err = "none"

Start(c) == CASE c.path = "qpoints" -> "qp_gv"
              [] c.path = "mesh" -> "ms_init"
              [] c.path = "itermesh" -> "im_init"
              [] c.path = "band" -> "bs_start"
              [] c.path = "direct" -> "dr_call"

Choose ==
  /\ pc = "choose"
  /\ pc' = Start(cfg) /\ i' = 1
  /\ UNCHANGED <<cfg, code, heap, loc, out, err>>

Fail(e) == /\ err' = e /\ pc' = "done" /\ out' = [out EXCEPT !.err = e]
           /\ UNCHANGED <<cfg, code, i, heap, loc>>

(* ---------------- QpointsPhonon._run ---------------- *)
QpGV ==        \* self._gv_obj.run(qpoints, perturbation=nac_q_direction)
  /\ pc = "qp_gv"
  /\ out' = IF cfg.wgv
              THEN [out EXCEPT !.gv = [j \in 1..N(cfg) |-> GV(Q(j), IF cfg.dir THEN "dir" ELSE "none", 0)]]
              ELSE out
  /\ pc' = "qp_alloc"
  /\ UNCHANGED <<cfg, code, i, heap, loc, err>>

(* shared by QpointsPhonon._run and Mesh._set_phonon *)
Alloc(hasdir, nextpc) ==
  /\ IF cfg.omp
       THEN /\ heap' = Append(heap, [j \in 1..N(cfg) |-> SolverC(cfg, code, Q(j), hasdir)])
            /\ loc' = [loc EXCEPT !.dynmat = <<Len(heap) + 1, 0>>,
                                  !.evs = <<Len(heap) + 1, 0>>]        \* eigenvectors = dynmat
       ELSE IF cfg.wev
         THEN /\ heap' = Append(heap, [j \in 1..N(cfg) |-> ZTok])
              /\ loc' = [loc EXCEPT !.evs = <<Len(heap) + 1, 0>>]
         ELSE /\ heap' = heap /\ loc' = loc
  /\ pc' = nextpc
  /\ UNCHANGED <<cfg, code, i, out, err>>

QpAlloc == pc = "qp_alloc" /\ Alloc(cfg.dir, "qp_getdm")

GetDm(qdir, nextpc) ==
  /\ IF cfg.omp
       THEN /\ loc' = [loc EXCEPT !.dm = <<loc.dynmat[1], i>>]          \* dm = dynmat[i]: a view
            /\ heap' = heap
       ELSE /\ heap' = Append(heap, <<PyDmRun(cfg, Q(i), qdir)>>)      \* run() binds a fresh array
            /\ loc' = [loc EXCEPT !.dm = <<Len(heap) + 1, 1>>]
  /\ pc' = nextpc
  /\ UNCHANGED <<cfg, code, i, out, err>>

QpGetDm ==     \* _get_dynamical_matrix: the direction is passed only at Gamma
  /\ pc = "qp_getdm"
  /\ GetDm(IF cfg.dir /\ cfg.nac # "none" /\ Q(i) = "G" THEN "vec" ELSE "None", "qp_append")

QpAppend ==    \* dynamical_matrices.append(dm)
  /\ pc = "qp_append"
  /\ IF cfg.wdm
       THEN IF code["dmCopy"]
              THEN /\ heap' = Append(heap, <<Deref(heap, loc.dm)>>)
                   /\ loc' = [loc EXCEPT !.dmlist = Append(@, <<Len(heap) + 1, 1>>)]
              ELSE /\ heap' = heap
                   /\ loc' = [loc EXCEPT !.dmlist = Append(@, loc.dm)]   \* the view itself
       ELSE heap' = heap /\ loc' = loc
  /\ pc' = "qp_eigh"
  /\ UNCHANGED <<cfg, code, i, out, err>>

(* eigh / eigvalsh, store; shared by qpoints and mesh *)
Eigh(looppc, finpc) ==
  LET d == Deref(heap, loc.dm) IN
  IF cfg.wev /\ loc.evs = Unb
    THEN Fail("UnboundLocalError")
    ELSE /\ heap' = IF cfg.wev THEN [heap EXCEPT ![loc.evs[1]][i] = EigvecsOf(d)] ELSE heap
         /\ out' = [out EXCEPT !.freq = Append(@, FreqsOf(d))]
         /\ i' = i + 1
         /\ pc' = IF i = N(cfg) THEN finpc ELSE looppc
         /\ UNCHANGED <<cfg, code, loc, err>>

QpEigh == pc = "qp_eigh" /\ Eigh("qp_getdm", "qp_fin")

QpFin ==
  /\ pc = "qp_fin"
  /\ out' = [out EXCEPT
       !.eigvec = IF cfg.wev THEN (IF loc.evs = Unb THEN <<>> ELSE heap[loc.evs[1]]) ELSE <<>>,
       !.dm = IF cfg.wdm THEN [j \in 1..Len(loc.dmlist) |-> Deref(heap, loc.dmlist[j])] ELSE <<>>]  \* np.array(list): copies NOW
  /\ pc' = "done"
  /\ UNCHANGED <<cfg, code, i, heap, loc, err>>

(* ---------------- Phonopy.init_mesh + Mesh._set_phonon ---------------- *)
MsInit ==      \* _is_gamma_center = True for a length, else is_gamma_center; Mesh gets _is_gamma_center
  /\ pc = "ms_init"
  /\ out' = [out EXCEPT !.gc = IF cfg.meshlen \/ cfg.gc THEN "gamma" ELSE "mp"]
  /\ pc' = "ms_alloc"
  /\ UNCHANGED <<cfg, code, i, heap, loc, err>>
MsAlloc == pc = "ms_alloc" /\ Alloc(FALSE, "ms_getdm")
MsGetDm == pc = "ms_getdm" /\ GetDm("None", "ms_eigh")
MsEigh == pc = "ms_eigh" /\ Eigh("ms_getdm", "ms_fin")
MsFin ==       \* self._eigenvectors = eigenvectors; then _set_group_velocities
  /\ pc = "ms_fin"
  /\ out' = [out EXCEPT
       !.eigvec = IF cfg.wev THEN (IF loc.evs = Unb THEN <<>> ELSE heap[loc.evs[1]]) ELSE <<>>,
       !.gv = IF cfg.wgv THEN [j \in 1..N(cfg) |-> GVTok(Q(j), "none", 0)] ELSE <<>>]
  /\ pc' = "done"
  /\ UNCHANGED <<cfg, code, i, heap, loc, err>>

(* ---------------- Phonopy.init_mesh(use_iter_mesh) + IterMesh.__next__ ---------------- *)
ImInit ==      \* pinned: IterMesh(..., is_gamma_center=is_gamma_center)
  /\ pc = "im_init"
  /\ out' = [out EXCEPT !.gc = IF (IF code["gcPrivate"] THEN cfg.meshlen \/ cfg.gc ELSE cfg.gc)
                                 THEN "gamma" ELSE "mp"]
  /\ pc' = "im_next"
  /\ UNCHANGED <<cfg, code, i, heap, loc, err>>
ImNext ==      \* one call of __next__: locals are fresh
  /\ pc = "im_next"
  /\ LET d == PyDmRun(cfg, Q(i), "None") IN
       /\ heap' = IF cfg.wev THEN Append(heap, <<EigvecsOf(d)>>) ELSE heap
       /\ loc' = [loc EXCEPT !.evs = IF cfg.wev THEN <<Len(heap) + 1, 1>>
                                     ELSE IF code["iterInit"] THEN NoneRef ELSE Unb,
                             !.freq = FreqsU(d, IF code["iterFactor"] \/ cfg.fac = "vasp" THEN "own" ELSE "default")]   \* MeshBase(..., factor=factor)
  /\ pc' = "im_ret"
  /\ UNCHANGED <<cfg, code, i, out, err>>
ImRet ==       \* return frequencies, eigenvectors
  /\ pc = "im_ret"
  /\ IF loc.evs = Unb
       THEN Fail("UnboundLocalError")
       ELSE /\ out' = [out EXCEPT !.freq = Append(@, loc.freq),
                                  !.eigvec = IF loc.evs = NoneRef THEN @ ELSE Append(@, Deref(heap, loc.evs))]
            /\ i' = i + 1
            /\ pc' = IF i = N(cfg) THEN "done" ELSE "im_next"
            /\ UNCHANGED <<cfg, code, heap, loc, err>>

(* ---------------- BandStructure._solve_dm_on_path ---------------- *)
BsStart ==     \* group velocities of the whole path; q_direction of the path
  /\ pc = "bs_start"
  /\ loc' = [loc EXCEPT
       !.gv = IF cfg.wgv THEN [j \in 1..N(cfg) |-> GV(Q(j), "none", 0)] ELSE <<>>,
       !.qdir = IF cfg.nac = "none" THEN "None"
                ELSE CASE cfg.shape = "radial" -> "vec"
                       [] cfg.shape = "closed" -> (IF code["closedDir"] THEN "None" ELSE "zero")   \* path[0] - path[-1] = 0
                       [] OTHER -> "None"]
  /\ pc' = "bs_dm"
  /\ UNCHANGED <<cfg, code, i, heap, out, err>>
BsDm ==
  /\ pc = "bs_dm"
  /\ heap' = Append(heap, <<PyDmRun(cfg, Q(i), loc.qdir)>>)
  /\ loc' = [loc EXCEPT !.dm = <<Len(heap) + 1, 1>>]
  /\ pc' = "bs_eigh"
  /\ UNCHANGED <<cfg, code, i, out, err>>
BsEigh ==      \* self._with_eigenvectors = with_eigenvectors or is_band_connection
  /\ pc = "bs_eigh"
  /\ LET d == Deref(heap, loc.dm) IN
       /\ heap' = IF cfg.wev \/ cfg.conn THEN Append(heap, <<EigvecsOf(d)>>) ELSE heap
       /\ loc' = [loc EXCEPT !.eigvecs = IF cfg.wev \/ cfg.conn THEN <<Len(heap) + 1, 1>> ELSE @,
                             !.freq = FreqsOf(d)]
  /\ pc' = "bs_append"
  /\ UNCHANGED <<cfg, code, i, out, err>>
BsAppend ==
  /\ pc = "bs_append"
  /\ IF cfg.conn
       THEN IF loc.eigvecs = Unb \/ (i > 1 /\ loc.prev = Unb)
              THEN Fail("UnboundLocalError")
              ELSE LET o == IF i = 1 THEN 0 ELSE i        \* estimate_band_connection(prev, eigvecs, band_order)
                   IN /\ out' = [out EXCEPT !.freq = Append(@, Permuted(loc.freq, o)),
                                            !.eigvec = Append(@, Permuted(Deref(heap, loc.eigvecs), o)),
                                            !.gv = IF cfg.wgv THEN Append(@, Permuted(loc.gv[i], o)) ELSE @]
                      /\ loc' = [loc EXCEPT !.order = o, !.prev = loc.eigvecs]
                      /\ i' = i + 1 /\ pc' = IF i = N(cfg) THEN "bs_fin" ELSE "bs_dm"
                      /\ UNCHANGED <<cfg, code, heap, err>>
       ELSE IF cfg.wev /\ loc.eigvecs = Unb
              THEN Fail("UnboundLocalError")
              ELSE /\ out' = [out EXCEPT !.freq = Append(@, loc.freq),
                                         !.eigvec = IF cfg.wev THEN Append(@, Deref(heap, loc.eigvecs)) ELSE @,
                                         !.gv = IF cfg.wgv THEN Append(@, loc.gv[i]) ELSE @]
                   /\ i' = i + 1 /\ pc' = IF i = N(cfg) THEN "bs_fin" ELSE "bs_dm"
                   /\ UNCHANGED <<cfg, code, heap, loc, err>>
BsFin ==
  /\ pc = "bs_fin"
  /\ pc' = "done"
  /\ UNCHANGED <<cfg, code, i, heap, loc, out, err>>

(* ---------------- direct getters of Phonopy ---------------- *)
(* get_dynamical_matrix_at_q / get_frequencies / get_frequencies_with_eigenvectors, *)
(* and for kind "dmobj" DynamicalMatrix.run(q, q_direction) itself                   *)
DrCall ==
  /\ pc = "dr_call"
  /\ LET d == PyDmRun(cfg, Q(i), IF cfg.dir /\ cfg.nac # "none" THEN "vec" ELSE "None") IN
       out' = [out EXCEPT !.dm = IF cfg.kind \in {"dm", "dmobj"} THEN Append(@, d) ELSE @,
                          !.freq = IF cfg.kind \notin {"dm", "dmobj"} THEN Append(@, FreqsOf(d)) ELSE @,
                          !.eigvec = IF cfg.kind = "freqvec" THEN Append(@, EigvecsOf(d)) ELSE @]
  /\ i' = i + 1
  /\ pc' = IF i = N(cfg) THEN "done" ELSE "dr_call"
  /\ UNCHANGED <<cfg, code, heap, loc, err>>

Next == \/ Choose
        \/ QpGV \/ QpAlloc \/ QpGetDm \/ QpAppend \/ QpEigh \/ QpFin
        \/ MsInit \/ MsAlloc \/ MsGetDm \/ MsEigh \/ MsFin
        \/ ImInit \/ ImNext \/ ImRet
        \/ BsStart \/ BsDm \/ BsEigh \/ BsAppend \/ BsFin
        \/ DrCall

Spec == Init /\ [][Next]_vars

-----------------------------------------------------------------------------
(* the machine's result as an observation with singleton slots *)
Lift(s) == [j \in 1..Len(s) |-> {s[j]}]
Obs == [err |-> out.err, freq |-> Lift(out.freq), eigvec |-> Lift(out.eigvec),
        dm |-> Lift(out.dm), gv |-> Lift(out.gv), gc |-> out.gc]

Done == pc = "done"
TypeOK == pc \in {"choose", "qp_gv", "qp_alloc", "qp_getdm", "qp_append", "qp_eigh", "qp_fin",
                  "ms_init", "ms_alloc", "ms_getdm", "ms_eigh", "ms_fin", "im_init", "im_next", "im_ret",
                  "bs_start", "bs_dm", "bs_eigh", "bs_append", "bs_fin", "dr_call", "done"}

(* Impl => Spec: the invariants TLC decides on the step machine *)
UndefinedVariableFree == err = "none"
InvNoError == Done => ReqNoError(cfg, Obs)
InvFreq    == Done => ReqFreq(cfg, Obs)
InvEigvec  == Done => ReqEigvec(cfg, Obs)
InvDynmat  == Done => ReqDynmat(cfg, Obs)
InvGV      == Done => ReqGV(cfg, Obs)
InvGrid    == Done => ReqGrid(cfg, Obs)
InvDiag    == Done => ReqDiag(cfg, Obs)
InvSameOrder == Done => ReqSameOrder(cfg, Obs)
(* the same q-point at two positions of one call gets the same tokens (band order apart) *)
InvPositionIndependent ==
  Done => \A s \in {out.freq, out.eigvec, out.dm, out.gv} :
            \A a, b \in 1..Len(s) : cfg.qs[a] = cfg.qs[b] => [s[a] EXCEPT !.o = 0] = [s[b] EXCEPT !.o = 0]
(* nothing that is reported is an unfilled or foreign buffer *)
InvNoGarbage ==
  Done => \A s \in {out.freq, out.eigvec, out.dm, out.gv} :
             \A j \in 1..Len(s) : s[j].k \notin {"X", "Z"}

-----------------------------------------------------------------------------
(* the configuration space of the model-checking runs *)
QLists == {<<"G">>, <<"q1">>, <<"q1", "G">>, <<"G", "q1", "q2">>, <<"q1", "q1">>}
Nacs == {"none", "wang", "gl"}
B == BOOLEAN

QpCfgs == {Cfg("qpoints", "na", omp, nac, dec, wev, wgv, wdm, FALSE, dir, "na", FALSE, FALSE, qs) :
             omp \in B, nac \in Nacs, dec \in B, wev \in B, wgv \in B, wdm \in B, dir \in B, qs \in QLists}
MeshCfgs(p) == {Cfg(p, "na", omp, nac, dec, wev, wgv, FALSE, FALSE, FALSE, "na", ml, gc, qs) :
             omp \in B, nac \in Nacs, dec \in B, wev \in B, wgv \in (IF p = "mesh" THEN B ELSE {FALSE}),
             ml \in B, gc \in B, qs \in {<<"G", "q1", "q2">>, <<"q1", "q2">>}}
(* band paths: shape is a function of the end points *)
BandPaths == {<<"open", <<"q1", "q2">>>>, <<"open", <<"q1", "G", "q2">>>>, <<"radial", <<"G", "q1">>>>,
              <<"radial", <<"q1", "G", "q2">>>>, <<"radial", <<"q1", "q2">>>>,
              <<"closed", <<"q1">>>>, <<"closed", <<"G">>>>, <<"closed", <<"q1", "q2", "q1">>>>,
              <<"closed", <<"G", "q1", "G">>>>}
BandCfgs == {Cfg("band", "na", omp, nac, dec, wev, wgv, FALSE, conn, FALSE, sp[1], FALSE, FALSE, sp[2]) :
             omp \in B, nac \in Nacs, dec \in B, wev \in B, wgv \in B, conn \in B, sp \in BandPaths}
DirectCfgs == {c \in {Cfg("direct", kind, omp, nac, dec, FALSE, FALSE, FALSE, FALSE, dir, "na", FALSE, FALSE, qs) :
                      kind \in {"dm", "freq", "freqvec", "dmobj"}, omp \in B, nac \in Nacs, dec \in B,
                      dir \in B, qs \in {<<"G">>, <<"q1">>}} :
                 c.dir => c.kind = "dmobj"}     \* only DynamicalMatrix.run takes a direction
BaseCfgs == QpCfgs \cup MeshCfgs("mesh") \cup MeshCfgs("itermesh") \cup BandCfgs \cup DirectCfgs
(* the unit conversion factor of the object: VaspToTHz (default), VaspToCm, an arbitrary 3.7 *)
Facs == {"vasp", "cm", "x37"}
FacCfgs == {[fac |-> f, lay |-> "carray"] @@ c : c \in BaseCfgs, f \in Facs}
(* the presentations of the q-point argument, for the routes that take q-points from the caller *)
LayCfgs == {[fac |-> "vasp", lay |-> l] @@ c :
              c \in {b \in BaseCfgs : /\ b.path \in {"qpoints", "band", "direct"} /\ ~b.dec
                                      /\ b.path = "qpoints" => b.qs \in {<<"G", "q1", "q2">>, <<"q1", "q1">>}
                                      /\ b.path = "band" => b.qs \in {<<"q1", "G", "q2">>, <<"G", "q1">>, <<"q1", "q2", "q1">>, <<"q1", "q2">>}},
              l \in Lays \ {"carray"}}
AllCfgs == FacCfgs \cup LayCfgs
=============================================================================
