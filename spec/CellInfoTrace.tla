------------------------- MODULE CellInfoTrace -------------------------
(***************************************************************************)
(* X09 - trace validation (code -> spec).  An event is one real run:       *)
(*   xid   event id                                                        *)
(*   lay   "collect" (collect_cell_info called directly) or "front"        *)
(*         (argv + configuration file -> _read_phonopy_settings ->         *)
(*         _get_cell_info)                                                 *)
(*   win   the world (CellInfo.tla)                                        *)
(*   res   the projected outcome the real code returned                    *)
(*   resc  the outcome the real code returned in the world with the        *)
(*         irrelevant files removed (Cleared(win)); equal to res when      *)
(*         nothing is removed                                              *)
(* TLC evaluates the requirement operators of CellInfo on the LOGGED       *)
(* outcome (Impl judgements) and compares it with the machine (Conforms).  *)
(***************************************************************************)
EXTENDS CellInfo

CONSTANTS Events

VARIABLES ev, verdict
tvars == <<w, pc, rs, rd, out, ev, verdict>>

Judgements == {"ImplExplicitCell", "ImplDefaultSearch", "ImplLoadNeedsYaml", "ImplYamlSettings", "ImplGivenIsUsed",
               "ImplErrorsNameFile", "ImplIrrelevantFiles", "ImplNoTraceback", "ImplMainStops", "ConformsOutcome"}

HoldsReq(n, e) ==
  CASE n = "ImplExplicitCell" -> ReqExplicitCell(e.win, e.res)
    [] n = "ImplDefaultSearch" -> ReqDefaultSearch(e.win, e.res)
    [] n = "ImplLoadNeedsYaml" -> ReqLoadNeedsYaml(e.win, e.res)
    [] n = "ImplYamlSettings" -> ReqYamlSettings(e.win, e.res)
    [] n = "ImplGivenIsUsed" -> ReqGivenIsUsed(e.win, e.res)
    [] n = "ImplErrorsNameFile" -> ReqErrorsNameFile(e.win, e.res)
    [] n = "ImplIrrelevantFiles" -> e.resc.st = "exc" \/ e.res = e.resc
    [] n = "ConformsOutcome" -> e.res = Decide(e.win)

(* A traceback is judged by ImplNoTraceback alone; a run of the whole command (lay = "main", made for the worlds  *)
(* where MainStops holds) by ImplMainStops and ConformsOutcome.                                                   *)
Holds(n, e) ==
  IF n = "ImplNoTraceback" THEN ReqNoTraceback(e.win, e.res)
  ELSE IF e.res.st = "exc" THEN TRUE
  ELSE IF e.lay = "main"
       THEN (CASE n = "ImplMainStops" -> MainStops(e.win, Decide(e.win)) /\ ReqMainStops(e.win, e.res)
               [] n = "ConformsOutcome" -> e.res = MainOutcome(Decide(e.win))
               [] OTHER -> TRUE)
       ELSE IF n = "ImplMainStops" THEN TRUE ELSE HoldsReq(n, e)

TInit == /\ ev \in Events
         /\ w = ev.win /\ pc = "judge" /\ rs = <<>> /\ rd = <<>> /\ out = NoneOut
         /\ verdict = {}
Judge == /\ pc = "judge"
         /\ verdict' = {n \in Judgements : ~Holds(n, ev)}
         /\ pc' = "judged"
         /\ UNCHANGED <<w, rs, rd, out, ev>>
TNext == Judge

Report == pc = "judged" => PrintT(<<"Q", ev.xid, verdict>>)
=============================================================================
