-------------------------- MODULE RandomDispTrace --------------------------
(* Conformance of the implementation with RandomDisp.tla.                    *)
(* Events (harness/props/c19.py):                                            *)
(*  kind "points": one call of get_commensurate_points_in_integers(S) and    *)
(*     categorize_commensurate_points on its result;                         *)
(*  kind "rd": one RandomDisplacements object built on an oracle crystal     *)
(*     (S = supercell matrix w.r.t. the primitive cell computed by the       *)
(*     harness from the input matrices, not taken from the code), its        *)
(*     recorded sampling structure (_comm_points, _ii, _ij, variates drawn   *)
(*     per snapshot, the q-points and conjugation pattern of                 *)
(*     _collect_eigensolutions) and the deviations (integers, unit 1e-12     *)
(*     relative, capped) of                                                  *)
(*       cov    A^T A  from the harmonic canonical covariance, A the linear  *)
(*              map extracted from run(T, randn = unit vectors)              *)
(*       lin    u(random_seed) from  xi A, xi the standard normal variates   *)
(*              numpy's Generator(seed) yields                               *)
(*       uu     run_correlation_matrix: uu from the same covariance          *)
(*       uuinv  uu_inv from its mass-weighted pseudo-inverse                 *)
(*       d2f    run_d2f force constants from the original ones               *)
(*       api    Phonopy.get_random_displacements_at_temperature /            *)
(*              generate_displacements from the same linear image            *)
(*       rank   |rank A - number of modes above the cutoff|  (exact)         *)
(*       freq   .frequencies (ii once, ij twice) from the supercell spectrum  *)
(*       nint   |modes reported by integrated_modes - modes above cutoff|     *)
(* The step machine is run on the event's input; at the end the requirement  *)
(* is evaluated on the LOGGED values (Impl.. invariants: failure = property violation)   *)
(* and the logged values are compared with the machine's (Conforms.. invariants).        *)
EXTENDS RandomDisp

CONSTANTS Events,  \* set of event records
          Tol      \* admissible deviation in units of 1e-12

VARIABLE ev
tvars == <<vars, ev>>
E == ev

TInit == Init /\ ev \in Events
TChoose == ChooseWith(E.S, E.np) /\ UNCHANGED ev
TSNF == SNFWith(E.snf) /\ UNCHANGED ev
TCommPointsInt == CommPointsInt /\ UNCHANGED ev
TCategorize == Categorize /\ UNCHANGED ev
TPrepare == Prepare /\ UNCHANGED ev
TCollect == Collect /\ UNCHANGED ev
TReject == Reject /\ UNCHANGED ev
TNext == TChoose \/ TSNF \/ TCommPointsInt \/ TCategorize \/ TPrepare \/ TCollect \/ TReject
TSpec == TInit /\ [][TNext]_tvars

AtEnd == pc = "done"
Ok == AtEnd /\ E.status = "built"
Rd == Ok /\ E.kind = "rd"

(* a non-singular S must be served *)
ImplAccepts == AtEnd /\ Det(E.S) # 0 => E.status = "built"
ImplSNFContract == pc = "snf" => SNFContract(S, E.snf)
ImplDualGroup == Ok => ReqDualGroup(E.S, E.pts)
ImplPartition == Ok => ReqPartition(E.pts, E.ii, E.ij)
ImplOrthonormal == Ok /\ status = "built" => ReqOrthonormal(E.S, sites, E.pts, E.ii, E.ij)
ImplModesIndependent == Ok /\ status = "built" => ReqModesIndependent(E.S, sites, E.pts, E.ii, E.ij)
ImplDof == Rd => ReqDof(E.S, E.np, E.dof)
ImplCollect == Rd => ReqCollect(E.S, E.pts, E.ii, E.ij, E.collect)
(* real-valued part: deviations reported by the harness for the points the events name *)
ImplCovariance == Rd => E.num.cov <= Tol
ImplLinearImage == Rd => E.num.lin <= Tol
ImplCorrelation == Rd => E.num.uu <= Tol
ImplCorrelationInverse == Rd => E.num.uuinv <= Tol
ImplD2F == Rd => E.num.d2f <= Tol
ImplApi == Rd => E.num.api <= Tol
ImplRank == Rd => E.num.rank = 0
(* the reported frequencies (squared, signed) are the supercell spectrum; the modes reported as *)
(* integrated are exactly those above the cutoff                                                 *)
ImplSpectrum == Rd => E.num.freq <= Tol
ImplIntegratedModes == Rd => E.num.nint = 0

ConformsStatus == AtEnd => E.status = status
ConformsPoints == (Ok /\ status = "built") => E.pts = pts
ConformsCategories == (Ok /\ status = "built") => E.ii = ii /\ E.ij = ij
ConformsDof == (Rd /\ status = "built") => E.dof = dof
ConformsCollect == (Rd /\ status = "built") => E.collect = qlist
=============================================================================
