------------------------------ MODULE DispAlgo ------------------------------
(* Displacement-direction search of phonopy (harmonic/displacement.py) as   *)
(* pure operators over integer direction vectors and a finite integer       *)
(* matrix group given as a SEQUENCE `G` (the order matters to the code: it  *)
(* returns the first hit of its loops), and the REQUIREMENT C01 puts on the *)
(* result, stated from the definitions (rank of the set of site-symmetry    *)
(* images; existence of an operation sending d to -d), not from the loops.  *)
(*                                                                          *)
(* Conventions: a site-symmetry operation r acts on a direction d (integer  *)
(* components with respect to the supercell basis vectors) as r d           *)
(* (np.dot(d, r.T) in the code).                                            *)
EXTENDS IntLinAlg

DirsAxis == <<<<1,0,0>>, <<0,1,0>>, <<0,0,1>>>>
DirsDiag == <<<<1,0,0>>, <<0,1,0>>, <<0,0,1>>, <<1,1,0>>, <<1,0,1>>, <<0,1,1>>,
              <<1,-1,0>>, <<1,0,-1>>, <<0,1,-1>>, <<1,1,1>>, <<1,1,-1>>, <<1,-1,1>>, <<-1,1,1>>>>
DirList(diag) == IF diag THEN DirsDiag ELSE DirsAxis

SeqRange(s) == {s[i] : i \in 1..Len(s)}
(* explicit tuples are evaluated once by TLC (function constructors are re-evaluated at every use) *)
SVec(v) == <<v[1], v[2], v[3]>>
SMat(M) == <<SVec(M[1]), SVec(M[2]), SVec(M[3])>>
Img(r, d) == SVec(MatVec(r, d))
(* _determinant(a, b, c): determinant of the matrix with rows a, b, c *)
Det3(a, b, c) == Det(<<a, b, c>>)
Cross(a, b) == <<a[2]*b[3] - a[3]*b[2], a[3]*b[1] - a[1]*b[3], a[1]*b[2] - a[2]*b[1]>>

-----------------------------------------------------------------------------
(* ---- the algorithm, loop by loop ------------------------------------------ *)

(* _get_displacement_one, body of `for direction in directions` for one direction:   *)
(* some pair i < j of site operations with det(d, r_i d, r_j d) # 0                  *)
OneHit(G, d) ==
  \E i \in 1..Len(G) : \E ri \in {Img(G[i], d)} : \E j \in (i + 1)..Len(G) : Det3(d, ri, Img(G[j], d)) # 0

(* _get_displacement_two, body for one first direction d: loops `for i` (outer),     *)
(* `for second_direction` (inner); the first hit <<i, k>> in that order, or <<0,0>> *)
TwoHitsOf(G, dirs, d, i) == {k \in 1..Len(dirs) : Det3(d, Img(G[i], d), dirs[k]) # 0}
TwoHit(G, dirs, d) ==
  IF \A i \in 1..Len(G) : TwoHitsOf(G, dirs, d, i) = {} THEN <<0, 0>>
  ELSE CHOOSE p \in {<<i, MinOf(TwoHitsOf(G, dirs, d, i))>> :
                       i \in {MinOf({i \in 1..Len(G) : TwoHitsOf(G, dirs, d, i) # {}})}} : TRUE

(* _is_trigonal_axis *)
IsTrigonalAxis(r) == MatMul(MatMul(r, r), r) = Id3

(* result of the `Two` branch of get_displacement for the hit <<i, k>> *)
TwoResult(G, dirs, d, hit, trig) ==
  LET r == G[hit[1]]
      d2 == dirs[hit[2]]
  IN  IF trig /\ IsTrigonalAxis(r)
        THEN <<d, Img(r, d), Img(r, Img(r, d)), d2>>
        ELSE <<d, d2>>

(* is_minus_displacement: TRUE unless some site operation sends d to -d *)
IsMinus(G, d) == ~(\E i \in 1..Len(G) : VAdd(Img(G[i], d), d) = Zero3)

(* the plus/minus expansion of get_least_displacements for the directions of one atom *)
RECURSIVE Expand(_, _, _)
Expand(G, pm, ds) ==
  IF ds = <<>> THEN <<>>
  ELSE LET d == Head(ds)
           withMinus == (pm = "on") \/ (pm = "auto" /\ IsMinus(G, d))
       IN  (IF withMinus THEN <<d, VNeg(d)>> ELSE <<d>>) \o Expand(G, pm, Tail(ds))

(* get_displacement as one function (used by FiniteDifference; the step machine of   *)
(* Displacements.tla performs the same search one loop iteration per action)         *)
FirstIndex(n, P(_)) == IF \E k \in 1..n : P(k) THEN MinOf({k \in 1..n : P(k)}) ELSE 0

GetDisplacement(G, dirs, trig) ==
  LET OneP(k) == OneHit(G, dirs[k])
      k1 == FirstIndex(Len(dirs), OneP)
  IN  IF k1 # 0 THEN <<dirs[k1]>>
      ELSE LET TwoP(k) == TwoHit(G, dirs, dirs[k]) # <<0, 0>>
               k2 == FirstIndex(Len(dirs), TwoP)
           IN  IF k2 # 0 THEN TwoResult(G, dirs, dirs[k2], TwoHit(G, dirs, dirs[k2]), trig)
               ELSE <<dirs[1], dirs[2], dirs[3]>>

LeastDisplacements(G, diag, pm, trig) == Expand(G, pm, GetDisplacement(G, DirList(diag), trig))

-----------------------------------------------------------------------------
(* ---- the requirement --------------------------------------------------------- *)

(* rank of a finite set of integer vectors, from the definition of linear span: with a non-zero  *)
(* a in V, rank 3 iff some b, c in V make (a, b, c) independent (exchange lemma), rank >= 2 iff  *)
(* some b in V is not parallel to a.  (Binders over singleton sets make TLC evaluate V once.)    *)
RankOf(V) ==
  CHOOSE r \in { IF W \subseteq {Zero3} THEN 0
                 ELSE CHOOSE q \in { IF \E b \in W : \E c \in W : Det3(a, b, c) # 0 THEN 3
                                     ELSE IF \E b \in W : Cross(a, b) # Zero3 THEN 2 ELSE 1
                                     : a \in {CHOOSE x \in W : x # Zero3} } : TRUE
                 : W \in {V} } : TRUE

(* all site-symmetry images of a set of directions *)
Images(G, D) == {Img(G[i], d) : i \in 1..Len(G), d \in D}   \* strict tuples

(* SUFFICIENT: the displacements of one atom together with their site-symmetry       *)
(* images span the whole space, so the 3x3 block of every pair is determined          *)
ReqSpan(G, out) == RankOf(Images(G, SeqRange(out))) = 3

(* some site operation sends d to -d *)
Flips(G, d) == \E i \in 1..Len(G) : Img(G[i], d) = VNeg(d)

(* PLUS/MINUS RULE: auto: -d accompanies d exactly when no site operation sends d to -d; *)
(* on: always; off: never                                                                 *)
ReqPlusMinus(G, pm, out) ==
  LET O == SeqRange(out)
  IN  \A d \in O :
        CASE pm = "auto" -> ((VNeg(d) \in O) <=> ~Flips(G, d))
          [] pm = "on"   -> VNeg(d) \in O
          [] pm = "off"  -> VNeg(d) \notin O

(* directions are non-zero and, unless the trigonal expansion is requested, taken from the list *)
ReqFromList(diag, trig, out) ==
  \A d \in SeqRange(out) : d # Zero3 /\ (~trig => (d \in SeqRange(DirList(diag)) \/ VNeg(d) \in SeqRange(DirList(diag))))

(* LEAST: the number of directions before the plus/minus expansion is the smallest number of *)
(* list directions whose images span the space (not demanded by C01; a theorem about the     *)
(* search that the model checker confirms on every group)                                    *)
LeastCount(G, dirs) ==
  LET D == SeqRange(dirs)
  IN  IF \E d \in D : RankOf(Images(G, {d})) = 3 THEN 1
      ELSE IF \E d \in D, e \in D : RankOf(Images(G, {d, e})) = 3 THEN 2 ELSE 3

(* G is a group of unimodular integer matrices (hypothesis on recorded site symmetries) *)
IsMatrixGroup(G) ==
  \E S \in {SeqRange(G)} :
      /\ Id3 \in S
      /\ \A a \in S : Abs(Det(a)) = 1
      /\ \A a \in S, b \in S : SMat(MatMul(a, b)) \in S
      /\ Cardinality(S) = Len(G)
=============================================================================
