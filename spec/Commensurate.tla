---------------------------- MODULE Commensurate ----------------------------
(* C06 (and the partition used by C19): commensurate q-points of a supercell *)
(* matrix S (with respect to the primitive cell).                            *)
(*                                                                           *)
(* A q-point is kept as the integer vector n with q = n / N, N = |det S|.    *)
(* q is commensurate iff S^T q is integral, i.e. S^T n == 0 (mod N).         *)
(*                                                                           *)
(* Requirement: the points are exactly |det S|, pairwise distinct modulo     *)
(* reciprocal lattice vectors, each with S^T q integral - hence the full     *)
(* dual group CommSet(S) of Z^3 / S Z^3.  The transformation of force        *)
(* constants to dynamical matrices at these points and back is lossless      *)
(* because the pairing between CommSet(S) and Z^3/S Z^3 is perfect           *)
(* (PerfectPairing: a lattice vector r lies in S Z^3 iff q.r is integral for *)
(* every commensurate q), which gives the character orthogonality            *)
(* (1/N) sum_q exp(2 pi i q.r) = [r in S Z^3]  that the inverse transform    *)
(* relies on; the other ingredient, that every stored shortest vector of a   *)
(* pair is congruent to the pair's separation modulo S Z^3, is C05/C02.      *)
(*                                                                           *)
(* One behaviour = one event recorded from the real code for one S:          *)
(*   pts   : get_commensurate_points(S)              (projected to integers) *)
(*   ipts  : get_commensurate_points_in_integers(S)                          *)
(*   ii,ij : categorize_commensurate_points(ipts)    (0-based indices)       *)
EXTENDS IntLinAlg

CONSTANT Events
VARIABLES ev, pc, comm
cvars == <<ev, pc, comm>>

N(S) == Abs(Det(S))
Cube(n) == {<<x, y, z>> : x \in 0..(n - 1), y \in 0..(n - 1), z \in 0..(n - 1)}
ModN(n, v) == <<v[1] % n, v[2] % n, v[3] % n>>

(* definition: all n in [0,N)^3 with S^T n == 0 (mod N) *)
CommSet(S) == {v \in Cube(N(S)) : ModN(N(S), MatVec(Transpose(S), v)) = <<0, 0, 0>>}

Init == ev \in Events /\ pc = "start" /\ comm = {}
Compute == pc = "start" /\ comm' = CommSet(ev.S) /\ pc' = "done" /\ UNCHANGED ev
Next == Compute
Spec == Init /\ [][Next]_cvars
AtEnd == pc = "done"

(* ---- theorems about the definition (checked for every S met) ------------------------------ *)
CountTheorem == AtEnd => Cardinality(comm) = N(ev.S)
(* r in S Z^3  <=>  n.r == 0 (mod N) for all commensurate n ; r ranges over a box of representatives *)
PerfectPairing ==
  AtEnd => \A r \in {<<x, y, z>> : x \in -2..2, y \in -2..2, z \in -2..2} :
              (ClassKey(ev.S, 1, r) = <<0, 0, 0>>) <=> (\A v \in comm : Dot(v, r) % N(ev.S) = 0)
(* the commensurate set is closed under negation: q -> -q (time reversal pairs) *)
NegationClosed == AtEnd => \A v \in comm : ModN(N(ev.S), VNeg(v)) \in comm

(* ---- requirement on the recorded points -------------------------------------------------------- *)
SeqSet(s) == {s[i] : i \in 1..Len(s)}
PtsMod == {ModN(N(ev.S), v) : v \in SeqSet(ev.pts)}
IPtsMod == {ModN(N(ev.S), v) : v \in SeqSet(ev.ipts)}

ImplExact    == AtEnd => ev.exact
ImplCount    == AtEnd => Len(ev.pts) = N(ev.S) /\ Len(ev.ipts) = N(ev.S)
ImplDistinct == AtEnd => Cardinality(PtsMod) = Len(ev.pts) /\ Cardinality(IPtsMod) = Len(ev.ipts)
ImplIntegral == AtEnd => \A v \in SeqSet(ev.pts) \cup SeqSet(ev.ipts) :
                            ModN(N(ev.S), MatVec(Transpose(ev.S), v)) = <<0, 0, 0>>
ImplComplete == AtEnd => PtsMod = comm
ImplBothAgree == AtEnd => PtsMod = IPtsMod
(* partition into self-conjugate points and conjugate pairs (indices into ipts, 0-based) *)
IP(i) == ModN(N(ev.S), ev.ipts[i + 1])
ImplCategorize ==
  AtEnd =>
    /\ Len(ev.ii) + 2 * Len(ev.ij) = N(ev.S)
    /\ \A k \in 1..Len(ev.ii) : ModN(N(ev.S), VAdd(IP(ev.ii[k]), IP(ev.ii[k]))) = <<0, 0, 0>>
    /\ \A k \in 1..Len(ev.ij) :
          /\ ModN(N(ev.S), VAdd(IP(ev.ij[k]), IP(ev.ij[k]))) # <<0, 0, 0>>
          /\ \E j \in 0..(Len(ev.ipts) - 1) : j > ev.ij[k] /\ ModN(N(ev.S), VAdd(IP(ev.ij[k]), IP(j))) = <<0, 0, 0>>
    (* every point is in exactly one class: itself in ii, itself in ij, or the partner of one in ij *)
    /\ \A j \in 0..(Len(ev.ipts) - 1) :
          Cardinality({k \in 1..Len(ev.ii) : ev.ii[k] = j}) +
          Cardinality({k \in 1..Len(ev.ij) : ev.ij[k] = j}) +
          Cardinality({k \in 1..Len(ev.ij) : ev.ij[k] # j /\ ModN(N(ev.S), VAdd(IP(ev.ij[k]), IP(j))) = <<0, 0, 0>>}) = 1
=============================================================================
