----------------------------- MODULE MeshGroups -----------------------------
(* Exact point groups of the reference crystals (brute force over integer   *)
(* matrices preserving the Gram matrix and the atoms, Crystal.tla).  One    *)
(* state per crystal; the dumped states are the group tables the C09        *)
(* harness feeds to GridPoints (and subgroups of them, which MeshGridTrace  *)
(* re-checks to be groups) and the oracle for the rotations that            *)
(* Phonopy.init_mesh hands to the grid.                                     *)
EXTENDS MeshCatalogue

CONSTANT Wanted   \* set of entry names

VARIABLES name, pg, gram
gvars == <<name, pg, gram>>

GInit ==
  /\ name \in Wanted
  /\ pg = PointGroup(MeshEntryByName(name))
  /\ gram = MeshEntryByName(name).G
GNext == UNCHANGED gvars

(* order of the point group expected from the crystal class *)
ExpectedOrder ==
  [n \in MeshNames |->
     CASE n \in {"sc", "cscl", "nacl", "naclg", "bcc", "fccp", "bccp"} -> 48
       [] n = "hcp" -> 24
       [] n = "wz" -> 12
       [] n = "tric" -> 1
       [] n = "tetab" -> 8
       [] n = "rhp" -> 12
       [] n = "ocp" -> 8
       [] n = "mcp" -> 4
       [] n = "mcp2" -> 2
       [] n = "bctp" -> 16
       [] n = "ortho" -> 8]

InvIsGroup == IsGroup(pg)
InvOrder == Cardinality(pg) = ExpectedOrder[name]
(* the reciprocal group {R^-T} is the transposed group *)
InvTransposeIsInverseTranspose == {Transpose(R) : R \in pg} = {Transpose(UniInv(R)) : R \in pg}
=============================================================================
