--------------------------- MODULE CellCatalogue ----------------------------
(* X06: exact crystals in their standard crystallographic setting, one per    *)
(* centring letter and crystal system that estimate_supercell_matrix and      *)
(* guess_primitive_matrix distinguish.  Records of Crystal.tla without a      *)
(* spring table (no force constants are needed here).                         *)
EXTENDS CellUtils

XAt(sp, n) == [sp |-> sp, num |-> n, m |-> 10 + sp]
XHex(c) == <<<<2,-1,0>>,<<-1,2,0>>,<<0,0,c>>>>
XCells == <<
  [name |-> "sc",     G |-> Id3,                D |-> 2, centring |-> "P", atoms |-> <<XAt(1, <<0,0,0>>)>>],
  [name |-> "cscl",   G |-> Id3,                D |-> 2, centring |-> "P", atoms |-> <<XAt(1, <<0,0,0>>), XAt(2, <<1,1,1>>)>>],
  [name |-> "nacl",   G |-> Id3,                D |-> 2, centring |-> "F",
     atoms |-> <<XAt(1, <<0,0,0>>), XAt(2, <<1,0,0>>), XAt(1, <<0,1,1>>), XAt(2, <<1,1,1>>),
                 XAt(1, <<1,0,1>>), XAt(2, <<0,0,1>>), XAt(1, <<1,1,0>>), XAt(2, <<0,1,0>>)>>],
  [name |-> "bcc",    G |-> Id3,                D |-> 2, centring |-> "I", atoms |-> <<XAt(1, <<0,0,0>>), XAt(1, <<1,1,1>>)>>],
  [name |-> "tetab",  G |-> Diag(4,4,5),        D |-> 4, centring |-> "P", atoms |-> <<XAt(1, <<0,0,0>>), XAt(2, <<2,2,1>>)>>],
  [name |-> "tetI",   G |-> Diag(4,4,7),        D |-> 4, centring |-> "I",
     atoms |-> <<XAt(1, <<0,0,0>>), XAt(1, <<2,2,2>>), XAt(2, <<0,0,1>>), XAt(2, <<2,2,3>>)>>],
  [name |-> "hcp",    G |-> XHex(3),            D |-> 6, centring |-> "P", atoms |-> <<XAt(1, <<0,0,0>>), XAt(1, <<2,4,3>>)>>],
  [name |-> "wz",     G |-> XHex(5),            D |-> 24, centring |-> "P",
     atoms |-> <<XAt(1, <<8,16,0>>), XAt(1, <<16,8,12>>), XAt(2, <<8,16,9>>), XAt(2, <<16,8,21>>)>>],
  [name |-> "rhomb",  G |-> XHex(7),            D |-> 6, centring |-> "R",
     atoms |-> <<XAt(1, <<0,0,0>>), XAt(2, <<0,0,3>>), XAt(1, <<4,2,2>>), XAt(2, <<4,2,5>>), XAt(1, <<2,4,4>>), XAt(2, <<2,4,1>>)>>],
  [name |-> "orthoP", G |-> Diag(3,4,6),        D |-> 2, centring |-> "P", atoms |-> <<XAt(1, <<0,0,0>>), XAt(2, <<1,1,1>>)>>],
  [name |-> "orthoPs", G |-> Diag(4,4,9),       D |-> 4, centring |-> "P",     \* a = b by accident, orthorhombic by its atoms
     atoms |-> <<XAt(1, <<0,0,0>>), XAt(2, <<2,0,2>>), XAt(3, <<0,2,2>>)>>],
  [name |-> "orthoC", G |-> Diag(3,5,4),        D |-> 2, centring |-> "C",
     atoms |-> <<XAt(1, <<0,0,0>>), XAt(2, <<0,0,1>>), XAt(1, <<1,1,0>>), XAt(2, <<1,1,1>>)>>],
  [name |-> "orthoA", G |-> Diag(3,5,7),        D |-> 4, centring |-> "A",
     atoms |-> <<XAt(1, <<0,0,0>>), XAt(2, <<0,0,1>>), XAt(1, <<0,2,2>>), XAt(2, <<0,2,3>>)>>],
  [name |-> "orthoAm", G |-> Diag(3,5,7),       D |-> 2, centring |-> "A",     \* mmm: the standard setting is C (axes permuted)
     atoms |-> <<XAt(1, <<0,0,0>>), XAt(2, <<1,0,0>>), XAt(1, <<0,1,1>>), XAt(2, <<1,1,1>>)>>],
  [name |-> "orthoBm", G |-> Diag(3,5,7),       D |-> 2, centring |-> "B",
     atoms |-> <<XAt(1, <<0,0,0>>), XAt(2, <<0,1,0>>), XAt(1, <<1,0,1>>), XAt(2, <<1,1,1>>)>>],
  [name |-> "orthoF", G |-> Diag(3,5,7),        D |-> 2, centring |-> "F",
     atoms |-> <<XAt(1, <<0,0,0>>), XAt(1, <<0,1,1>>), XAt(1, <<1,0,1>>), XAt(1, <<1,1,0>>)>>],
  [name |-> "tric",   G |-> <<<<4,1,1>>,<<1,5,2>>,<<1,2,6>>>>, D |-> 4, centring |-> "P",
     atoms |-> <<XAt(1, <<0,0,0>>), XAt(2, <<1,2,1>>), XAt(1, <<2,1,3>>)>>]
>>
XNames == {XCells[i].name : i \in DOMAIN XCells}
XEntry(n) == XCells[CHOOSE i \in DOMAIN XCells : XCells[i].name = n]
=============================================================================
