------------------------------ MODULE QhaTrace ------------------------------
(* Conformance of the implementation with Qha.tla.  One event = one call     *)
(* PhonopyQHA(volumes, electronic_energies, temperatures, free_energy, cv,   *)
(* entropy, eos, pressure, t_max) on the real code (harness/props/c20.py):   *)
(*   ev.inp  - the abstract input (tables of rationals; the outcome of every *)
(*             fit call as observed - status of scipy's leastsq, exception - *)
(*             or as injected by the harness is part of it: bmplan, fitplan) *)
(*   ev.obs  - the projected result: the rows that reached the fit inside    *)
(*             BulkModulus and QHA.run, identified as formal combinations of *)
(*             the input tables; where each fit started from; the public     *)
(*             tables projected to rationals (divided by the REQUIRED unit   *)
(*             factor); the files written by the write_... methods           *)
(*   ev.exact - every projected number lay within tolerance of its grid value*)
(* Impl...: the requirement of C20 evaluated on the logged result.           *)
(* Conforms...: the logged result is the step machine's result.              *)
EXTENDS Qha

CONSTANT Events
VARIABLE ev
tvars == <<vars, ev>>

TInit == \E e \in Events : ev = e /\ InitWith(e.inp)
TNext == Next /\ UNCHANGED ev
TSpec == TInit /\ [][TNext]_tvars

X == ev.inp
Ob == ev.obs
(* the electronic-only rows seen by BulkModulus, turned into curve indices by the same   *)
(* cancellation rule as in the machine *)
O == [status |-> Ob.status, len |-> Ob.len, nfit |-> Ob.nfit,
      bm |-> [j \in 1..Len(Ob.bmrows) |-> ElCurve(X, Ob.bmrows[j])], bmpar |-> Ob.bmpar,
      rows |-> Ob.rows, vol |-> Ob.vol, gibbs |-> Ob.gibbs, bulk |-> Ob.bulk,
      beta |-> Ob.beta, cp |-> Ob.cp, cpfit |-> Ob.cpfit, gru |-> Ob.gru, files |-> Ob.files]
ImplOK == AtEnd /\ O.status = "ok"
(* the clauses about the returned tables speak for inputs inside the statement of C20 *)
(* whose returned rows all belong to fits that succeeded                              *)
ImplTables == ImplOK /\ InStatement(X) /\ ReqFailedFitReported(X, O)
(* conformance with the machine also outside the statement (the machine transcribes   *)
(* the code there), except where the machine leaves the result unspecified            *)
ConfTables == ImplOK /\ Done

ImplExact == (AtEnd /\ status # "unspecified") => ev.exact
ImplCompletes == AtEnd => ReqCompletes(X, O)
ImplFailedFitReported == AtEnd => ReqFailedFitReported(X, O)
(* every fit starts from values derived from its own row, not from another temperature *)
ImplFitStart == AtEnd => \A i \in 1..Len(Ob.starts) : Ob.starts[i] = "own"
ImplLength == ImplTables => ReqLength(X, O)
ImplPerTemperatureElectronic == ImplTables => ReqPerTemperatureElectronic(X, O)
ImplPhononUnit == ImplTables => ReqPhononUnit(X, O)
ImplPressureSign == ImplTables => ReqPressureSign(X, O) /\ ReqNoSpuriousPV(X, O)
ImplRecoverVolume == ImplTables => ReqRecoverVolume(X, O)
ImplRecoverGibbs == ImplTables => ReqRecoverGibbs(X, O)
ImplRecoverBulk == ImplTables => ReqRecoverBulk(X, O)
ImplShiftInvariance == ImplTables => ReqShiftInvariance(X, O)
ImplOrderInvariance == ImplTables => ReqOrderInvariance(X, O)
ImplBulkModulusObject == ImplTables => ReqBulkModulusObject(X, O)
ImplThermalExpansion == ImplTables => ReqThermalExpansion(X, O)
ImplHeatCapacity == ImplTables => ReqHeatCapacity(X, O)
ImplHeatCapacityPolyfit == ImplTables => ReqHeatCapacityPolyfit(X, O)
ImplGruneisen == ImplTables => ReqGruneisen(X, O)
ImplFiles == ImplTables => ReqFiles(X, O)

ConformsStatus == (AtEnd /\ status # "unspecified") =>
                           /\ (O.status = "ok") = (status = "ok")
                           /\ (O.status = "AssertionError") = (status = "assert")
                           /\ (O.status = "refused") = (status = "refused")
ConformsLen == ConfTables => O.len = Out.len
ConformsRows == ConfTables => O.rows = Out.rows /\ O.nfit = Len(rows)
ConformsBulkModulus == ConfTables => O.bm = Out.bm /\ O.bmpar = Out.bmpar
ConformsTables == ConfTables => O.vol = Out.vol /\ O.gibbs = Out.gibbs /\ O.bulk = Out.bulk
ConformsStencils == ConfTables => O.beta = Out.beta /\ O.cp = Out.cp /\ O.cpfit = Out.cpfit /\ O.gru = Out.gru
ConformsFiles == ConfTables => O.files = Out.files

(* compact per-event verdict for the harness: which clauses fail for which input.   *)
(* Always TRUE as an invariant (PrintT is TRUE); the clauses themselves are checked  *)
(* as invariants above.                                                             *)
Verdict(n) ==
  CASE n = "ImplExact" -> ImplExact [] n = "ImplCompletes" -> ImplCompletes [] n = "ImplLength" -> ImplLength
    [] n = "ImplFailedFitReported" -> ImplFailedFitReported
    [] n = "ImplFitStart" -> ImplFitStart [] n = "ImplFiles" -> ImplFiles
    [] n = "ImplPerTemperatureElectronic" -> ImplPerTemperatureElectronic [] n = "ImplPhononUnit" -> ImplPhononUnit
    [] n = "ImplPressureSign" -> ImplPressureSign [] n = "ImplRecoverVolume" -> ImplRecoverVolume
    [] n = "ImplRecoverGibbs" -> ImplRecoverGibbs [] n = "ImplRecoverBulk" -> ImplRecoverBulk
    [] n = "ImplShiftInvariance" -> ImplShiftInvariance [] n = "ImplOrderInvariance" -> ImplOrderInvariance
    [] n = "ImplBulkModulusObject" -> ImplBulkModulusObject [] n = "ImplThermalExpansion" -> ImplThermalExpansion
    [] n = "ImplHeatCapacity" -> ImplHeatCapacity [] n = "ImplHeatCapacityPolyfit" -> ImplHeatCapacityPolyfit
    [] n = "ImplGruneisen" -> ImplGruneisen [] n = "ConformsStatus" -> ConformsStatus [] n = "ConformsLen" -> ConformsLen
    [] n = "ConformsRows" -> ConformsRows [] n = "ConformsBulkModulus" -> ConformsBulkModulus
    [] n = "ConformsTables" -> ConformsTables [] n = "ConformsStencils" -> ConformsStencils
    [] n = "ConformsFiles" -> ConformsFiles
Clauses == {"ImplExact", "ImplCompletes", "ImplLength", "ImplFailedFitReported", "ImplFitStart",
            "ImplFiles", "ImplPerTemperatureElectronic", "ImplPhononUnit",
            "ImplPressureSign", "ImplRecoverVolume", "ImplRecoverGibbs", "ImplRecoverBulk", "ImplShiftInvariance", "ImplOrderInvariance", "ImplBulkModulusObject",
            "ImplThermalExpansion", "ImplHeatCapacity", "ImplHeatCapacityPolyfit", "ImplGruneisen", "ConformsStatus",
            "ConformsLen", "ConformsRows", "ConformsBulkModulus", "ConformsTables", "ConformsStencils", "ConformsFiles"}
Report ==
  AtEnd => LET failed == {n \in Clauses : ~Verdict(n)}
           IN  failed # {} => PrintT(<<"FAILED", X.id, failed>>)

(* observations outside the statement of C20: recorded by the harness, never a violation *)
Observe ==
  AtEnd => LET seen == {n \in {"ObsRefuses", "ObsTypeErrorNotReplaced"} :
                          ~(IF n = "ObsRefuses" THEN ObsRefuses(X, O) ELSE ObsTypeErrorNotReplaced(X, O))}
           IN  seen # {} => PrintT(<<"OBSERVED", X.id, seen>>)
=============================================================================
