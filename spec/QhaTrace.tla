------------------------------ MODULE QhaTrace ------------------------------
(* Conformance of the implementation with Qha.tla.  One event = one call     *)
(* PhonopyQHA(volumes, electronic_energies, temperatures, free_energy, cv,   *)
(* entropy, eos, pressure, t_max) on the real code (harness/props/c20.py):   *)
(*   ev.inp  - the abstract input (tables of rationals)                      *)
(*   ev.obs  - the projected result: the rows that reached the fit inside    *)
(*             BulkModulus and QHA.run, identified as formal combinations of *)
(*             the input tables; the public tables projected to rationals    *)
(*             (divided by the REQUIRED unit factor)                         *)
(*   ev.exact - every projected number lay within tolerance of its grid value*)
(* Impl*: the requirement of C20 evaluated on the logged result.             *)
(* Conforms*: the logged result is the step machine's result.                *)
EXTENDS Qha

CONSTANT Events
VARIABLE ev
tvars == <<vars, ev>>

TInit == \E e \in Events : ev = e /\ InitWith(e.inp)
TNext == Next /\ UNCHANGED ev
TSpec == TInit /\ [][TNext]_tvars

X == ev.inp
Ob == ev.obs
(* the electronic-only rows seen by BulkModulus, turned into curve indices by the same   *)
(* cancellation rule as in the machine *)
O == [status |-> Ob.status, len |-> Ob.len, nfit |-> Ob.nfit,
      bm |-> [j \in 1..Len(Ob.bmrows) |-> ElCurve(X, Ob.bmrows[j])], bmpar |-> Ob.bmpar,
      rows |-> Ob.rows, vol |-> Ob.vol, gibbs |-> Ob.gibbs, bulk |-> Ob.bulk,
      beta |-> Ob.beta, cp |-> Ob.cp, cpfit |-> Ob.cpfit, gru |-> Ob.gru]
ImplOK == AtEnd /\ O.status = "ok"

ImplExact == AtEnd => ev.exact
ImplCompletes == AtEnd => ReqCompletes(X, O)
ImplLength == ImplOK => ReqLength(X, O)
ImplPerTemperatureElectronic == ImplOK => ReqPerTemperatureElectronic(X, O)
ImplPhononUnit == ImplOK => ReqPhononUnit(X, O)
ImplPressureSign == ImplOK => ReqPressureSign(X, O) /\ ReqNoSpuriousPV(X, O)
ImplRecoverVolume == ImplOK => ReqRecoverVolume(X, O)
ImplRecoverGibbs == ImplOK => ReqRecoverGibbs(X, O)
ImplRecoverBulk == ImplOK => ReqRecoverBulk(X, O)
ImplBulkModulusObject == ImplOK => ReqBulkModulusObject(X, O)
ImplThermalExpansion == ImplOK => ReqThermalExpansion(X, O)
ImplHeatCapacity == ImplOK => ReqHeatCapacity(X, O)
ImplHeatCapacityPolyfit == ImplOK => ReqHeatCapacityPolyfit(X, O)
ImplGruneisen == ImplOK => ReqGruneisen(X, O)

ConformsStatus == AtEnd => (O.status = "ok") = (status = "ok") /\ (O.status = "AssertionError") = (status = "assert")
ConformsLen == ImplOK /\ Done => O.len = Out.len
ConformsRows == ImplOK /\ Done => O.rows = Out.rows /\ O.nfit = numElems
ConformsBulkModulus == ImplOK /\ Done => O.bm = Out.bm /\ O.bmpar = Out.bmpar
ConformsTables == ImplOK /\ Done => O.vol = Out.vol /\ O.gibbs = Out.gibbs /\ O.bulk = Out.bulk
ConformsStencils == ImplOK /\ Done => O.beta = Out.beta /\ O.cp = Out.cp /\ O.cpfit = Out.cpfit /\ O.gru = Out.gru

(* compact per-event verdict for the harness: which clauses fail for which input.   *)
(* Always TRUE as an invariant (PrintT is TRUE); the clauses themselves are checked  *)
(* as invariants above.                                                             *)
Verdict(n) ==
  CASE n = "ImplExact" -> ImplExact [] n = "ImplCompletes" -> ImplCompletes [] n = "ImplLength" -> ImplLength
    [] n = "ImplPerTemperatureElectronic" -> ImplPerTemperatureElectronic [] n = "ImplPhononUnit" -> ImplPhononUnit
    [] n = "ImplPressureSign" -> ImplPressureSign [] n = "ImplRecoverVolume" -> ImplRecoverVolume
    [] n = "ImplRecoverGibbs" -> ImplRecoverGibbs [] n = "ImplRecoverBulk" -> ImplRecoverBulk
    [] n = "ImplBulkModulusObject" -> ImplBulkModulusObject [] n = "ImplThermalExpansion" -> ImplThermalExpansion
    [] n = "ImplHeatCapacity" -> ImplHeatCapacity [] n = "ImplHeatCapacityPolyfit" -> ImplHeatCapacityPolyfit
    [] n = "ImplGruneisen" -> ImplGruneisen [] n = "ConformsStatus" -> ConformsStatus [] n = "ConformsLen" -> ConformsLen
    [] n = "ConformsRows" -> ConformsRows [] n = "ConformsBulkModulus" -> ConformsBulkModulus
    [] n = "ConformsTables" -> ConformsTables [] n = "ConformsStencils" -> ConformsStencils
Clauses == {"ImplExact", "ImplCompletes", "ImplLength", "ImplPerTemperatureElectronic", "ImplPhononUnit",
            "ImplPressureSign", "ImplRecoverVolume", "ImplRecoverGibbs", "ImplRecoverBulk", "ImplBulkModulusObject",
            "ImplThermalExpansion", "ImplHeatCapacity", "ImplHeatCapacityPolyfit", "ImplGruneisen", "ConformsStatus",
            "ConformsLen", "ConformsRows", "ConformsBulkModulus", "ConformsTables", "ConformsStencils"}
Report ==
  AtEnd => LET failed == {n \in Clauses : ~Verdict(n)}
           IN  failed # {} => PrintT(<<"FAILED", X.id, failed>>)
=============================================================================
