----------------------------- MODULE PointGroups -----------------------------
(* X04, pure: integer 3x3 matrices as point-group operations.  The type of an operation (-6,-4,-3,-2,-1,1,2,3,4,6)  *)
(* follows from trace and determinant; the numbers of operations of each type identify the 32 crystallographic     *)
(* point-group types (International Tables A, table 10.1.2; the same table spglib uses).                           *)
EXTENDS IntLinAlg

Tup(v) == <<v[1], v[2], v[3]>>
Mat3(M) == <<Tup(M[1]), Tup(M[2]), Tup(M[3])>>
Tr(M) == M[1][1] + M[2][2] + M[3][3]
RECURSIVE MatPow(_, _)
MatPow(W, n) == IF n = 0 THEN Id3 ELSE Mat3(MatMul(W, MatPow(W, n - 1)))
OrderOf(W) == CHOOSE n \in {1, 2, 3, 4, 6} : MatPow(W, n) = Id3 /\ \A m \in {1, 2, 3, 4, 6} : m < n => MatPow(W, m) # Id3
FiniteOrder(W) == \E n \in {1, 2, 3, 4, 6} : MatPow(W, n) = Id3

(* point-group type from the numbers of operations of each type (-6,-4,-3,-2,-1,1,2,3,4,6) - ITA *)
TypeOf(W) == LET t == Tr(W) IN
  IF Det(W) = 1 THEN (CASE t = 3 -> 6 [] t = -1 -> 7 [] t = 0 -> 8 [] t = 1 -> 9 [] t = 2 -> 10 [] OTHER -> 0)
  ELSE (CASE t = -3 -> 5 [] t = 1 -> 4 [] t = 0 -> 3 [] t = -1 -> 2 [] t = -2 -> 1 [] OTHER -> 0)
Signature(Ws) == [c \in 1..10 |-> Cardinality({W \in Ws : TypeOf(W) = c})]
PGTable ==
  << <<"1", <<0,0,0,0,0,1,0,0,0,0>> >>, <<"-1", <<0,0,0,0,1,1,0,0,0,0>> >>, <<"2", <<0,0,0,0,0,1,1,0,0,0>> >>,
     <<"m", <<0,0,0,1,0,1,0,0,0,0>> >>, <<"2/m", <<0,0,0,1,1,1,1,0,0,0>> >>, <<"222", <<0,0,0,0,0,1,3,0,0,0>> >>,
     <<"mm2", <<0,0,0,2,0,1,1,0,0,0>> >>, <<"mmm", <<0,0,0,3,1,1,3,0,0,0>> >>, <<"4", <<0,0,0,0,0,1,1,0,2,0>> >>,
     <<"-4", <<0,2,0,0,0,1,1,0,0,0>> >>, <<"4/m", <<0,2,0,1,1,1,1,0,2,0>> >>, <<"422", <<0,0,0,0,0,1,5,0,2,0>> >>,
     <<"4mm", <<0,0,0,4,0,1,1,0,2,0>> >>, <<"-42m", <<0,2,0,2,0,1,3,0,0,0>> >>, <<"4/mmm", <<0,2,0,5,1,1,5,0,2,0>> >>,
     <<"3", <<0,0,0,0,0,1,0,2,0,0>> >>, <<"-3", <<0,0,2,0,1,1,0,2,0,0>> >>, <<"32", <<0,0,0,0,0,1,3,2,0,0>> >>,
     <<"3m", <<0,0,0,3,0,1,0,2,0,0>> >>, <<"-3m", <<0,0,2,3,1,1,3,2,0,0>> >>, <<"6", <<0,0,0,0,0,1,1,2,0,2>> >>,
     <<"-6", <<2,0,0,1,0,1,0,2,0,0>> >>, <<"6/m", <<2,0,2,1,1,1,1,2,0,2>> >>, <<"622", <<0,0,0,0,0,1,7,2,0,2>> >>,
     <<"6mm", <<0,0,0,6,0,1,1,2,0,2>> >>, <<"-6m2", <<2,0,0,4,0,1,3,2,0,0>> >>, <<"6/mmm", <<2,0,2,7,1,1,7,2,0,2>> >>,
     <<"23", <<0,0,0,0,0,1,3,8,0,0>> >>, <<"m-3", <<0,0,8,3,1,1,3,8,0,0>> >>, <<"432", <<0,0,0,0,0,1,9,8,6,0>> >>,
     <<"-43m", <<0,6,0,6,0,1,3,8,0,0>> >>, <<"m-3m", <<0,6,8,9,1,1,9,8,6,0>> >> >>
PGSymbol(Ws) == LET sg == Signature(Ws)
                    hit == {r \in 1..Len(PGTable) : Cardinality(Ws) = Cardinality({W \in Ws : TypeOf(W) # 0}) /\ \A c \in 1..10 : PGTable[r][2][c] = sg[c]}
                IN IF hit = {} THEN "?" ELSE PGTable[CHOOSE r \in hit : TRUE][1]

=============================================================================
