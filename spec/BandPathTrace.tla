---------------------------- MODULE BandPathTrace ----------------------------
(* X07(a): what the real get_band_qpoints / ..._and_path_connections returned *)
(* (harness/x07_driver.py), one event per call:                               *)
(*   [id, rq |-> request, got |-> [npts, pts, exact, hasconn, conn]]          *)
(* pts[s][j]: integer numerators of the returned q-points over               *)
(* den * (npts[s] - 1); exact: the returned floats are those rationals to    *)
(* 1e-12.  Impl..: the requirement of BandPath.tla on the logged values;     *)
(* Conforms: the step machine reproduces them.                               *)
EXTENDS BandPath, Json
CONSTANT EventFile
VARIABLE ev
Events == LET raw == ndJsonDeserialize(EventFile) IN {raw[j] : j \in DOMAIN raw}
TInit == ev \in Events /\ InitWith(ev.rq)
TNext == Next /\ UNCHANGED ev
First == pc = "npts"
G == ev.got
SG == Segs(ev.rq.paths)
Judge(n) ==
  CASE n = "SegCount" -> Len(G.pts) = Len(SG) /\ Len(G.npts) = Len(SG)
    [] n = "Exact" -> G.exact
    [] n = "Npts" -> ReqNptsOK(ev.rq, SG, G.npts) /\ \A s \in DOMAIN G.pts : Len(G.pts[s]) = G.npts[s]
    [] n = "Endpoints" -> \A s \in DOMAIN G.pts : s \in DOMAIN SG => EndpointsOK(SG[s], G.pts[s])
    [] n = "Spacing" -> \A s \in DOMAIN G.pts : EquallySpaced(G.pts[s])
    [] n = "Conn" -> G.hasconn => G.conn = ReqConn(SG)
    [] n = "Join" -> G.hasconn => \A s \in DOMAIN G.conn : (G.conn[s] /\ s < Len(G.pts)) => JoinShared(G.pts[s], G.pts[s + 1])
Names == {"SegCount", "Exact", "Npts", "Endpoints", "Spacing", "Conn", "Join"}
Failed == {n \in Names : ~ Judge(n)}
ImplSegCount == First => Judge("SegCount")
ImplExact == First => Judge("Exact")
ImplNpts == First => Judge("Npts")
ImplEndpoints == First => Judge("Endpoints")
ImplSpacing == First => Judge("Spacing")
ImplConn == First => Judge("Conn")
ImplJoin == First => Judge("Join")
ReportReq == First => PrintT(ToString(<<"Q", ev.id, Failed>>))
(* conformance: counts up to a rounding tie, points and connections exactly *)
Conf == /\ Len(outn) = Len(G.npts)
        /\ \A s \in DOMAIN outn : outn[s] = G.npts[s] \/ (ev.rq.uselen /\ ReqNptsOK(ev.rq, SG, G.npts))
        /\ \A s \in DOMAIN outp : Len(outp[s]) = Len(G.pts[s]) => outp[s] = G.pts[s]
        /\ (G.hasconn => outc = G.conn)
Conforms == Done => Conf
Report == Done => PrintT(ToString(<<"R", ev.id, Conf>>))
=============================================================================
