--------------------------- MODULE SymmetrizeTrace ---------------------------
(* Conformance of the implementation's symmetrisers with Symmetrize.tla.    *)
(*                                                                          *)
(* Systems are RECORDED from real Phonopy objects (Primitive.atomic_        *)
(* permutations, p2s_map, s2p_map; s2pp / nsym_list as returned by          *)
(* get_nsym_list_and_s2pp; space-group operations of the supercell with the *)
(* atom permutation each induces).  Every case is one recorded execution:   *)
(* an integer input array x, a route, a level, and in c.obs the exact       *)
(* rational projections of what the real routines returned                  *)
(* (harness/props/c07.py):                                                  *)
(*   out      result of the route's real call on x                          *)
(*   again    result of applying the same real call to out                  *)
(*            ([same |-> TRUE] when it is the same array)                   *)
(*   xfull, outfull   real compact_fc_to_full_fc of x and of out            *)
(*   fullsym  real full-layout symmetriser applied to xfull                 *)
(*   back     real inverse converter applied to out                         *)
(*   direct   (sg) set_tensor_symmetry_PJ called directly; out goes through  *)
(*            Phonopy.symmetrize_force_constants_by_space_group; sg arrays   *)
(*            are F Phi F^T, F = supercell lattice (covariant components)    *)
(*   shown    what show_drift_force_constants printed (value, component)     *)
(*   exact    every projection had a negligible rounding residual           *)
(*   bitexact the values are exactly the dyadic rationals logged            *)
(* The step machine runs on the case's input.  At the end                   *)
(*  - the requirement of C07 is evaluated on the LOGGED values (Impl...:    *)
(*    a failure is a violation of the property by the implementation), and  *)
(*  - the logged values are compared with the machine's (Conforms...: the   *)
(*    implementation does what the transcription says, step for step as far *)
(*    as the public interface shows).                                       *)
EXTENDS Symmetrize

IsPow2(n) == n \in {1, 2, 4, 8, 16, 32, 64}
AgainSame(o, first) == o.again.same \/ SameArr(o.again.v, first)

ImplVerdict ==
  LET c == cs
      r == c.route
      o == c.obs
      out == o.out
      sy == Systems[c.sys]
  IN       V("ImplExact", o.exact)
     \cup V("ImplBitExact", (IsPow2(S.ns) /\ r \in {"full", "py", "compact", "transpose", "drift", "tocompact"}) => o.bitexact)
     \cup V("ImplTables", ("log_s2pp" \in DOMAIN sy) => (sy.log_s2pp = S.s2pp /\ sy.log_nsym = S.nsym))
     \cup (IF IsFullRoute(r) THEN
                   V("ImplImposesFull", ReqImposesFull(S, c, x0, out))
             \cup V("ImplFixesFull", ReqFixesFull(S, c, x0, out))
             \cup V("ImplKeepsPeriodic", ReqKeepsPeriodic(S, c, x0, out))
             \cup V("ImplIdempotent", AgainSame(o, out))
           ELSE {})
     \cup (IF r = "compact" THEN
             LET fx == FullOf(S, x0)       \* the full arrays the compact input and output stand for
                 fo == FullOf(S, out)
             IN    V("ImplImposesCompact", Symmetric(S, fo))
             \cup V("ImplFixesCompact", Symmetric(S, fx) => SameArr(out, x0))
             \cup V("ImplIdempotent", AgainSame(o, out))
             \cup V("ImplExpandIsDefinition", SameArr(o.xfull, fx) /\ SameArr(o.outfull, fo))
             \cup V("ImplCompactEqFull", SameArr(o.outfull, o.fullsym))
             \cup V("ConformsFullSym", SameArr(o.fullsym, Run(S, "full", c.level, fx)))
           ELSE {})
     \cup (IF r = "sg" THEN
                   V("ImplImposesSG", ReqImposesSG(S, c, x0, out))
             \cup V("ImplFixesSG", ReqFixesSG(S, c, x0, out))
             \cup V("ImplSGKeeps", ReqSGKeeps(S, c, x0, out))
             \cup V("ImplSGKeepsPermSym", PermSym(S, x0) => PermSym(S, out))
             \cup V("ImplSGApiEqDirect", SameArr(o.direct, out))
             \cup V("ImplIdempotent", AgainSame(o, out))
           ELSE {})
     \cup (IF r = "transpose" THEN
                   V("ImplTransposeIsTranspose", ReqTranspose(S, c, x0, out))
             \cup V("ImplTransposeInvolution", AgainSame(o, x0))
           ELSE {})
     \cup V("ImplDriftUnchanged", ReqDriftUnchanged(S, c, x0, out))
     \cup V("ImplDriftDisplayed", r = "drift" => o.shown = DriftDef(S, x0))
     \cup V("ConformsDriftDisplayed", r = "drift" => o.shown = DriftShown(S, x0))
     \cup (IF r = "expand" THEN
                   V("ImplExpandIsDefinition", ReqExpand(S, c, x0, out))
             \cup V("ImplCompactFullCompact", SameArr(o.back, x0))
           ELSE {})
     \cup (IF r = "tocompact" THEN
                   V("ImplToCompactIsDefinition", ReqToCompact(S, c, x0, out))
             \cup V("ImplFullCompactFull", Periodic(S, x0) => SameArr(o.back, x0))
           ELSE {})

ConformsVerdict ==
  LET c == cs
      o == c.obs
  IN       V("ConformsOut", SameArr(o.out, fc))

(* self-checks of the recorded material *)
RecordedVerdict ==
           V("ValidSystem", ValidSystem(Systems[cs.sys]))
     \cup V("ValidOps", cs.route = "sg" => ValidOps(S))
     \cup V("ArithExact", fc.ok)
     \cup V("Announced", Announced(S, cs, x0))

TJudge ==
  /\ pc = "done"
  /\ verdict' = ImplVerdict \cup ConformsVerdict \cup RecordedVerdict
  /\ pc' = "judged"
  /\ UNCHANGED <<cs, S, x0, fc, prog>>

TNext == Steps \/ TJudge
TSpec == Init /\ [][TNext]_vars

ImplExact == "ImplExact" \notin verdict
ImplBitExact == "ImplBitExact" \notin verdict
ImplTables == "ImplTables" \notin verdict
ImplImposesFull == "ImplImposesFull" \notin verdict
ImplFixesFull == "ImplFixesFull" \notin verdict
ImplKeepsPeriodic == "ImplKeepsPeriodic" \notin verdict
ImplIdempotent == "ImplIdempotent" \notin verdict
ImplImposesCompact == "ImplImposesCompact" \notin verdict
ImplFixesCompact == "ImplFixesCompact" \notin verdict
ImplCompactEqFull == "ImplCompactEqFull" \notin verdict
ImplExpandIsDefinition == "ImplExpandIsDefinition" \notin verdict
ImplImposesSG == "ImplImposesSG" \notin verdict
ImplFixesSG == "ImplFixesSG" \notin verdict
ImplSGKeeps == "ImplSGKeeps" \notin verdict
ImplSGKeepsPermSym == "ImplSGKeepsPermSym" \notin verdict
ImplSGApiEqDirect == "ImplSGApiEqDirect" \notin verdict
ImplTransposeIsTranspose == "ImplTransposeIsTranspose" \notin verdict
ImplTransposeInvolution == "ImplTransposeInvolution" \notin verdict
ImplDriftUnchanged == "ImplDriftUnchanged" \notin verdict
ImplDriftDisplayed == "ImplDriftDisplayed" \notin verdict
ConformsDriftDisplayed == "ConformsDriftDisplayed" \notin verdict
ImplCompactFullCompact == "ImplCompactFullCompact" \notin verdict
ImplToCompactIsDefinition == "ImplToCompactIsDefinition" \notin verdict
ImplFullCompactFull == "ImplFullCompactFull" \notin verdict
ConformsOut == "ConformsOut" \notin verdict
ConformsFullSym == "ConformsFullSym" \notin verdict
=============================================================================
