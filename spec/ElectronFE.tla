----------------------------- MODULE ElectronFE -----------------------------
(* X08: electronic free energy in the fixed density-of-states approximation  *)
(* (phonopy/qha/electron.py: ElectronFreeEnergy, get_free_energy_at_T).      *)
(*                                                                          *)
(* A SYSTEM is  [e |-> spin -> k -> band -> Int,  w |-> k -> Nat \ {0}]:     *)
(* integer one-electron levels (in units of an energy quantum u chosen by    *)
(* the harness) and integer k-point weights.  One spin channel: every state *)
(* holds g = 2 electrons, two channels: g = 1.  A state (s,k,b) has weight  *)
(* g w_k / W,  W = sum_k w_k.                                                *)
(*                                                                          *)
(* DEFINITION (requirement side, by LEVELS - the multiset view):            *)
(*   Deg(x) = g sum_{states at level x} w_k         (scaled by W)           *)
(*   f(x)   = 1 / (1 + exp((x - mu)/kT))                                     *)
(*   N = sum_x Deg(x) f(x) / W  defines mu;   E = sum_x Deg(x) x f(x) / W    *)
(*   S = -k sum_x Deg(x) [f ln f + (1-f) ln(1-f)] / W,   F = E - T S         *)
(* exp/ln are named, not interpreted, here.  The structure is made EXACT by  *)
(* choosing the thermodynamic point rationally: y = exp(u/kT) in Ys and      *)
(* z = exp(mu/kT) = za/zb in Zs, so  f(x) = z / (z + y^x)  is a rational     *)
(* and N(y,z), E(y,z) are rationals computed by TLC.  The harness then       *)
(* gives the real class T = u/(k ln y) and N and must get back               *)
(* mu = u ln z / ln y, the occupations and E exactly as computed here.       *)
(*                                                                          *)
(* T -> 0 (requirement from the variational definition): the ground state   *)
(* filling of N electrons; a filling is a ground state iff no electron can   *)
(* be moved to a lower level (GroundIsVariational).                          *)
(*                                                                          *)
(* IMPLEMENTATION side: the loops of _number_of_electrons / _get_energy:    *)
(* swapaxes -> (k, spin, band), reshape(len(w), -1), sum(axis=1), dot(w),    *)
(* times g, divided by W: one action per k-row and one for the dot.          *)
EXTENDS Integers, Sequences, FiniteSets, TLC

CONSTANTS Systems,   \* set of systems
          Ys,        \* set of integers >= 2
          Zs,        \* set of <<za, zb>> positive
          Emitting   \* BOOLEAN: print cases for the replay

VARIABLES pc, cs, ik, rowN, rowE, outN, outE, verdict
vars == <<pc, cs, ik, rowN, rowE, outN, outE, verdict>>

-----------------------------------------------------------------------------
(* exact rationals <<num, den>>, den > 0, always reduced *)
AbsI(x) == IF x < 0 THEN -x ELSE x
RECURSIVE GcdI(_, _)
GcdI(a, b) == IF b = 0 THEN a ELSE GcdI(b, a % b)
Norm(r) == LET g == GcdI(AbsI(r[1]), r[2]) IN IF g = 0 THEN <<0, 1>> ELSE <<r[1] \div g, r[2] \div g>>
RAdd(x, y) == LET g == GcdI(x[2], y[2])
              IN Norm(<<x[1] * (y[2] \div g) + y[1] * (x[2] \div g), (x[2] \div g) * y[2]>>)
RNeg(x) == <<-x[1], x[2]>>
RSub(x, y) == RAdd(x, RNeg(y))
RScale(k, x) == LET g == GcdI(AbsI(k), x[2]) IN IF g = 0 THEN <<0, 1>> ELSE Norm(<<(k \div g) * x[1], x[2] \div g>>)
RDivI(x, k) == LET g == GcdI(AbsI(x[1]), k) IN IF g = 0 THEN <<0, 1>> ELSE <<x[1] \div g, x[2] * (k \div g)>>
RLess(x, y) == RSub(x, y)[1] < 0
RLeq(x, y) == RSub(x, y)[1] <= 0
RInt(k) == <<k, 1>>
RMin(x, y) == IF RLess(x, y) THEN x ELSE y
RMax(x, y) == IF RLess(x, y) THEN y ELSE x
RECURSIVE Pow(_, _)
Pow(y, n) == IF n = 0 THEN 1 ELSE y * Pow(y, n - 1)
RECURSIVE QSum(_, _)
QSum(q, i) == IF i > Len(q) THEN <<0, 1>> ELSE RAdd(q[i], QSum(q, i + 1))
RECURSIVE ISum(_, _)
ISum(q, i) == IF i > Len(q) THEN 0 ELSE q[i] + ISum(q, i + 1)

-----------------------------------------------------------------------------
NS(s) == Len(s.e)
NK(s) == Len(s.w)
NB(s) == Len(s.e[1][1])
G(s) == IF NS(s) = 1 THEN 2 ELSE 1
WSum(s) == ISum(s.w, 1)
States(s) == {<<sp, k, b>> : sp \in 1..NS(s), k \in 1..NK(s), b \in 1..NB(s)}
Lev(s, t) == s.e[t[1]][t[2]][t[3]]
Levels(s) == {Lev(s, t) : t \in States(s)}
RECURSIVE SetISum(_, _)
SetISum(s, T) == IF T = {} THEN 0 ELSE LET t == CHOOSE v \in T : TRUE IN s.w[t[2]] + SetISum(s, T \ {t})
Deg(s, x) == G(s) * SetISum(s, {t \in States(s) : Lev(s, t) = x})
Capacity(s) == G(s) * NS(s) * NB(s) * WSum(s)          \* scaled by W

(* f(x) = z / (z + y^x),  z = a/b *)
Occ(y, z, x) == IF x >= 0 THEN Norm(<<z[1], z[1] + z[2] * Pow(y, x)>>)
                ELSE Norm(<<z[1] * Pow(y, -x), z[1] * Pow(y, -x) + z[2]>>)

(* sum over levels of Deg f x^m  (m = 0: count, m = 1: energy), scaled by W *)
RECURSIVE LevelSum(_, _, _, _, _)
LevelSum(s, y, z, m, L) ==
  IF L = {} THEN <<0, 1>>
  ELSE LET x == CHOOSE v \in L : TRUE
       IN RAdd(RScale(Deg(s, x) * (IF m = 0 THEN 1 ELSE x), Occ(y, z, x)), LevelSum(s, y, z, m, L \ {x}))
DefCount(s, y, z) == RDivI(LevelSum(s, y, z, 0, Levels(s)), WSum(s))
DefEnergy(s, y, z) == RDivI(LevelSum(s, y, z, 1, Levels(s)), WSum(s))
OccTable(s, y, z) == [sp \in 1..NS(s) |-> [k \in 1..NK(s) |-> [b \in 1..NB(s) |-> Occ(y, z, s.e[sp][k][b])]]]

(* mu inside the range of the eigenvalues:  y^emin <= z <= y^emax *)
MinLevel(s) == CHOOSE x \in Levels(s) : \A v \in Levels(s) : x <= v
MaxLevel(s) == CHOOSE x \in Levels(s) : \A v \in Levels(s) : x >= v
RPowY(y, x) == IF x >= 0 THEN <<Pow(y, x), 1>> ELSE <<1, Pow(y, -x)>>
MuInBand(s, y, z) == RLeq(RPowY(y, MinLevel(s)), z) /\ RLeq(z, RPowY(y, MaxLevel(s)))

-----------------------------------------------------------------------------
(* T -> 0: ground state filling of nw = N W electrons (a rational) *)
RECURSIVE DegSum(_, _)
DegSum(s, M) == IF M = {} THEN 0 ELSE LET v == CHOOSE u \in M : TRUE IN Deg(s, v) + DegSum(s, M \ {v})
Below(s, x) == DegSum(s, {v \in Levels(s) : v < x})
Fill(s, nw, x) == RMin(RInt(Deg(s, x)), RMax(<<0, 1>>, RSub(nw, RInt(Below(s, x)))))
RECURSIVE FillSum(_, _, _, _)
FillSum(s, nw, m, L) ==
  IF L = {} THEN <<0, 1>>
  ELSE LET x == CHOOSE v \in L : TRUE
       IN RAdd(RScale(IF m = 0 THEN 1 ELSE x, Fill(s, nw, x)), FillSum(s, nw, m, L \ {x}))
GroundEnergy(s, nw) == RDivI(FillSum(s, nw, 1, Levels(s)), WSum(s))
(* highest level holding electrons; lowest level with room *)
Homo(s, nw) == CHOOSE x \in Levels(s) : Fill(s, nw, x)[1] > 0 /\ \A v \in Levels(s) : v > x => Fill(s, nw, v)[1] = 0
Lumo(s, nw) == CHOOSE x \in Levels(s) : RLess(Fill(s, nw, x), RInt(Deg(s, x)))
                                        /\ \A v \in Levels(s) : v < x => Fill(s, nw, v) = RInt(Deg(s, v))
ValidCount(s, nw) == nw[1] > 0 /\ RLess(nw, RInt(Capacity(s)))
(* the variational definition of a ground state and of the filling *)
GroundIsVariational(s, nw) ==
  /\ FillSum(s, nw, 0, Levels(s)) = nw
  /\ \A x \in Levels(s) : Fill(s, nw, x)[1] >= 0 /\ RLeq(Fill(s, nw, x), RInt(Deg(s, x)))
  /\ \A x1, x2 \in Levels(s) :
       (Fill(s, nw, x1)[1] > 0 /\ RLess(Fill(s, nw, x2), RInt(Deg(s, x2)))) => x1 <= x2
  /\ Homo(s, nw) <= Lumo(s, nw)

-----------------------------------------------------------------------------
(* transformations of a system under which the physics is invariant *)
ShiftSys(s, d) == [s EXCEPT !.e = [sp \in 1..NS(s) |-> [k \in 1..NK(s) |-> [b \in 1..NB(s) |-> s.e[sp][k][b] + d]]]]
ZShift(y, z, d) == IF d >= 0 THEN Norm(<<z[1] * Pow(y, d), z[2]>>) ELSE Norm(<<z[1], z[2] * Pow(y, -d)>>)
ScaleW(s, c) == [s EXCEPT !.w = [k \in 1..NK(s) |-> c * s.w[k]]]
(* k-point k of weight >= 2 becomes two k-points of weights 1 and w - 1 *)
SplitK(s, k) == [e |-> [sp \in 1..NS(s) |-> Append(s.e[sp], s.e[sp][k])],
                 w |-> Append([s.w EXCEPT ![k] = 1], s.w[k] - 1)]
RevBands(s) == [s EXCEPT !.e = [sp \in 1..NS(s) |-> [k \in 1..NK(s) |-> [b \in 1..NB(s) |-> s.e[sp][k][NB(s) + 1 - b]]]]]
RevK(s) == [e |-> [sp \in 1..NS(s) |-> [k \in 1..NK(s) |-> s.e[sp][NK(s) + 1 - k]]],
            w |-> [k \in 1..NK(s) |-> s.w[NK(s) + 1 - k]]]
SwapSpin(s) == [s EXCEPT !.e = [sp \in 1..NS(s) |-> s.e[NS(s) + 1 - sp]]]
SpinDup(s) == [s EXCEPT !.e = <<s.e[1], s.e[1]>>]        \* for NS = 1: two identical channels
Splittable(s) == {k \in 1..NK(s) : s.w[k] >= 2}
(* the transformed systems with the same count (scaled by their own W) and energy (up to d N) *)
Transforms(s) ==
  {[kd |-> "shift", d |-> 1, sy |-> ShiftSys(s, 1)], [kd |-> "shift", d |-> -2, sy |-> ShiftSys(s, -2)],
   [kd |-> "scalew", d |-> 0, sy |-> ScaleW(s, 3)], [kd |-> "revbands", d |-> 0, sy |-> RevBands(s)],
   [kd |-> "revk", d |-> 0, sy |-> RevK(s)], [kd |-> "swapspin", d |-> 0, sy |-> SwapSpin(s)]}
  \cup {[kd |-> "split", d |-> 0, sy |-> SplitK(s, k)] : k \in Splittable(s)}
  \cup (IF NS(s) = 1 THEN {[kd |-> "spindup", d |-> 0, sy |-> SpinDup(s)]} ELSE {})

-----------------------------------------------------------------------------
(* IMPLEMENTATION: the array loops *)
Cases == {[sy |-> s, y |-> yy, z |-> Norm(zz)] : s \in Systems, yy \in Ys, zz \in Zs}
Names == {"MachineIsDefinition", "OccBounds", "OccMonotoneLevel", "OccMonotoneMu", "Invariances",
          "EnergyAboveGround", "GroundVariational"}

Init == /\ pc = "row" /\ cs \in Cases /\ ik = 1 /\ rowN = <<>> /\ rowE = <<>>
        /\ outN = <<0, 1>> /\ outE = <<0, 1>> /\ verdict = [n \in Names |-> TRUE]

Row ==   \* occupation(eigvals.reshape(len(w), -1)).sum(axis=1): row k holds all spins and bands of k-point k
  /\ pc = "row"
  /\ LET s == cs.sy
         cells == [i \in 1..(NS(s) * NB(s)) |-> s.e[((i - 1) \div NB(s)) + 1][ik][((i - 1) % NB(s)) + 1]]
     IN /\ rowN' = Append(rowN, QSum([i \in 1..Len(cells) |-> Occ(cs.y, cs.z, cells[i])], 1))
        /\ rowE' = Append(rowE, QSum([i \in 1..Len(cells) |-> RScale(cells[i], Occ(cs.y, cs.z, cells[i]))], 1))
  /\ IF ik < NK(cs.sy) THEN ik' = ik + 1 /\ pc' = "row" ELSE ik' = ik /\ pc' = "dot"
  /\ UNCHANGED <<cs, outN, outE, verdict>>

Dot ==   \* np.dot(rows, weights) * g / weights.sum()
  /\ pc = "dot"
  /\ outN' = RDivI(RScale(G(cs.sy), QSum([k \in 1..NK(cs.sy) |-> RScale(cs.sy.w[k], rowN[k])], 1)), WSum(cs.sy))
  /\ outE' = RDivI(RScale(G(cs.sy), QSum([k \in 1..NK(cs.sy) |-> RScale(cs.sy.w[k], rowE[k])], 1)), WSum(cs.sy))
  /\ pc' = "judge"
  /\ UNCHANGED <<cs, ik, rowN, rowE, verdict>>

Verdict(n) ==
  LET s == cs.sy  y == cs.y  z == cs.z
  IN CASE n = "MachineIsDefinition" -> outN = DefCount(s, y, z) /\ outE = DefEnergy(s, y, z)
       [] n = "OccBounds" -> \A x \in Levels(s) : Occ(y, z, x)[1] > 0 /\ Occ(y, z, x)[1] < Occ(y, z, x)[2]
       [] n = "OccMonotoneLevel" -> \A x1, x2 \in Levels(s) : x1 < x2 => RLess(Occ(y, z, x2), Occ(y, z, x1))
       (* every term of the count grows strictly with mu, hence the count does: the root mu(N) is unique *)
       [] n = "OccMonotoneMu" -> /\ \A x \in Levels(s) : RLess(Occ(y, z, x), Occ(y, <<z[1] + 1, z[2]>>, x))
                                /\ RLess(outN, DefCount(s, y, Norm(<<z[1] + 1, z[2]>>)))
       [] n = "Invariances" ->
            \A t \in Transforms(s) :
               LET z2 == ZShift(y, z, t.d)
               IN /\ DefCount(t.sy, y, z2) = outN
                  /\ DefEnergy(t.sy, y, z2) = RAdd(outE, RScale(t.d, outN))
       (* a thermal state has at least the ground state energy of its own electron count *)
       [] n = "EnergyAboveGround" -> RLeq(GroundEnergy(s, RScale(WSum(s), outN)), outE)
       [] n = "GroundVariational" -> GroundIsVariational(s, RScale(WSum(s), outN))

Judge == /\ pc = "judge"
         /\ verdict' = [n \in Names |-> Verdict(n)]
         /\ pc' = "done"
         /\ UNCHANGED <<cs, ik, rowN, rowE, outN, outE>>

Next == Row \/ Dot \/ Judge
Spec == Init /\ [][Next]_vars

Done == pc = "done"
MachineIsDefinition == Done => verdict["MachineIsDefinition"]
OccBounds == Done => verdict["OccBounds"]
OccMonotoneLevel == Done => verdict["OccMonotoneLevel"]
OccMonotoneMu == Done => verdict["OccMonotoneMu"]
Invariances == Done => verdict["Invariances"]
EnergyAboveGround == Done => verdict["EnergyAboveGround"]
GroundVariational == Done => verdict["GroundVariational"]

Emit == (Done /\ Emitting) =>
          PrintT(ToString(<<"PT", cs, outN, outE, OccTable(cs.sy, cs.y, cs.z), MuInBand(cs.sy, cs.y, cs.z)>>))

-----------------------------------------------------------------------------
(* GROUND-STATE CASES for the temperature series: a system, an electron count nw = N W that fills the levels   *)
(* up to a level completely (insulator-like) or a fraction p/q of it (metal-like), and the transformed systems *)
Fractions == {<<1, 1>>, <<1, 2>>, <<1, 3>>, <<3, 4>>}
Counts(s) == {nw \in {RAdd(RInt(Below(s, x)), RScale(Deg(s, x), fr)) : x \in Levels(s), fr \in Fractions} : ValidCount(s, nw)}
GCases == UNION {{[sy |-> s, nw |-> n] : n \in Counts(s)} : s \in Systems}

GInit == /\ pc = "ground" /\ cs \in GCases /\ ik = 1 /\ rowN = <<>> /\ rowE = <<>>
         /\ outN = <<0, 1>> /\ outE = <<0, 1>> /\ verdict = [n \in Names |-> TRUE]
GJudge == /\ pc = "ground"
          /\ verdict' = [n \in Names |-> IF n = "GroundVariational" THEN GroundIsVariational(cs.sy, cs.nw)
                                          ELSE IF n = "Invariances"
                                            THEN \A t \in Transforms(cs.sy) :
                                                   LET r == WSum(t.sy) \div WSum(cs.sy)      \* W changes under scalew only
                                                       nw2 == RScale(r, cs.nw)
                                                   IN /\ WSum(t.sy) = r * WSum(cs.sy)
                                                      /\ GroundEnergy(t.sy, nw2) = RAdd(GroundEnergy(cs.sy, cs.nw), RDivI(RScale(t.d, cs.nw), WSum(cs.sy)))
                                                      /\ Homo(t.sy, nw2) = Homo(cs.sy, cs.nw) + t.d
                                                      /\ Lumo(t.sy, nw2) = Lumo(cs.sy, cs.nw) + t.d
                                            ELSE TRUE]
          /\ outE' = GroundEnergy(cs.sy, cs.nw)
          /\ pc' = "done"
          /\ UNCHANGED <<cs, ik, rowN, rowE, outN>>
GNext == GJudge
GEmit == (Done /\ Emitting) =>
           PrintT(ToString(<<"GS", cs, outE, Homo(cs.sy, cs.nw), Lumo(cs.sy, cs.nw), Transforms(cs.sy)>>))
=============================================================================
