------------------------------- MODULE QhaSeq -------------------------------
(* Call sequences: several PhonopyQHA / QHA / BulkModulus objects built in   *)
(* one process from the SAME input array objects with different pressures.   *)
(*                                                                           *)
(* Abstract state: what the caller's electronic-energy array contains beyond *)
(* its pristine content, as the coefficient c (GPa) of a term c V u_PV       *)
(* (0 while pristine).  A call with pressure P converts its inputs (a copy,  *)
(* or - for the array kinds in AliasKinds - the caller's array itself) and   *)
(* adds P V u_PV in place; the rows that reach the fit then carry the        *)
(* effective pressure (content of the array it works on) + P.                *)
(* The machine of the current tree copies always (AliasKinds = {}); running  *)
(* the model with AliasKinds # {} shows the accumulation (P = 2 then 5 acts  *)
(* as 7; a later call without pressure no longer sees the pristine energies).*)
(*                                                                           *)
(* Requirement (C20, "applies pressure as +PV", for every call of a          *)
(* sequence):                                                                *)
(*   (i)  the call is equivalent to a call on pristine copies: the effective *)
(*        pressure in its fitted rows is its own pressure, and its returned  *)
(*        tables equal those of the fresh call (o.fresh);                    *)
(*   (ii) the caller's arrays are bit-identical after the call (o.unmod).    *)
EXTENDS QhaJet

CONSTANTS Runs,        \* set of [id, api, shape, kind, pressures |-> seq of [set, v]]
          AliasKinds   \* array kinds for which the constructor works on the caller's array

VARIABLES pc, run, caller, calls
vars == <<pc, run, caller, calls>>

PVal(p) == IF p.set THEN p.v ELSE R0

InitWith(r) == pc = "call" /\ run = r /\ caller = R0 /\ calls = <<>>
Init == \E r \in Runs : InitWith(r)

(* one constructor call: __init__ converts the inputs and adds P V / EVAngstromToGPa in place *)
Call ==
  /\ pc = "call" /\ Len(calls) < Len(run.pressures)
  /\ LET p == run.pressures[Len(calls) + 1]
         aliased == run.kind \in AliasKinds /\ p.set       \* the in-place addition only happens with a pressure
         eff == RAdd(caller, PVal(p))
     IN  /\ calls' = Append(calls, [pv |-> eff, fresh |-> caller = R0, unmod |-> ~(aliased /\ PVal(p) # R0)])
         /\ caller' = IF aliased THEN eff ELSE caller
  /\ UNCHANGED <<pc, run>>

Finish == pc = "call" /\ Len(calls) = Len(run.pressures) /\ pc' = "done" /\ UNCHANGED <<run, caller, calls>>
Next == Call \/ Finish
Spec == Init /\ [][Next]_vars

ReqFreshEquivalent(r, o) ==
  /\ Len(o) = Len(r.pressures)
  /\ \A k \in 1..Len(o) : o[k].pv = PVal(r.pressures[k]) /\ o[k].fresh
ReqInputsUnmodified(r, o) == \A k \in 1..Len(o) : o[k].unmod

AtEnd == pc = "done"
InvFreshEquivalent == AtEnd => ReqFreshEquivalent(run, calls)
InvInputsUnmodified == AtEnd => ReqInputsUnmodified(run, calls)
=============================================================================
