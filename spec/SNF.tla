-------------------------------- MODULE SNF --------------------------------
(* Transcription of phonopy/structure/snf.py (SNF3x3, Xgcd) as a step        *)
(* machine: one action per call of SNF3x3.__next__.                          *)
(*                                                                           *)
(* State: A (the matrix being reduced), P and Q (accumulated unimodular      *)
(* row / column operations, A = P A0 Q throughout), attempt, done.           *)
(* Row phases are pure functions M -> [M', L] with M' = L M (L the product   *)
(* of the elementary matrices applied); a phase run on the transposed matrix *)
(* (the code's `self._A[:] = self._A.T` idiom) is a column phase:            *)
(* A' = A L^T, Q' = Q L^T.                                                   *)
(*                                                                           *)
(* Requirement (C04): terminates, D = P A0 Q diagonal with positive entries, *)
(* det P = 1, |det Q| = 1 - for every non-singular integer A0.               *)
(* Conformance: every intermediate A of the real iterator and the final      *)
(* (P, Q, D) equal the machine's (SNFTrace.tla).                             *)
EXTENDS IntLinAlg

(* 0-based indices of the code -> 1-based here *)
El(M, i, j) == M[i + 1][j + 1]
SetEl(M, i, j, v) == [M EXCEPT ![i + 1][j + 1] = v]

ExactDiv(x, d) == IF d > 0 THEN x \div d ELSE (-x) \div (-d)   \* used only where d divides x
PyFloorDiv(x, d) == IF d > 0 THEN FloorDiv(x, d) ELSE FloorDiv(-x, -d)
Divides(d, x) == x % Abs(d) = 0

(* ---- Xgcd.run : extended Euclid with the remainder convention of _step ------------- *)
RECURSIVE XStep(_, _, _, _, _, _)
XStep(r0, r1, s0, s1, t0, t1) ==
  LET m == r0 % Abs(r1)             \* remainder made non-negative whatever the sign of r1
      q == ExactDiv(r0 - m, r1)
      r2 == m  s2 == s0 - q * s1  t2 == t0 - q * t1
  IN IF r2 = 0 THEN <<r1, s1, t1>> ELSE XStep(r1, r2, s1, s2, t1, t2)
Xgcd(a, b) == XStep(a, b, 1, 0, 0, 1)        \* <<r, s, t>> with r = a s + b t

(* ---- elementary matrices ------------------------------------------------------------------ *)
SwapL(i, j) == SetEl(SetEl(SetEl(SetEl(Id3, i, i, 0), j, j, 0), i, j, 1), j, i, 1)
FlipL(i) == SetEl(Id3, i, i, -1)
DisturbL(i, j) == SetEl(Id3, i, j, 1)
SetZeroL(i, j, a, b, r, s, t) ==
  SetEl(SetEl(SetEl(SetEl(Id3, i, i, s), i, j, t), j, i, PyFloorDiv(-b, r)), j, j, PyFloorDiv(a, r))

(* a row phase result *)
RP(M, L) == [M |-> M, L |-> L]
Then(rp, L) == RP(MatMul(L, rp.M), MatMul(L, rp.L))      \* apply one more elementary matrix

(* ---- _first_column ---------------------------------------------------------------------------- *)
ZeroFirst(rp, j) ==
  IF El(rp.M, j, 0) = 0 THEN rp
  ELSE LET g == Xgcd(El(rp.M, 0, 0), El(rp.M, j, 0))
       IN Then(rp, SetZeroL(0, j, El(rp.M, 0, 0), El(rp.M, j, 0), g[1], g[2], g[3]))

FirstColumn(M) ==
  LET i == IF El(M, 0, 0) # 0 THEN 0 ELSE IF El(M, 1, 0) # 0 THEN 1 ELSE IF El(M, 2, 0) # 0 THEN 2 ELSE -1
      rp0 == IF i > 0 THEN Then(RP(M, Id3), SwapL(0, i)) ELSE RP(M, Id3)
  IN ZeroFirst(ZeroFirst(rp0, 1), 2)
FirstColumnDefined(M) == El(M, 0, 0) # 0 \/ El(M, 1, 0) # 0 \/ El(M, 2, 0) # 0

(* ---- _second_column ---------------------------------------------------------------------------- *)
SecondColumn(M) ==
  LET rp0 == IF El(M, 1, 1) = 0 /\ El(M, 2, 1) # 0 THEN Then(RP(M, Id3), SwapL(1, 2)) ELSE RP(M, Id3)
  IN IF El(rp0.M, 2, 1) = 0 THEN rp0
     ELSE LET g == Xgcd(El(rp0.M, 1, 1), El(rp0.M, 2, 1))
          IN Then(rp0, SetZeroL(1, 2, El(rp0.M, 1, 1), El(rp0.M, 2, 1), g[1], g[2], g[3]))

(* ---- the state record and how phases act on it --------------------------------------------------- *)
St(A, P, Q) == [A |-> A, P |-> P, Q |-> Q]
RowPhase(st, rp) == St(rp.M, MatMul(rp.L, st.P), st.Q)                       \* rp computed from st.A
ColPhase(st, rp) == St(Transpose(rp.M), st.P, MatMul(st.Q, Transpose(rp.L)))  \* rp computed from st.A^T
LeftOp(st, L) == St(MatMul(L, st.A), MatMul(L, st.P), st.Q)
RightOp(st, L) == St(MatMul(st.A, Transpose(L)), st.P, MatMul(st.Q, Transpose(L)))

FirstOneLoop(st) ==
  LET s1 == RowPhase(st, FirstColumn(st.A))
  IN ColPhase(s1, FirstColumn(Transpose(s1.A)))
SecondOneLoop(st) ==
  LET s1 == RowPhase(st, SecondColumn(st.A))
  IN ColPhase(s1, SecondColumn(Transpose(s1.A)))

(* _first / _second : <<ok, state>> *)
First(st) ==
  LET s1 == FirstOneLoop(st)
      A == s1.A
  IN IF El(A, 1, 0) = 0 /\ El(A, 2, 0) = 0 THEN <<TRUE, s1>>
     ELSE IF El(A, 0, 0) # 0 /\ Divides(El(A, 0, 0), El(A, 1, 0)) /\ Divides(El(A, 0, 0), El(A, 2, 0))
          THEN <<TRUE, LeftOp(s1, SetEl(SetEl(Id3, 1, 0, PyFloorDiv(-El(A, 1, 0), El(A, 0, 0))),
                                        2, 0, PyFloorDiv(-El(A, 2, 0), El(A, 0, 0))))>>
          ELSE <<FALSE, s1>>
Second(st) ==
  LET s1 == SecondOneLoop(st)
      A == s1.A
  IN IF El(A, 2, 1) = 0 THEN <<TRUE, s1>>
     ELSE IF El(A, 1, 1) # 0 /\ Divides(El(A, 1, 1), El(A, 2, 1))
          THEN <<TRUE, LeftOp(s1, SetEl(Id3, 2, 1, PyFloorDiv(-El(A, 2, 1), El(A, 1, 1))))>>
          ELSE <<FALSE, s1>>

(* ---- _finalize ------------------------------------------------------------------------------------ *)
FlipNeg(st, i) == IF El(st.A, i, i) < 0 THEN LeftOp(st, FlipL(i)) ELSE st
SwapDiag(st, i, j) == RightOp(LeftOp(st, SwapL(i, j)), SwapL(i, j))
SortStep(st, i, j) == IF El(st.A, i, i) > El(st.A, j, j) THEN SwapDiag(st, i, j) ELSE st
FinalizeSort(st) == SortStep(SortStep(SortStep(st, 0, 1), 1, 2), 0, 1)
FinalizeDisturb(st, i, j) ==
  IF El(st.A, i, i) # 0 /\ ~Divides(El(st.A, i, i), El(st.A, j, j)) THEN RightOp(st, DisturbL(i, j)) ELSE st
SetPQ(st) == IF Det(st.P) < 0 THEN St(st.A, MNeg(st.P), MNeg(st.Q)) ELSE st
Finalize(st) ==
  LET s1 == FlipNeg(FlipNeg(FlipNeg(st, 0), 1), 2)
      s2 == FinalizeDisturb(FinalizeSort(s1), 0, 1)
      s3 == First(s2)[2]
      s4 == FinalizeDisturb(FinalizeSort(s3), 1, 2)
      s5 == Second(s4)[2]
  IN SetPQ(s5)

(* ---- one call of __next__ ------------------------------------------------------------------------- *)
(* returns <<finished, state>>; when finished the state is the finalised one *)
NextCall(st) ==
  LET f == First(st)
  IN IF ~f[1] THEN <<FALSE, f[2]>>
     ELSE LET s == Second(f[2])
          IN IF ~s[1] THEN <<FALSE, s[2]>> ELSE <<TRUE, Finalize(s[2])>>

(* ---- the result contract ------------------------------------------------------------------------------ *)
Contract(A0, st) ==
  /\ MatMul(st.P, MatMul(A0, st.Q)) = st.A
  /\ IsDiagonal(st.A)
  /\ \A i \in I3 : st.A[i][i] > 0
  /\ Det(st.P) = 1
  /\ Abs(Det(st.Q)) = 1
  /\ st.A[1][1] * st.A[2][2] * st.A[3][3] = Abs(Det(A0))
=============================================================================
