---------------------------- MODULE ThermalTrace ----------------------------
(* Conformance of the real thermal-property code with Thermal.tla.           *)
(*                                                                           *)
(* Every event is one configuration (mesh levels, weights, options,          *)
(* temperature list) run on the real code twice (lang = "C" and "Py",        *)
(* harness/props/c10.py) on the DECODING realisation of the levels:          *)
(* level L is the frequency DELTA * 2^MExp[L]; the reported series are       *)
(* decoded by the harness into INTEGER signatures (projection of the real    *)
(* state, DESIGN 4.3):                                                       *)
(*   quantum:   coef[L] = total coefficient of the thermal expression of     *)
(*              level L (least squares over 16 temperatures, rounded, the    *)
(*              rounding residual logged as `exact`), z = constant of F in   *)
(*              units of h DELTA / 2, i.e. SUM c * 2^MExp[lev] over "ZPE";   *)
(*   classical: n = SUM c, m = SUM c * MExp[lev].                            *)
(* TLC then                                                                  *)
(*   - evaluates the requirement of C10 on the LOGGED signatures (Impl*;     *)
(*     a failure is a property violation), and                               *)
(*   - compares them with the step machine's bags for the modelled Variant   *)
(*     (Conforms*; identifies which variant the code is).                    *)
(* The variable req carries ReqRecord(cfg): the replay interprets it with    *)
(* stable closed forms on random realisations and compares with the real     *)
(* code (spec -> code).                                                      *)
EXTENDS Thermal

CONSTANTS Events,    \* set of [cfg |-> configuration (with id), c |-> logged run lang C, py |-> logged run lang Py]
          MExp,      \* level -> exponent of the decoding realisation
          NL         \* number of positive levels

VARIABLES ev, req
tvars == <<vars, ev, req>>

TInit == /\ ev \in Events
         /\ InitWith(ev.cfg)
         /\ req = ReqRecord(ev.cfg)
TNext == Next /\ UNCHANGED <<ev, req>>
TSpec == TInit /\ [][TNext]_tvars

-----------------------------------------------------------------------------
(* integer signature of a bag (component k), mirrored by harness/c10_num.py *)
RECURSIVE Pow2(_)
Pow2(n) == IF n = 0 THEN 1 ELSE 2 * Pow2(n - 1)

Part(B, k, kind) == {u \in B : u.k = k /\ u.kind = kind}
SumC(B) == SetSum({<<t, t.c>> : t \in B})
Sig(B, k, Q, classical) ==
  IF classical
    THEN LET P == Part(B, k, IF Q = "F" THEN "Fcl" ELSE IF Q = "S" THEN "Scl" ELSE "Cvcl")
         IN [coef |-> [L \in 1..NL |-> 0], z |-> 0, n |-> SumC(P),
             m |-> IF Q = "Cv" THEN 0 ELSE SetSum({<<t, t.c * MExp[t.lev]>> : t \in P})]
    ELSE LET P == Part(B, k, IF Q = "F" THEN "Fth" ELSE Q)
         IN [coef |-> [L \in 1..NL |-> SumC({u \in P : u.lev = L})],
             z |-> SetSum({<<t, t.c * Pow2(MExp[t.lev])>> : t \in Part(B, k, "ZPE")}), n |-> 0, m |-> 0]
(* everything in the bag is of a kind the signature accounts for *)
KindsOK(B, Q, classical) ==
  \A t \in B : t.kind \in (IF classical THEN {IF Q = "F" THEN "Fcl" ELSE IF Q = "S" THEN "Scl" ELSE "Cvcl"}
                           ELSE IF Q = "F" THEN {"Fth", "ZPE"} ELSE {Q})
ZOf(B, k) == SetSum({<<t, t.c * Pow2(MExp[t.lev])>> : t \in Part(B, k, "ZPE")})

C == ev.cfg
PosIdx(rows) == {j \in DOMAIN rows : rows[j].t > 0}
ZeroIdx(rows) == {j \in DOMAIN rows : rows[j].t = 0}
TempsOfRows(rows) == [j \in DOMAIN rows |-> rows[j].t]

(* the signatures a row sequence (totals, den = 1 or the sum of the components with den = ed)  *)
(* must show in a logged run r                                                                *)
SigsMatch(rows, r, part) ==
  /\ (PosIdx(rows) # {}) = r.pos.present
  /\ (ZeroIdx(rows) # {}) = r.zero.present
  /\ r.pos.present =>
       LET row == TotalsOf(C, rows)[CHOOSE j \in PosIdx(rows) : TRUE]
           s == [Q \in {"F", "S", "Cv"} |-> Sig(IF Q = "F" THEN row.F ELSE IF Q = "S" THEN row.S ELSE row.Cv, 0, Q, C.classical)]
       IN CASE part = "thermal" -> /\ r.pos.F.coef = s["F"].coef /\ r.pos.F.n = s["F"].n /\ r.pos.F.m = s["F"].m
                                   /\ r.pos.S = s["S"] /\ r.pos.Cv = s["Cv"]
            [] part = "zpe" -> r.pos.F.z = s["F"].z
  /\ (r.zero.present /\ part = "zpe") =>
       LET row == TotalsOf(C, rows)[CHOOSE j \in ZeroIdx(rows) : TRUE]
       IN r.zero.z = ZOf(row.F, 0)

DenOf(r) == IF r.den = 1 THEN 1 ELSE C.ed
(* the required rows (req is ReqRecord(cfg), evaluated once), scaled to the denominator of the logged shape *)
ReqRowsFor(r) ==
  [j \in DOMAIN req.rows |->
     LET q == req.rows[j] IN [t |-> q.t, div |-> q.div, den |-> 1, F |-> Scale(q.F, DenOf(r)), S |-> Scale(q.S, DenOf(r)),
                              Cv |-> Scale(q.Cv, DenOf(r))]]

-----------------------------------------------------------------------------
(* the requirement on the logged runs *)
AtEnd == pc = "done"
Runs == <<ev.c, ev.py>>

ImplNoError(r) == r.status = "ok"
TotalsExact(r) == (r.pos.present => r.pos.exact) /\ (r.zero.present => r.zero.exact) /\ r.zpe.exact
ProjExact(r) == r.proj.status = "ok" => \A k \in DOMAIN r.proj.comps : r.proj.comps[k].exact
ImplExact(r) == r.status = "ok" => TotalsExact(r)
ImplProjExact(r) == r.status = "ok" => ProjExact(r)
ImplFinite(r) == r.status = "ok" => r.finite
ReqT == TempsOfRows(req.rows)
ImplTemps(r) == r.status = "ok" => r.temps = ReqT
ImplTerms(r) == r.status = "ok" /\ r.temps = ReqT => SigsMatch(ReqRowsFor(r), r, "thermal")
ImplZeroPoint(r) == r.status = "ok" /\ r.temps = ReqT => SigsMatch(ReqRowsFor(r), r, "zpe")
ImplZeroT(r) == r.status = "ok" /\ r.zero.present => r.zero.sZero /\ r.zero.cvZero
ImplZpeAttr(r) == r.status = "ok" => r.zpe.z = ZOf(req.zpe, 0)
ImplCounts(r) == r.status = "ok" => r.nmodes = req.nmodes /\ r.nint = req.nint
ImplReportsTotals(r) == r.status = "ok" => r.den = 1
ImplProj(r) ==
  r.status = "ok" =>
    /\ r.proj.status = req.proj.status
    /\ r.proj.status = "ok" =>
         /\ DOMAIN r.proj.comps = 1..NB(C)
         /\ \A k \in 1..NB(C) :
              LET p == r.proj.comps[k] rows == req.proj.rows IN
              /\ (PosIdx(rows) # {}) = p.present
              /\ p.present =>
                   LET row == rows[CHOOSE j \in PosIdx(rows) : TRUE]
                   IN /\ p.F = Sig(row.F, k, "F", C.classical)
                      /\ p.S = Sig(row.S, k, "S", C.classical)
                      /\ p.Cv = Sig(row.Cv, k, "Cv", C.classical)
              /\ (ZeroIdx(rows) # {}) => p.z0 = ZOf(rows[CHOOSE j \in ZeroIdx(rows) : TRUE].F, k)

ImplNoErrorC == AtEnd => ImplNoError(ev.c)
ImplNoErrorPy == AtEnd => ImplNoError(ev.py)
ImplExactC == AtEnd => ImplExact(ev.c)
ImplExactPy == AtEnd => ImplExact(ev.py)
ImplProjExactC == AtEnd => ImplProjExact(ev.c)
ImplProjExactPy == AtEnd => ImplProjExact(ev.py)
ImplFiniteC == AtEnd => ImplFinite(ev.c)
ImplFinitePy == AtEnd => ImplFinite(ev.py)
ImplTempsC == AtEnd => ImplTemps(ev.c)
ImplTempsPy == AtEnd => ImplTemps(ev.py)
ImplTermsC == AtEnd => ImplTerms(ev.c)
ImplTermsPy == AtEnd => ImplTerms(ev.py)
ImplZeroPointC == AtEnd => ImplZeroPoint(ev.c)
ImplZeroPointPy == AtEnd => ImplZeroPoint(ev.py)
ImplZeroTC == AtEnd => ImplZeroT(ev.c)
ImplZeroTPy == AtEnd => ImplZeroT(ev.py)
ImplZpeAttrC == AtEnd => ImplZpeAttr(ev.c)
ImplZpeAttrPy == AtEnd => ImplZpeAttr(ev.py)
ImplCountsC == AtEnd => ImplCounts(ev.c)
ImplCountsPy == AtEnd => ImplCounts(ev.py)
ImplReportsTotalsC == AtEnd => ImplReportsTotals(ev.c)
ImplReportsTotalsPy == AtEnd => ImplReportsTotals(ev.py)
ImplProjC == AtEnd => ImplProj(ev.c)
ImplProjPy == AtEnd => ImplProj(ev.py)
(* the two code paths report the same numbers (signatures scaled to a common denominator) *)
ImplSameBothLanguages ==
  AtEnd /\ ev.c.status = "ok" /\ ev.py.status = "ok" =>
    /\ ev.c.temps = ev.py.temps /\ ev.c.zpe = ev.py.zpe /\ ev.c.nmodes = ev.py.nmodes /\ ev.c.nint = ev.py.nint
    /\ ev.c.den = ev.py.den => ev.c.pos = ev.py.pos /\ ev.c.zero = ev.py.zero

-----------------------------------------------------------------------------
(* conformance with the step machine for the modelled Variant *)
ConformsRun(out, r) ==
  /\ (out.status # "error" /\ proj.status # "error") = (r.status = "ok")
  /\ r.status = "ok" =>
       /\ r.zpe.z = ZOf(zpe, 0) /\ r.nmodes = nmodes /\ r.nint = nint
       /\ out.status = "inexact" => ~TotalsExact(r)
       /\ out.status = "garbage" => ~(TotalsExact(r) /\ r.temps = ReqT /\ SigsMatch(ReqRowsFor(r), r, "thermal"))
       /\ out.status = "ok" =>
            /\ r.temps = TempsOfRows(out.rows)
            /\ r.den = (IF \A j \in DOMAIN out.rows : out.rows[j].den = 1 THEN 1 ELSE 2)
            /\ TotalsExact(r)
            /\ SigsMatch(out.rows, r, "thermal") /\ SigsMatch(out.rows, r, "zpe")
       /\ r.proj.status = (IF proj.status = "inexact" THEN "ok" ELSE proj.status)
       /\ proj.status = "inexact" => ~ProjExact(r)
       /\ proj.status = "ok" => ProjExact(r)
ConformsC == AtEnd => ConformsRun(outC, ev.c)
ConformsPy == AtEnd => ConformsRun(outPy, ev.py)

(* machine invariants on the same inputs (the model of the code meets / misses the requirement) *)
MachineMeetsRequirement ==
  AtEnd => /\ ReqOut(cfg, outC) /\ ReqOut(cfg, outPy) /\ ReqProj(cfg, proj)
           /\ ReqCounts(cfg, nmodes, nint) /\ ReqZpeAttr(cfg, zpe)
=============================================================================
