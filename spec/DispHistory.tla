----------------------------- MODULE DispHistory -----------------------------
(* The displacement dataset of ONE Phonopy object over a call history, and   *)
(* the displaced supercells the object hands out                             *)
(* (Phonopy.generate_displacements / dataset setter / the property           *)
(* supercells_with_displacements with its cache                              *)
(* _supercells_with_displacements).                                          *)
(*                                                                          *)
(* A dataset is a sequence of <<atom, direction, distance id>> (type-1       *)
(* first_atoms projected: displaced atom in the specification's numbering,  *)
(* integer direction in the supercell basis, index of the displacement      *)
(* distance).  A handed-out list of cells is projected the same way from    *)
(* positions(cell_k) - positions(supercell).                                *)
(*                                                                          *)
(* REQUIREMENT (C01, "forces supplied for the displacements phonopy itself  *)
(* generated"): at EVERY point of a session the k-th cell handed out is the *)
(* supercell plus the k-th displacement of the CURRENT dataset              *)
(* (InvHandedOut), whatever was generated, assigned or read before.         *)
EXTENDS Integers, Sequences, TLC

CONSTANTS DataSets,   \* the datasets generate_displacements / an assignment can install
          MaxLen      \* bound on the history length in the model run

VARIABLES ds, cached, cache, handed, read, len
hvars == <<ds, cached, cache, handed, read, len>>

HInit == ds = <<>> /\ cached = FALSE /\ cache = <<>> /\ handed = <<>> /\ read = FALSE /\ len = 0

(* generate_displacements(...) and `ph.dataset = d` both end in the dataset setter, *)
(* which drops the cached cells                                                     *)
Install(d) ==
  /\ ds' = d /\ cached' = FALSE /\ cache' = <<>> /\ handed' = <<>> /\ read' = FALSE /\ len' = len + 1

(* ph.supercells_with_displacements: builds the cells from the dataset unless cached *)
Read ==
  /\ ds # <<>>
  /\ cache' = IF cached THEN cache ELSE ds
  /\ cached' = TRUE
  /\ handed' = IF cached THEN cache ELSE ds
  /\ read' = TRUE
  /\ ds' = ds /\ len' = len + 1

HNext == len < MaxLen /\ ((\E d \in DataSets : Install(d)) \/ Read)
HSpec == HInit /\ [][HNext]_hvars

InvHandedOut == read => handed = ds
InvCache == cached => cache = ds
=============================================================================
