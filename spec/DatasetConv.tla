----------------------------- MODULE DatasetConv -----------------------------
(* C16: the two displacement-force dataset types of phonopy and the          *)
(* conversion type 1 -> type 2 (structure/dataset.py                        *)
(* get_displacements_and_forces, file_IO.parse_FORCE_SETS(to_type2=True)),   *)
(* and the exact container force_constants.hdf5.                            *)
(*                                                                          *)
(* Numbers are TOKENS: a displacement vector or the force array of one      *)
(* supercell is a positive integer (equal arrays <-> equal tokens), 0 is the *)
(* zero vector / "absent".                                                  *)
(*   type 1: natom, sequence of [atom, d, f]   one displaced atom per cell   *)
(*   type 2: disp[i][a] (token per supercell and atom), forces[i]           *)
(* Requirement (lossless): the type-1 dataset can be recovered from the      *)
(* type-2 one - every row has exactly one displaced atom, with its          *)
(* displacement, and the forces of that supercell.                          *)
EXTENDS Integers, Sequences, FiniteSets, TLC

CONSTANTS MaxAtoms, MaxDisps, DTokens, FTokens

VARIABLES pc, t1, t2
vars == <<pc, t1, t2>>

NoForces == <<>>

(* the conversion, from the definition of the two layouts *)
Type1ToType2(x) ==
  LET nd == Len(x.first) IN
  [disp |-> [i \in 1..nd |-> [a \in 1..x.natom |-> IF a = x.first[i].atom THEN x.first[i].d ELSE 0]],
   forces |-> IF \A i \in 1..nd : x.first[i].f = 0 THEN NoForces
              ELSE [i \in 1..nd |-> x.first[i].f]]

Displaced(row) == {a \in 1..Len(row) : row[a] # 0}
IsType1Image(y) == \A i \in 1..Len(y.disp) : Cardinality(Displaced(y.disp[i])) = 1

Type2ToType1(y, natom) ==
  [natom |-> natom,
   first |-> [i \in 1..Len(y.disp) |->
                LET a == CHOOSE a \in Displaced(y.disp[i]) : TRUE IN
                [atom |-> a, d |-> y.disp[i][a], f |-> IF y.forces = NoForces THEN 0 ELSE y.forces[i]]]]

(* complete datasets: every supercell has forces, or none has *)
Complete(x) == (\A i \in 1..Len(x.first) : x.first[i].f # 0) \/ (\A i \in 1..Len(x.first) : x.first[i].f = 0)
Lossless(x, y) == IsType1Image(y) /\ Type2ToType1(y, x.natom) = x
(* the view Phonopy.displacements gives of a type-1 dataset: [atom index (0-based), d] per supercell *)
DisplacementsView(x) == [i \in 1..Len(x.first) |-> <<x.first[i].atom - 1, x.first[i].d>>]

AllType1 ==
  UNION {{[natom |-> n, first |-> s] : s \in [1..nd -> [atom : 1..n, d : DTokens, f : FTokens \cup {0}]]} :
           n \in 1..MaxAtoms, nd \in 1..MaxDisps}

Init == pc = "choose" /\ t1 = [natom |-> 1, first |-> <<>>] /\ t2 = [disp |-> <<>>, forces |-> NoForces]
Choose == pc = "choose" /\ \E x \in AllType1 : t1' = x /\ pc' = "convert" /\ UNCHANGED t2
Convert == pc = "convert" /\ t2' = Type1ToType2(t1) /\ pc' = "done" /\ UNCHANGED t1
Next == Choose \/ Convert
Spec == Init /\ [][Next]_vars

InvLossless == pc = "done" /\ Complete(t1) => Lossless(t1, t2)
InvShape == pc = "done" => Len(t2.disp) = Len(t1.first) /\ \A i \in 1..Len(t2.disp) : Len(t2.disp[i]) = t1.natom
=============================================================================
