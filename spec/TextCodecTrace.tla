-------------------------- MODULE TextCodecTrace --------------------------
(* Conformance of the real writers and readers with TextCodec.tla.          *)
(* Every event is one numeric line of a file written by the real code       *)
(* (phonopy.yaml via Phonopy.save, FORCE_SETS, FORCE_CONSTANTS, BORN):      *)
(*   lk    - the line kind (which field of which file, from the file's      *)
(*           documented grammar / the YAML path of the numbers)             *)
(*   vs    - the numbers handed to the writer, as exact decimals            *)
(*   tg    - the free text of the line (" a" of a lattice row, "1" of "# 1")*)
(*   tx    - the line as it stands in the file                              *)
(*   org   - the file the line stands in (bookkeeping only)                 *)
(*   bk    - what the real reader returned for these numbers                *)
(*           (<<>> when the field is written but never read back, or the    *)
(*           reader rejected the whole file: fs)                            *)
(*   fs    - "ok", or how the real reader failed on the file               *)
(* Impl...: the requirement evaluated on the logged text / logged values.   *)
(* ConformsText: the text is, character by character, what the format of   *)
(* TextCodec.tla renders (for the two repaired rows: the repaired or the    *)
(* pinned variant; which one is recorded with ConformsRepairedText /        *)
(* ConformsPinnedText on a sample line).                                    *)
(* (field names differ from the variable names of TextCodec on purpose: SANY's linter   *)
(* warns about every clash, which is slow for thousands of records)                    *)
EXTENDS TextCodec

CONSTANT Events
VARIABLE ev
tvars == <<vars, ev>>
E == ev

TInit == Init /\ ev \in Events
TChoose ==
  /\ pc = "choose"
  /\ kind' = E.lk /\ vals' = E.vs /\ tag' = E.tg
  /\ pc' = "render" /\ UNCHANGED text
TNext == (TChoose \/ Write) /\ UNCHANGED ev
TSpec == TInit /\ [][TNext]_tvars

AtEnd == pc = "done"
Fmt == Repaired[E.lk]

ImplTokens == AtEnd => TokensOK(Fmt, E.tx)
ImplValues == AtEnd => ValuesOK(Fmt, E.vs, E.tx)
ImplPrecision == AtEnd => PrecisionOK(Fmt, E.tx)
(* the real reader returns the written value rounded to the written decimals *)
ImplBack ==
  AtEnd /\ E.bk # <<>> =>
    LET nums == NumItems(Fmt) IN
    /\ Len(E.bk) = Len(nums)
    /\ \A i \in 1..Len(nums) : E.bk[i].ok /\ Norm(E.bk[i].v) = Norm(RoundTo(E.vs[i], DecimalsOf(nums[i])))

(* the real reader accepted the file this line stands in (logged on the first line of a file) *)
ImplFileRead == AtEnd => E.fs = "ok"

(* a zero that was written is read back as a zero that is THERE (bk[i].ok) *)
ImplZerosKept ==
  AtEnd /\ E.bk # <<>> =>
    LET nums == NumItems(Fmt) IN
    \A i \in 1..Len(nums) : IsZeroAt(E.vs[i], DecimalsOf(nums[i])) => i <= Len(E.bk) /\ E.bk[i].ok /\ E.bk[i].v.m = 0
ImplZerosWritten == AtEnd => ZerosKept(Fmt, E.vs, E.tx)

ConformsRepairedText == AtEnd => E.tx = text
ConformsPinnedText == AtEnd => E.tx = Render(Pinned[E.lk], E.vs, E.tg)
(* the text is what one of the two tables renders (they differ in FS2_row and FC_row only) *)
ConformsText == AtEnd => E.tx = text \/ E.tx = Render(Pinned[E.lk], E.vs, E.tg)
=============================================================================
