----------------------- MODULE RandomDispHistoryTrace -----------------------
(* Conformance of recorded histories on one real RandomDisplacements instance *)
(* (route "class") or on the instance kept by a Phonopy object (route "api":  *)
(* init_random_displacements once, runs through                               *)
(* get_random_displacements_at_temperature, modifications through             *)
(* Phonopy.random_displacements) with RandomDispHistory.tla.                  *)
(* An event is one history: the actions performed and, after every action,    *)
(* the provenance the harness found for the real result (harness/props/c19.py *)
(* history part): for run(T) the covariance A^T A of the linear map extracted *)
(* with unit variates, matched against the canonical covariance of every      *)
(* (eigen-solutions, temperature) of the history - the current one first;     *)
(* [T |-> "?", ...] when it is none of them.                                  *)
(* TLC performs the logged actions on the specification and requires, after   *)
(* every step, the logged provenance to be the required one.                  *)
EXTENDS RandomDispHistory

CONSTANT Events
VARIABLE ev
tvars == <<vars, ev>>

TInit == Init /\ ev \in Events

Step(a) ==
  CASE a.a = "run" -> Run(a.arg)
    [] a.a = "set" -> SetFrequencies(a.arg)
    [] a.a = "treat" -> TreatImaginary
    [] a.a = "corr" -> RunCorrelation(a.arg)
    [] a.a = "d2f" -> RunD2F
    [] OTHER -> FALSE

TNext == /\ Len(hist) < Len(ev.hist)
         /\ Step(ev.hist[Len(hist) + 1])
         /\ UNCHANGED ev

(* the logged actions are the ones performed *)
ConformsHistory == \A k \in 1..Len(hist) : hist[k] = ev.hist[k]
(* requirement on the LOGGED observations, step by step *)
ImplCanonicalAfterAnyHistory ==
  \A k \in 1..Len(hist) : ev.obs[k] = Required(ev.hist[k], EigAfter(ev.hist, k))
(* and they are what the specification's machine yields *)
ConformsObservations == \A k \in 1..Len(hist) : ev.obs[k] = obs[k]
=============================================================================
