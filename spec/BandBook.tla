------------------------------ MODULE BandBook ------------------------------
(* X07(b): book-keeping of phonopy.phonon.band_structure.BandStructure as    *)
(* built by Phonopy.run_band_structure, of the band.yaml it writes and of    *)
(* the reader of phonopy-bandplot (_read_band_yaml + _arrange_band_data).    *)
(*                                                                           *)
(* A case: reciprocal metric (integer adjugate of the direct Gram matrix of  *)
(* the PRIMITIVE cell), segments = arbitrary lists of q-points (numerators   *)
(* over a per-segment denominator, lengths differ), the optional arguments   *)
(* path_connections / labels / is_legacy_plot and the eigenvector, group-    *)
(* velocity, band-connection switches.                                       *)
(*                                                                           *)
(* Requirement (docstrings of BandStructure / run_band_structure /           *)
(* get_band_structure_dict):                                                 *)
(*  B1 path_connections: as given; default = every segment connected to the  *)
(*     next one but the last; not used (None) for the legacy plot;           *)
(*  B2 labels are used iff their number is sum(2 - connection) (legacy:      *)
(*     segments + 1), i.e. one label per special point of the figure where a *)
(*     disconnected joint carries two;                                       *)
(*  B3 distances: running sum of the Cartesian distances |rec . dq| of       *)
(*     neighbouring q-points, "except for end points": starts at 0, the jump *)
(*     between the end of a segment and the start of the next adds nothing;  *)
(*     squared increments are decided exactly (integers), the square roots   *)
(*     and their accumulation are evaluated by the harness (primitive Sqrt); *)
(*  B4 per segment arrays qpoints (n,3) = the input, distances (n,),         *)
(*     frequencies (n,bands), eigenvectors (n,bands,bands) iff requested or  *)
(*     band connection, group velocities (n,bands,3) iff requested; the      *)
(*     deprecated 4-tuple holds the same first four;                         *)
(*  B5 band.yaml: nqpoint = total, npath = segments, segment_nqpoint = the   *)
(*     lengths, one phonon entry per q-point in order with its q-position    *)
(*     and distance, labels = one (start, end) pair per segment taken from   *)
(*     the label list at the positions of rule B2;                           *)
(*  B6 the reader recovers the segments, the label list and the connections  *)
(*     (labels present: whenever the two labels of every disconnected joint  *)
(*     differ - the file has no other mark; no labels: a joint is connected  *)
(*     iff the neighbouring q-points coincide);                              *)
(*  B7 phonopy-bandplot run on the file draws the panels / ticks / tick      *)
(*     labels that follow from B6 (new style and --legacy).                  *)
EXTENDS IntLinAlg

V3(v) == <<v[1], v[2], v[3]>>
None == [has |-> FALSE, v |-> <<>>]
Some(x) == [has |-> TRUE, v |-> x]
RECURSIVE SumTo(_, _)
SumTo(f, n) == IF n = 0 THEN 0 ELSE f[n] + SumTo(f, n - 1)

NSeg(c) == Len(c.segs)
SegN(c) == [s \in 1..NSeg(c) |-> Len(c.segs[s].q)]
DefaultConn(n) == [s \in 1..n |-> s < n]

(* ------------------------------------------------------- requirement ---- *)
ReqConnOut(c) == IF c.args.legacy THEN None
                 ELSE Some(IF c.args.conn.has THEN c.args.conn.v ELSE DefaultConn(NSeg(c)))
(* joints as the figure sees them: the legacy plot is one connected axis *)
EffConn(c) == IF c.args.legacy THEN [s \in 1..NSeg(c) |-> TRUE] ELSE ReqConnOut(c).v
Weight(eff) == [s \in DOMAIN eff |-> IF eff[s] THEN 1 ELSE 2]
NLabelsWanted(c) == IF c.args.legacy THEN NSeg(c) + 1 ELSE SumTo(Weight(EffConn(c)), Len(EffConn(c)))
ReqLabelsOut(c) == IF c.args.labels.has /\ Len(c.args.labels.v) = NLabelsWanted(c) THEN Some(c.args.labels.v) ELSE None
LabelIdx(eff, s) == 1 + SumTo(Weight(eff), s - 1)
ReqPairs(c) == [s \in 1..NSeg(c) |-> <<ReqLabelsOut(c).v[LabelIdx(EffConn(c), s)], ReqLabelsOut(c).v[LabelIdx(EffConn(c), s) + 1]>>]
ReqInc2(c) == [s \in 1..NSeg(c) |-> [j \in 1..Len(c.segs[s].q) |->
                 IF j = 1 THEN 0 ELSE QForm(c.metric, V3(VSub(c.segs[s].q[j], c.segs[s].q[j - 1])))]]
SameQ(sa, sb) == V3(VScale(sb.den, sa.q[Len(sa.q)])) = V3(VScale(sa.den, sb.q[1]))
HasEv(c) == c.args.ev \/ c.args.bc
ReqShape(c, tail) == [s \in 1..NSeg(c) |-> <<Len(c.segs[s].q)>> \o tail]
(* what a plot of the file shows *)
ReaderConn(c) == IF ReqLabelsOut(c).has THEN [s \in 1..NSeg(c) |-> s < NSeg(c) /\ EffConn(c)[s]]
                 ELSE [s \in 1..NSeg(c) |-> s < NSeg(c) /\ SameQ(c.segs[s], c.segs[s + 1])]
Unambiguous(c) == \A s \in 1..(NSeg(c) - 1) : ~ EffConn(c)[s] => ReqPairs(c)[s][2] # ReqPairs(c)[s + 1][1]
WellFormed(c) == (c.args.conn.has /\ ~ c.args.legacy) => (Len(c.args.conn.v) = NSeg(c) /\ ~ c.args.conn.v[NSeg(c)])

(* what phonopy-bandplot draws from the file.  New style: one panel per run of *)
(* segments closed by a disconnected joint, one tick per special point of the *)
(* panel, labelled from the label list in order ("" without labels).  Legacy  *)
(* style: one axis, a tick at every segment boundary; a boundary where two    *)
(* different special points meet shows both as "A|B".                        *)
IdxOf(conn, s) == 1 + SumTo(Weight(conn), s - 1)
RECURSIVE PanelsFrom(_, _, _, _)
PanelsFrom(conn, lab, s, start) ==
  IF s > Len(conn) THEN <<>>
  ELSE IF ~ conn[s]
       THEN <<[k \in 1..(s - start + 2) |-> IF lab.has THEN lab.v[IdxOf(conn, start) + k - 1] ELSE ""]>> \o PanelsFrom(conn, lab, s + 1, s + 1)
       ELSE PanelsFrom(conn, lab, s + 1, start)
ReqScriptPanels(c) == PanelsFrom(ReaderConn(c), ReqLabelsOut(c), 1, 1)
ReqOldTicks(c) ==
  IF ~ ReqLabelsOut(c).has THEN [k \in 1..(NSeg(c) + 1) |-> ""]
  ELSE [k \in 1..(NSeg(c) + 1) |->
          IF k = 1 THEN ReqPairs(c)[1][1]
          ELSE IF k = NSeg(c) + 1 THEN ReqPairs(c)[NSeg(c)][2]
          ELSE IF ReqPairs(c)[k - 1][2] = ReqPairs(c)[k][1] THEN ReqPairs(c)[k][1]
          ELSE ReqPairs(c)[k - 1][2] \o "|" \o ReqPairs(c)[k][1]]

Judge(c, o, n) ==
  CASE n = "Conn" -> o.conn = ReqConnOut(c) /\ o.legacy = c.args.legacy
    [] n = "Labels" -> o.labels = ReqLabelsOut(c)
    [] n = "Increments" -> o.incexact /\ o.inc2 = ReqInc2(c)
    [] n = "Continuity" -> o.d0 /\ \A s \in DOMAIN o.join : o.join[s] = 0
    [] n = "Monotone" -> \A s \in DOMAIN o.sgn : \A j \in DOMAIN o.sgn[s] :
                            s \in DOMAIN o.inc2 /\ j \in DOMAIN o.inc2[s] /\ o.sgn[s][j] = (IF o.inc2[s][j] > 0 THEN 1 ELSE 0)
    [] n = "Accumulated" -> o.acc
    [] n = "Qpoints" -> o.qsame /\ o.shq = ReqShape(c, <<3>>)
    [] n = "Shapes" -> /\ o.shd = ReqShape(c, <<>>) /\ o.shf = ReqShape(c, <<c.nb>>)
                       /\ o.she = (IF HasEv(c) THEN Some(ReqShape(c, <<c.nb, c.nb>>)) ELSE None)
                       /\ o.shg = (IF c.args.gv THEN Some(ReqShape(c, <<c.nb, 3>>)) ELSE None)
    [] n = "Tuple" -> o.tup
    [] n = "YamlCounts" -> /\ o.y.nqpoint = SumTo(SegN(c), NSeg(c)) /\ o.y.npath = NSeg(c) /\ o.y.segn = SegN(c)
                           /\ o.y.nphonon = o.y.nqpoint /\ o.y.natom * 3 = c.nb
    [] n = "YamlLabels" -> o.y.labels = (IF ReqLabelsOut(c).has THEN Some(ReqPairs(c)) ELSE None)
    [] n = "YamlValues" -> o.y.qok /\ o.y.dok /\ o.y.recok /\ o.y.fok
    [] n = "ReaderSegments" -> o.rd.segn = SegN(c) /\ o.rd.dok
    [] n = "ReaderLabels" -> (ReqLabelsOut(c).has /\ Unambiguous(c)) => o.rd.labels = Some(ReqLabelsOut(c).v)
    [] n = "ReaderNoLabels" -> ~ ReqLabelsOut(c).has => o.rd.labels = None
    [] n = "ReaderConn" -> (ReqLabelsOut(c).has => Unambiguous(c)) => o.rd.conn = ReaderConn(c)
    [] n = "ScriptPanels" -> (o.sp.has /\ (ReqLabelsOut(c).has => Unambiguous(c))) => (o.sp.panels = ReqScriptPanels(c) /\ o.sp.pos)
    [] n = "ScriptLegacy" -> o.so.has => (o.so.ticks = ReqOldTicks(c) /\ o.so.pos)
Names == {"Conn", "Labels", "Increments", "Continuity", "Monotone", "Accumulated", "Qpoints", "Shapes", "Tuple",
          "YamlCounts", "YamlLabels", "YamlValues", "ReaderSegments", "ReaderLabels", "ReaderNoLabels", "ReaderConn", "ScriptPanels", "ScriptLegacy"}

(* ------------------------------------------------------------ machine ---- *)
(* one action per step of the code.  code.lastPair: which comparison         *)
(* _arrange_band_data uses for the last label pair ("end": label_pairs[-2][1] *)
(* against label_pairs[-1][1], the pinned tree; "all": always both labels).  *)
CONSTANTS Cases, Codes
VARIABLES pc, cs, code, mconn, mlabels, minc, mpairs, mrd
vars == <<pc, cs, code, mconn, mlabels, minc, mpairs, mrd>>

InitWith(c) ==
        /\ cs = c /\ code \in Codes /\ pc = "args"
        /\ mconn = None /\ mlabels = None /\ minc = <<>> /\ mpairs = None /\ mrd = [labels |-> None, conn |-> <<>>, segn |-> <<>>]
Init == \E c \in Cases : InitWith(c)
(* __init__ *)
StepArgs ==
  /\ pc = "args" /\ pc' = "band"
  /\ IF cs.args.legacy
     THEN /\ mconn' = None
          /\ mlabels' = IF cs.args.labels.has /\ Len(cs.args.labels.v) = Len(cs.segs) + 1 THEN cs.args.labels ELSE None
     ELSE \E pcn \in {IF cs.args.conn.has THEN cs.args.conn.v ELSE [[s \in 1..Len(cs.segs) |-> TRUE] EXCEPT ![Len(cs.segs)] = FALSE]} :
          /\ mconn' = Some(pcn)
          /\ mlabels' = IF cs.args.labels.has /\ Len(cs.args.labels.v) = SumTo([s \in DOMAIN pcn |-> 2 - (IF pcn[s] THEN 1 ELSE 0)], Len(pcn))
                        THEN cs.args.labels ELSE None
  /\ UNCHANGED <<cs, code, minc, mpairs, mrd>>
(* _set_band: per path _set_initial_point(path[0]) then _shift_point(q) for every q *)
RECURSIVE Walk(_, _, _, _)
Walk(metric, q, j, lastq) == IF j > Len(q) THEN <<>> ELSE <<QForm(metric, V3(VSub(q[j], lastq)))>> \o Walk(metric, q, j + 1, q[j])
StepBand ==
  /\ pc = "band" /\ pc' = "yaml"
  /\ minc' = [s \in 1..Len(cs.segs) |-> Walk(cs.metric, cs.segs[s].q, 1, cs.segs[s].q[1])]
  /\ UNCHANGED <<cs, code, mconn, mlabels, mpairs, mrd>>
(* _write_yaml: i = 0; for c in path_connections: pair(i, i+1); i += 1 if c else 2 *)
RECURSIVE PairLoop(_, _, _, _)
PairLoop(lab, conn, s, i) == IF s > Len(conn) THEN <<>>
                             ELSE <<<<lab[i], lab[i + 1]>>>> \o PairLoop(lab, conn, s + 1, IF conn[s] THEN i + 1 ELSE i + 2)
StepYaml ==
  /\ pc = "yaml" /\ pc' = "read"
  /\ mpairs' = IF ~ mlabels.has THEN None
               ELSE IF cs.args.legacy THEN Some([s \in 1..Len(cs.segs) |-> <<mlabels.v[s], mlabels.v[s + 1]>>])
               ELSE Some(PairLoop(mlabels.v, mconn.v, 1, 1))
  /\ UNCHANGED <<cs, code, mconn, mlabels, minc, mrd>>
(* _arrange_band_data *)
RECURSIVE ArrLabels(_, _), ArrConnL(_, _), ArrConnQ(_, _)
ArrLabels(lp, i) == IF i >= Len(lp) THEN <<>>
                    ELSE (IF lp[i][2] # lp[i + 1][1] THEN <<lp[i][1], lp[i][2]>> ELSE <<lp[i][1]>>) \o ArrLabels(lp, i + 1)
ArrConnL(lp, i) == IF i >= Len(lp) THEN <<>> ELSE <<lp[i][2] = lp[i + 1][1]>> \o ArrConnL(lp, i + 1)
ArrConnQ(sg, i) == IF i >= Len(sg) THEN <<>> ELSE <<SameQ(sg[i], sg[i + 1])>> \o ArrConnQ(sg, i + 1)
StepRead ==
  /\ pc = "read" /\ pc' = "done"
  /\ IF mpairs.has
     THEN \E lp \in {mpairs.v} : \E n \in {Len(lp)} :
          mrd' = [segn |-> SegN(cs), conn |-> ArrConnL(lp, 1) \o <<FALSE>>,
                  labels |-> Some(IF n > 1
                                  THEN ArrLabels(lp, 1) \o (IF code.lastPair = "all" \/ lp[n - 1][2] # lp[n][2]
                                                            THEN <<lp[n][1], lp[n][2]>> ELSE <<lp[n][2]>>)
                                  ELSE <<lp[1][1], lp[1][2]>>)]
     ELSE mrd' = [segn |-> SegN(cs), conn |-> ArrConnQ(cs.segs, 1) \o <<FALSE>>, labels |-> None]
  /\ UNCHANGED <<cs, code, mconn, mlabels, minc, mpairs>>
Next == StepArgs \/ StepBand \/ StepYaml \/ StepRead
Done == pc = "done"

(* machine against requirement (model checking over Cases) *)
InvConn == Done => mconn = ReqConnOut(cs)
InvLabels == Done => mlabels = ReqLabelsOut(cs)
InvInc == Done => minc = ReqInc2(cs)
InvPairs == Done => mpairs = (IF ReqLabelsOut(cs).has THEN Some(ReqPairs(cs)) ELSE None)
InvReaderSegments == Done => mrd.segn = SegN(cs)
InvReaderLabels == Done => ((ReqLabelsOut(cs).has /\ Unambiguous(cs)) => mrd.labels = Some(ReqLabelsOut(cs).v))
InvReaderNoLabels == Done => (~ ReqLabelsOut(cs).has => mrd.labels = None)
InvReaderConn == Done => ((ReqLabelsOut(cs).has => Unambiguous(cs)) => mrd.conn = ReaderConn(cs))
(* consequences of the definition *)
InvLabelCount == Done => (ReqLabelsOut(cs).has => LabelIdx(EffConn(cs), NSeg(cs)) + 1 <= Len(ReqLabelsOut(cs).v))
=============================================================================
