------------------------------ MODULE CharTable ------------------------------
(* X04: the data table phonopy/phonon/character_table.py.  For every point-group symbol the file lists one or   *)
(* more variants [rl: class symbols, ct: label -> row of characters, mt: class symbol -> matrices].  The rows    *)
(* are the PHYSICALLY irreducible characters (a pair of complex-conjugate irreps is listed as one row E with    *)
(* their sum), the classes accordingly a conjugacy class merged with the class of the inverses.                  *)
(* One behaviour per (symbol, variant): Judge evaluates, from the definitions,                                    *)
(*   wellformed  - class symbols = keys of the matrix table, rows as long as the class list                      *)
(*   group       - the listed matrices are distinct, contain the identity, are closed under multiplication        *)
(*   type        - they form a point group of the type the key names (numbers of operations of each type, ITA)   *)
(*   classes     - every listed class is closed under conjugation and is one conjugacy class or g-class + g^-1-class *)
(*   complete    - as many rows as classes; sum over rows dim^2 / m = |G|, m = <chi,chi>/|G| in {1, 2}            *)
(*   orthogonal  - rows are pairwise orthogonal (class sizes as listed)                                          *)
(*   linear      - rows of dimension 1 are homomorphisms into {1,-1}; trivial and determinant rows are present   *)
(*   products    - the product of two rows, the vector representation (traces) and the symmetric/antisymmetric    *)
(*                 squares of a row decompose into the rows with non-negative integer multiplicities              *)
EXTENDS PointGroups

CONSTANTS Tables

VARIABLES pc, tb, grp, verdict
vars == <<pc, tb, grp, verdict>>

SetToSeq(T) == LET RECURSIVE F(_)
                   F(R) == IF R = {} THEN <<>> ELSE LET x == CHOOSE x \in R : TRUE IN <<x>> \o F(R \ {x})
               IN F(T)
RECURSIVE SumSeq(_, _)
SumSeq(f, n) == IF n = 0 THEN 0 ELSE f[n] + SumSeq(f, n - 1)

Init == /\ pc = "start"
        /\ tb \in {<<pg, v>> : pg \in DOMAIN Tables, v \in 1..8} /\ tb[2] <= Len(Tables[tb[1]])
        /\ grp = <<>> /\ verdict = <<>>

TV == Tables[tb[1]][tb[2]]
NC == Len(TV.rl)

WellFormed ==
  /\ {TV.rl[c] : c \in 1..NC} = DOMAIN TV.mt
  /\ Cardinality(DOMAIN TV.mt) = NC
  /\ \A l \in DOMAIN TV.ct : Len(TV.ct[l]) = NC
  /\ TV.rl[1] = "E" /\ TV.mt["E"] = {Id3}
GroupOK(all, sizes) ==
  /\ SumSeq(sizes, NC) = Cardinality(all)
  /\ Id3 \in all
  /\ \A a, b \in all : Mat3(MatMul(a, b)) \in all
  /\ \A a \in all : FiniteOrder(a)

(* tables of the group, computed once per behaviour (TLC re-evaluates definitions at every use) *)
Load ==
  /\ pc = "start"
  /\ \E wf \in {WellFormed} :
       IF ~wf THEN grp' = [wf |-> FALSE, gp |-> FALSE]
       ELSE \E all \in {UNION {TV.mt[s] : s \in DOMAIN TV.mt}} :
            \E sizes \in {[c \in 1..NC |-> Cardinality(TV.mt[TV.rl[c]])]} :
            \E gp \in {GroupOK(all, sizes)} :
              IF ~gp THEN grp' = [wf |-> TRUE, gp |-> FALSE]
              ELSE grp' = [wf |-> TRUE, gp |-> TRUE, all |-> all, size |-> sizes, order |-> Cardinality(all),
                           cls |-> Materialize([W \in all |-> CHOOSE c \in 1..NC : W \in TV.mt[TV.rl[c]]]),
                           inv |-> Materialize([W \in all |-> CHOOSE V \in all : Mat3(MatMul(W, V)) = Id3]),
                           members |-> Materialize([c \in 1..NC |-> TV.mt[TV.rl[c]]]),
                           rep |-> Materialize([c \in 1..NC |-> CHOOSE W \in TV.mt[TV.rl[c]] : TRUE]),
                           ct |-> TV.ct, labels |-> SetToSeq(DOMAIN TV.ct)]
  /\ pc' = "loaded"
  /\ UNCHANGED <<tb, verdict>>

Order == grp.order
Conj(g, W) == Mat3(MatMul(g, MatMul(W, grp.inv[g])))
ConjClass(W) == {Conj(g, W) : g \in grp.all}
TypeOK == PGSymbol(grp.all) = tb[1]
ClassesOK ==
  \A c \in 1..NC : \A W \in grp.members[c] :
     \E cc \in {ConjClass(W)} : cc \subseteq grp.members[c] /\ grp.members[c] = cc \cup ConjClass(grp.inv[W])
Inner(f, g) == SumSeq([c \in 1..NC |-> grp.size[c] * f[c] * g[c]], NC)
NL == Len(grp.labels)
Row(k) == grp.ct[grp.labels[k]]
Mult(k) == LET n == Inner(Row(k), Row(k)) IN IF n % Order = 0 THEN n \div Order ELSE 0
CompleteOK ==
  /\ NL = NC
  /\ \A k \in 1..NL : Mult(k) \in {1, 2} /\ Row(k)[1] >= 1 /\ (Mult(k) = 2 => Row(k)[1] % 2 = 0)
  /\ SumSeq([k \in 1..NL |-> (Row(k)[1] * Row(k)[1]) \div Mult(k)], NL) = Order
OrthogonalOK == \A k1, k2 \in 1..NL : k1 # k2 => Inner(Row(k1), Row(k2)) = 0
LinearOK ==
  /\ \A k \in 1..NL : Row(k)[1] = 1 =>
        \A a, b \in grp.all : Row(k)[grp.cls[Mat3(MatMul(a, b))]] = Row(k)[grp.cls[a]] * Row(k)[grp.cls[b]]
  /\ \E k \in 1..NL : \A c \in 1..NC : Row(k)[c] = 1
  /\ \E k \in 1..NL : \A c \in 1..NC : \A W \in grp.members[c] : Row(k)[c] = Det(W)
(* f is a class function given per class; it decomposes with non-negative integer multiplicities and is recovered *)
Decomposes(f, mult) ==
  \E n \in {[k \in 1..NL |-> Inner(f, Row(k))]} :
    /\ \A k \in 1..NL : n[k] >= 0 /\ n[k] % (mult[k] * Order) = 0
    /\ \A c \in 1..NC : SumSeq([k \in 1..NL |-> (n[k] \div (mult[k] * Order)) * Row(k)[c]], NL) = f[c]
ProductsOK ==
  \E mult \in {[k \in 1..NL |-> Mult(k)]} :
  \E sq \in {[c \in 1..NC |-> grp.cls[Mat3(MatMul(grp.rep[c], grp.rep[c]))]]} :
  /\ Decomposes([c \in 1..NC |-> Tr(grp.rep[c])], mult)
  /\ \A c \in 1..NC : \A W \in grp.members[c] : Tr(W) = Tr(grp.rep[c]) /\ grp.cls[Mat3(MatMul(W, W))] = sq[c]
  /\ \A k1, k2 \in 1..NL : k1 <= k2 => Decomposes([c \in 1..NC |-> Row(k1)[c] * Row(k2)[c]], mult)
  /\ \A k \in 1..NL :
       /\ \A c \in 1..NC : (Row(k)[c] * Row(k)[c] + Row(k)[sq[c]]) % 2 = 0
       /\ Decomposes([c \in 1..NC |-> (Row(k)[c] * Row(k)[c] + Row(k)[sq[c]]) \div 2], mult)
       /\ Decomposes([c \in 1..NC |-> (Row(k)[c] * Row(k)[c] - Row(k)[sq[c]]) \div 2], mult)

Judge ==
  /\ pc = "loaded"
  /\ IF ~grp.gp THEN verdict' = [wellformed |-> grp.wf, group |-> FALSE]
     ELSE \E cl \in {ClassesOK} : \E cp \in {cl /\ CompleteOK} : \E og \in {cp /\ OrthogonalOK} :
          verdict' = [wellformed |-> TRUE, group |-> TRUE, type |-> TypeOK, classes |-> cl,
                      complete |-> cl => cp, orthogonal |-> cp => og,
                      linear |-> cp => LinearOK, products |-> og => ProductsOK]
  /\ pc' = "done"
  /\ UNCHANGED <<tb, grp>>
Next == Load \/ Judge

Holds(f) == pc = "done" => (f \in DOMAIN verdict => verdict[f])
TableWellFormed == Holds("wellformed")
TableGroup == Holds("group")
TableType == Holds("type")
TableClasses == Holds("classes")
TableComplete == Holds("complete")
TableOrthogonal == Holds("orthogonal")
TableLinear == Holds("linear")
TableProducts == Holds("products")
Report == pc = "done" => PrintT(ToString(<<"T", tb, {f \in DOMAIN verdict : ~verdict[f]}, IF grp.gp THEN grp.order ELSE 0, NC>>))
(* every one of the 32 types has a table *)
AllTypesListed == \A r \in 1..Len(PGTable) : PGTable[r][1] \in DOMAIN Tables
=============================================================================
