------------------------------ MODULE SNFTrace ------------------------------
(* Trace validation of SNF3x3 against SNF.tla.  One event = one run of the   *)
(* real iterator on a non-singular integer matrix A0:                        *)
(*   steps : the matrix A after every call of __next__ (the last call is the *)
(*           one that finalises and raises StopIteration)                    *)
(*   P,Q,D : the attributes after run()                                      *)
EXTENDS SNF

CONSTANT Events, MaxAttempts
VARIABLES ev, st, attempt, done
tvars == <<ev, st, attempt, done>>

TInit == ev \in Events /\ st = St(ev.A0, Id3, Id3) /\ attempt = 0 /\ done = FALSE

Step ==
  /\ ~done /\ attempt < MaxAttempts
  /\ st' = NextCall(st)[2]
  /\ done' = NextCall(st)[1]
  /\ attempt' = attempt + 1
  /\ UNCHANGED ev

TSpec == TInit /\ [][Step]_tvars

(* the loop invariant of the algorithm: A = P A0 Q with unimodular P, Q at every step *)
InvLoop == /\ MatMul(st.P, MatMul(ev.A0, st.Q)) = st.A
           /\ Abs(Det(st.P)) = 1 /\ Abs(Det(st.Q)) = 1
(* requirement on the machine (design level) and on the recorded result *)
ReqContract == done => Contract(ev.A0, st)
ReqTerminates == attempt = MaxAttempts => done
ImplContract == Contract(ev.A0, St(ev.D, ev.P, ev.Q))
(* conformance: the real iterator takes the machine's steps *)
ConformsStep == attempt >= 1 => attempt <= Len(ev.steps) /\ st.A = ev.steps[attempt]
ConformsEnd == done => attempt = Len(ev.steps) /\ st.P = ev.P /\ st.Q = ev.Q /\ st.A = ev.D
ConformsNotEarly == (~done /\ attempt >= 1) => attempt < Len(ev.steps)
=============================================================================
