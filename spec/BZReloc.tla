------------------------------ MODULE BZReloc ------------------------------
(* X01(c): relocation of q-points into the first Brillouin zone              *)
(* (phonopy/structure/brillouin_zone.py: BrillouinZone,                      *)
(* get_qpoints_in_Brillouin_zone; GridPoints._fit_qpoints_in_BZ).            *)
(*                                                                           *)
(* Exact metric, as in ShortestVectors.tla (whose minimum-image operators    *)
(* are repeated here because that module carries its own variables): a       *)
(* q-point is an integer vector x over the denominator D in the coordinates  *)
(* of a reciprocal lattice with integer Gram matrix G (any positive multiple *)
(* of B^T B); its translates are v = x + D n, n in Z^3, with squared length  *)
(* QForm(G, v).                                                              *)
(*                                                                           *)
(* REQUIREMENT (definition): every returned point is a translate of the      *)
(* input, the returned set contains ALL translates of minimal length (found  *)
(* in a box proved sufficient, BoxSound) and nothing longer than the minimum *)
(* by the documented tolerance 0.01 min|b_i|^2.                              *)
(* MACHINE (transcription): Niggli-reduce, go to reduced coordinates, wrap   *)
(* with rint, scan the 27 neighbours, keep those within the tolerance.       *)
(* Window27Complete is the statement the code relies on without proof: for a *)
(* Niggli-reduced form and a point of the centred unit cell the 27           *)
(* neighbours contain every shortest translate (model cases).                *)
(*                                                                           *)
(* Cases:                                                                    *)
(*  kind "model": [G (Niggli reduced), D, x]                                 *)
(*  kind "impl" : [G, D, x, U, B, out, single, exact]  recorded from the     *)
(*     real code; U = the integer matrix with (reduced basis) = (basis) U    *)
(*     (BrillouinZone._tmat), B the box half-widths, out the returned points *)
(*     (numerators over D), single = TRUE when the API returned one point.   *)
EXTENDS IntLinAlg

CONSTANT Cases
VARIABLES ev, pc, snd, win
bvars == <<ev, pc, snd, win>>

(* ---- Niggli-reduced forms (predicate of ShortestVectors.tla) ------------------------------ *)
Niggli(G) ==
  LET A == G[1][1] B == G[2][2] C == G[3][3]
      xi == 2 * G[2][3] eta == 2 * G[1][3] zeta == 2 * G[1][2]
      typeI == xi > 0 /\ eta > 0 /\ zeta > 0
      typeII == xi <= 0 /\ eta <= 0 /\ zeta <= 0
  IN /\ A > 0 /\ A <= B /\ B <= C
     /\ (A = B => Abs(xi) <= Abs(eta))
     /\ (B = C => Abs(eta) <= Abs(zeta))
     /\ (typeI \/ typeII)
     /\ Abs(xi) <= B /\ Abs(eta) <= A /\ Abs(zeta) <= A
     /\ (typeI => /\ (xi = B => zeta <= 2 * eta)
                  /\ (eta = A => zeta <= 2 * xi)
                  /\ (zeta = A => eta <= 2 * xi))
     /\ (typeII => /\ xi + eta + zeta + A + B >= 0
                   /\ (xi = -B => zeta = 0)
                   /\ (eta = -A => zeta = 0)
                   /\ (zeta = -A => eta = 0)
                   /\ (xi + eta + zeta + A + B = 0 => 2 * (A + eta) + zeta <= 0))
     /\ Det(G) > 0

Images(D, d, B) ==
  {<<d[1] + D * n1, d[2] + D * n2, d[3] + D * n3>> : n1 \in -B[1]..B[1], n2 \in -B[2]..B[2], n3 \in -B[3]..B[3]}
Window27 == {<<i, j, k>> : i \in -1..1, j \in -1..1, k \in -1..1}
WindowImages(D, d) == {<<d[1] + D * n[1], d[2] + D * n[2], d[3] + D * n[3]>> : n \in Window27}
MinLen(G, V) == MinOf({QForm(G, v) : v \in V})
(* no translate outside the box can be as short as L (Cauchy-Schwarz with the dual basis) *)
BoxSound(G, D, d, B, L) ==
  \A i \in I3 : (D * (B[i] + 1) - Abs(d[i])) * (D * (B[i] + 1) - Abs(d[i])) * Det(G) > L * Adj(G)[i][i]

(* the documented tolerance: squared length < minimum + 0.01 min_i |b_i|^2 (b_i the GIVEN basis) *)
MinDiag(G) == MinOf({G[1][1], G[2][2], G[3][3]})
Within(L, l, tolG, D) == 100 * (l - L) < tolG * D * D

(* ---- transcription ----------------------------------------------------------------------------- *)
(* np.rint of a / D: nearest integer, halves to the even one *)
RoundHalfEven(a, D) ==
  LET f == FloorDiv(a, D) r == a - f * D
  IN  IF 2 * r < D THEN f ELSE IF 2 * r > D THEN f + 1 ELSE IF f % 2 = 0 THEN f ELSE f + 1
Wrap(D, p) == [k \in I3 |-> p[k] - D * RoundHalfEven(p[k], D)]

(* squared lengths are computed once per translate (TLC would redo them in every filter) *)
MinTable(G, V, tolG, D) ==
  LET F == Materialize([v \in V |-> QForm(G, v)])
      L == MinOf({F[v] : v \in V})
  IN  [len |-> L, vecs |-> {v \in V : F[v] = L}, tol |-> {v \in V : Within(L, F[v], tolG, D)}]

Gred(e) == MatMul(Transpose(e.U), MatMul(e.G, e.U))
(* reduced coordinates of the input, wrapped *)
PRed(e) == Wrap(e.D, MatVec(UniInv(e.U), e.x))
MachineOut(e) ==
  LET t == MinTable(Gred(e), WindowImages(e.D, PRed(e)), MinDiag(e.G), e.D)
  IN  {MatVec(e.U, v) : v \in t.tol}

Init == ev \in Cases /\ pc = "scan" /\ snd = [len |-> 0, vecs |-> {}, tol |-> {}] /\ win = {}

Scan ==
  /\ pc = "scan"
  /\ snd' = MinTable(ev.G, Images(ev.D, ev.x, IF ev.kind = "model" THEN <<2, 2, 2>> ELSE ev.B),
                     MinDiag(ev.G), ev.D)
  /\ win' = IF ev.kind = "model"
              THEN MinTable(ev.G, WindowImages(ev.D, ev.x), MinDiag(ev.G), ev.D).vecs
              ELSE MachineOut(ev)
  /\ pc' = "done"
  /\ UNCHANGED ev
Next == Scan
AtEnd == pc = "done"

(* ---- machinery soundness ----------------------------------------------------------------------- *)
InvBoxSound ==
  AtEnd => BoxSound(ev.G, ev.D, ev.x, IF ev.kind = "model" THEN <<2, 2, 2>> ELSE ev.B, snd.len)
InvCaseWellFormed ==
  /\ ev.kind = "model" => Niggli(ev.G) /\ \A i \in I3 : 2 * Abs(ev.x[i]) <= ev.D
  /\ ev.kind = "impl" => Unimodular(ev.U) /\ Det(ev.G) > 0 /\ ev.G = Transpose(ev.G)

(* ---- the missing proof, bounded ----------------------------------------------------------------- *)
Window27Complete == (AtEnd /\ ev.kind = "model") => win = snd.vecs

(* ---- requirement on the recorded results ---------------------------------------------------------- *)
SeqSet(s) == {s[i] : i \in 1..Len(s)}
Impl == AtEnd /\ ev.kind = "impl"
ImplExact == Impl => ev.exact
ImplNonEmpty == Impl => Len(ev.out) >= 1
ImplCongruent == Impl => \A v \in SeqSet(ev.out) : \A i \in I3 : (v[i] - ev.x[i]) % ev.D = 0
(* nothing longer than the minimum (up to the documented tolerance) is returned *)
ImplShortest == Impl => SeqSet(ev.out) \subseteq snd.tol
(* where the tolerance does not blur anything the returned points are exactly shortest ones *)
ImplExactlyShortest == (Impl /\ snd.tol = snd.vecs) => SeqSet(ev.out) \subseteq snd.vecs
(* all ties are returned where the API returns sets *)
ImplAllTies == (Impl /\ ~ev.single) => snd.vecs \subseteq SeqSet(ev.out)
ImplNoDup == Impl => Cardinality(SeqSet(ev.out)) = Len(ev.out)

(* ---- conformance ---------------------------------------------------------------------------------- *)
(* spglib.niggli_reduce delivered a Niggli-reduced basis *)
ConformsNiggli == Impl => Niggli(Gred(ev))
ConformsSet == (Impl /\ ~ev.single) => SeqSet(ev.out) = win
ConformsSingle == (Impl /\ ev.single) => ev.out[1] \in win
=============================================================================
