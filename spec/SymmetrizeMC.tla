---------------------------- MODULE SymmetrizeMC ----------------------------
(* Model-checking instances of Symmetrize.tla that need no implementation:  *)
(* abstract systems (np atoms per primitive cell on a torus Z_n1 x Z_n2 x    *)
(* Z_n3 of lattice translations, tensor dimension d) and input spaces that   *)
(* are EXHAUSTIVE for small arrays (all arrays with entries in a range) or   *)
(* COMPLETE BY LINEARITY (every routine is a linear map - its control flow   *)
(* never looks at a value - so a relation between linear maps that holds on  *)
(* a basis holds on every array; the Fixes hypotheses  are spanned by the    *)
(* images of the basis under the orthogonal projector ProjDef).             *)
EXTENDS Symmetrize

(* ---- abstract systems ------------------------------------------------------ *)
NCells(dims) == dims[1] * dims[2] * dims[3]
CellAdd(dims, c, t) ==
  LET c1 == c % dims[1]  c2 == (c \div dims[1]) % dims[2]  c3 == c \div (dims[1] * dims[2])
      t1 == t % dims[1]  t2 == (t \div dims[1]) % dims[2]  t3 == t \div (dims[1] * dims[2])
  IN ((c1 + t1) % dims[1]) + dims[1] * (((c2 + t2) % dims[2]) + dims[2] * ((c3 + t3) % dims[3]))

(* atom p*N + c = primitive atom p in cell c; off[p] = cell of the atom chosen as primitive representative *)
Torus(np, dims, off, d) ==
  LET N == NCells(dims)
  IN [np |-> np, ns |-> np * N, d |-> d,
      perms |-> [t \in 1..N |-> [i \in 1..(np * N) |->
                   ((i - 1) \div N) * N + CellAdd(dims, (i - 1) % N, t - 1)]],
      p2s |-> [p \in 1..np |-> (p - 1) * N + off[p]],
      s2p |-> [i \in 1..(np * N) |-> ((i - 1) \div N) * N + off[((i - 1) \div N) + 1]]]

MCSystems ==
  [k \in {"n1d1", "n1d2", "c2d1", "c2d2", "c3d1", "c3d2", "c4d1", "k4d1", "c4d2", "k4d2",
          "a2c1d2", "a2c2d1", "a2c2d2", "a2c3d2", "a2c4d2", "a2k4d2", "a2c2d3", "a2k4d3", "c8d3", "c8d2", "a3c2d2"} |->
     CASE k = "n1d1" -> Torus(1, <<1, 1, 1>>, <<0>>, 1)
       [] k = "n1d2" -> Torus(1, <<1, 1, 1>>, <<0>>, 2)
       [] k = "c2d1" -> Torus(1, <<2, 1, 1>>, <<0>>, 1)
       [] k = "c2d2" -> Torus(1, <<2, 1, 1>>, <<0>>, 2)
       [] k = "c3d1" -> Torus(1, <<3, 1, 1>>, <<0>>, 1)
       [] k = "c3d2" -> Torus(1, <<3, 1, 1>>, <<1>>, 2)
       [] k = "c4d1" -> Torus(1, <<4, 1, 1>>, <<0>>, 1)
       [] k = "k4d1" -> Torus(1, <<2, 2, 1>>, <<0>>, 1)
       [] k = "c4d2" -> Torus(1, <<4, 1, 1>>, <<0>>, 2)
       [] k = "k4d2" -> Torus(1, <<2, 2, 1>>, <<3>>, 2)
       [] k = "a2c1d2" -> Torus(2, <<1, 1, 1>>, <<0, 0>>, 2)
       [] k = "a2c2d1" -> Torus(2, <<2, 1, 1>>, <<0, 0>>, 1)
       [] k = "a2c2d2" -> Torus(2, <<2, 1, 1>>, <<0, 0>>, 2)
       [] k = "a2c3d2" -> Torus(2, <<3, 1, 1>>, <<0, 2>>, 2)
       [] k = "a2c4d2" -> Torus(2, <<4, 1, 1>>, <<0, 1>>, 2)
       [] k = "a2k4d2" -> Torus(2, <<2, 2, 1>>, <<0, 0>>, 2)
       [] k = "a2c2d3" -> Torus(2, <<2, 1, 1>>, <<0, 1>>, 3)
       [] k = "a2k4d3" -> Torus(2, <<2, 2, 1>>, <<0, 0>>, 3)
       [] k = "c8d3" -> Torus(1, <<2, 2, 2>>, <<0>>, 3)
       [] k = "c8d2" -> Torus(1, <<2, 2, 2>>, <<5>>, 2)
       [] k = "a3c2d2" -> Torus(3, <<2, 1, 1>>, <<0, 1, 0>>, 2)]

(* ---- input spaces ------------------------------------------------------------ *)
MSize(k, compact) ==
  LET s == MCSystems[k] IN (IF compact THEN s.np ELSE s.ns) * s.ns * s.d * s.d

AllArrs(M, R) == {[den |-> 1, a |-> f, ok |-> TRUE] : f \in [1..M -> R]}
Unit(M, p, v) == [den |-> 1, a |-> [m \in 1..M |-> IF m = p THEN v ELSE 0], ok |-> TRUE]
Basis(M) == {Unit(M, p, 1) : p \in 1..M}
(* a few dense arrays so that sums of basis vectors are exercised too *)
Dense(M) == {[den |-> 1, a |-> [m \in 1..M |-> ((m * m * c + 3 * m + c) % 5) - 2], ok |-> TRUE] : c \in 1..3}

Mk(k, route, level, x, prep) == [sys |-> k, route |-> route, level |-> level, x |-> x, prep |-> prep, sym |-> prep \in {"proj", "projc"}]

FullCases(k, xs, levels) ==
  {Mk(k, r, lv, x, "raw") : r \in {"full", "py"}, lv \in levels, x \in xs} \cup {Mk(k, "tocompact", 1, x, "raw") : x \in xs}
(* inputs obeying the invariances: images of xs under the orthogonal projector *)
FullSymCases(k, xs, levels) == {Mk(k, r, lv, x, "proj") : r \in {"full", "py"}, lv \in levels, x \in xs}
CompactCases(k, xs, levels) ==
  {Mk(k, "compact", lv, x, "raw") : lv \in levels, x \in xs}
  \cup {Mk(k, r, 1, x, "raw") : r \in {"transpose", "drift", "expand"}, x \in xs}
CompactSymCases(k, xs, levels) == {Mk(k, "compact", lv, x, "projc") : lv \in levels, x \in xs}
(* full-layout inputs that are periodic: expansions of compact arrays xs *)
PeriodicFullCases(k, xs, levels) ==
  {Mk(k, r, lv, x, "fullof") : r \in {"full", "py"}, lv \in levels, x \in xs} \cup {Mk(k, "tocompact", 1, x, "fullof") : x \in xs}

(* (dummy parameter z: TLC evaluates zero-arity constant definitions eagerly at start-up) *)
(* exhaustive over all arrays with entries in a range (1-D tensors, and 2-D on the 2-cell chain) *)
CasesExhaustive(z) ==
       FullCases("c2d1", AllArrs(4, -2..2), 1..3)
  \cup CompactCases("c2d1", AllArrs(2, -2..2), 1..3)
  \cup CompactCases("c4d1", AllArrs(4, -2..2), 1..2)
  \cup CompactCases("k4d1", AllArrs(4, -2..2), 1..2)
  \cup PeriodicFullCases("c4d1", AllArrs(4, -1..1), {1})
  \cup PeriodicFullCases("k4d1", AllArrs(4, -1..1), {1})
  \cup {Mk("c2d2", r, 1, x, "raw") : r \in {"compact", "transpose"}, x \in AllArrs(8, -1..1)}
  \cup CompactCases("a2c2d1", AllArrs(8, 0..1), {1})
  \cup FullCases("n1d2", AllArrs(4, -2..2), 1..2)
  \cup CompactCases("n1d2", AllArrs(4, -2..2), 1..2)

(* complete by linearity: basis + projected basis + dense arrays, every system *)
LinSystems == DOMAIN MCSystems
(* levels: a round divides by ns twice and by 2; a transcription that does not reach a     *)
(* fixed point (variant "pinned", even multiplicity) multiplies the denominator by 2 ns^2  *)
(* per round, and Idempotent runs the routine twice: keep within TLC's 32-bit integers     *)
LevelsOf(k) == IF MCSystems[k].ns <= 2 THEN 1..3 ELSE IF MCSystems[k].ns <= 4 THEN 1..2 ELSE {1}
(* big systems (more than 150 array positions): every 5th basis vector; their complete      *)
(* bases are covered by the 2-D versions of the same systems (the routines treat the        *)
(* component pairs {(k,l), (l,k)} independently of one another)                            *)
BasisOf(M) == IF M <= 150 THEN Basis(M) ELSE {Unit(M, p, 1) : p \in {q \in 1..M : q % 5 = 1}}
CasesLinearOf(k) ==
  LET bf == BasisOf(MSize(k, FALSE)) \cup Dense(MSize(k, FALSE))
      bc == BasisOf(MSize(k, TRUE)) \cup Dense(MSize(k, TRUE))
  IN FullCases(k, bf, LevelsOf(k) \cap (1..2)) \cup FullSymCases(k, bf, {1, 3})
     \cup CompactCases(k, bc, LevelsOf(k)) \cup CompactSymCases(k, bc, {1, 3})
     \cup PeriodicFullCases(k, bc, {1})
CasesLinear(z) == UNION {CasesLinearOf(k) : k \in LinSystems}
SmallLin == {"n1d1", "c2d2", "c3d2", "k4d2", "a2c2d2", "a2c3d2", "a2c2d3", "a3c2d2"}
CasesLinearSmall(z) == UNION {CasesLinearOf(k) : k \in SmallLin}


(* quick tier: a small mixture of the above *)
CasesQuick(z) ==
       FullCases("c2d1", AllArrs(4, -1..1), {1})
  \cup CompactCases("c2d1", AllArrs(2, -2..2), 1..3)
  \cup CompactCases("c4d1", AllArrs(4, -1..1), {1})
  \cup CompactCases("c2d2", Basis(8) \cup Dense(8), 1..2)
  \cup CompactSymCases("c2d2", Basis(8) \cup Dense(8), {1, 3})
  \cup FullCases("c2d2", Basis(16) \cup Dense(16), {1})
  \cup FullSymCases("c2d2", Dense(16), {1, 3})
  \cup PeriodicFullCases("c2d2", Basis(8), {1})
  \cup CompactCases("a2c2d2", Basis(32) \cup Dense(32), 1..2)
  \cup CompactSymCases("a2c2d2", Basis(32) \cup Dense(32), {1})
  \cup PeriodicFullCases("a2c2d2", Dense(32), {1})
  \cup FullCases("a2c2d2", Dense(64), {1, 2})
  \cup FullSymCases("a2c2d2", Dense(64), {2})
  \cup CompactCases("k4d2", Basis(16) \cup Dense(16), {1})
  \cup CompactCases("a2c3d2", Dense(48), {1})
  \cup CompactCases("a2c2d3", Dense(72), {1})
  \cup CompactCases("n1d2", Dense(4), {1})
=============================================================================
