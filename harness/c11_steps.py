"""C11 steps C (mesh model), D (mesh traces), E (API sessions)."""
from __future__ import annotations

import os

import numpy as np

from harness import bootstrap  # noqa: F401
from harness import tlc as tlcmod
from harness import c11_mesh as M
from harness.tla_values import to_tla

WORKERS = int(os.environ.get("C11_WORKERS", "8"))

MC_MESH = """---- MODULE MC_TetraMesh ----
EXTENDS TetraMesh
MCCases == {%s}
MCFns == {"I", "J"}
====
"""
CFG_MESH = """INIT Init2
NEXT MNext
CONSTANTS
 Values = {}
 Omegas = {}
 Fns <- MCFns
 TieRule = "closed"
 Cases <- MCCases
CHECK_DEADLOCK FALSE
INVARIANT MTypeOK
INVARIANT InvWellFormed
INVARIANT InvStarGeometry
INVARIANT InvTableContract
INVARIANT InvLookup
INVARIANT InvGpWeights
INVARIANT InvDos
INVARIANT InvNormalised
INVARIANT InvNonNegative
INVARIANT InvAdditive
INVARIANT InvCellwise
INVARIANT InvPointwise
"""
MESH_ACTIONS = ["ChooseCase", "RelativeGridAddress", "NeighbourLookup", "Tabulate", "Integrate", "Accumulate"]

MESHES_SMALL = [[2, 2, 1], [3, 2, 1], [1, 2, 2], [2, 1, 3], [2, 2, 2], [3, 1, 1], [1, 1, 1]]


ORDERS = ["ascending", "descending", "shuffled", "repeated"]


def reorder(ws, i, rng):
    """the frequency list in one of the orders the property quantifies over"""
    kind = ORDERS[i % 4]
    ws = sorted(ws)
    if kind == "descending":
        return ws[::-1]
    if kind == "shuffled":
        out = [ws[j] for j in rng.permutation(len(ws))]
        return out if out != ws else ws[1:] + ws[:1]
    if kind == "repeated":  # highest first, lowest twice, not monotone
        return [ws[-1], ws[0]] + ws[1:-1] + [ws[0]]
    return ws


def model_cases(ctx):
    rng = np.random.default_rng(1000 + ctx.seed)
    cases = []
    n = 10 if ctx.quick else 120
    for i in range(n):
        mesh = MESHES_SMALL[i % len(MESHES_SMALL)]
        G = M.GRAMS[int(rng.integers(len(M.GRAMS)))]
        case, _ = M.make_case(rng, mesh, G, "inversion" if i % 3 == 1 else "identity",
                              ["spglib", "canonical", "shifted"][i % 3], nb=1 + (i % 2), ncoef=3,
                              vals=[0, 2, 4] if i % 4 else [0, 2], ws=[1, 2, 5] if i % 2 else [0, 3, 4])
        case["diag"] = i % 4  # every division is a legal one for the model
        case["ws"] = reorder(case["ws"], i, rng)
        cases.append(case)
    if not ctx.quick:
        # every two-level field on the 2x2x1 mesh, every main diagonal
        import itertools
        for d in range(4):
            for f in itertools.product([0, 2], repeat=4):
                case, _ = M.make_case(rng, [2, 2, 1], M.GRAMS[0], "identity", "spglib", nb=1, ncoef=3, vals=[0, 2],
                                      ws=[-1, 0, 1, 2, 3])
                case["irvals"] = [list(f)]
                case["diag"] = d
                cases.append(case)
    return cases


def step_c(ctx):
    cases = model_cases(ctx)
    mc = MC_MESH % ",\n".join(to_tla(c) for c in cases)
    res = ctx.tlc("MC_TetraMesh", cfg_text=CFG_MESH, extra_files={"MC_TetraMesh.tla": mc}, coverage=not ctx.quick,
                  workers=WORKERS, timeout=2400, what="mesh model: grid-point weights vs cell-wise definition")
    if res.violated:
        return
    if not ctx.quick:
        missing = [a for a in MESH_ACTIONS if res.coverage.get(a, (0, 0))[1] == 0]
        if missing:
            raise tlcmod.MachineryError("TetraMesh: actions never taken: %s" % missing)
        ctx.extra.setdefault("coverage", {})["TetraMesh"] = {a: res.coverage.get(a, (0, 0))[1] for a in MESH_ACTIONS}
    # the machine is a chain of six steps per case: depth 7 and 1 + 6 x cases states mean every action fired for every case
    if res.depth != 7 or res.distinct != 1 + 6 * len(cases):
        raise tlcmod.MachineryError("TetraMesh: %d states, depth %d for %d cases" % (res.distinct, res.depth, len(cases)))
    ctx.extra.setdefault("coverage", {})["TetraMesh(states)"] = dict(cases=len(cases), states=res.distinct, depth=res.depth)
    for c in cases:
        ctx.count(("meshmodel", tuple(c["mesh"]), c["diag"], tuple(c["map"]), str(c["irvals"]), tuple(c["ws"])))
    ctx.extra["C_model_cases"] = len(cases)


MC_MTR = """---- MODULE MC_TetraMeshTrace ----
EXTENDS TetraMeshTrace
MCEvents == {%s}
MCFns == {"I", "J"}
====
"""
CFG_MTR = """INIT MTInit
NEXT MTNext
CONSTANTS
 Values = {}
 Omegas = {}
 Fns <- MCFns
 TieRule = "closed"
 Cases = {}
 MEvents <- MCEvents
CHECK_DEADLOCK FALSE
INVARIANT ImplExact
INVARIANT ImplWellFormed
INVARIANT ImplTableContractC
INVARIANT ImplTableContractPy
INVARIANT ImplLookupC
INVARIANT ImplLookupPy
INVARIANT ImplGpWeightsC
INVARIANT ImplGpWeightsPy
INVARIANT ImplNormalisedC
INVARIANT ImplNormalisedPy
INVARIANT ImplCellwiseC
INVARIANT ImplDosKernel
INVARIANT ImplDosKernelNonNegative
INVARIANT ImplDosKernelAdditive
INVARIANT ImplShortestDiagonalC
INVARIANT ImplShortestDiagonalPy
INVARIANT ImplShortestDiagonalTotalDos
INVARIANT ImplShortestDiagonalProjectedDos
INVARIANT ImplSameDivision
INVARIANT ImplDosClasses
INVARIANT ImplDosClassesAdditive
INVARIANT ImplDosClassesNonNegative
INVARIANT ConformsDiffersFlag
INVARIANT ImplAscIsOrder
INVARIANT ImplPointwiseKernel
INVARIANT ImplOrderIndependentKernel
INVARIANT ImplOrderIndependentMeshC
INVARIANT ImplOrderIndependentMeshPy
INVARIANT ConformsShortestDiagonal
INVARIANT ConformsTablePy
INVARIANT ConformsLookupPy
INVARIANT ConformsWeights
INVARIANT ConformsDosKernel
"""


def trace_cases(ctx):
    """(case, metric, G, cls): meshes x lattices x mapping (identity / inversion pairs) x address style; the
    frequency lists lie inside the spectrum, off the grid values ("offtie") or on them ("tie")"""
    rng = np.random.default_rng(2000 + ctx.seed)
    out = []
    n = 8 if ctx.quick else 96
    plan = [([3, 2, 1], "inversion"), ([4, 1, 1], "inversion"), ([2, 2, 1], "identity"), ([2, 2, 2], "identity"),
            ([1, 2, 3], "inversion"), ([3, 1, 2], "identity"), ([3, 2, 1], "identity"), ([2, 1, 3], "inversion"),
            ([3, 3, 1], "inversion"), ([2, 3, 2], "identity"), ([5, 1, 1], "inversion"), ([1, 4, 2], "inversion")]
    for i in range(n):
        mesh, mapkind = plan[i % len(plan)]
        G = M.GRAMS[(i + ctx.seed) % len(M.GRAMS)]
        vals = [0, 2, 4] if i % 3 else [0, 2, 4, 6]
        want = "offtie" if i % 2 == 0 else "tie"
        ws = [1, 3, 7] if want == "offtie" else [2, 4, 7]
        if i % 4 == 2:
            ws = [-1, 1, 3]
        for _ in range(20):
            case, metric = M.make_case(rng, mesh, G, mapkind, ["spglib", "canonical", "shifted"][(i // 2) % 3],
                                       nb=2, ncoef=3, vals=vals, ws=ws)
            allv = set(x for b in case["irvals"] for x in b)
            cls = "tie" if any(w in allv for w in case["ws"]) else "offtie"
            if cls == want and len(allv) > 1:
                break
        case["ws"] = reorder(case["ws"], i // 2 + 1, rng)   # both classes see every order
        out.append((case, metric, G, cls))
    return out


def step_d(ctx):
    rng = np.random.default_rng(3000 + ctx.seed)
    events = []
    diags = set()
    for case, metric, G, cls in trace_cases(ctx):
        ev = M.run_real(case, G, rng)
        ev["metric"] = metric
        ev["metric0"] = M.microzone_metric(G, [1, 1, 1])
        ev["differs"] = not (set(M.shortest_diags(metric)) & set(M.shortest_diags(ev["metric0"])))
        ev["cls"] = cls
        events.append(ev)
        diags.add(tuple(M.shortest_diags(metric)))
        ctx.count(("meshtrace", tuple(case["mesh"]), str(G), tuple(case["map"]), str(case["irvals"]), tuple(case["ws"])))
    # no vacuity: densities are non-zero, also in an event whose mapping merges grid points
    # (judged on the INPUT, not on what the code returned: a frequency strictly inside the range of a
    # band of the continuous periodic interpolant has positive density)
    def nonzero(e):
        return any(min(b) < w < max(b) for b in e["cs"]["irvals"] for w in e["cs"]["ws"])
    if not any(nonzero(e) and e["cs"]["map"] != list(range(len(e["cs"]["map"]))) for e in events if e["cls"] == "offtie"):
        raise tlcmod.MachineryError("mesh traces: no off-tie event with merged grid points and non-zero density")
    # no vacuity: a frequency list that is not ascending and has a point inside the spectrum after a point above it
    def unsorted_inside(e):
        ws, top = e["cs"]["ws"], max(x for b in e["cs"]["irvals"] for x in b)
        return any(ws[j] > top and any(w < top for w in ws[j + 1:]) for j in range(len(ws))) and nonzero(e)
    if not any(unsorted_inside(e) for e in events):
        raise tlcmod.MachineryError("mesh traces: no event with a non-ascending frequency list reaching above the spectrum")
    ctx.extra["D_frequency_orders"] = sorted(set(
        "ascending" if e["cs"]["ws"] == sorted(e["cs"]["ws"]) else
        "descending" if e["cs"]["ws"] == sorted(e["cs"]["ws"], reverse=True) else "shuffled/repeated" for e in events))
    # no vacuity: lattices x anisotropic meshes for which dividing the reciprocal vectors by the mesh numbers
    # changes the shortest main diagonal, with non-zero densities, in both classes together
    ndiff = sum(1 for e in events if e["differs"] and nonzero(e))
    if ndiff < 2:
        raise tlcmod.MachineryError("mesh traces: only %d events where the mesh changes the shortest diagonal" % ndiff)
    ctx.extra["D_events_mesh_changes_diagonal"] = ndiff
    from harness.props.c11 import report

    def describe(e, st):
        cs = e.get("cs", {}) if isinstance(e, dict) else {}
        return dict(mesh=cs.get("mesh"), map=cs.get("map"), addr=cs.get("addr"), irvals=cs.get("irvals"),
                    ws=cs.get("ws"), coef=cs.get("coef"), metric=e.get("metric") if isinstance(e, dict) else None,
                    diag=(st.get("cs") or {}).get("diag"), at=st.get("mpc"))

    # one TLC run per event class: the class of a violation is then known from the run itself
    for cls in ("offtie", "tie"):
        evs = [e for e in events if e["cls"] == cls]
        if not evs:
            continue
        mc = MC_MTR % ",\n".join(to_tla(e) for e in evs)
        res = ctx.tlc("MC_TetraMeshTrace", cfg_text=CFG_MTR, extra_files={"MC_TetraMeshTrace.tla": mc},
                      requirement=False, extra_args=("-continue",), workers=WORKERS, timeout=2400)
        report(ctx, res, "mesh", cls, describe, "mev")
    tables_check(ctx)
    ctx.traces += len(events)
    ctx.extra["D_mesh_events"] = len(events)
    ctx.extra["D_shortest_diagonals_seen"] = sorted(diags)
    ctx.sample(dict(step="D", mesh=events[0]["cs"]["mesh"], irvals=events[0]["cs"]["irvals"], ws=events[0]["cs"]["ws"],
                    dosK=events[0]["dosK"]["I"][0]))


MC_TAB = """---- MODULE MC_TetraTables ----
EXTENDS TetraMesh
TabC == %s
TabPy == %s
(* (state-level on purpose: TLC reports a false constant-level invariant as an error, not as a violation) *)
ImplAllTablesC == (mpc = "choose") => \\A d \\in 0..3 : TableContract(TabC[d + 1], d)
ImplAllTablesPy == (mpc = "choose") => \\A d \\in 0..3 : TableContract(TabPy[d + 1], d)
ConformsAllTablesPy == (mpc = "choose") => \\A d \\in 0..3 : TabPy[d + 1] = BuildTable(d)
InvBuildTable == \\A d \\in 0..3 : TableContract(BuildTable(d), d)
====
"""
CFG_TAB = """INIT Init2
NEXT MNext
CONSTANTS
 Values = {}
 Omegas = {}
 Fns = {}
 TieRule = "closed"
 Cases = {}
CHECK_DEADLOCK FALSE
INVARIANT InvStarGeometry
INVARIANT InvBuildTable
INVARIANT ImplAllTablesC
INVARIANT ImplAllTablesPy
INVARIANT ConformsAllTablesPy
"""


def tables_check(ctx):
    """all four tables of both implementations against the geometric contract"""
    from phonopy.structure.tetrahedron_method import (get_all_tetrahedra_relative_grid_address,
                                                     _get_relative_grid_addresses_from_main_diagonal)
    allc = get_all_tetrahedra_relative_grid_address()
    tab_c = [M.table_rows(allc[d], [0] * 24) for d in range(4)]
    tab_py = []
    for d in range(4):
        rel, ci = _get_relative_grid_addresses_from_main_diagonal(d)
        tab_py.append(M.table_rows(rel, ci))
    mc = MC_TAB % (to_tla(tab_c), to_tla(tab_py))
    res = ctx.tlc("MC_TetraTables", cfg_text=CFG_TAB, extra_files={"MC_TetraTables.tla": mc}, requirement=False,
                  extra_args=("-continue",), workers=1, timeout=600)
    names = sorted(set(n for n, _ in res.violations)) or ([res.violated] if res.violated else [])
    for n in names:
        if n.startswith("Conforms"):
            ctx.extra.setdefault("conformance_failures", []).append("tables:" + n)
            print("SPEC-DRIFT C11 tables: %s" % n)
        else:
            ctx.violation("tables:" + n, "relative grid address tables violate the contract %s" % n,
                          dict(invariant=n, tables_c=tab_c if "C" in n else None, tables_py=tab_py if "Py" in n else None))
    ctx.count(("tables", "all four diagonals", "C and Py"))
    ctx.traces += 8


def step_e(ctx):
    from harness import c11_api
    c11_api.run(ctx)
