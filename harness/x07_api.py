"""X07(c): replay of the API histories TLC enumerates (spec/BandApi.tla) on a real Phonopy object, and the observation
after every step in the vocabulary of the specification.  Labels are handed over as "L1".."Lk" (the specification's 1..k)."""
from __future__ import annotations

import os
import warnings

import numpy as np

H = 0.5
SEGS = {
    "A": [np.linspace([0, 0, 0], [H, 0, 0], 3), np.linspace([H, 0, 0], [H, H, 0], 5)],
    "B": [np.linspace([0, 0, 0], [0, 0, H], 4)],
    "C": [np.linspace([0, 0, 0], [H, 0, 0], 2), np.linspace([H, 0, 0], [H, H, 0], 2), np.linspace([0, 0, H], [0, 0, 0], 2)],
    "D": [np.linspace([0, 0, 0], [H, 0, 0], 3), np.linspace([H, H, H], [0, 0, 0], 3)],
}
GIVEN = {"A": [True, False], "B": [False], "C": [True, False, False], "D": [False, False]}


def lab_id(s):
    s = str(s)
    if s == "":
        return 0
    if s.startswith("L") and s[1:].isdigit():
        return int(s[1:])
    return -1


def n_given(cfg):
    nseg = len(SEGS[cfg["segs"]])
    conn = GIVEN[cfg["segs"]] if cfg["conn"] == "given" else [True] * (nseg - 1) + [False]
    want = nseg + 1 if cfg["legacy"] else sum(1 if c else 2 for c in conn)
    return {"none": None, "ok": want, "more": want + 1, "less": want - 1}[cfg["lab"]]


def do_run(ph, cfg):
    kw = {}
    if cfg["conn"] == "given":
        kw["path_connections"] = list(GIVEN[cfg["segs"]])
    k = n_given(cfg)       # how many labels the specification's history hands over (NGiven)
    if k is not None:
        kw["labels"] = ["L%d" % (i + 1) for i in range(k)]
    ph.run_band_structure([q.copy() for q in SEGS[cfg["segs"]]], with_eigenvectors=cfg["ev"], with_group_velocities=cfg["gv"],
                          is_band_connection=cfg["bc"], is_legacy_plot=cfg["legacy"], **kw)


def shapes_ok(q, d, f, e, g, nb):
    for s in range(len(d)):
        n = len(d[s])
        if np.shape(q[s]) != (n, 3) or np.shape(d[s]) != (n,) or np.shape(f[s]) != (n, nb):
            return False
        if e is not None and np.shape(e[s]) != (n, nb, nb):
            return False
        if g is not None and np.shape(g[s]) != (n, nb, 3):
            return False
    return len(q) == len(d) == len(f) and (e is None or len(e) == len(d)) and (g is None or len(g) == len(d))


def observe(ph, w, op, tmpdir, tag):
    import yaml

    name = op["op"]
    if name == "setfc":
        ph.force_constants = w.fc.copy()
        return dict(kind="ok")
    if name == "run":
        do_run(ph, op["cfg"])
        return dict(kind="ok")
    if name == "dict":
        d = ph.get_band_structure_dict()
        if sorted(d) != ["distances", "eigenvectors", "frequencies", "group_velocities", "qpoints"] or \
                not shapes_ok(d["qpoints"], d["distances"], d["frequencies"], d["eigenvectors"], d["group_velocities"], w.nb):
            return dict(kind="dict-badshape")
        return dict(kind="dict", segn=[len(x) for x in d["distances"]], ev=d["eigenvectors"] is not None, gv=d["group_velocities"] is not None)
    if name == "tuple":
        with warnings.catch_warnings():
            warnings.simplefilter("ignore")
            t = ph.get_band_structure()
        if not isinstance(t, tuple) or len(t) != 4 or not shapes_ok(t[0], t[1], t[2], t[3], None, w.nb):
            return dict(kind="tuple-badshape")
        return dict(kind="tuple", segn=[len(x) for x in t[1]], ev=t[3] is not None)
    if name == "yaml":
        fn = os.path.join(tmpdir, "h_%s.yaml" % tag)
        ph.write_yaml_band_structure(filename=fn)
        with open(fn) as f:
            data = yaml.safe_load(f)
        os.unlink(fn)
        segn = [int(x) for x in data["segment_nqpoint"]]
        if int(data["nqpoint"]) != sum(segn) or int(data["npath"]) != len(segn) or len(data["phonon"]) != sum(segn):
            return dict(kind="yaml-badcounts")
        b0 = data["phonon"][0]["band"][0]
        return dict(kind="yaml", segn=segn, pairs=[[lab_id(a), lab_id(b)] for a, b in data.get("labels", [])],
                    ev="eigenvector" in b0, gv="group_velocity" in b0)
    if name == "h5":
        import h5py
        from phonopy.scripts import phonopy_bandplot as bp

        fn = os.path.join(tmpdir, "h_%s.hdf5" % tag)
        ph.write_hdf5_band_structure(filename=fn)
        with h5py.File(fn, "r") as f:
            segn = [int(x) for x in f["segment_nqpoint"][:]]
            n = segn[0] if segn else 0
            good = (f["path"].shape == (len(segn), n, 3) and f["distance"].shape == (len(segn), n)
                    and f["frequency"].shape == (len(segn), n, w.nb) and [int(x) for x in f["nqpoint"][:]] == [sum(segn)])
            pairs = [[lab_id(a.decode()), lab_id(b.decode())] for a, b in f["label"][:]]
            ev, gv = "eigenvector" in f, "group_velocity" in f
            if ev:
                good = good and f["eigenvector"].shape == (len(segn), n, w.nb, w.nb)
            if gv:
                good = good and f["group_velocity"].shape == (len(segn), n, w.nb, 3)
        if not good:
            os.unlink(fn)
            return dict(kind="h5-badlayout")
        labels, conn, fl, dl = bp._arrange_band_data(*bp._read_band_hdf5(fn))
        os.unlink(fn)
        if [len(x) for x in dl] != segn:
            return dict(kind="h5-reader-badsegments")
        return dict(kind="h5", segn=segn, pairs=pairs, ev=ev, gv=gv, rlabels=[lab_id(x) for x in labels] if labels is not None else [],
                    rconn=[bool(c) for c in conn])
    if name == "plot":
        import matplotlib.pyplot as plt

        try:
            p = ph.plot_band_structure()
            fig = p.gcf()
            panels = []
            for ax in [a for a in fig.axes if a.get_visible()]:     # ImageGrid also holds invisible colour-bar axes
                ticks = list(ax.get_xticks())
                labs = [t.get_text() for t in ax.get_xticklabels()]
                if len(ticks) != len(labs):
                    return dict(kind="plot-ticks-labels-differ")
                panels.append([lab_id(x) for x in labs])
            return dict(kind="plot", panels=panels)
        finally:
            plt.close("all")
    raise ValueError(name)


def run_history(case, worlds, tmpdir):
    w = worlds[case["world"]]
    ph = w.fresh(with_fc=case["start"])
    got = []
    for k, op in enumerate(case["hist"]):
        try:
            ob = observe(ph, w, op, tmpdir, "%d_%d" % (case["id"], k))
        except RuntimeError as exc:
            ob = dict(kind="RuntimeError", msg=str(exc)[:120])
        except Exception as exc:  # noqa: BLE001
            ob = dict(kind="raises", type=type(exc).__name__, msg=str(exc)[:160])
        got.append(ob)
    return dict(id=case["id"], got=got)


def run_h5(case, worlds, tmpdir):
    raise NotImplementedError
