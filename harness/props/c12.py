"""C12 - group velocities and Grueneisen parameters are true derivatives of the spectrum.

Specs: spec/GroupVelocity.tla (supercell, shortest-vector sets by definition, the
Wang term K(q) and its derivative as exact rationals: quotient rule = derivative by
definition, Euler identity), spec/GVDegeneracy.tla (degenerate-set bookkeeping and
cutoff, step machine + trace validation), spec/Gruneisen.tla (closed form for
uniformly scaling force constants, strain semantics).

spec -> code: TLC dumps, per configuration, the supercell atoms, the sets of shortest
vectors and K, dK/dq at the chosen rational q-points; the harness assembles the lattice
Fourier sum and its term-wise derivative from them (exp, real lattice, masses are the
harness's) and compares with DerivativeOfDynamicalMatrix (compiled and Python, with and
without Wang NAC, full/compact) and with the reported group velocities; the reported
group velocity is also compared with the gradient of the frequencies phonopy itself
reports (finite differences), in analytic, finite-difference and Gonze-Lee mode.
code -> spec: degenerate_sets outputs and Grueneisen results are recorded and judged by
TLC (GVDegeneracy / Gruneisen Impl.. invariants).
"""
from __future__ import annotations

import os

# every call here hands one (or a handful of) q-points to the compiled kernels: OpenMP teams only add
# barrier spinning on a shared machine.  Must be set before the extension (libgomp) is loaded.
os.environ["OMP_NUM_THREADS"] = "1"
os.environ.setdefault("OMP_WAIT_POLICY", "passive")

import numpy as np

from harness import bootstrap  # noqa: F401
from harness import tla_values, tlc as tlcmod, xtal
from harness.c08_nac import NacCase, quiet, require_actions_fired
from harness.oracle import Oracle, class_key
from harness.tla_values import to_tla

I3 = [[1, 0, 0], [0, 1, 0], [0, 0, 1]]


def diag(a, b, c):
    return [[a, 0, 0], [0, b, 0], [0, 0, c]]


def zdiag(x, z):
    return [[x, 0, 0], [0, x, 0], [0, 0, z]]


def neg(m):
    return [[-v for v in r] for r in m]


# entry -> (oracle matrix list (shared with C08 for cache hits), S used, nac tensors or None)
def geoms(ctx):
    g = [
        dict(entry="tetab", mats=[diag(2, 2, 2), [[1, -1, 0], [1, 1, 0], [0, 0, 2]]], S=diag(2, 2, 2),
             Z=[zdiag(2, 3), neg(zdiag(2, 3))], zden=1, C=zdiag(5, 4), cden=1),
        dict(entry="wz", mats=[diag(2, 2, 1), [[1, -1, 0], [1, 2, 0], [0, 0, 1]]], S=diag(2, 2, 1),
             Z=[zdiag(2, 1), zdiag(2, 1), neg(zdiag(2, 1)), neg(zdiag(2, 1))], zden=1,
             C=[[4, 2, 0], [2, 4, 0], [0, 0, 3]], cden=1),
        dict(entry="naclg", mats=[I3], S=I3, Z=[zdiag(3, 3)] * 4 + [neg(zdiag(3, 3))] * 4, zden=2,
             C=zdiag(5, 5), cden=2),
        dict(entry="tric", mats=[[[1, 1, 0], [0, 1, 0], [0, 0, 2]]], S=[[1, 1, 0], [0, 1, 0], [0, 0, 2]],
             Z=[[[2, 1, 0], [0, 1, -1], [1, 0, 2]], [[-1, 0, 1], [1, -2, 0], [0, 1, 1]],
                [[-1, -1, -1], [-1, 1, 1], [-1, -1, -3]]], zden=1, C=[[5, 1, 0], [1, 6, -1], [0, -1, 4]], cden=1),
        dict(entry="hcp", mats=[diag(2, 2, 2)], S=diag(2, 2, 2), Z=None),
        dict(entry="sc", mats=[diag(3, 3, 3)], S=diag(3, 3, 3), Z=None),
        # primitive cell != unit cell: primitive_matrix F (grouped species) and I
        dict(entry="naclg", mats=[I3], S=I3, Z=[zdiag(3, 3)] * 4 + [neg(zdiag(3, 3))] * 4, zden=2,
             C=zdiag(5, 5), cden=2, prim=True),
        dict(entry="bcc", mats=[diag(2, 2, 2)], S=diag(2, 2, 2), Z=None, prim=True),
    ]
    if not ctx.quick:
        g += [
            dict(entry="cscl", mats=[diag(2, 2, 2)], S=diag(2, 2, 2), Z=[zdiag(2, 2), neg(zdiag(2, 2))], zden=1,
                 C=zdiag(3, 3), cden=1),
            dict(entry="wz", mats=[[[1, 1, 0], [-1, 2, 0], [0, 0, 1]]],
                 S=[[1, 1, 0], [-1, 2, 0], [0, 0, 1]],             # sqrt3 x sqrt3: keeps the hexagonal point group
                 Z=[zdiag(3, 2), zdiag(3, 2), neg(zdiag(3, 2)), neg(zdiag(3, 2))], zden=2,
                 C=[[4, 2, 0], [2, 4, 0], [0, 0, 5]], cden=1),
            dict(entry="tetab", mats=[diag(2, 2, 2), [[1, -1, 0], [1, 1, 0], [0, 0, 2]]],
                 S=[[1, -1, 0], [1, 1, 0], [0, 0, 2]], Z=[zdiag(1, 2), neg(zdiag(1, 2))], zden=1, C=zdiag(3, 7), cden=2),
            dict(entry="bcc", mats=[diag(2, 2, 2)], S=diag(2, 2, 2), Z=None),
            # primitive_matrix F with interleaved species: the images of a primitive atom are not contiguous
            dict(entry="nacl", mats=[I3], S=I3, Z=[zdiag(1, 1), neg(zdiag(1, 1))] * 4, zden=1, C=zdiag(2, 2), cden=1,
                 prim=True),

            dict(entry="nacl", mats=[I3], S=I3,
                 Z=[zdiag(1, 1), neg(zdiag(1, 1))] * 4, zden=1, C=zdiag(2, 2), cden=1),
        ]
    return g


OUTSIDE_ON_MIRROR = {"wz": (6, -5, 3), "hcp": (6, -5, 3), "tetab": (6, 1, 3), "naclg": (6, 1, 3), "nacl": (6, 1, 3),
                     "cscl": (6, 1, 3), "sc": (6, 1, 3), "bcc": (6, 1, 3)}


def make_cfgs(ctx):
    rng = ctx.rng
    cfgs = []
    for k, g in enumerate(geoms(ctx)):
        pts = set()
        npts = 3 if ctx.quick else 10
        while len(pts) < npts:
            x = tuple(rng.randint(-6, 6) for _ in range(3))
            if sum(1 for v in x if v % 7 != 0) >= 2:
                pts.add(x)
        pts.add((0, 0, 0))
        pts.add((3, 0, 0))          # on a symmetry line: degenerate sets occur for the high-symmetry entries
        if g["entry"] in OUTSIDE_ON_MIRROR:
            # outside the first reciprocal cell; its image q - rint(q) lies on a mirror plane, q itself does not
            pts.add(OUTSIDE_ON_MIRROR[g["entry"]])
        if g.get("prim"):
            pts.discard(OUTSIDE_ON_MIRROR.get(g["entry"]))
        c = dict(id=k + 1, entry=g["entry"], S=g["S"], box=2, nac=g["Z"] is not None, prim=bool(g.get("prim")),
                 ncent=({"bcc": 2}.get(g["entry"], 4) if g.get("prim") else {"nacl": 4, "naclg": 4, "bcc": 2}.get(g["entry"], 1)),
                 dirs=[(1, 0, 0), (0, 0, 1), (1, 2, 3)],
                 Z=g["Z"] or [], zden=g.get("zden", 1), C=g.get("C") or [], cden=g.get("cden", 1),
                 pts=sorted(pts), pden=7, mats=g["mats"])
        cfgs.append(c)
    return cfgs


def cfg_tla(c):
    return ("[ncent |-> %d, dirs |-> %s, id |-> %d, entry |-> %s, S |-> %s, box |-> %d, nac |-> %s, Z |-> %s, zden |-> %d, "
            "C |-> %s, cden |-> %d, "
            "pts |-> %s, pden |-> %d]" % (c["ncent"], to_tla(set(c["dirs"])), c["id"], to_tla(c["entry"]), to_tla(c["S"]), c["box"],
                                         "TRUE" if c["nac"] else "FALSE", to_tla(c["Z"]), c["zden"],
                                         to_tla(c["C"]) if c["C"] else "<<>>", c["cden"],
                                         to_tla(set(map(tuple, c["pts"]))), c["pden"]))


GV_REQ = ["TypeOK", "ReqShortestIsImage", "ReqShortestReversal", "ReqQuotientRule", "ReqEuler", "ReqDKSymmetric",
          "ReqEulerGamma"]
GV_PRE = ["PreSupercellComplete", "PreShortestStable", "PreTensorsSymmetric", "PreDenominator", "PreSupercellKeepsPointGroup", "PreCentringGroup"]
CFG_GV = "SPECIFICATION Spec\nCONSTANTS\n Cfgs <- MCCfgs\n Cells <- MCCells\nCHECK_DEADLOCK FALSE\nINVARIANT InvCells\n" + \
    "".join("INVARIANT %s\n" % i for i in GV_REQ + GV_PRE)

TOL = dict(dm=1e-11, ddm=1e-10, gv_analytic=1e-8, gv_vs_freq_gradient=2e-3, gv_fd_mode=1e-5, gv_gl=1e-4,
           gruneisen=1e-8, gruneisen_formula=1e-9, gruneisen_mesh_symmetry=1e-8)


def upd(margins, key, val):
    margins[key] = max(margins.get(key, 0.0), float(val))


# ---------------------------------------------------------------------------------
class GVCase:
    """One GroupVelocity.tla configuration realised on the real code + the expected sums."""

    def __init__(self, c, orc, built, factor=14.399652):
        nc = dict(c)
        nc["Z"] = [(np.array(z, float) / c["zden"]).tolist() for z in c["Z"]] if c["nac"] else []
        nc["C"] = (np.array(c["C"], float) / c["cden"]).tolist() if c["nac"] else np.eye(3).tolist()
        self.c = c
        # primitive cell: the unit cell itself, or (prim) the cell of the centring F / I handed to phonopy
        nc["pm"] = ({"bcc": "I"}.get(c["entry"], "F") if c.get("prim") else None)
        self.nc = NacCase(nc, orc, factor=factor)
        n = self.nc
        self.L, self.Linv, self.a, self.D = n.L, n.Linv, n.a, orc.D
        self.prim = n.ph0.primitive
        self.sc = n.ph0.supercell
        self.npa = len(self.prim)
        self.N = n.nprim
        # phonopy supercell atom -> spec atom index
        spec_atoms = built["atoms"]
        idx = {}
        for k, at in enumerate(spec_atoms):
            idx[(at["a"], class_key(c["S"], self.D, at["u"]))] = k
        u, resid = xtal.project_to_unit(self.sc.positions, self.L, self.D)
        assert resid < 1e-6
        self.s2spec = []
        self.s_atom = []
        for k in range(len(self.sc)):
            a = None
            for ai, nn in enumerate(orc.num):
                if all((int(u[k][i]) - nn[i]) % self.D == 0 for i in range(3)) and \
                        n.uc.symbols[ai] == self.sc.symbols[k]:
                    a = ai + 1
                    break
            self.s2spec.append(idx[(a, class_key(c["S"], self.D, u[k]))])
            self.s_atom.append(a)
        # primitive atom i is represented by supercell atom p2s[i] (its row of force constants, the origin of its
        # shortest vectors); Primitive.positions may be that position wrapped by a primitive lattice vector
        n.at = [self.s_atom[k] for k in self.prim.p2s_map]
        # unit-cell atom -> primitive atom of its sublattice, through the specification's centring translations
        cents = set(tuple(v) for v in built["cents"]) if c.get("prim") else {(0, 0, 0)}   # unit cell used as primitive cell
        if len(cents) * len(self.prim) != len(n.uc) or self.N != len(cents) * abs(int(round(np.linalg.det(np.array(c["S"], float))))):
            raise tlcmod.MachineryError("primitive cell of phonopy does not match the centring group of the specification")
        self.prim_of_unit = {}
        for b_, nb in enumerate(orc.num):
            for p_, a_ in enumerate(n.at):
                na = orc.num[a_ - 1]
                if n.uc.symbols[b_] == n.uc.symbols[a_ - 1] and \
                        tuple((nb[i] - na[i]) % self.D for i in range(3)) in cents:
                    self.prim_of_unit[b_ + 1] = p_
        assert len(self.prim_of_unit) == len(n.uc)
        self.sv = {}
        for key, vecs in built["sv"].items():
            self.sv[(key[0], key[1])] = np.array(sorted(vecs), dtype=float) / self.D
        self.fprime = 4 * np.pi * factor / n.volume

    def k_cart(self, Krec, which="P", beta=None):
        """unweighted Cartesian K_ij (or dK_ij/dn_beta) blocks from the spec record."""
        n = self.nc
        out = np.zeros((self.npa, self.npa, 3, 3))
        for p in range(self.npa):
            for pp in range(self.npa):
                if which == "P":
                    Pm = np.array(Krec["P"][n.at[p] - 1][n.at[pp] - 1], float)
                else:
                    Pm = np.array(Krec["dP"][beta][n.at[p] - 1][n.at[pp] - 1], float)
                out[p, pp] = self.Linv @ (Pm * Krec["c1"] / Krec["c2"] * self.a ** 2) @ self.Linv.T
        return out

    def expected(self, x, pden, st, nac):
        """D(q) and dD/dq_cart (3 matrices) from the spec's data at q = x/pden."""
        n = self.nc
        q = np.array(x, float) / pden
        npa = self.npa
        fc = n.fc_full
        p2s = self.prim.p2s_map
        m = n.masses
        Dm = np.zeros((3 * npa, 3 * npa), complex)
        dD = np.zeros((3, 3 * npa, 3 * npa), complex)
        use_nac = nac and any(v != 0 for v in x)
        if use_nac:
            Kc = self.k_cart(st["K"]) * self.fprime / self.N
            dKc = [self.k_cart(st["dK"], "dP", b) * self.fprime / self.N * pden for b in range(3)]
        for i in range(npa):
            ai = n.at[i]
            for k in range(len(self.sc)):
                j = self.prim_of_unit[self.s_atom[k]]
                r = self.sv[(ai, self.s2spec[k] + 1)]
                ph = np.exp(2j * np.pi * (r @ q))
                phi = ph.mean()
                dphi = (2j * np.pi * r * ph[:, None]).mean(axis=0)          # d/dq_red
                blk = fc[p2s[i], k].astype(complex)
                if use_nac:
                    blk = blk + Kc[i, j]
                w = 1.0 / np.sqrt(m[i] * m[j])
                Dm[3 * i:3 * i + 3, 3 * j:3 * j + 3] += blk * phi * w
                for b in range(3):
                    t = blk * dphi[b]
                    if use_nac:
                        t = t + dKc[b][i, j] * phi
                    dD[b, 3 * i:3 * i + 3, 3 * j:3 * j + 3] += t * w
        Dm = (Dm + Dm.conj().T) / 2
        dD = np.array([(d + d.conj().T) / 2 for d in dD])
        dDc = np.array([sum(self.L[b, al] * dD[b] for b in range(3)) for al in range(3)])
        return Dm, dDc

    def expected_second(self, x, pden):
        """second Cartesian q-derivatives of the plain lattice Fourier sum, order xx, yy, zz, yz, xz, xy
        (DerivativeOfDynamicalMatrix.set_derivative_order(2))."""
        n = self.nc
        q = np.array(x, float) / pden
        npa = self.npa
        fc = n.fc_full
        p2s = self.prim.p2s_map
        m = n.masses
        d2 = np.zeros((6, 3 * npa, 3 * npa), complex)
        pairs = [(0, 0), (1, 1), (2, 2), (1, 2), (0, 2), (0, 1)]
        for i in range(npa):
            ai = n.at[i]
            for k in range(len(self.sc)):
                j = self.prim_of_unit[self.s_atom[k]]
                r = self.sv[(ai, self.s2spec[k] + 1)]
                rc = r @ self.L
                ph = np.exp(2j * np.pi * (r @ q))
                w = 1.0 / np.sqrt(m[i] * m[j])
                for e, (a, b) in enumerate(pairs):
                    co = ((2j * np.pi) ** 2 * rc[:, a] * rc[:, b] * ph).mean()
                    d2[e, 3 * i:3 * i + 3, 3 * j:3 * j + 3] += fc[p2s[i], k] * co * w
        return np.array([(d + d.conj().T) / 2 for d in d2])


def gv_from(Dm, dDc, factor, cutoff=1e-4, gap_rel=5e-3):
    """expected group velocities of the non-degenerate modes; mask of those modes."""
    ev, vec = np.linalg.eigh(Dm)
    fr = np.sqrt(np.abs(ev)) * np.sign(ev) * factor
    bw = max(fr.max() - fr.min(), 1e-12)
    nb = len(fr)
    ok = np.ones(nb, bool)
    for i in range(nb):
        gaps = [abs(fr[i] - fr[j]) for j in range(nb) if j != i]
        if min(gaps) < gap_rel * bw or fr[i] <= max(cutoff, gap_rel * bw):
            ok[i] = False
    gv = np.zeros((nb, 3))
    for al in range(3):
        gv[:, al] = np.real(np.einsum("ib,ij,jb->b", vec.conj(), dDc[al], vec))
    with np.errstate(divide="ignore", invalid="ignore"):
        gv = gv * factor ** 2 / (2 * fr[:, None])
    return fr, gv, ok


def run(ctx):
    ctx.rule = ("a case is one (configuration, q-point, quantity, code path): derivative of the dynamical matrix "
                "(compiled/Python, plain/Wang, full/compact), group velocity (analytic, finite-difference, Gonze-Lee "
                "mode) vs spec-derived value and vs gradient of reported frequencies; Grueneisen (mesh/band, "
                "exponent k, strain pair); degenerate_sets inputs")
    margins = {}
    gv_events = group_velocity_part(ctx, margins)
    kernel_cells_part(ctx, margins)
    degeneracy_part(ctx, gv_events)
    gruneisen_part(ctx, margins)
    gruneisen_nonhydrostatic(ctx, margins)
    ctx.extra["margins"] = {k: dict(observed=v, tolerance=TOL.get(k)) for k, v in margins.items()}


# ---------------------------------------------------------------------------------
def group_velocity_part(ctx, margins):
    from phonopy import Phonopy
    from phonopy.harmonic.derivative_dynmat import DerivativeOfDynamicalMatrix

    cfgs = make_cfgs(ctx)
    mc = "---- MODULE MC_GV ----\nEXTENDS GroupVelocity\nMCCells == {}\nMCCfgs == {\n%s\n}\n====\n" % ",\n".join(
        cfg_tla(c) for c in cfgs)
    res = ctx.tlc("MC_GV", cfg_text=CFG_GV, extra_files={"MC_GV.tla": mc}, requirement=False, dump=True, keep=True,
                  coverage=not ctx.quick, extra_args=("-continue",), workers=4)
    try:
        for nm in sorted(set(n for n, _ in res.violations)):
            if nm.startswith("Pre"):
                raise tlcmod.MachineryError("GroupVelocity.tla: hypothesis/adequacy invariant %s fails" % nm)
            ctx.violation("tlc:GroupVelocity:" + nm, "requirement %s fails on the specification's model" % nm,
                          dict(invariant=nm))
        states = tla_values.parse_dump(res.dump_path)
    finally:
        tlcmod.cleanup(res)
    require_actions_fired(ctx, res, "GroupVelocity", ["Build", "Differentiate", "GammaAlong"])
    by = {}
    for st in states:
        if st["pc"] == "built":
            by.setdefault(st["cfg"]["id"], {})["built"] = st
        elif st["pc"] == "at":
            by.setdefault(st["cfg"]["id"], {}).setdefault("at", []).append(st)
        elif st["pc"] == "gamma":
            by.setdefault(st["cfg"]["id"], {}).setdefault("gamma", []).append(st)

    oracles = {}
    gv_events = []
    for c in cfgs:
        key = (c["entry"], to_tla(c["mats"]))
        if key not in oracles:
            oracles[key] = Oracle(c["entry"], c["mats"], seed=ctx.seed * 77 + len(oracles), ctx=ctx)
        orc = oracles[key]
        case = GVCase(c, orc, by[c["id"]]["built"])
        n = case.nc
        fac = n.ph0.unit_conversion_factor
        objs = {"plain/full": n.ph0}
        with quiet():
            phc = Phonopy(n.uc, supercell_matrix=c["S"], primitive_matrix=n.pm_name, log_level=0)
            phc.force_constants = n.fc_compact.copy()
        objs["plain/compact"] = phc
        if c["nac"]:
            born = np.array([n.Zraw[a - 1] for a in n.at])
            objs["wang/full"] = n.nac_phonopy("wang", "full", born=born, eps=n.eps_raw)
            objs["wang/compact"] = n.nac_phonopy("wang", "compact", born=born, eps=n.eps_raw)
        for st in by[c["id"]]["at"]:
            x = st["x"]
            q = np.array(x, float) / c["pden"]          # unit-cell reciprocal coordinates (the specification's)
            qp = n.to_prim_red(q)                       # what phonopy is given
            at_gamma = all(v == 0 for v in x)
            for name, ph in objs.items():
                nac = name.startswith("wang")
                try:
                    Dm, dDc = case.expected(x, c["pden"], st, nac)
                except KeyError as e:
                    raise tlcmod.MachineryError("atom matching failed: %r" % (e,))
                gscale = np.abs(n.fc_full).max() / n.masses.min()      # natural magnitude of D
                scale_d = max(np.abs(Dm).max(), gscale)
                scale_dd = max(np.abs(dDc).max(), 1e-3 * gscale * np.abs(case.L).max())
                # hypothesis of the comparison: the assembled D(q) is phonopy's D(q)
                with quiet():
                    ph.run_qpoints([qp], with_dynamical_matrices=True)
                dreal = ph.get_qpoints_dict()["dynamical_matrices"][0]
                e0 = np.abs(dreal - Dm).max() / scale_d
                upd(margins, "dm", e0)
                if e0 > TOL["dm"]:
                    ctx.violation("gv:dynmat-differs", "dynamical matrix differs from the lattice Fourier sum over the "
                                  "specification's shortest vectors", dict(cfg=c, q=q, path=name, rel_err=float(e0)))
                    continue
                langs = ("C", "Py") if name.endswith("full") else ("C",)
                for lang in langs:
                    ddm = DerivativeOfDynamicalMatrix(ph.dynamical_matrix)
                    try:
                        with quiet():
                            ddm.run(qp, lang=lang)
                        got = np.array(ddm.d_dynamical_matrix)
                    except Exception as e:
                        ctx.violation("gv:ddm-raises", "DerivativeOfDynamicalMatrix.run raised %r" % e,
                                      dict(cfg=c, q=q, path=name, lang=lang))
                        continue
                    ctx.count(("ddm", c["id"], tuple(x), name, lang))
                    e1 = np.abs(got - dDc).max() / scale_dd
                    upd(margins, "ddm", e1)
                    if e1 > TOL["ddm"]:
                        ctx.violation("gv:ddm:%s:%s" % ("wang" if nac else "plain", lang),
                                      "derivative of the dynamical matrix differs from the term-wise derivative of "
                                      "the lattice Fourier sum", dict(cfg=c, x=x, q=q, path=name, lang=lang,
                                                                    rel_err=float(e1), expected=dDc[0][:3, :6],
                                                                    got=got[0][:3, :6]))
                if name == "plain/full":
                    # derivative order 2 (Python path only; used by get_eigenvectors(derivative_order=2))
                    ddm2 = DerivativeOfDynamicalMatrix(ph.dynamical_matrix)
                    try:
                        with quiet():
                            ddm2.set_derivative_order(2)
                            ddm2.run(qp)
                        got2 = np.array(ddm2.d_dynamical_matrix)
                        exp2 = case.expected_second(x, c["pden"])
                        e6 = np.abs(got2 - exp2).max() / max(np.abs(exp2).max(), 1e-3 * gscale * np.abs(case.L).max() ** 2)
                        upd(margins, "ddm_order2", e6)
                        ctx.count(("ddm2", c["id"], tuple(x)))
                        if not (e6 <= TOL["ddm"]):
                            ctx.violation("gv:ddm-order2", "second q-derivative of the dynamical matrix differs from the "
                                          "term-wise second derivative of the lattice Fourier sum",
                                          dict(cfg=c, x=x, q=qp, rel_err=float(e6)))
                    except Exception as e:
                        ctx.violation("gv:ddm-order2-raises", "derivative order 2 raised %r" % e, dict(cfg=c, q=qp))
                if at_gamma:
                    continue
                # ---- group velocities -----------------------------------------------------
                fr, gvx, ok = gv_from(Dm, dDc, fac)
                with quiet():
                    ph.run_qpoints([qp], with_group_velocities=True)
                d = ph.get_qpoints_dict()
                gvr = np.array(d["group_velocities"][0])
                frr = np.array(d["frequencies"][0])
                sg = max(np.abs(gvx[ok]).max() if ok.any() else 0.0, 1e-6)
                ctx.count(("gv", c["id"], tuple(x), name), n=int(ok.sum()))
                if ok.any():
                    e2 = np.abs(gvr[ok] - gvx[ok]).max() / sg
                    upd(margins, "gv_analytic", e2)
                    if e2 > TOL["gv_analytic"] or np.abs(frr - fr).max() > 1e-8 * max(np.abs(fr).max(), 1):
                        ctx.violation("gv:velocity:%s" % ("wang" if nac else "plain"),
                                      "group velocity differs from <e|dD/dq|e> factor^2 / 2f", dict(
                                          cfg=c, x=x, q=q, path=name, rel_err=float(e2), modes=np.nonzero(ok)[0],
                                          got=gvr, expected=gvx))
                # degenerate sets: the sum over the set is basis independent
                from phonopy.phonon.degeneracy import degenerate_sets
                for dset in degenerate_sets(frr):
                    if len(dset) > 1 and frr[dset[0]] > 10 * 1e-4:
                        tr_got = gvr[dset].sum(axis=0)
                        ev, vec = np.linalg.eigh(Dm)
                        tr_exp = np.array([np.real(np.trace(vec[:, dset].conj().T @ dDc[al] @ vec[:, dset]))
                                           for al in range(3)]) * fac ** 2 / (2 * frr[dset].mean())
                        e5 = np.abs(tr_got - tr_exp).max() / max(sg, np.abs(tr_exp).max())
                        upd(margins, "gv_degenerate_trace", e5)
                        ctx.count(("gv-deg", c["id"], tuple(x), name))
                        if e5 > 1e-6:
                            ctx.violation("gv:degenerate-trace", "sum of group velocities over a degenerate set differs "
                                          "from the trace of dD/dq on the set", dict(cfg=c, x=x, path=name, set=dset,
                                                                                   got=tr_got, expected=tr_exp))
                # the statement itself: gradient of the frequencies phonopy reports
                if name.endswith("full"):
                    g2 = freq_gradient(ph, qp, np.array(ph.primitive.cell))
                    _, _, okfd = gv_from(Dm, dDc, fac, gap_rel=2e-2)      # finite differences need a wider gap
                    ok = okfd
                    if ok.any():
                        e3 = np.abs(gvr[ok] - g2[ok]).max() / sg
                        upd(margins, "gv_vs_freq_gradient", e3)
                        ctx.count(("gv-grad", c["id"], tuple(x), name))
                        if e3 > TOL["gv_vs_freq_gradient"]:
                            ctx.violation("gv:not-gradient:%s" % ("wang" if nac else "plain"),
                                          "reported group velocity is not the Cartesian gradient of the reported "
                                          "frequency", dict(cfg=c, x=x, q=q, path=name, rel_err=float(e3),
                                                            got=gvr[ok], gradient=g2[ok]))
        # ---- finite-difference mode and Gonze-Lee mode (one q per configuration) -------------
        gen = [s for s in by[c["id"]]["at"] if sum(1 for v in s["x"] if v % 7 != 0) >= 2]
        spc = [s for s in gen if tuple(s["x"]) == OUTSIDE_ON_MIRROR.get(c["entry"])]
        oth = [s for s in gen if tuple(s["x"]) != OUTSIDE_ON_MIRROR.get(c["entry"])]
        modes = [("fd", "wang" if c["nac"] else None, s) for s in oth[:1] + spc]
        if c["nac"]:
            modes += [("gl", "gonze", s) for s in oth[:1] + spc]
        for mode, method, st in modes:
            q = n.to_prim_red(np.array(st["x"], float) / c["pden"])
            with quiet():
                ph = Phonopy(n.uc, supercell_matrix=c["S"], primitive_matrix=n.pm_name, log_level=0,
                             group_velocity_delta_q=(1e-5 if mode == "fd" else None))
                ph.force_constants = n.fc_full.copy()
                if method:
                    ph.nac_params = dict(born=np.array([n.Zraw[a - 1] for a in n.at]), dielectric=n.eps_raw,
                                         factor=n.factor, method=method)
                ph.run_qpoints([q], with_group_velocities=True, with_dynamical_matrices=True)
            d = ph.get_qpoints_dict()
            gvr = np.array(d["group_velocities"][0])
            frr = np.array(d["frequencies"][0])
            g2 = freq_gradient(ph, q, np.array(ph.primitive.cell))
            bw = frr.max() - frr.min()
            ok = np.array([frr[i] > 2e-2 * bw and min(abs(frr[i] - frr[j]) for j in range(len(frr)) if j != i) > 2e-2 * bw
                           for i in range(len(frr))])
            if ok.any():
                sg = max(np.abs(g2[ok]).max(), 1e-6)
                e4 = np.abs(gvr[ok] - g2[ok]).max() / sg
                key = "gv_fd_mode" if mode == "fd" else "gv_gl"
                upd(margins, key, e4)
                ctx.count(("gv-" + mode, c["id"], tuple(st["x"])))
                if e4 > TOL[key]:
                    ctx.violation("gv:not-gradient:%s-mode" % mode, "group velocity (%s mode) is not the gradient of "
                                  "the reported frequencies" % mode, dict(cfg=c, q=q, rel_err=float(e4), got=gvr[ok],
                                                                         gradient=g2[ok]))
        cutoff_replay(ctx, c, case, objs, oth[: (1 if ctx.quick else 3)], by, fac, margins, gv_events)
        if c["nac"]:
            gamma_direction(ctx, c, case, objs, by, fac, margins)
        ctx.traces += len(by[c["id"]]["at"])
        if len(ctx.samples) < 2:
            ctx.sample(dict(kind="derivative", entry=c["entry"], S=c["S"], nac=c["nac"], q=[v / c["pden"] for v in st["x"]],
                            n_shortest_sets=len(case.sv), max_multiplicity=max(len(v) for v in case.sv.values())))
    return gv_events


def gamma_direction(ctx, c, case, objs, by, fac, margins):
    """Group velocity AT the zone centre approached along a direction (run_qpoints(nac_q_direction=d,
    with_group_velocities=True) -> GroupVelocity.run(perturbation=d)): for every mode that is non-degenerate in
    the spectrum reported there (with the non-analytical term along d) and above the cutoff, the component of the
    reported velocity along d must be the one-sided derivative of the reported frequency along d, which the
    specification also gives: D(t d) = D_plain(t d) + (4 pi f/V) K(d) (ReqEulerGamma), slope <e|d.grad D_plain|e>."""
    from phonopy import Phonopy
    n = case.nc
    gam = [s_ for s_ in by[c["id"]]["at"] if all(v == 0 for v in s_["x"])][0]
    Dm0, dD0 = case.expected(gam["x"], c["pden"], gam, False)
    born = np.array([n.Zraw[a - 1] for a in n.at])
    objs2 = {"wang": objs["wang/full"], "gonze": n.nac_phonopy("gonze", "full", born=born, eps=n.eps_raw)}
    lat_p = np.array(objs["wang/full"].primitive.cell)
    for st in by[c["id"]].get("gamma", []):
        d_u = st["dir"]
        d_p = n.to_prim_red(d_u) * 2
        nc_ = np.linalg.inv(lat_p) @ d_p
        nc_ = nc_ / np.linalg.norm(nc_)
        # specification: D(0; d) and the slope along d
        Kc = case.k_cart(st["K"]) * case.fprime
        Dn = Dm0.copy()
        for i in range(case.npa):
            for j in range(case.npa):
                Dn[3 * i:3 * i + 3, 3 * j:3 * j + 3] += Kc[i, j] / np.sqrt(n.masses[i] * n.masses[j])
        ev, vec = np.linalg.eigh(Dn)
        f_spec = np.sqrt(np.abs(ev)) * np.sign(ev) * fac
        dDn = sum(nc_[al] * dD0[al] for al in range(3))
        with np.errstate(divide="ignore", invalid="ignore"):
            slope_spec = np.real(np.einsum("ib,ij,jb->b", vec.conj(), dDn, vec)) * fac ** 2 / (2 * f_spec)
        bw = f_spec.max() - f_spec.min()
        nb = len(f_spec)
        ok = np.array([f_spec[i] > 2e-2 * bw and min(abs(f_spec[i] - f_spec[j]) for j in range(nb) if j != i) > 2e-2 * bw
                       for i in range(nb)])
        for method, ph in objs2.items():
            try:
                with quiet():
                    ph.run_qpoints([[0, 0, 0]], nac_q_direction=d_p, with_group_velocities=True)
                dct = ph.get_qpoints_dict()
                gv0 = np.array(dct["group_velocities"][0])
                f0 = np.array(dct["frequencies"][0])
                h = 1e-4
                with quiet():
                    ph.run_qpoints([lat_p @ (nc_ * h * k) for k in (1, 2, 3)])
                f1, f2, f3 = np.array(ph.get_qpoints_dict()["frequencies"])
            except Exception as e:
                ctx.violation("gv:gamma-direction-raises", "zone-centre group velocity raised %r" % e,
                              dict(cfg=c, direction=d_u, method=method))
                continue
            slope_fd = (-11 * f0 + 18 * f1 - 9 * f2 + 2 * f3) / (6 * h)
            got = gv0 @ nc_
            # natural size of a group velocity (dD/dq at the zone centre vanishes for centrosymmetric crystals)
            sc = np.abs(n.fc_full).max() / n.masses.min() * np.abs(case.L).max() * fac ** 2 / max(f_spec.max(), 1e-9)
            ctx.count(("gv-gamma", c["id"], tuple(d_u), method), n=int(ok.sum()))
            if ok.any():
                e_freq = np.abs(f0[ok] - f_spec[ok]).max() / max(f_spec.max(), 1e-9)
                e1 = np.abs(got[ok] - slope_fd[ok]).max() / sc
                e2 = np.abs(slope_spec[ok] - slope_fd[ok]).max() / sc
                upd(margins, "gv_gamma_dir", e1)
                upd(margins, "gv_gamma_dir_spec_vs_fd", e2)
                if not (e1 <= 1e-4) or (method == "wang" and not (e_freq <= 1e-8)):
                    ctx.violation("gv:gamma-direction:%s" % method,
                                  "at the zone centre approached along a direction the reported group velocity "
                                  "(component along the direction) is not the one-sided derivative of the reported "
                                  "frequency along that direction",
                                  dict(cfg=c, direction_unit=d_u, direction_prim=d_p, method=method, modes=np.nonzero(ok)[0],
                                       reported_along_d=got, one_sided_derivative=slope_fd, spec_slope=slope_spec,
                                       frequencies=f0, rel_err=float(e1)))


FREQ_UNIT = 1e-4      # integer unit of the frequencies handed to GVDegeneracy.tla = degenerate_sets' default tolerance


def cutoff_replay(ctx, c, case, objs, sts, by, fac, margins, gv_events):
    """GroupVelocity objects constructed directly (as phono3py does) with explicit cutoff_frequency values:
    the default, one between the gap of two close non-degenerate modes and their frequencies, one above some
    modes; analytic and finite-difference mode, with and without symmetry.  The call of degenerate_sets inside
    is recorded (external wrapper) and judged by TLC; the velocities are compared with the spec-derived ones."""
    import phonopy.phonon.group_velocity as gvmod
    from phonopy.phonon.group_velocity import GroupVelocity

    n = case.nc
    for st in sts:
        x = st["x"]
        q = n.to_prim_red(np.array(x, float) / c["pden"])
        for name in ("plain/full", "wang/full"):
            if name not in objs:
                continue
            ph = objs[name]
            Dm, dDc = case.expected(x, c["pden"], st, name.startswith("wang"))
            fr, gvx, ok = gv_from(Dm, dDc, fac, cutoff=0.0)
            nb = len(fr)
            gaps = np.diff(fr)
            # the spec's marks: two non-degenerate modes (gap well above the tolerance) that are close
            cand = [i for i in range(nb - 1) if ok[i] and ok[i + 1] and gaps[i] < fr[i]]
            if not cand:
                continue
            i0 = min(cand, key=lambda i: gaps[i])
            cut_between = 0.5 * (gaps[i0] + min(fr[i0], 4 * gaps[i0] + gaps[i0]))     # gap < cutoff < f_i0
            pos = [k for k in range(nb - 1) if fr[k] > 0 and gaps[k] > 20 * FREQ_UNIT]
            kmid = pos[len(pos) // 2]
            cut_above = 0.5 * (fr[kmid] + fr[kmid + 1])                               # zeroes modes 0..kmid
            for cutoff in (1e-4, cut_between, cut_above):
                fi = [int(round(v / FREQ_UNIT)) for v in fr]
                ci = int(round(cutoff / FREQ_UNIT))
                # projection to integers must not sit on a threshold
                d = np.diff(fr) / FREQ_UNIT
                if any(0.2 < v < 5 for v in d) or any(abs(v / FREQ_UNIT - cutoff / FREQ_UNIT) < 5 for v in fr if cutoff > 2e-4):
                    continue
                for q_length in (None, 1e-5):
                    for sym in (None, ph.primitive_symmetry):
                        calls = []
                        orig = gvmod.degenerate_sets

                        def rec(freqs, cutoff=1e-4, _o=orig, _c=calls):
                            out = _o(freqs, cutoff=cutoff)
                            _c.append((float(cutoff), [[int(v) + 1 for v in s_] for s_ in out]))
                            return out
                        gvmod.degenerate_sets = rec
                        try:
                            with quiet():
                                g = GroupVelocity(ph.dynamical_matrix, q_length=q_length, symmetry=sym,
                                                  frequency_factor_to_THz=fac, cutoff_frequency=cutoff)
                                g.run([q])
                            got = np.array(g.group_velocities[0])
                        except Exception as e:
                            ctx.violation("gv:cutoff-raises", "GroupVelocity(cutoff_frequency=%g) raised %r" % (cutoff, e),
                                          dict(cfg=c, q=q, path=name))
                            continue
                        finally:
                            gvmod.degenerate_sets = orig
                        ctx.count(("gv-cutoff", c["id"], tuple(x), name, round(cutoff, 6), q_length, sym is not None))
                        live = ok & (fr > cutoff)
                        dead = fr <= cutoff
                        sg = max(np.abs(gvx[ok]).max(), 1e-6)
                        e1 = np.abs(got[live] - gvx[live]).max() / sg if live.any() else 0.0
                        e0 = np.abs(got[dead]).max() if dead.any() else 0.0
                        upd(margins, "gv_cutoff", e1)
                        if not (e1 <= TOL["gv_fd_mode"]) or e0 != 0.0:
                            ctx.violation("gv:cutoff:%s" % ("fd" if q_length else "analytic"),
                                          "with cutoff_frequency=%g the velocity of a non-degenerate mode above the "
                                          "cutoff is not <e|dD/dq|e> factor^2/2f (= gradient of its frequency), or a "
                                          "mode at/below the cutoff is not zeroed" % cutoff,
                                          dict(cfg=c, x=x, q=q, path=name, cutoff=cutoff, q_length=q_length,
                                               symmetry=sym is not None, rel_err=float(e1), below_cutoff_max=float(e0),
                                               frequencies=fr, close_pair=[i0, i0 + 1], got=got, expected=gvx))
                        if calls:
                            passed, sets = calls[0]
                            gv_events.append(dict(freqs=fi, cutoff=ci, tolPassed=int(round(passed / FREQ_UNIT)), sets=sets,
                                                  zeroed=[k + 1 for k in range(nb) if not got[k].any()]))


def freq_gradient(ph, q, L, h=1e-4):
    """Cartesian gradient of the frequencies reported by run_qpoints (4th-order central differences)."""
    qs = []
    for al in range(3):
        dq = L[:, al] * h
        for s in (-2, -1, 1, 2):
            qs.append(q + s * dq)
    with quiet():
        ph.run_qpoints(qs)
    f = np.array(ph.get_qpoints_dict()["frequencies"])
    g = np.zeros((f.shape[1], 3))
    for al in range(3):
        fm2, fm1, fp1, fp2 = f[4 * al:4 * al + 4]
        g[:, al] = (fm2 - 8 * fm1 + 8 * fp1 - fp2) / (12 * h)
    return g


# ---------------------------------------------------------------------------------
CFG_DEG = """SPECIFICATION Spec
CONSTANTS
 MaxLen = %d
 MaxF = %d
 Tols = {1, 2}
 Cutoffs = {0, 1, 3}
 Observed <- MCObserved
CHECK_DEADLOCK FALSE
INVARIANT InvPartition
INVARIANT InvClasses
INVARIANT InvConsecutive
INVARIANT InvZeroed
INVARIANT InvCutoffDoesNotMerge
INVARIANT ImplPartition
INVARIANT ImplClasses
INVARIANT ImplConsecutive
INVARIANT ImplCutoffDoesNotMerge
INVARIANT ImplZeroed
INVARIANT ConformsSets
INVARIANT ConformsTolerancePassed
"""


def degeneracy_part(ctx, gv_events=()):
    from phonopy.phonon.degeneracy import degenerate_sets

    # model: all ascending inputs up to the bound
    mc0 = "---- MODULE MC_GVD ----\nEXTENDS GVDegeneracy\nMCObserved == {}\n====\n"
    r0 = ctx.tlc("MC_GVD", cfg_text=CFG_DEG % ((5, 5) if ctx.quick else (6, 6)), extra_files={"MC_GVD.tla": mc0},
                 requirement=True, workers=4, coverage=not ctx.quick)
    require_actions_fired(ctx, r0, "GVDegeneracy", ["Call", "Outer", "Inner", "ZeroBelowCutoff"])
    # implementation: recorded outputs on random ascending integer inputs (and all of length <= 4 over 0..3)
    import itertools
    inputs = set()
    for ln in range(1, 5):
        for t in itertools.combinations_with_replacement(range(4), ln):
            inputs.add(t)
    rng = ctx.rng
    while len(inputs) < (400 if ctx.quick else 3000):
        ln = rng.randint(3, 9)
        inputs.add(tuple(sorted(rng.randint(0, 8) for _ in range(ln))))
    obs = []
    for f in sorted(inputs):
        for tol in (1, 2):
            try:
                sets = degenerate_sets(np.array(f, dtype=float), cutoff=float(tol))
            except Exception as e:
                ctx.violation("gvdeg:raises", "degenerate_sets raised %r" % e, dict(freqs=f, tol=tol))
                continue
            obs.append((to_tla([list(f), tol, 0]),
                        to_tla(dict(sets=[[int(v) + 1 for v in s] for s in sets], tolPassed=tol, gv=False, zeroed=set()))))
            ctx.count(("degsets", f, tol))
    # events of real GroupVelocity objects built with explicit cutoff_frequency values (cutoff_replay)
    for e in gv_events:
        obs.append((to_tla([e["freqs"], 1, e["cutoff"]]),
                    to_tla(dict(sets=e["sets"], tolPassed=e["tolPassed"], gv=True, zeroed=set(e["zeroed"])))))
    ctx.extra["gv_cutoff_events"] = len(gv_events)
    mc = ("---- MODULE MC_GVD ----\nEXTENDS GVDegeneracy\nMCObserved == {%s}\n====\n"
          % ",\n".join("<<%s, %s>>" % o for o in obs))
    res = ctx.tlc("MC_GVD", cfg_text=CFG_DEG % (5, 5), extra_files={"MC_GVD.tla": mc}, requirement=False,
                  extra_args=("-continue",), workers=4)
    for nm in sorted(set(n for n, _ in res.violations)):
        wit = None
        for n2, tr in res.violations:
            if n2 == nm and tr:
                wit = dict(freqs=tr[-1][1].get("freqs"), tol=tr[-1][1].get("tol"), cutoff=tr[-1][1].get("cutoff"),
                           machine=tr[-1][1].get("indices"), recorded=tr[-1][1].get("obsv"))
                break
        ctx.violation("gvdeg:" + nm, "degenerate_sets: %s fails on recorded outputs" % nm, dict(invariant=nm, witness=wit))
    ctx.traces += len(obs)


# ---------------------------------------------------------------------------------
CFG_GRU = """SPECIFICATION Spec
CONSTANTS
 Cases <- MCCases
 Lams <- MCLams
 Observed <- MCObserved
CHECK_DEADLOCK FALSE
INVARIANT ReqModeIndependent
INVARIANT ReqClosedForm
INVARIANT ReqDeltaStrain
INVARIANT ReqNearG
INVARIANT ImplClosedForm
INVARIANT ObservedAll
"""


def gru_mc(cases, observed):
    def case_tla(c):
        return "[id |-> %d, k |-> %d, d1 |-> %d, d2 |-> %d, dd |-> %d, ds |-> %s]" % (
            c["id"], c["k"], c["d1"], c["d2"], c["dd"], to_tla(c["ds"]))
    return ("---- MODULE MC_Gru ----\nEXTENDS Gruneisen\nMCCases == {%s}\nMCLams == {1, 3}\nMCObserved == {%s}\n====\n"
            % (", ".join(case_tla(c) for c in cases), ", ".join(to_tla(o) for o in observed)))


import itertools as _it
IMG27 = list(_it.product((-1, 0, 1), repeat=3))
MESH = {"tetab": [3, 3, 2], "wz": [3, 3, 2], "hcp": [3, 3, 2], "naclg": [3, 3, 3], "sc": [3, 3, 3], "tric": [2, 3, 2],
        "bcc": [3, 3, 3], "nacl": [3, 3, 3]}


def near_degenerate(freqs, fac, lo=1e-9, hi=2e-3):
    """modes whose eigenvalue has a neighbour closer than hi but not coinciding: rotate_eigenvectors lumps
    eigenvalues closer than 1e-4 into one 'degenerate' set and hands the eigenvalues of dD out in ascending
    order, so within such a set the individual values are only meaningful when the modes really coincide
    (the property quantifies over q-points away from degeneracies)."""
    ev = np.sign(freqs) * (freqs / fac) ** 2
    out = np.zeros(ev.shape, bool)
    for idx in np.ndindex(ev.shape[:-1]):
        e = ev[idx]
        for i in range(len(e)):
            g = np.abs(e - e[i])
            g[i] = np.inf
            out[idx + (i,)] = bool(((g > lo) & (g < hi)).any())
    return out


def gruneisen_part(ctx, margins):
    from phonopy import Phonopy, PhonopyGruneisen

    cases = [dict(id=1, k=1, d1=1, d2=1, dd=10, ds=[0, 1], entry="tetab", S=diag(2, 2, 2),
                  mats=[diag(2, 2, 2), [[1, -1, 0], [1, 1, 0], [0, 0, 2]]]),
             dict(id=2, k=2, d1=1, d2=1, dd=20, ds=[0, 1], entry="naclg", S=I3, mats=[I3], pm="F"),
             dict(id=3, k=3, d1=1, d2=2, dd=20, ds=[0, 1], entry="wz", S=diag(2, 2, 1),
                  mats=[diag(2, 2, 1), [[1, -1, 0], [1, 2, 0], [0, 0, 1]]]),
             dict(id=4, k=4, d1=1, d2=1, dd=10, ds=[0, 1], entry="hcp", S=diag(2, 2, 2), mats=[diag(2, 2, 2)]),
             dict(id=5, k=2, d1=1, d2=1, dd=10, ds=[1, 4], entry="tetab", S=diag(2, 2, 2),
                  mats=[diag(2, 2, 2), [[1, -1, 0], [1, 1, 0], [0, 0, 2]]])]
    if not ctx.quick:
        cases += [dict(id=6, k=1, d1=2, d2=1, dd=20, ds=[0, 1], entry="tric", S=[[1, 1, 0], [0, 1, 0], [0, 0, 2]],
                       mats=[[[1, 1, 0], [0, 1, 0], [0, 0, 2]]]),
                  dict(id=7, k=3, d1=1, d2=1, dd=10, ds=[0, 1], entry="sc", S=diag(3, 3, 3), mats=[diag(3, 3, 3)]),
                  dict(id=8, k=2, d1=1, d2=1, dd=20, ds=[1, 8], entry="wz", S=diag(2, 2, 1),
                       mats=[diag(2, 2, 1), [[1, -1, 0], [1, 2, 0], [0, 0, 1]]]),
                  dict(id=9, k=2, d1=1, d2=1, dd=10, ds=[0, 1], entry="bcc", S=diag(2, 2, 2), mats=[diag(2, 2, 2)],
                       pm="I"),
                  dict(id=10, k=1, d1=1, d2=2, dd=20, ds=[0, 1], entry="nacl", S=I3, mats=[I3], pm="F")]
    if os.environ.get("C12_GRU_ONLY"):                      # experiments only
        cases = [c for c in cases if str(c["id"]) in os.environ["C12_GRU_ONLY"].split(",")]
    res = ctx.tlc("MC_Gru", cfg_text=CFG_GRU, extra_files={"MC_Gru.tla": gru_mc(cases, [])}, requirement=True,
                  dump=True, keep=True, workers=2, coverage=not ctx.quick)
    try:
        states = tla_values.parse_dump(res.dump_path)
    finally:
        tlcmod.cleanup(res)
    require_actions_fired(ctx, res, "Gruneisen", ["SetVolumes", "ScaleFC", "Evaluate"])
    expect = {}
    for st in states:
        if st["pc"] == "done":
            g = st["gam"]
            vals = set(tuple(v) for v in g.values())
            assert len(vals) == 1
            num, den = vals.pop()
            expect[st["cs"]["id"]] = num / den
    observed = []
    for cs in cases:
        orc = Oracle(cs["entry"], cs["mats"], seed=ctx.seed * 13 + cs["id"], ctx=ctx)
        uc = orc.unitcell()
        d1, d2 = cs["d1"] / cs["dd"], cs["d2"] / cs["dd"]
        k = cs["k"]
        pm = cs.get("pm")

        def build(scale_v, fc_scale, fc0=None, shell_w=0.0):
            from phonopy.structure.atoms import PhonopyAtoms
            cell = PhonopyAtoms(symbols=uc.symbols, scaled_positions=uc.scaled_positions,
                                cell=np.array(uc.cell) * scale_v ** (1.0 / 3), masses=uc.masses)
            with quiet():
                ph = Phonopy(cell, supercell_matrix=cs["S"], primitive_matrix=pm, log_level=0)
            fc = orc.supercell_fc(cs["S"], ph.supercell) if fc0 is None else fc0.copy()
            fc = fc * fc_scale
            if shell_w:
                # a non-uniform, symmetry-preserving change: scale the pair blocks by a function of the pair
                # distance, then restore the acoustic sum rule on the self terms
                from phonopy.structure.cells import get_smallest_vectors  # noqa: F401
                n = len(ph.supercell)
                sv, multi = ph.primitive.get_smallest_vectors()
                lat = np.array(ph.supercell.cell)
                pos = ph.supercell.scaled_positions
                for i in range(n):
                    for j in range(n):
                        if i == j:
                            continue
                        dlt = pos[j] - pos[i]
                        dlt -= np.rint(dlt)
                        dist = min(np.linalg.norm((dlt + np.array(t)) @ lat) for t in IMG27) / scale_v ** (1.0 / 3)
                        fc[i, j] *= (1 + shell_w * np.cos(1.3 * dist))
                for i in range(n):
                    fc[i, i] = 0
                    fc[i, i] = -fc[i].sum(axis=0)
            ph.force_constants = fc
            return ph

        ph0 = build(1.0, 1.0)
        fc_ref = np.array(ph0.force_constants).copy()       # same atom order in the rescaled cells
        php = build(1 + d2, (1 + d2) ** (-k), fc0=fc_ref)
        phm = build(1 - d1, (1 - d1) ** (-k), fc0=fc_ref)
        ds = None if cs["ds"][0] == 0 else cs["ds"][0] / cs["ds"][1]
        gexp = expect[cs["id"]]
        all_match = True
        fac = ph0.unit_conversion_factor
        # mesh
        with quiet():
            gr = PhonopyGruneisen(ph0, php, phm, delta_strain=ds)
            gr.set_mesh(MESH[cs["entry"]], is_gamma_center=False, is_mesh_symmetry=True)
        qpts, w, freqs, _, gam = gr.get_mesh()
        above = (freqs > 1e-2 * freqs.max()) & ~near_degenerate(freqs, fac)
        ctx.count(("gru-mesh", cs["id"]), n=int(above.sum()))
        e = np.abs(gam[above] - gexp).max() / abs(gexp)
        upd(margins, "gruneisen", e)
        if e > TOL["gruneisen"]:
            all_match = False
            ctx.violation("gruneisen:closed-form:mesh", "mode Grueneisen parameters differ from the closed-form value "
                          "for uniformly scaled force constants", dict(case=cs, expected=gexp, got=gam[above][:12],
                                                                       rel_err=float(e)))
        # band
        path = [[[0.05, 0.02, 0.01], [0.2, 0.1, 0.05], [0.5, 0.25, 0.125]]]
        with quiet():
            gr.set_band_structure(path)
        _, _, bfreq, _, bgam = gr.get_band_structure()
        bfreq, bgam = np.array(bfreq[0]), np.array(bgam[0])
        ab = (bfreq > 1e-2 * bfreq.max()) & ~near_degenerate(bfreq, fac)
        ctx.extra["gruneisen_modes_excluded_near_degenerate"] = ctx.extra.get(
            "gruneisen_modes_excluded_near_degenerate", 0) + int(near_degenerate(bfreq, fac).sum()) + int(
            near_degenerate(freqs, fac).sum())
        ctx.count(("gru-band", cs["id"]), n=int(ab.sum()))
        e = np.abs(bgam[ab] - gexp).max() / abs(gexp)
        upd(margins, "gruneisen", e)
        if e > TOL["gruneisen"]:
            all_match = False
            ctx.violation("gruneisen:closed-form:band", "band-structure Grueneisen parameters differ from the closed "
                          "form", dict(case=cs, expected=gexp, got=bgam[ab][:12], rel_err=float(e)))
        # general formula on a non-uniform change, and symmetry-reduced vs full mesh
        php2 = build(1 + d2, 1.0, fc0=fc_ref, shell_w=+0.07)
        phm2 = build(1 - d1, 1.0, fc0=fc_ref, shell_w=-0.05)
        with quiet():
            gr2 = PhonopyGruneisen(ph0, php2, phm2, delta_strain=ds)
            gr2.set_mesh(MESH[cs["entry"]], is_mesh_symmetry=True)
            q_ir, w_ir, f_ir, _, g_ir = gr2.get_mesh()
            gr2.set_mesh(MESH[cs["entry"]], is_mesh_symmetry=False)
            q_fu, w_fu, f_fu, _, g_fu = gr2.get_mesh()
        strain = ds if ds is not None else (php2.primitive.volume - phm2.primitive.volume) / ph0.primitive.volume
        formula_ok = True
        worst = 0.0
        ev_scale = float((np.abs(f_ir).max() / fac) ** 2)
        for q, fq, gq in zip(q_ir, f_ir, g_ir):
            with quiet():
                for p in (ph0, php2, phm2):
                    p.run_qpoints([q], with_dynamical_matrices=True)
            D0 = ph0.get_qpoints_dict()["dynamical_matrices"][0]
            Dp = php2.get_qpoints_dict()["dynamical_matrices"][0]
            Dmn = phm2.get_qpoints_dict()["dynamical_matrices"][0]
            ev, vec = np.linalg.eigh(D0)
            bw = ev_scale                  # scale of the whole spectrum (at the zone centre of a Bravais crystal all are 0)
            for b in range(len(ev)):
                gaps = [abs(ev[b] - ev[c2]) for c2 in range(len(ev)) if c2 != b]
                if min(gaps) < 1e-3 * bw or ev[b] < 1e-3 * bw:
                    continue
                val = -np.real(vec[:, b].conj() @ (Dp - Dmn) @ vec[:, b]) / strain / ev[b] / 2
                worst = max(worst, abs(val - gq[b]) / max(1.0, abs(val)))
                ctx.count(("gru-formula", cs["id"], tuple(np.round(q, 6)), b))
        upd(margins, "gruneisen_formula", worst)
        if worst > TOL["gruneisen_formula"]:
            formula_ok = False
            ctx.violation("gruneisen:formula", "mode Grueneisen parameter differs from -(V/2w^2)<e|dD/dV|e> built from "
                          "the three volumes supplied", dict(case=cs, rel_err=worst))
        # symmetry-reduced vs full mesh: weighted sums of gamma^p w^r over non-degenerate-insensitive moments
        sym_ok = True

        def moments(fr, gm, wt):
            wt = np.array(wt, float) / np.sum(wt)
            msk = fr > 1e-2 * fr.max()
            out = []
            for pw in (1, 2):
                out.append(float(np.sum(wt[:, None] * np.where(msk, gm, 0.0) ** pw)))
                out.append(float(np.sum(wt[:, None] * np.where(msk, gm, 0.0) ** pw * fr)))
            return np.array(out)
        m_ir, m_fu = moments(f_ir, g_ir, w_ir), moments(f_fu, g_fu, w_fu)
        e = np.abs(m_ir - m_fu).max() / max(np.abs(m_fu).max(), 1e-12)
        upd(margins, "gruneisen_mesh_symmetry", e)
        ctx.count(("gru-meshsym", cs["id"]))
        if not (e <= TOL["gruneisen_mesh_symmetry"]) or len(q_ir) > len(q_fu):
            sym_ok = False
            ctx.violation("gruneisen:mesh-symmetry", "symmetry-reduced and full mesh give different mode Grueneisen "
                          "distributions", dict(case=cs, moments_ir=m_ir, moments_full=m_fu, n_ir=len(q_ir),
                                                n_full=len(q_fu)))
        observed.append(dict(id=cs["id"], allModesMatch=all_match, meshSymmetryAgrees=sym_ok, formulaAgrees=formula_ok))
        if len(ctx.samples) < 4:
            ctx.sample(dict(kind="gruneisen", case={k2: cs[k2] for k2 in ("id", "k", "d1", "d2", "dd", "ds", "entry")},
                            closed_form=gexp, g=k / 2))
    res2 = ctx.tlc("MC_Gru", cfg_text=CFG_GRU, extra_files={"MC_Gru.tla": gru_mc(cases, observed)},
                   requirement=False, extra_args=("-continue",), workers=2)
    for nm in sorted(set(n for n, _ in res2.violations)):
        if nm == "ObservedAll":
            raise tlcmod.MachineryError("Gruneisen: a case was not observed")
        ctx.violation("gruneisen:" + nm, "Gruneisen.tla %s fails on recorded results" % nm,
                      dict(invariant=nm, observed=observed))
    ctx.traces += len(observed)


# ---------------------------------------------------------------------------------
CFG_GRD = """SPECIFICATION Spec
CONSTANTS
 R = 3
 ObservedNH <- MCObservedNH
CHECK_DEADLOCK FALSE
INVARIANT ReqPerModeIsEigenvalue
INVARIANT ReqLifted
INVARIANT InvRotationMatters
INVARIANT ImplNH
"""


def gruneisen_nonhydrostatic(ctx, margins):
    """GruneisenDegenerate.tla: 'built from the three volumes supplied' for ANY three cells.  Plus/minus cells are
    strained uniaxially (force constants changed accordingly, with the tetragonal symmetry of the strained cell), so
    that D(V+) - D(V-) lifts degeneracies of the cubic V0 crystal (transverse pairs on Gamma-X, Gamma-L).  Per
    mode of every degenerate set: gamma = -<e|dD|e>/strain/lam/2 with the REPORTED eigenvector e, the reported
    vectors diagonalise dD in the set, and the values are the first-order splittings of the eigenvalues."""
    from phonopy import Phonopy, PhonopyGruneisen
    from phonopy.structure.atoms import PhonopyAtoms

    res0 = ctx.tlc("MC_GrD", cfg_text=CFG_GRD, requirement=True, workers=2, coverage=not ctx.quick, extra_files={
        "MC_GrD.tla": "---- MODULE MC_GrD ----\nEXTENDS GruneisenDegenerate\nMCObservedNH == {}\n====\n"})
    require_actions_fired(ctx, res0, "GruneisenDegenerate", ["Rotate"])
    cases = [dict(id=1, entry="sc", S=diag(3, 3, 3), mats=[diag(3, 3, 3)], pm=None, mesh=[4, 4, 4], e=1e-3),
             dict(id=2, entry="naclg", S=I3, mats=[I3], pm="F", mesh=[4, 4, 4], e=2e-3)]
    cases.append(dict(id=5, entry="tetab", S=diag(2, 2, 2), mats=[diag(2, 2, 2), [[1, -1, 0], [1, 1, 0], [0, 0, 2]]],
                      pm=None, mesh=[4, 4, 2], e=1e-3, kind="shear"))
    # one-sided triples: one strained cell, the other one is the reference geometry (the three cells do not share
    # their point group, and it is not the minus cell that has the lowest symmetry)
    cases.append(dict(id=6, entry="sc", S=diag(3, 3, 3), mats=[diag(3, 3, 3)], pm=None, mesh=[4, 4, 4], e=2e-3,
                      signs=(+1, 0), one_sided=True))
    cases.append(dict(id=7, entry="sc", S=diag(3, 3, 3), mats=[diag(3, 3, 3)], pm=None, mesh=[4, 4, 4], e=2e-3,
                      signs=(0, -1), one_sided=True))
    if not ctx.quick:
        cases.append(dict(id=3, entry="bcc", S=diag(2, 2, 2), mats=[diag(2, 2, 2)], pm="I", mesh=[4, 4, 4], e=1e-3))
        cases.append(dict(id=4, entry="cscl", S=diag(2, 2, 2), mats=[diag(2, 2, 2)], pm=None, mesh=[3, 3, 3], e=1e-3))
    observed = []
    mesh_obs, mesh_cases = [], []
    for cs in cases:
        orc = Oracle(cs["entry"], cs["mats"], seed=ctx.seed * 19 + cs["id"], ctx=ctx)
        uc = orc.unitcell()
        L0 = np.array(uc.cell)
        u = L0[2] / np.linalg.norm(L0[2])                  # strain axis: the third cubic axis
        e = cs["e"]
        if cs.get("kind") == "shear":                      # shear in the plane of the first two (tetragonal a, b) axes
            u1, u2 = L0[0] / np.linalg.norm(L0[0]), L0[1] / np.linalg.norm(L0[1])
            Estr = e * (np.outer(u1, u2) + np.outer(u2, u1))
        else:
            Estr = e * np.outer(u, u)                      # uniaxial
        fc_ref = None

        def build(sign):
            nonlocal fc_ref
            F = np.eye(3) + sign * Estr
            cell = PhonopyAtoms(symbols=uc.symbols, scaled_positions=uc.scaled_positions, cell=L0 @ F, masses=uc.masses)
            with quiet():
                ph = Phonopy(cell, supercell_matrix=cs["S"], primitive_matrix=cs["pm"], log_level=0)
            if fc_ref is None:
                with quiet():
                    ph_ref = Phonopy(uc, supercell_matrix=cs["S"], primitive_matrix=cs["pm"], log_level=0)
                fc_ref = orc.supercell_fc(cs["S"], ph_ref.supercell)
            fc = fc_ref.copy()
            if sign:
                # bonds along the strain axis stiffen/soften: weight 1 - 6 sign e <(u.d)^2/d^2> over the shortest images
                nsc = len(ph.supercell)
                lat = L0 @ np.array(cs["S"], float).T.T if False else np.array(ph.supercell.cell) @ np.linalg.inv(F)
                pos = ph.supercell.scaled_positions
                for i in range(nsc):
                    for j in range(nsc):
                        if i == j:
                            continue
                        dlt = pos[j] - pos[i]
                        dlt -= np.rint(dlt)
                        ds = [(dlt + np.array(t)) @ lat for t in IMG27]
                        dmin = min(np.linalg.norm(d) for d in ds)
                        w = np.mean([(d @ Estr @ d) / (d @ d) for d in ds if np.linalg.norm(d) < dmin + 1e-6])
                        fc[i, j] *= (1 - 6 * sign * w)
                for i in range(nsc):
                    fc[i, i] = 0
                    fc[i, i] = -fc[i].sum(axis=0)
            ph.force_constants = fc
            return ph

        sp_, sm_ = cs.get("signs", (+1, -1))
        ph0, php, phm = build(0), build(sp_), build(sm_)
        strain = (php.primitive.volume - phm.primitive.volume) / ph0.primitive.volume
        ds_arg = None
        if cs.get("kind") == "shear":        # a pure shear does not change the volume: the strain increment is handed in
            strain = 2 * e
            ds_arg = strain
        fac = ph0.unit_conversion_factor
        flags = dict(orthonormal=True, diagonal=True, perMode=True, split=True, lifted=False)
        worst = dict(orthonormal=0.0, diagonal=0.0, perMode=0.0, split=0.0)
        nsets = 0

        def judge(qpts, eigvecs, gammas, where):
            nonlocal nsets
            from phonopy.phonon.degeneracy import degenerate_sets
            for q, vecs, gam in zip(qpts, eigvecs, gammas):
                with quiet():
                    for p_ in (ph0, php, phm):
                        p_.run_qpoints([q], with_dynamical_matrices=True)
                D0 = ph0.get_qpoints_dict()["dynamical_matrices"][0]
                Dp = php.get_qpoints_dict()["dynamical_matrices"][0]
                Dmn = phm.get_qpoints_dict()["dynamical_matrices"][0]
                dD = Dp - Dmn
                ev = np.linalg.eigvalsh(D0)
                (evp, vp), (evm, vm) = np.linalg.eigh(Dp), np.linalg.eigh(Dmn)
                lam_scale = max(abs(ev).max(), 1e-12)
                for dset in degenerate_sets(ev):
                    if len(dset) < 2 or ev[dset[0]] < 1e-2 * lam_scale:
                        continue
                    # the set must be isolated from its neighbours (otherwise 'degenerate' is a tolerance artefact)
                    lo, hi = dset[0], dset[-1]
                    if (lo > 0 and ev[lo] - ev[lo - 1] < 2e-2 * lam_scale) or \
                            (hi < len(ev) - 1 and ev[hi + 1] - ev[hi] < 2e-2 * lam_scale) or ev[hi] - ev[lo] > 1e-9 * lam_scale:
                        continue
                    nsets += 1
                    E = vecs[:, dset]
                    lam = ev[dset].mean()
                    r1 = max(np.abs(E.conj().T @ E - np.eye(len(dset))).max(), np.abs(D0 @ E - lam * E).max() / lam_scale)
                    Mproj = E.conj().T @ dD @ E
                    offd = np.abs(Mproj - np.diag(np.diag(Mproj))).max()
                    sc_ = max(np.abs(dD).max(), 1e-300)
                    per = np.abs(gam[dset] - (-np.real(np.diag(Mproj)) / strain / lam / 2)).max() / \
                        max(np.abs(gam[dset]).max(), 1e-12)
                    # splitting of the eigenvalues between V- and V+, each reported mode followed by its eigenvector
                    mu = np.real(np.diag(Mproj))
                    fd = np.array([evp[np.argmax(np.abs(vp.conj().T @ E[:, k_]))] - evm[np.argmax(np.abs(vm.conj().T @ E[:, k_]))]
                                   for k_ in range(len(dset))])
                    spl = np.abs(fd - mu).max() / max(np.abs(mu).max(), 1e-300)
                    worst["orthonormal"] = max(worst["orthonormal"], r1)
                    worst["diagonal"] = max(worst["diagonal"], offd / sc_)
                    worst["perMode"] = max(worst["perMode"], per)
                    worst["split"] = max(worst["split"], spl)
                    if (mu.max() - mu.min()) > 1e-2 * np.abs(mu).max():
                        flags["lifted"] = True
                    bad = []
                    if not (r1 <= 1e-9):
                        flags["orthonormal"] = False
                        bad.append("orthonormal")
                    if not (offd <= 1e-9 * sc_):
                        flags["diagonal"] = False
                        bad.append("diagonal")
                    if not (per <= 1e-8):
                        flags["perMode"] = False
                        bad.append("perMode")
                    if not (spl <= 5 * abs(strain)):
                        flags["split"] = False
                        bad.append("split")
                    ctx.count(("gru-nonhydro", cs["id"], where, tuple(np.round(q, 6)), tuple(dset)))
                    for b_ in bad:
                        ctx.violation("gruneisen:nonhydrostatic:" + b_,
                                      "non-hydrostatic volume triple, degenerate set: the reported Grueneisen parameter "
                                      "of a mode is not -(V/2w^2)<e|dD/dV|e> of the reported eigenvector (%s)" % b_,
                                      dict(case=cs, where=where, q=q, modes=dset, reported_gamma=gam[dset],
                                           from_reported_vectors=-np.real(np.diag(Mproj)) / strain / lam / 2,
                                           from_split_eigenvalues=-fd / strain / lam / 2, offdiag=float(offd),
                                           strain=float(strain)))

        with quiet():
            gr = PhonopyGruneisen(ph0, php, phm, delta_strain=ds_arg)
            gr.set_mesh(cs["mesh"], is_gamma_center=True, is_mesh_symmetry=False)
        qpts, wts_f, frq_f, vecs, gam = gr.get_mesh()
        judge(qpts, vecs, gam, "mesh")
        # symmetry-reduced mesh (the default): which rotations does set_mesh hand down, and does it agree with the full one
        import phonopy.api_gruneisen as apig
        seen = {}
        origGM = apig.GruneisenMesh

        def recGM(*a, **k):
            seen["rotations"] = None if k.get("rotations") is None else np.array(k["rotations"])
            return origGM(*a, **k)
        apig.GruneisenMesh = recGM
        try:
            with quiet():
                gr.set_mesh(cs["mesh"], is_gamma_center=True, is_mesh_symmetry=True)
        finally:
            apig.GruneisenMesh = origGM
        q_r, w_r, f_r, _, g_r = gr.get_mesh()
        Pm = {None: np.eye(3), "F": np.array([[0, .5, .5], [.5, 0, .5], [.5, .5, 0]]),
              "I": np.array([[-.5, .5, .5], [.5, -.5, .5], [.5, .5, -.5]])}[cs["pm"]]
        rots_u = set()
        for r_ in (seen.get("rotations") if seen.get("rotations") is not None else []):
            Wu = Pm @ np.array(r_, float) @ np.linalg.inv(Pm)       # primitive-cell basis -> unit-cell basis
            assert np.abs(Wu - np.rint(Wu)).max() < 1e-9
            rots_u.add(tuple(tuple(int(v) for v in row) for row in np.rint(Wu)))
        eq, avg, detail = meshes_agree(np.array(w_r), np.array(f_r), np.array(g_r), np.array(wts_f), np.array(frq_f),
                                       np.array(gam))
        upd(margins, "gruneisen_nonhydro_mesh_averages", detail["avg_err"])
        ctx.count(("gru-nonhydro-meshsym", cs["id"]))
        if not (eq and avg):
            ctx.violation("gruneisen:mesh-rotations:mesh-symmetry" if cs.get("one_sided") else
                          "gruneisen:nonhydrostatic:mesh-symmetry",
                          "non-hydrostatic volume triple: symmetry-reduced and full mesh disagree (weighted multisets of "
                          "(frequency, gamma) spectra / weighted averages)",
                          dict(case=cs, n_reduced=len(q_r), n_full=len(qpts), n_rotations=len(rots_u), **detail))
        mesh_obs.append(dict(id=cs["id"], rotations=rots_u, reducedEqualsFull=bool(eq), averagesAgree=bool(avg)))
        mesh_cases.append(dict(id=cs["id"], entry=cs["entry"], kind=cs.get("kind", "uniaxial"),
                               signs=cs.get("signs", (+1, -1)), one_sided=bool(cs.get("one_sided"))))
        path = [[[0.1, 0.0, 0.0], [0.3, 0.0, 0.0], [0.5, 0.0, 0.0]], [[0.1, 0.1, 0.1], [0.2, 0.2, 0.2], [0.4, 0.4, 0.4]]]
        if cs["pm"] == "F":      # Gamma-X and Gamma-L of the conventional cell in primitive coordinates
            path = [[[0.0, 0.1, 0.1], [0.0, 0.3, 0.3], [0.0, 0.5, 0.5]], [[0.1, 0.1, 0.1], [0.2, 0.2, 0.2], [0.4, 0.4, 0.4]]]
        if cs["pm"] == "I":
            path = [[[-0.1, 0.1, 0.1], [-0.2, 0.2, 0.2], [-0.4, 0.4, 0.4]], [[0.05, 0.05, 0.05], [0.1, 0.1, 0.1], [0.2, 0.2, 0.2]]]
        with quiet():
            gr.set_band_structure(path)
        bq, _, _, bvec, bgam = gr.get_band_structure()
        for seg in range(len(path)):
            judge(np.array(bq[seg]), np.array(bvec[seg]), np.array(bgam[seg]), "band")
        for k_, v_ in worst.items():
            upd(margins, "gruneisen_nonhydro_" + k_, v_)
        if nsets == 0:
            raise tlcmod.MachineryError("non-hydrostatic Grueneisen: no isolated degenerate set met (vacuous)")
        observed.append(dict(id=cs["id"], **flags))
        ctx.extra.setdefault("gruneisen_nonhydrostatic_sets", {})[cs["entry"]] = nsets
    mc = ("---- MODULE MC_GrD ----\nEXTENDS GruneisenDegenerate\nMCObservedNH == {%s}\n====\n"
          % ", ".join(to_tla(o) for o in observed))
    res = ctx.tlc("MC_GrD", cfg_text=CFG_GRD, extra_files={"MC_GrD.tla": mc}, requirement=False,
                  extra_args=("-continue",), workers=2)
    for nm in sorted(set(n for n, _ in res.violations)):
        if nm == "ImplNH" and all(all(o[k] for k in ("orthonormal", "diagonal", "perMode", "split")) for o in observed):
            raise tlcmod.MachineryError("non-hydrostatic Grueneisen: no degenerate set was lifted by dD (vacuous)")
        ctx.violation("gruneisen:nonhydrostatic:" + nm, "GruneisenDegenerate.tla %s fails on recorded results" % nm,
                      dict(invariant=nm, observed=observed))
    ctx.traces += len(observed)
    for one_sided, prefix in ((False, "gruneisen:nonhydrostatic:"), (True, "gruneisen:mesh-rotations:")):
        sel = [c_ for c_ in mesh_cases if c_["one_sided"] == one_sided]
        ids = set(c_["id"] for c_ in sel)
        if sel:
            mesh_symmetry_tlc(ctx, sel, [o for o in mesh_obs if o["id"] in ids], prefix)


def meshes_agree(w_r, f_r, g_r, w_f, f_f, g_f, tol=1e-6):
    """reduced mesh (weights w_r) against full mesh: (1) as weighted multisets of per-q (frequency, gamma) spectra,
    (2) as weighted averages of gamma, gamma^2 and gamma*frequency over the modes above the cutoff."""
    fmax = max(np.abs(f_f).max(), 1e-12)
    cut = 1e-2 * fmax

    def sig(f, g):
        m = f > cut
        pairs = sorted(zip(np.round(f[m] / fmax, 7), g[m]))
        return np.array([p[0] for p in pairs]), np.array([p[1] for p in pairs])
    sf = [sig(f, g) for f, g in zip(f_f, g_f)]
    sr = [sig(f, g) for f, g in zip(f_r, g_r)]
    gs = max(max((np.abs(s[1]).max() for s in sf if len(s[1])), default=1.0), 1e-12)

    def same(a, b):
        return len(a[0]) == len(b[0]) and (len(a[0]) == 0 or (np.abs(a[0] - b[0]).max() <= tol and
                                                               np.abs(a[1] - b[1]).max() <= tol * gs * 10))
    ok = int(np.sum(w_r)) == int(np.sum(w_f))
    worst = None
    for i, a in enumerate(sr):
        need = sum(int(w_r[j]) for j, b in enumerate(sr) if same(a, b))
        have = sum(int(w_f[j]) for j, b in enumerate(sf) if same(a, b))
        if need != have:
            ok = False
            worst = dict(reduced_point=i, weight_in_reduced=need, matching_full_points=have)
            break
    def avgs(w, f, g):
        w = np.array(w, float) / np.sum(w)
        m = f > cut
        gm = np.where(m, g, 0.0)
        return np.array([np.sum(w[:, None] * gm), np.sum(w[:, None] * gm ** 2), np.sum(w[:, None] * gm * f)])
    a_r, a_f = avgs(w_r, f_r, g_r), avgs(w_f, f_f, g_f)
    avg_err = float(np.abs(a_r - a_f).max() / max(np.abs(a_f).max(), 1e-12))
    return ok, avg_err <= 1e-8, dict(avg_err=avg_err, averages_reduced=a_r, averages_full=a_f, multiset_mismatch=worst)


CFG_GMS = """SPECIFICATION Spec
CONSTANTS
 Cases <- MCCases
 Observed <- MCObserved
CHECK_DEADLOCK FALSE
INVARIANT ReqUsedIsCommon
INVARIANT PreStrainedLower
INVARIANT ImplUsedIsCommon
INVARIANT ConformsUsed
INVARIANT ImplReducedEqualsFull
INVARIANT ObservedAll
"""
GRAMS = {"sc": I3, "cscl": I3, "naclg": I3, "nacl": I3, "bcc": I3, "tetab": [[4, 0, 0], [0, 4, 0], [0, 0, 5]]}


def mesh_symmetry_tlc(ctx, mesh_cases, mesh_obs, prefix):
    """GruneisenMeshSym.tla: the point groups of the three cells are computed exactly from integer Gram matrices
    (reference 1000 G, strained 1000 G +/- the strain pattern); the reduced mesh may use their common subgroup."""
    def grams(c):
        G0 = (1000 * np.array(GRAMS[c["entry"]])).astype(int)
        d = np.zeros((3, 3), int)
        if c["kind"] == "shear":
            d[0, 1] = d[1, 0] = 1
        else:
            d[2, 2] = 1
        return G0.tolist(), (G0 + c["signs"][0] * d).tolist(), (G0 + c["signs"][1] * d).tolist()
    ctl = []
    for c in mesh_cases:
        g0, gp, gm = grams(c)
        ctl.append("[id |-> %d, entry |-> %s, G0 |-> %s, Gp |-> %s, Gm |-> %s]" % (c["id"], to_tla(c["entry"]), to_tla(g0),
                                                                              to_tla(gp), to_tla(gm)))

    def obs_tla(o):
        return "[id |-> %d, rotations |-> %s, reducedEqualsFull |-> %s, averagesAgree |-> %s]" % (
            o["id"], "{" + ", ".join(to_tla([list(r) for r in W]) for W in sorted(o["rotations"])) + "}",
            "TRUE" if o["reducedEqualsFull"] else "FALSE", "TRUE" if o["averagesAgree"] else "FALSE")
    mc = ("---- MODULE MC_GMS ----\nEXTENDS GruneisenMeshSym\nMCCases == {%s}\nMCObserved == {%s}\n====\n"
          % (", ".join(ctl), ", ".join(obs_tla(o) for o in mesh_obs)))
    res = ctx.tlc("MC_GMS", cfg_text=CFG_GMS, extra_files={"MC_GMS.tla": mc}, requirement=False,
                  extra_args=("-continue",), workers=2, coverage=not ctx.quick)
    require_actions_fired(ctx, res, "GruneisenMeshSym", ["Groups", "SetMesh"])
    for nm in sorted(set(n for n, _ in res.violations)):
        if nm in ("ObservedAll", "PreStrainedLower"):
            raise tlcmod.MachineryError("GruneisenMeshSym.tla: %s fails" % nm)
        ctx.violation(prefix + nm, "GruneisenMeshSym.tla %s fails (rotations used for the reduced "
                      "mesh / reduced versus full mesh)" % nm,
                      dict(invariant=nm, observed=[dict(id=o["id"], n_rotations=len(o["rotations"]),
                                                        reducedEqualsFull=o["reducedEqualsFull"],
                                                        averagesAgree=o["averagesAgree"]) for o in mesh_obs]))
    ctx.traces += len(mesh_obs)


# ---------------------------------------------------------------------------------
def kernel_cells(ctx, build):
    """dD/dq and group velocity in every cell (use_openmp flag of the object) x (how the object was made) of THIS
    build of the extension: Phonopy's own dynamical matrix, and objects from get_dynamical_matrix with the default
    flag (False) and with True.  Returns the recorded cells; violations go to ctx."""
    import phonopy._phonopy as phonoc
    from phonopy.harmonic.derivative_dynmat import DerivativeOfDynamicalMatrix
    from phonopy.harmonic.dynamical_matrix import get_dynamical_matrix
    from phonopy.phonon.group_velocity import GroupVelocity

    if bool(phonoc.use_openmp()) != (build == "omp"):
        raise tlcmod.MachineryError("kernel cells: build %r but use_openmp() = %r" % (build, phonoc.use_openmp()))
    cfgs = [c for c in make_cfgs(ctx) if (c["entry"], c["prim"]) in (("tetab", False), ("naclg", True))][:2]
    for c in cfgs:
        c["pts"] = [x for x in c["pts"] if sum(1 for v in x if v % 7 != 0) >= 2][:2]
    mc = "---- MODULE MC_GV ----\nEXTENDS GroupVelocity\nMCCells == {}\nMCCfgs == {\n%s\n}\n====\n" % ",\n".join(
        cfg_tla(c) for c in cfgs)
    res = ctx.tlc("MC_GV", cfg_text=CFG_GV, extra_files={"MC_GV.tla": mc}, requirement=True, dump=True, keep=True, workers=2)
    try:
        states = tla_values.parse_dump(res.dump_path)
    finally:
        tlcmod.cleanup(res)
    cells = {}
    for c in cfgs:
        built = [s_ for s_ in states if s_["pc"] == "built" and s_["cfg"]["id"] == c["id"]][0]
        ats = [s_ for s_ in states if s_["pc"] == "at" and s_["cfg"]["id"] == c["id"]]
        orc = Oracle(c["entry"], c["mats"], seed=ctx.seed * 77 + c["id"], ctx=ctx)
        case = GVCase(c, orc, built)
        n = case.nc
        fac = n.ph0.unit_conversion_factor
        born = np.array([n.Zraw[a - 1] for a in n.at])
        nacp = dict(born=born, dielectric=n.eps_raw, factor=n.factor, method="wang")
        phw = n.nac_phonopy("wang", "full", born=born, eps=n.eps_raw)
        makers = {("phonopy", build == "omp"): lambda nac: (phw if nac else n.ph0).dynamical_matrix}
        for flag in (False, True):
            def mk(nac, flag=flag):
                kw = dict(use_openmp=True) if flag else {}          # False is the default of get_dynamical_matrix
                with quiet():
                    return get_dynamical_matrix(n.fc_full.copy(), n.ph0.supercell, n.ph0.primitive,
                                                nac_params=dict(nacp) if nac else None, **kw)
            makers[("direct", flag)] = mk
        gscale = np.abs(n.fc_full).max() / n.masses.min()
        for st in ats:
            x = st["x"]
            qp = n.to_prim_red(np.array(x, float) / c["pden"])
            for nac in (False, True):
                Dm, dDc = case.expected(x, c["pden"], st, nac)
                scale_dd = max(np.abs(dDc).max(), 1e-3 * gscale * np.abs(case.L).max())
                fr, gvx, ok = gv_from(Dm, dDc, fac)
                for (via, flag), mk in makers.items():
                    cell = cells.setdefault((build, via, flag), dict(build=build, via=via, openmp=flag, ddm=True, gv=True))
                    try:
                        dm = mk(nac)
                        if bool(dm.use_openmp) != flag:
                            raise tlcmod.MachineryError("kernel cells: object flag %r, wanted %r" % (dm.use_openmp, flag))
                        ddm = DerivativeOfDynamicalMatrix(dm)
                        with quiet():
                            ddm.run(qp)
                            g = GroupVelocity(dm, symmetry=None, frequency_factor_to_THz=fac)
                            g.run([qp])
                        e1 = np.abs(np.array(ddm.d_dynamical_matrix) - dDc).max() / scale_dd
                        sg = max(np.abs(gvx[ok]).max() if ok.any() else 0.0, 1e-6)
                        e2 = np.abs(np.array(g.group_velocities[0])[ok] - gvx[ok]).max() / sg if ok.any() else 0.0
                    except tlcmod.MachineryError:
                        raise
                    except Exception as e:
                        ctx.violation("gv:cells-raises", "dD/dq / group velocity raised %r" % e,
                                      dict(cfg=c, build=build, via=via, use_openmp=flag))
                        cell["ddm"] = cell["gv"] = False
                        continue
                    ctx.count(("cells", build, via, flag, c["id"], tuple(x), nac))
                    cell["max_ddm_err"] = max(cell.get("max_ddm_err", 0.0), float(e1))
                    cell["max_gv_err"] = max(cell.get("max_gv_err", 0.0), float(e2))
                    if not (e1 <= TOL["ddm"]):
                        cell["ddm"] = False
                        ctx.violation("gv:cells:ddm:%s:%s" % (build, "openmp" if flag else "serial-loop"),
                                      "dD/dq differs from the term-wise derivative of the lattice Fourier sum (build %s, "
                                      "object made via %s with use_openmp=%s)" % (build, via, flag),
                                      dict(cfg=c, x=x, q=qp, nac=nac, build=build, via=via, use_openmp=flag,
                                           rel_err=float(e1), expected=dDc[0][:3, :6], got=np.array(ddm.d_dynamical_matrix)[0][:3, :6]))
                    if not (e2 <= TOL["gv_analytic"]):
                        cell["gv"] = False
                        ctx.violation("gv:cells:velocity:%s:%s" % (build, "openmp" if flag else "serial-loop"),
                                      "group velocity differs from <e|dD/dq|e> factor^2/2f (build %s, object made via %s "
                                      "with use_openmp=%s)" % (build, via, flag),
                                      dict(cfg=c, x=x, q=qp, nac=nac, build=build, via=via, use_openmp=flag, rel_err=float(e2)))
    return list(cells.values())


def kernel_cells_part(ctx, margins):
    """this build in-process, the other build (VERIF_EXT_VARIANT) in a sub-process; TLC judges the cell table."""
    import json
    import os
    import subprocess
    import sys
    here = os.environ.get("VERIF_EXT_VARIANT", "omp")
    here = here if here in ("omp", "serial") else "serial"
    other = "serial" if here == "omp" else "omp"
    cells = kernel_cells(ctx, here)
    env = dict(os.environ, VERIF_EXT_VARIANT=other, VERIF_SEED=str(ctx.seed), VERIF_TIER=ctx.tier)
    verif = os.path.dirname(os.path.dirname(os.path.dirname(os.path.abspath(__file__))))
    r = subprocess.run([sys.executable, "-m", "harness.c12_variant"], cwd=verif, env=env, stdout=subprocess.PIPE,
                       stderr=subprocess.PIPE, text=True, timeout=900)
    lines = [l for l in r.stdout.splitlines() if l.startswith("C12VARIANT ")]
    if r.returncode != 0 or not lines:
        raise tlcmod.MachineryError("kernel cells: sub-process for build %s failed (rc %s)\n%s" % (other, r.returncode,
                                                                                                 (r.stderr or r.stdout)[-1500:]))
    sub = json.loads(lines[-1][len("C12VARIANT "):])
    cells += sub["cells"]
    for v in sub["violations"]:
        ctx.violation(v["key"], v["what"], v["detail"])
    ctx.evaluations += sub["evaluations"]
    ctx.states += sub["states"]
    for cl in cells:
        upd(margins, "cells_ddm", cl.get("max_ddm_err", 0.0))
        upd(margins, "cells_gv", cl.get("max_gv_err", 0.0))
    ctx.extra["kernel_cells"] = [dict(build=cl["build"], via=cl["via"], use_openmp=cl["openmp"], ddm=cl["ddm"], gv=cl["gv"])
                                 for cl in cells]
    ctl = ", ".join("[build |-> %s, via |-> %s, openmp |-> %s, ddm |-> %s, gv |-> %s]" % (
        to_tla(cl["build"]), to_tla(cl["via"]), "TRUE" if cl["openmp"] else "FALSE", "TRUE" if cl["ddm"] else "FALSE",
        "TRUE" if cl["gv"] else "FALSE") for cl in cells)
    mc = "---- MODULE MC_GV ----\nEXTENDS GroupVelocity\nMCCells == {%s}\nMCCfgs == {}\n====\n" % ctl
    res = ctx.tlc("MC_GV", cfg_text=CFG_GV, extra_files={"MC_GV.tla": mc}, requirement=False, workers=1)
    if res.violated:
        exercised = set((cl["build"], cl["via"], cl["openmp"]) for cl in cells)
        want = {(b, "phonopy", b == "omp") for b in ("omp", "serial")} | {(b, "direct", f) for b in ("omp", "serial")
                                                                           for f in (False, True)}
        if want - exercised:
            raise tlcmod.MachineryError("kernel cells: not every (build, via, use_openmp) cell was exercised: %s"
                                        % sorted(want - exercised))
        ctx.violation("gv:cells:ImplCells", "GroupVelocity.tla InvCells fails: dD/dq or the group velocity is wrong in a "
                      "(build, use_openmp) cell", dict(cells=ctx.extra["kernel_cells"]))
    ctx.traces += len(cells)
