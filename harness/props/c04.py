"""C04 - supercell and primitive cell are exact re-tilings with consistent index maps.

Spec: spec/Supercell.tla (step machine + requirement), spec/SupercellTrace.tla
(conformance), spec/Primitive.tla (+Trace).  See DESIGN.md section 5/C04.
"""
from __future__ import annotations

import io
import itertools
import contextlib

import numpy as np

from harness import bootstrap  # noqa: F401
from harness import xtal
from harness.tla_values import to_tla

from phonopy.structure.cells import get_supercell
from phonopy.structure.snf import SNF3x3

CELLS = [
    dict(name="sc1", D=1, num=[[0, 0, 0]], species=[0]),
    dict(name="two", D=4, num=[[0, 0, 0], [1, 2, 3]], species=[0, 1]),
    dict(name="three", D=6, num=[[1, 1, 1], [3, 3, 3], [5, 2, 4]], species=[0, 1, 0]),
]


def det3(m):
    m = np.array(m)
    return int(round(np.linalg.det(m)))


def frame_points(m):
    m = np.array(m)
    axes = np.array([[0, 0, 0], m[:, 0], m[:, 1], m[:, 2], m[:, 1] + m[:, 2], m[:, 2] + m[:, 0],
                     m[:, 0] + m[:, 1], m[:, 0] + m[:, 1] + m[:, 2]])
    return int(np.prod(axes.max(axis=0) - axes.min(axis=0)))


def s_space(rng, tier):
    R = (-1, 0, 1)
    mats = []
    for t in itertools.product(R, repeat=9):
        m = [list(t[0:3]), list(t[3:6]), list(t[6:9])]
        mats.append(m)
    if tier == "quick":
        sel = [m for m in mats if abs(det3(m)) <= 4]
        rng.shuffle(sel)
        sel = sel[:int(__import__('os').environ.get('C04_N','1500'))]
    else:
        sel = mats
    # beyond -1..1: random matrices with entries in -2..3 and |det| <= 8, and diagonals
    extra = []
    n_extra = int(__import__('os').environ.get('C04_X','300')) if tier == "quick" else 6000
    while len(extra) < n_extra:
        m = [[rng.randint(-2, 3) for _ in range(3)] for _ in range(3)]
        if abs(det3(m)) <= 8 and frame_points(m) <= (400 if tier == "quick" else 2500):
            extra.append(m)
    diag = [[[a, 0, 0], [0, b, 0], [0, 0, c]] for a in (-1, 1, 2, 3) for b in (1, 2, 3) for c in (1, 2)]
    seen = set()
    out = []
    for m in sel + extra + diag:
        k = tuple(map(tuple, m))
        if k not in seen:
            seen.add(k)
            out.append(m)
    return out


def run_snf(S):
    try:
        snf = SNF3x3(np.array(S))
        snf.run()
        return dict(P=snf.P.tolist(), Q=snf.Q.tolist(), D=snf.D.tolist())
    except Exception as e:  # singular, or anything else: recorded as such
        return dict(err=type(e).__name__)


def project_supercell(sc, ucell, acell, S, N_expected):
    """Real Supercell -> abstract result record of Supercell.tla."""
    if len(sc) == 0 or sc.s2u_map is None:
        return dict(status="failed")
    D = acell["D"]
    cart = sc.positions
    u, resid = xtal.project_to_unit(cart, ucell.cell, D)
    s2u = [int(x) for x in sc.s2u_map]
    u2s = [int(x) for x in sc.u2s_map]
    # which unit-cell atom is each supercell atom an image of, as the maps say
    N = len(sc) // len(ucell)
    a_of = []
    for k in range(len(sc)):
        a = sc.u2u_map.get(s2u[k], None)
        a_of.append(-1 if a is None else int(a))
    attrs = True
    for k, a in enumerate(a_of):
        if a < 0:
            attrs = False
            continue
        if sc.symbols[k] != ucell.symbols[a] or abs(sc.masses[k] - ucell.masses[a]) > 1e-12:
            attrs = False
        if ucell.magnetic_moments is not None:
            if sc.magnetic_moments is None or not np.allclose(sc.magnetic_moments[k], ucell.magnetic_moments[a]):
                attrs = False
    lat_ok = bool(np.abs(sc.cell - np.dot(np.array(S).T, ucell.cell)).max() < 1e-9)
    return dict(status="built",
                atoms=[dict(a=a + 1, u=[int(v) for v in uu]) for a, uu in zip(a_of, u)],
                s2u=s2u, u2s=u2s, latticeOK=lat_ok, attrsOK=attrs, exact=bool(resid < 1e-6))


def gen_events(ctx):
    rng = ctx.rng
    nprng = np.random.default_rng(ctx.seed)
    Ss = s_space(rng, ctx.tier)
    events = []
    snf_table = {}
    for S in Ss:
        if det3(S) != 0 and not all(S[i][j] == 0 for i in range(3) for j in range(3) if i != j):
            snf_table[tuple(map(tuple, S))] = run_snf(S)
    for ci, ac in enumerate(CELLS):
        lat = xtal.triclinic_lattice(nprng)
        masses = [10.0 + 3 * s + 0.5 * i for i, s in enumerate(ac["species"])]
        mag = [0.5 * (i + 1) for i in range(len(ac["num"]))] if ci == 2 else None
        ucell = xtal.make_cell(ac["num"], ac["D"], lat, ac["species"], masses, mag)
        # larger cells on a subset of S only (quick)
        sub = Ss if (ci == 0 or not ctx.quick) else Ss[:: 4 if ci == 1 else 8]
        for S in sub:
            for style in ("classic", "snf"):
                if style == "snf" and "err" in snf_table.get(tuple(map(tuple, S)), {}):
                    if det3(S) != 0:
                        pass  # SNF raised on a non-singular matrix: the call below will show it
                try:
                    with contextlib.redirect_stdout(io.StringIO()):
                        sc = get_supercell(ucell, S, is_old_style=(style == "classic"))
                    res = project_supercell(sc, ucell, ac, S, abs(det3(S)))
                except Exception as e:
                    res = dict(status="failed", err=type(e).__name__)
                events.append(dict(cell=dict(D=ac["D"], num=ac["num"]), S=S, style=style,
                                   result={k: v for k, v in res.items() if k != "err"}))
                ctx.count((ac["name"], tuple(map(tuple, S)), style))
    return Ss, snf_table, events


MC_TEMPLATE = """---- MODULE MC_SupercellTrace ----
EXTENDS SupercellTrace
MCCells == {}
MCSSpace == {}
MCStyles == {"classic", "snf"}
MCSNFTable == <<>>
MCEvents == {%s}
====
"""

CFG_TRACE = """INIT TInit
NEXT TNext
CONSTANTS
 Cells <- MCCells
 SSpace <- MCSSpace
 Styles <- MCStyles
 SNFTable <- MCSNFTable
 Events <- MCEvents
CHECK_DEADLOCK FALSE
INVARIANT ImplRequirementCount
INVARIANT ImplRequirementNoDup
INVARIANT ImplRequirementImageOf
INVARIANT ImplRequirementMaps
INVARIANT ImplRequirementLattice
INVARIANT ImplRequirementAttributes
INVARIANT ImplRequirementExact
INVARIANT ImplAccepts
INVARIANT ImplRejects
INVARIANT ImplSNFContract
INVARIANT ConformsStatus
INVARIANT ConformsOrder
INVARIANT InvRequirement
INVARIANT InvAccepts
INVARIANT InvRejects
INVARIANT InvFrameCovers
INVARIANT InvSNFPointsDistinct
"""


def run(ctx):
    ctx.rule = ("every (unit cell, supercell matrix S, construction style) is one case; S ranges over "
                "integer matrices with entries in -1..1 (all of them in the thorough tier) plus random ones "
                "with entries -2..3, |det|<=8; non-trivial = distinct (cell,S,style)")
    Ss, snf_table, events = gen_events(ctx)
    bad_snf = dict(P=[[1, 0, 0], [0, 1, 0], [0, 0, 1]], Q=[[1, 0, 0], [0, 1, 0], [0, 0, 1]], D=[[0, 0, 0]] * 3)
    table = {k: (v if "err" not in v else bad_snf) for k, v in snf_table.items()}
    ident = dict(P=bad_snf["P"], Q=bad_snf["P"], D=bad_snf["P"])
    for e in events:
        e["snf"] = table.get(tuple(map(tuple, e["S"])), ident)
    mc = MC_TEMPLATE % ",\n".join(to_tla(e) for e in events)
    res = ctx.tlc("MC_SupercellTrace", cfg_text=CFG_TRACE, extra_files={"MC_SupercellTrace.tla": mc},
                  requirement=False, extra_args=("-continue",), keep=True)
    from harness import tlc as tlcmod
    import re
    violated = sorted(set(n for n, _ in res.violations))
    witness = {}
    for n, tr in res.violations:
        if n not in witness and tr:
            st = tr[-1][1]
            e = st.get("ev", {})
            witness[n] = dict(S=e.get("S"), style=e.get("style"), cell=e.get("cell"))
    ctx.traces += len(events)
    ctx.extra["events"] = len(events)
    ctx.extra["matrices"] = len(Ss)
    ctx.extra["violated_invariants"] = violated
    ctx.sample(events[0])
    ctx.sample(events[len(events) // 2])
    req = [v for v in violated if v.startswith("Impl") or v.startswith("Inv")]
    for v in req:
        # find a witness event from the error trace
        ctx.violation("supercell:" + v, "C04 supercell requirement %s fails on the implementation's result" % v,
                      dict(invariant=v, witness=witness.get(v)))
    drift = [v for v in violated if v.startswith("Conforms")]
    if drift and not req:
        ctx.extra["SPEC-DRIFT"] = drift
        print("SPEC-DRIFT C04: %s (requirement intact)" % drift)
    tlcmod.cleanup(res)
