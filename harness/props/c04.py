"""C04 - supercell and primitive cell are exact re-tilings with consistent index maps.

Spec: spec/Supercell.tla (step machine + requirement), spec/SupercellTrace.tla
(conformance), spec/Primitive.tla (+Trace).  See DESIGN.md section 5/C04.
"""
from __future__ import annotations

import io
import itertools
import contextlib

import numpy as np

from harness import bootstrap  # noqa: F401
from harness import xtal
from harness.tla_values import to_tla

from phonopy.structure.cells import get_supercell
from phonopy.structure.snf import SNF3x3

CELLS = [
    dict(name="sc1", D=1, num=[[0, 0, 0]], species=[0]),
    dict(name="two", D=4, num=[[0, 0, 0], [1, 2, 3]], species=[0, 1]),
    dict(name="three", D=6, num=[[1, 1, 1], [3, 3, 3], [5, 2, 4]], species=[0, 1, 0]),
    # same abstract cells, realised with non-collinear moments / with positions off the grid by far less than symprec
    dict(name="two-noncollinear", D=4, num=[[0, 0, 0], [1, 2, 3]], species=[0, 1], mag="noncollinear"),
    dict(name="three-noisy", D=6, num=[[1, 1, 1], [3, 3, 3], [5, 2, 4]], species=[0, 1, 0], noise=2e-8),
]


def det3(m):
    m = np.array(m)
    return int(round(np.linalg.det(m)))


def frame_points(m):
    m = np.array(m)
    axes = np.array([[0, 0, 0], m[:, 0], m[:, 1], m[:, 2], m[:, 1] + m[:, 2], m[:, 2] + m[:, 0],
                     m[:, 0] + m[:, 1], m[:, 0] + m[:, 1] + m[:, 2]])
    return int(np.prod(axes.max(axis=0) - axes.min(axis=0)))


def s_space(rng, tier):
    R = (-1, 0, 1)
    mats = []
    for t in itertools.product(R, repeat=9):
        m = [list(t[0:3]), list(t[3:6]), list(t[6:9])]
        mats.append(m)
    if tier == "quick":
        sel = [m for m in mats if abs(det3(m)) <= 4]
        rng.shuffle(sel)
        sel = sel[:int(__import__('os').environ.get('C04_N','1500'))]
    else:
        sel = mats
    # beyond -1..1: random matrices with entries in -2..3 and |det| <= 8, and diagonals
    extra = []
    n_extra = int(__import__('os').environ.get('C04_X','300')) if tier == "quick" else 1500
    while len(extra) < n_extra:
        m = [[rng.randint(-2, 3) for _ in range(3)] for _ in range(3)]
        if abs(det3(m)) <= 8 and frame_points(m) <= (400 if tier == "quick" else 2500):
            extra.append(m)
    diag = [[[a, 0, 0], [0, b, 0], [0, 0, c]] for a in (-1, 1, 2, 3) for b in (-2, -1, 1, 2, 3) for c in (1, 2)]
    seen = set()
    out = []
    for m in sel + extra + diag:
        k = tuple(map(tuple, m))
        if k not in seen:
            seen.add(k)
            out.append(m)
    return out


def run_snf(S):
    try:
        snf = SNF3x3(np.array(S))
        snf.run()
        return dict(P=snf.P.tolist(), Q=snf.Q.tolist(), D=snf.D.tolist())
    except Exception as e:  # singular, or anything else: recorded as such
        return dict(err=type(e).__name__)


def project_supercell(sc, ucell, acell, S, N_expected):
    """Real Supercell -> abstract result record of Supercell.tla."""
    if len(sc) == 0 or sc.s2u_map is None:
        return dict(status="failed")
    D = acell["D"]
    cart = sc.positions
    u, resid = xtal.project_to_unit(cart, ucell.cell, D)
    s2u = [int(x) for x in sc.s2u_map]
    u2s = [int(x) for x in sc.u2s_map]
    # which unit-cell atom is each supercell atom an image of, as the maps say
    N = len(sc) // len(ucell)
    a_of = []
    for k in range(len(sc)):
        a = sc.u2u_map.get(s2u[k], None)
        a_of.append(-1 if a is None else int(a))
    attrs = True
    for k, a in enumerate(a_of):
        if a < 0:
            attrs = False
            continue
        if sc.symbols[k] != ucell.symbols[a] or abs(sc.masses[k] - ucell.masses[a]) > 1e-12:
            attrs = False
        if ucell.magnetic_moments is not None:
            if sc.magnetic_moments is None or not np.allclose(sc.magnetic_moments[k], ucell.magnetic_moments[a]):
                attrs = False
    lat_ok = bool(np.abs(sc.cell - np.dot(np.array(S).T, ucell.cell)).max() < 1e-9)
    return dict(status="built",
                atoms=[dict(a=a + 1, u=[int(v) for v in uu]) for a, uu in zip(a_of, u)],
                s2u=s2u, u2s=u2s, latticeOK=lat_ok, attrsOK=attrs, exact=bool(resid < 1e-6))


def gen_events(ctx):
    rng = ctx.rng
    nprng = np.random.default_rng(ctx.seed)
    Ss = s_space(rng, ctx.tier)
    events = []
    snf_table = {}
    for S in Ss:
        if det3(S) != 0 and not all(S[i][j] == 0 for i in range(3) for j in range(3) if i != j):
            snf_table[tuple(map(tuple, S))] = run_snf(S)
    for ci, ac in enumerate(CELLS):
        lat = xtal.triclinic_lattice(nprng)
        masses = [10.0 + 3 * s + 0.5 * i for i, s in enumerate(ac["species"])]
        mag = [0.5 * (i + 1) for i in range(len(ac["num"]))] if ci == 2 else None
        if ac.get("mag") == "noncollinear":
            mag = [[0.1 * (i + 1), -0.2 * (i + 1), 0.3 + i] for i in range(len(ac["num"]))]
        ucell = xtal.make_cell(ac["num"], ac["D"], lat, ac["species"], masses, mag)
        if ac.get("noise"):
            ucell.scaled_positions = ucell.scaled_positions + nprng.uniform(-ac["noise"], ac["noise"], size=(len(ac["num"]), 3))
        # larger cells on a subset of S only (quick)
        sub = Ss if ci == 0 else Ss[:: (4 if ctx.quick else 8) if ci == 1 else (8 if ctx.quick else 16) if ci == 2 else (16 if ctx.quick else 32)]
        for S in sub:
            for style in ("classic", "snf"):
                if style == "snf" and "err" in snf_table.get(tuple(map(tuple, S)), {}):
                    if det3(S) != 0:
                        pass  # SNF raised on a non-singular matrix: the call below will show it
                try:
                    with contextlib.redirect_stdout(io.StringIO()):
                        sc = get_supercell(ucell, S, is_old_style=(style == "classic"))
                    res = project_supercell(sc, ucell, ac, S, abs(det3(S)))
                except Exception as e:
                    res = dict(status="failed", err=type(e).__name__)
                events.append(dict(ucell=dict(D=ac["D"], num=ac["num"]), smat=S, sty=style,
                                   res={k: v for k, v in res.items() if k != "err"}))
                ctx.count((ac["name"], tuple(map(tuple, S)), style))
    return Ss, snf_table, events


MC_TEMPLATE = """---- MODULE MC_SupercellTrace ----
EXTENDS SupercellTrace
MCCells == {}
MCSSpace == {}
MCStyles == {"classic", "snf"}
MCSNFTable == <<>>
MCEvents == {%s}
====
"""

CFG_TRACE = """INIT TInit
NEXT TNext
CONSTANTS
 Cells <- MCCells
 SSpace <- MCSSpace
 Styles <- MCStyles
 SNFTable <- MCSNFTable
 Events <- MCEvents
CHECK_DEADLOCK FALSE
INVARIANT ImplRequirementCount
INVARIANT ImplRequirementNoDup
INVARIANT ImplRequirementImageOf
INVARIANT ImplRequirementMaps
INVARIANT ImplRequirementLattice
INVARIANT ImplRequirementAttributes
INVARIANT ImplRequirementExact
INVARIANT ImplAccepts
INVARIANT ImplRejects
INVARIANT ImplSNFContract
INVARIANT ConformsStatus
INVARIANT ConformsOrder
INVARIANT InvRequirement
INVARIANT InvAccepts
INVARIANT InvRejects
INVARIANT InvFrameCovers
INVARIANT InvSNFPointsDistinct
"""


# ---------------------------------------------------------------------------
# Primitive cell part
# ---------------------------------------------------------------------------
PCELLS = [
    dict(name="fcc1", D=2, num=[[0, 0, 0], [0, 1, 1], [1, 0, 1], [1, 1, 0]], species=[0, 0, 0, 0]),
    dict(name="nacl8", D=2, num=[[0, 0, 0], [1, 0, 0], [0, 1, 1], [1, 1, 1], [1, 0, 1], [0, 0, 1], [1, 1, 0], [0, 1, 0]],
         species=[0, 1, 0, 1, 0, 1, 0, 1]),
    dict(name="bcc2", D=2, num=[[0, 0, 0], [1, 1, 1]], species=[0, 0]),
    dict(name="cscl", D=2, num=[[0, 0, 0], [1, 1, 1]], species=[0, 1]),
    dict(name="ccent", D=2, num=[[0, 0, 0], [0, 0, 1], [1, 1, 0], [1, 1, 1]], species=[0, 1, 0, 1]),
    dict(name="rhomb", D=3, num=[[0, 0, 0], [2, 1, 1], [1, 2, 2]], species=[0, 0, 0]),
    dict(name="tric3", D=4, num=[[0, 0, 0], [1, 2, 1], [2, 1, 3]], species=[0, 1, 0]),
    dict(name="sc1", D=1, num=[[0, 0, 0]], species=[0]),
]
PMATS = ["P", "F", "I", "A", "C", "R",
         [[1, 0, 0], [0, 1, 0], [0, 0, 2]], [[1, 0, 0], [0, 1, 0], [0, 0, 0.5]], [[0, 1, 0], [1, 0, 0], [0, 0, 1]],
         [[0.5, 0.5, 0], [0.5, -0.5, 0], [0, 0, 1]], [[1, 0, 0], [0, 1, 0], [1, 1, 0]]]
PSMATS = [[[1, 0, 0], [0, 1, 0], [0, 0, 1]], [[2, 0, 0], [0, 2, 0], [0, 0, 2]], [[2, 0, 0], [0, 1, 0], [0, 0, 1]],
          [[0, 1, 1], [1, 0, 1], [1, 1, 0]], [[-1, 1, 1], [1, -1, 1], [1, 1, -1]], [[2, 1, 0], [0, 2, 0], [0, 0, 1]],
          [[3, 0, 0], [0, 3, 0], [0, 0, 1]], [[1, 1, 0], [-1, 1, 0], [0, 0, 2]], [[2, 0, 0], [0, 2, 0], [0, 0, 4]],
          [[1, 0, 0], [0, 1, 0], [0, 0, 3]], [[2, -1, 0], [1, 1, 0], [0, 0, 1]]]


def gen_prim_events(ctx):
    from phonopy.structure.cells import get_primitive, get_primitive_matrix_by_centring

    nprng = np.random.default_rng(ctx.seed + 17)
    events = []
    smats = list(PSMATS)
    if not ctx.quick:
        for _ in range(40):
            while True:
                m = [[ctx.rng.randint(-2, 2) for _ in range(3)] for _ in range(3)]
                if 0 < det3(m) <= 6 and frame_points(m) <= 300:
                    smats.append(m)
                    break
    for ac in PCELLS:
        lat = xtal.triclinic_lattice(nprng)
        masses = [10.0 + 3 * s for s in ac["species"]]
        ucell = xtal.make_cell(ac["num"], ac["D"], lat, ac["species"], masses)
        for S in smats:
            if ctx.quick and len(ac["num"]) * abs(det3(S)) > 64:
                continue
            with contextlib.redirect_stdout(io.StringIO()):
                sc = get_supercell(ucell, S)
            if len(sc) == 0:
                continue
            Pd = 6
            scale = 6 // np.gcd(ac["D"], 6)
            D = ac["D"] * scale
            u, resid = xtal.project_to_unit(sc.positions, ucell.cell, D)
            assert resid < 1e-6
            # identify each supercell atom by position and symbol (not through the code's own maps)
            atoms = []
            for k in range(len(sc)):
                a = None
                for ai, n in enumerate(ac["num"]):
                    if all((int(u[k][i]) - n[i] * scale) % D == 0 for i in range(3)) and \
                            xtal.SYMBOLS[ac["species"][ai] % len(xtal.SYMBOLS)] == sc.symbols[k]:
                        a = ai
                        break
                if a is None:
                    atoms = None
                    break
                atoms.append(dict(a=a + 1, sp=int(ac["species"][a]), u=[int(v) for v in u[k]]))
            if atoms is None:
                continue  # a mis-built supercell is the supercell part's finding
            for pm in PMATS + ["auto"]:
                if pm == "auto":
                    # guess_primitive_matrix: whatever spglib proposes must be a valid primitive matrix for this crystal
                    try:
                        from phonopy.structure.cells import guess_primitive_matrix
                        P = np.array(guess_primitive_matrix(ucell), dtype=float)
                    except Exception as e:
                        ctx.violation("primitive:auto-exception", "guess_primitive_matrix raised %s" % type(e).__name__,
                                      dict(cell=ac["name"], error=repr(e)))
                        continue
                else:
                    P = get_primitive_matrix_by_centring(pm) if isinstance(pm, str) else np.array(pm, dtype=float)
                Pn = np.rint(P * Pd).astype(int)
                if np.abs(Pn - P * Pd).max() > 1e-9:
                    ctx.extra["auto_pmat_not_sixths"] = ctx.extra.get("auto_pmat_not_sixths", 0) + 1
                    continue
                requests = [None]
                if pm == "P" and 3 <= len(ac["num"]) <= 8 and abs(det3(S)) <= 2:
                    requests += ["cycle", "random"]       # positions_to_reorder with a 3-cycle / a random order
                for request in requests:
                    inp = dict(D=D, S=S, Pn=Pn.tolist(), Pd=Pd, atoms=atoms, reorder=[])
                    try:
                        tmat = np.dot(np.linalg.inv(np.array(S, dtype=float)), P)
                        ptr = None
                        if request is not None:
                            with contextlib.redirect_stdout(io.StringIO()):
                                prim0 = get_primitive(sc, tmat)
                            n0 = len(prim0)
                            order = list(range(n0))
                            if request == "cycle":
                                order = order[1:] + order[:1]
                            else:
                                ctx.rng.shuffle(order)
                            ptr = prim0.scaled_positions[order]
                            pu0, _ = xtal.project_to_unit(prim0.positions[order], ucell.cell, D)
                            inp["reorder"] = [[int(v) for v in x] for x in pu0]
                        with contextlib.redirect_stdout(io.StringIO()):
                            prim = get_primitive(sc, tmat, positions_to_reorder=ptr)
                        pu, presid = xtal.project_to_unit(prim.positions, ucell.cell, D)
                        p2s = [int(x) + 1 for x in prim.p2s_map]
                        attrs = all(prim.symbols[i] == sc.symbols[p2s[i] - 1] and
                                    abs(prim.masses[i] - sc.masses[p2s[i] - 1]) < 1e-12 for i in range(len(prim)))
                        lat_ok = bool(np.abs(prim.cell - np.dot(P.T, ucell.cell)).max() < 1e-9)
                        res = dict(status="built", p2s=p2s, s2p=[int(x) + 1 for x in prim.s2p_map],
                                   p2p=[[int(k) + 1, int(v) + 1] for k, v in sorted(prim.p2p_map.items(), key=lambda kv: kv[1])],
                                   perms=[[int(x) + 1 for x in row] for row in prim.atomic_permutations],
                                   pu=[[int(v) for v in x] for x in pu], latticeOK=lat_ok, attrsOK=bool(attrs),
                                   exact=bool(presid < 1e-6))
                    except Exception as e:  # phonopy refuses the input
                        res = dict(status="error")
                    res["auto"] = bool(pm == "auto")
                    events.append(dict(pin=inp, res=res))
                    ctx.count(("prim", ac["name"], tuple(map(tuple, S)), str(pm), str(request)))
    return events


MC_PRIM = """---- MODULE MC_PrimitiveTrace ----
EXTENDS PrimitiveTrace
MCEvents == {%s}
====
"""
CFG_PRIM = """INIT TInit
NEXT TNext
CONSTANTS
 Events <- MCEvents
CHECK_DEADLOCK FALSE
INVARIANT ImplP2S
INVARIANT ImplS2P
INVARIANT ImplPerms
INVARIANT ImplP2P
INVARIANT ImplPrimAtoms
INVARIANT ImplPrimLattice
INVARIANT ImplReorder
INVARIANT ImplPrimAttributes
INVARIANT ImplPrimExact
INVARIANT ImplAcceptsP
INVARIANT ImplRejectsP
INVARIANT ImplAutoIsPrimitive
INVARIANT InvMachine
INVARIANT ConformsPStatus
INVARIANT ConformsPMaps
"""


def run_primitive(ctx):
    from harness import tlc as tlcmod
    events = gen_prim_events(ctx)
    nb = sum(1 for e in events if e["res"]["status"] == "built")
    ctx.extra["primitive_events"] = len(events)
    ctx.extra["primitive_built"] = nb
    ctx.extra["primitive_rejected"] = len(events) - nb
    ctx.traces += len(events)
    ctx.sample(dict(kind="primitive", inp={k: v for k, v in events[1]["pin"].items() if k != "atoms"},
                    natoms=len(events[1]["pin"]["atoms"]), result=events[1]["res"]))
    mc = MC_PRIM % ",\n".join(to_tla(e) for e in events)
    res = ctx.tlc("MC_PrimitiveTrace", cfg_text=CFG_PRIM, extra_files={"MC_PrimitiveTrace.tla": mc},
                  requirement=False, extra_args=("-continue",), keep=True)
    violated = sorted(set(n for n, _ in res.violations))
    witness = {}
    for n, tr in res.violations:
        if n not in witness and tr:
            e = tr[-1][1].get("ev", {})
            inp = e.get("pin", {})
            witness[n] = dict(S=inp.get("S"), Pn=inp.get("Pn"), Pd=inp.get("Pd"), natoms=len(inp.get("atoms", [])),
                              status=e.get("res", {}).get("status"))
    ctx.extra["primitive_violated_invariants"] = violated
    req = [v for v in violated if v.startswith("Impl") or v.startswith("Inv")]
    for v in req:
        ctx.violation("primitive:" + v, "C04 primitive requirement %s fails on the implementation's result" % v,
                      dict(invariant=v, witness=witness.get(v)))
    drift = [v for v in violated if v.startswith("Conforms")]
    if drift and not req:
        ctx.extra["SPEC-DRIFT-primitive"] = dict(invariants=drift, witness={v: witness.get(v) for v in drift})
        print("SPEC-DRIFT C04 primitive: %s (requirement intact)" % drift)
    tlcmod.cleanup(res)


# ---------------------------------------------------------------------------
# SNF3x3 iterator against the transcribed step machine (spec/SNF.tla)
# ---------------------------------------------------------------------------
CFG_SNF = """INIT TInit
NEXT Step
CONSTANTS
 Events <- MCEvents
 MaxAttempts = 12
CHECK_DEADLOCK FALSE
INVARIANT InvLoop
INVARIANT ReqContract
INVARIANT ReqTerminates
INVARIANT ImplContract
INVARIANT ConformsStep
INVARIANT ConformsEnd
INVARIANT ConformsNotEarly
"""


def snf_events(ctx, mats):
    events = []
    for S in mats:
        if det3(S) == 0:
            continue
        snf = SNF3x3(np.array(S))
        steps = []
        err = None
        for _ in range(40):
            try:
                next(snf)
                steps.append(snf.A.tolist())
            except StopIteration:
                steps.append(snf.A.tolist())
                break
            except Exception as e:  # noqa
                err = e
                break
        if err is not None or snf.P is None:
            ctx.violation("snf:no-result", "SNF3x3 raised or did not terminate on a non-singular matrix",
                          dict(A=S, error=repr(err), calls=len(steps)))
            continue
        events.append(dict(A0=S, steps=steps, P=snf.P.tolist(), Q=snf.Q.tolist(), D=snf.D.tolist()))
        ctx.count(("snf", tuple(map(tuple, S))))
    return events


def run_snf_trace(ctx, mats):
    from harness import tlc as tlcmod
    # also the transposes (get_commensurate_points_in_integers feeds S^T) and larger entries
    extra = []
    n = 200 if ctx.quick else 3000
    while len(extra) < n:
        m = [[ctx.rng.randint(-6, 6) for _ in range(3)] for _ in range(3)]
        if 0 < abs(det3(m)) <= 60:
            extra.append(m)
    events = snf_events(ctx, list(mats) + extra)
    ctx.extra["snf_events"] = len(events)
    ctx.extra["snf_max_calls"] = max(len(e["steps"]) for e in events)
    ctx.traces += len(events)
    ctx.sample(dict(kind="snf", **max(events, key=lambda e: len(e["steps"]))))
    mc = "---- MODULE MC_SNFTrace ----\nEXTENDS SNFTrace\nMCEvents == {%s}\n====\n" % ",\n".join(to_tla(e) for e in events)
    res = ctx.tlc("MC_SNFTrace", cfg_text=CFG_SNF, extra_files={"MC_SNFTrace.tla": mc},
                  requirement=False, extra_args=("-continue",), keep=True)
    violated = sorted(set(nm for nm, _ in res.violations))
    wit = {}
    for nm, tr in res.violations:
        if nm not in wit and tr:
            stt = tr[-1][1]
            wit[nm] = dict(A0=stt.get("ev", {}).get("A0"), attempt=stt.get("attempt"), machine_A=stt.get("st", {}).get("A"))
    req = [v for v in violated if v in ("ImplContract", "ReqContract", "ReqTerminates", "InvLoop")]
    for v in req:
        ctx.violation("snf:" + v, "Smith normal form: %s fails" % v, dict(invariant=v, witness=wit.get(v)))
    drift = [v for v in violated if v.startswith("Conforms")]
    if drift and not req:
        ctx.extra["SPEC-DRIFT-snf"] = dict(invariants=drift, witness={v: wit.get(v) for v in drift})
        print("SPEC-DRIFT C04 snf: %s (contract intact)" % drift)
    tlcmod.cleanup(res)


def run(ctx):
    mats = run_supercell(ctx)
    run_snf_trace(ctx, mats)
    try:
        run_primitive(ctx)
    except Exception:
        if not ctx.violations:
            raise
        ctx.extra["primitive_part"] = "not completed: supercell part already violated"


def run_supercell(ctx):
    ctx.rule = ("every (unit cell, supercell matrix S, construction style) is one case; S ranges over "
                "integer matrices with entries in -1..1 (all of them in the thorough tier) plus random ones "
                "with entries -2..3, |det|<=8; non-trivial = distinct (cell,S,style)")
    Ss, snf_table, events = gen_events(ctx)
    bad_snf = dict(P=[[1, 0, 0], [0, 1, 0], [0, 0, 1]], Q=[[1, 0, 0], [0, 1, 0], [0, 0, 1]], D=[[0, 0, 0]] * 3)
    table = {k: (v if "err" not in v else bad_snf) for k, v in snf_table.items()}
    ident = dict(P=bad_snf["P"], Q=bad_snf["P"], D=bad_snf["P"])
    for e in events:
        e["snf"] = table.get(tuple(map(tuple, e["smat"])), ident)
    import copy
    bad = copy.deepcopy(next(e for e in events if e["res"].get("status") == "built" and len(e["res"]["atoms"]) >= 2))
    bad["res"]["atoms"][1]["u"] = bad["res"]["atoms"][0]["u"]      # two atoms on the same site
    ctx.binding_demo("duplicated supercell atom", "MC_SupercellTrace", CFG_TRACE, MC_TEMPLATE % to_tla(bad),
                     "ImplRequirementNoDup")
    from harness import tlc as tlcmod
    violated_all, witness = set(), {}
    CH = 6000
    for c0 in range(0, len(events), CH):
        mc = MC_TEMPLATE % ",\n".join(to_tla(e) for e in events[c0:c0 + CH])
        res = ctx.tlc("MC_SupercellTrace", cfg_text=CFG_TRACE, extra_files={"MC_SupercellTrace.tla": mc},
                      requirement=False, extra_args=("-continue",), keep=True)
        for n, tr in res.violations:
            violated_all.add(n)
            if n not in witness and tr:
                e = tr[-1][1].get("ev", {})
                witness[n] = dict(S=e.get("smat"), style=e.get("sty"), cell=e.get("ucell"))
        tlcmod.cleanup(res)
    violated = sorted(violated_all)
    ctx.traces += len(events)
    ctx.extra["events"] = len(events)
    ctx.extra["matrices"] = len(Ss)
    ctx.extra["violated_invariants"] = violated
    ctx.sample(events[0])
    ctx.sample(events[len(events) // 2])
    req = [v for v in violated if v.startswith("Impl") or v.startswith("Inv")]
    for v in req:
        ctx.violation("supercell:" + v, "C04 supercell requirement %s fails on the implementation's result" % v,
                      dict(invariant=v, witness=witness.get(v)))
    drift = [v for v in violated if v.startswith("Conforms")]
    if drift and not req:
        ctx.extra["SPEC-DRIFT"] = drift
        print("SPEC-DRIFT C04: %s (requirement intact)" % drift)
    return Ss

