"""C01 - the finite-displacement solver recovers exactly harmonic force constants.

Specification: spec/DispAlgo.tla (direction search + requirement), spec/Displacements.tla
(step machine on every subgroup of the ambient point groups), spec/DisplacementsTrace.tla
(code -> spec), spec/AngleSprings.tla (reference crystals with non-symmetric 3x3 blocks),
spec/FiniteDifference.tla (the session in exact integer arithmetic, requirement FCExact*),
spec/FiniteDifferenceTrace.tla (real sessions -> spec).  DESIGN.md section 5/C01.

Steps of a run
  A  TLC model-checks Displacements on the subgroup lattices of the ambient groups.
  B  TLC computes the reference crystals (FiniteDifference up to `Cells`, cached).
  C  The harness drives real Phonopy objects on those crystals: Phonopy(...),
     generate_displacements, forces F = -Phi u from the exact reference,
     produce_force_constants (full / compact, plus-minus auto/on/off, diagonal on/off,
     with / without symmetry, three distances) and records what the code did.
  D  TLC validates the recorded displacement searches (DisplacementsTrace; also for the
     crystals of the repository's tests in several supercell bases).
  E  TLC runs the session model on each crystal and evaluates the requirement on the
     recorded sessions (FiniteDifferenceTrace).
"""
from __future__ import annotations

import glob
import io
import itertools
import json
import os
import contextlib
import traceback

import numpy as np

from harness import bootstrap  # noqa: F401
from harness import c01_ref
from harness import tlc as tlcmod
from harness.tla_values import to_tla

import phonopy
from phonopy import Phonopy
import phonopy.api_phonopy as api_phonopy
from phonopy.harmonic.displacement import get_least_displacements
from phonopy.harmonic.force_constants import compact_fc_to_full_fc, full_fc_to_compact_fc
from phonopy.file_IO import write_FORCE_SETS, parse_FORCE_SETS

ID = [[1, 0, 0], [0, 1, 0], [0, 0, 1]]
HEX3 = [[2, -1, 0], [-1, 2, 0], [0, 0, 3]]
FCC = [[2, 1, 1], [1, 2, 1], [1, 1, 2]]
BCC = [[3, -1, -1], [-1, 3, -1], [-1, -1, 3]]

AMB_QUICK = [
    dict(G=ID, B=ID),                                        # cubic P: O_h, 98 subgroups
    dict(G=HEX3, B=ID),                                      # hexagonal: D_6h
    dict(G=FCC, B=ID),                                       # O_h in the fcc-primitive basis
    dict(G=ID, B=[[1, 1, 0], [-1, 1, 0], [0, 0, 1]]),        # sqrt2 x sqrt2 supercell of cubic
]
AMB_THOROUGH = AMB_QUICK + [
    dict(G=BCC, B=ID),                                       # O_h in the bcc-primitive basis
    dict(G=ID, B=[[1, 1, 0], [0, 1, 0], [0, 0, 1]]),         # sheared (unimodular) cubic basis
    dict(G=HEX3, B=[[1, 0, 0], [1, 1, 0], [0, 0, 1]]),       # hexagonal, 60-degree basis
    dict(G=ID, B=[[2, 1, 0], [0, 1, 0], [0, 0, 1]]),         # centred-rectangular basis of the sqrt2 cell
    dict(G=ID, B=[[1, 1, 1], [0, 1, 1], [0, 0, 1]]),         # doubly sheared cubic basis
    dict(G=FCC, B=[[1, 0, 0], [1, 1, 0], [0, 0, 1]]),        # sheared fcc-primitive basis
]

CFG_DISP = """SPECIFICATION Spec
VIEW view
CONSTANTS
 Ambients <- MCAmb
 PMs <- MCPMs
 Trigs <- MCTrigs
 Orders <- MCOrders
CHECK_DEADLOCK FALSE
INVARIANT InvSpan
INVARIANT InvSpanChosen
INVARIANT InvPlusMinus
INVARIANT InvFromList
INVARIANT InvLeast
INVARIANT InvFunctional
INVARIANT InvGroup
INVARIANT InvAmbient
"""
DISP_REQ = ("InvSpan", "InvSpanChosen", "InvPlusMinus", "InvFromList")

CFG_DTRACE = """INIT TInit
NEXT TNext
CONSTANTS
 Ambients <- MCAmb
 PMs <- MCNone
 Trigs <- MCNone
 Orders <- MCNone
 Events <- MCEvents
CHECK_DEADLOCK FALSE
INVARIANT ImplSpan
INVARIANT ImplPlusMinus
INVARIANT ImplFromList
INVARIANT ImplSiteIsGroup
INVARIANT ConformsOut
"""

FD_HYP = ["HypReps", "HypPermSym", "HypTransInv", "HypPTrans", "HypSpaceGroup", "HypOpsSpecies", "HypNonTrivial",
          "HypRefAgree", "HypNonSymmetricExpected"]
FD_MODEL_REQ = ["Sufficient", "Consistent", "CoverAll", "RepsInP2S", "SpanAtoms", "PlusMinusAtoms",
                "FCExactSolved", "FCExactFull", "FCExactCompact", "Homogeneous"]
FD_IMPL = ["ImplNoError", "ImplCoverAll", "ImplMapAtoms", "ImplSiteSound", "ImplSpan", "ImplPlusMinus", "ImplP2S",
           "ImplFCExact", "ImplConvertExact"]
FD_CONF = ["ConformsReps", "ConformsNumOps", "ConformsSite"]

CFG_FDTRACE = ("SPECIFICATION Spec\nCONSTANTS\n Sessions <- MCSessions\n PMs <- MCPMs\n Diags <- MCDiags\n Syms <- MCSyms\n Trigs <- MCTrigs\n Scales <- MCScales\n"
               "CHECK_DEADLOCK FALSE\n" + "".join("INVARIANT %s\n" % i for i in FD_HYP + FD_MODEL_REQ + FD_IMPL + FD_CONF))

F_TR = [[0, 0, 0], [0, 1, 1], [1, 0, 1], [1, 1, 0]]
I_TR = [[0, 0, 0], [1, 1, 1]]
P_TR = [[0, 0, 0]]


def D3(a, b, c):
    return [[a, 0, 0], [0, b, 0], [0, 0, c]]


def sessions_for(tier):
    """dicts: entry, model, S, prim ('P'|'F'|'I'|'A'|'C'|'R'|'auto'), nonsym (non-symmetric 3x3 blocks expected),
    mag ('none'|'ferri'|'afm'), symprec, perturb (Cartesian position noise, kept below symprec)"""
    def X(e, m, S, p, ns=False, **kw):
        return dict(dict(entry=e, model=m, S=S, pname=p, nonsym=ns, mag="none", symprec=1e-5, perturb=0.0, hom=False,
                         scaled=False), **kw)

    q = [
        X("tric", "angle2", D3(2, 1, 1), "P", True),
        # strongly sheared supercell of a P1 crystal: the generated displacements follow the supercell axes and are
        # nearly coplanar (smallest/largest singular value ~ 0.025) - the fit must still be exact (seed c01-8)
        X("tric", "angle2", [[1, 0, 0], [20, 1, 0], [0, 0, 1]], "P", True),
        X("tric", "angle2", [[1, 1, 0], [0, 1, 0], [0, 0, 2]], "P", True, symprec=1e-3, perturb=1e-4),
        X("tetab", "angle2", D3(2, 2, 1), "P", True, hom=True, scaled=True),
        X("cscl", "angle1", [[1, 1, 0], [-1, 1, 0], [0, 0, 1]], "P"),
        X("nacl", "angle1", ID, "F", hom=True, scaled=True),
        X("scwide", "pair", D3(2, 2, 2), "P", scaled=True),     # spring constants 1 .. 1e6 in one model
        X("naclg", "pair", ID, "auto"),
        X("nacl", "pair", ID, "P"),
        X("bcc", "angle1", D3(2, 1, 1), "I"),
        X("hcp", "pair", [[2, 1, 0], [0, 1, 0], [0, 0, 1]], "P", symprec=1e-3, perturb=1e-4),
        X("wz", "angle2", D3(2, 2, 1), "P", True),            # hexagonal (6mm), non-symmetric blocks
        X("sc", "pair", [[2, 1, 0], [0, 2, 0], [0, 0, 1]], "P"),
        X("nacl", "angle1", [[0, 1, 1], [1, 0, 1], [1, 1, 0]], "F", symprec=1e-3, perturb=2e-4),
        X("tetab", "angle2", D3(2, 2, 2), "P", True, mag="ferri"),
        X("bcc", "pair", [[0, 1, 1], [1, 0, 1], [1, 1, 0]], "auto"),
        X("zns", "angle1", D3(2, 1, 1), "F", True),           # cubic F-43m, non-symmetric blocks
        X("zns", "angle1", ID, "auto"),
        X("orthoc", "angle1", D3(2, 1, 1), "C"),
        X("orthoa", "pair", [[1, 0, 0], [0, 1, 1], [0, -1, 1]], "A"),
        X("rhomb", "angle1", ID, "R"),
        X("bccafm", "pair", D3(2, 1, 1), "P", mag="afm"),
        X("scafm", "pair", D3(1, 2, 2), "P", mag="afm"),
        X("cscl", "angle1", D3(2, 1, 1), "P", mag="ferri"),
    ]
    if tier == "quick":
        return q
    t = q + [
        X("naclg", "angle1", D3(2, 2, 1), "F"),
        X("scwide", "pair", D3(3, 3, 3), "P", scaled=True),
        X("hcp", "angle2", D3(2, 2, 1), "P", hom=True, scaled=True),
        X("tric", "angle3", D3(2, 2, 1), "P", True, scaled=True),
        X("tric", "angle2", [[1, -1, 1], [0, 2, 0], [-1, 0, 1]], "P", True),
        X("tetab", "angle2", [[1, 1, 0], [-1, 1, 0], [0, 0, 2]], "P"),
        X("cscl", "angle2", D3(2, 2, 2), "P"),
        X("cscl", "pair", [[2, 1, 0], [0, 1, 1], [0, 0, 2]], "P"),
        X("naclg", "angle1", D3(2, 1, 1), "F"),
        X("nacl", "pair", D3(2, 2, 2), "F"),
        X("nacl", "angle1", [[1, 1, 0], [-1, 1, 0], [0, 0, 1]], "P"),
        X("bcc", "angle2", D3(2, 2, 2), "I"),
        X("bcc", "pair", D3(2, 2, 1), "P"),
        X("hcp", "angle2", D3(2, 2, 2), "P"),
        X("hcp", "angle1", D3(3, 3, 1), "P"),
        X("wz", "angle2", D3(3, 3, 1), "P", True),
        X("wz", "pair", [[1, 1, 0], [-1, 2, 0], [0, 0, 1]], "P"),
        X("wz", "angle2", ID, "P", mag="ferri"),
        X("sc", "angle2", D3(3, 3, 3), "P"),
        X("sc", "pair", [[2, 1, 0], [0, 2, 1], [1, 0, 2]], "P"),
        X("zns", "angle1", D3(2, 2, 1), "F", True),
        X("zns", "angle1", D3(2, 2, 2), "auto", True),       # full cubic supercell symmetry
        X("zns", "pair", [[0, 1, 1], [1, 0, 1], [1, 1, 0]], "F", mag="ferri"),
        X("orthoc", "pair", [[1, 1, 0], [-1, 1, 0], [0, 0, 2]], "auto"),
        X("orthoa", "angle1", D3(1, 2, 2), "auto"),
        X("rhomb", "angle2", D3(2, 2, 1), "R", symprec=1e-3, perturb=2e-4),
        X("rhomb", "pair", [[1, 1, 0], [-1, 2, 0], [0, 0, 1]], "auto"),
        X("bccafm", "pair", D3(2, 2, 2), "P", mag="afm"),
        X("scafm", "pair", [[1, 0, 0], [0, 1, 1], [0, -1, 1]], "P", mag="afm"),
        X("nacl", "angle1", ID, "F", mag="ferri"),
    ]
    return t


PRIM_ARG = {"P": None, "F": "F", "I": "I", "A": "A", "C": "C", "R": "R", "auto": "auto"}
ROUTES = ["setter", "dataset", "arg", "file"]      # how the forces reach the solver
# SCALE: the crystal s*Phi probed at displacement distance d (the solver is linear and homogeneous)
SCALES = [1e-9, 1e-6, 1e-3, 1.0, 1e3, 1e6]
SCALE_DISTS = [1e-9, 1e-6, 1e-3, 0.01, 0.3]
FCCALC = [None, "traditional"]


def ptrans_of(pmat, D):
    """Translations of the primitive lattice (columns of pmat, unit-cell coordinates) inside the unit cell, as
    numerators over D: what `ptrans` of the specification's session is for the primitive matrix the code used."""
    pmat = np.eye(3) if pmat is None else np.array(pmat, dtype=float)
    out = set()
    for n in itertools.product(range(-3, 4), repeat=3):
        x = pmat @ np.array(n, dtype=float)
        f = (x - np.floor(x + 1e-9)) * D
        r = np.rint(f)
        if np.abs(f - r).max() > 1e-6:
            raise tlcmod.MachineryError("primitive lattice is not on the 1/D grid: %s" % (pmat.tolist(),))
        out.add(tuple(int(v) % D for v in r))
    if abs(len(out) * abs(np.linalg.det(pmat)) - 1.0) > 1e-6:
        raise tlcmod.MachineryError("primitive matrix %s: %d translations found" % (pmat.tolist(), len(out)))
    return sorted(out)

PM_ARG = {"auto": "auto", "on": True, "off": False}
DISTANCES = [0.01, 0.03, 1e-4]
TOL_PROJ = 1e-6      # on integers D^2 L Phi L^T (observed residual ~1e-12; a wrong block is off by >= 1)


def project_disp(u, lat, dists):
    """Cartesian displacement of one atom -> (integer direction in the supercell basis, distance id or 0)."""
    v = np.asarray(u, dtype=float) @ np.linalg.inv(lat)
    w = v / np.abs(v).max()
    n = None
    for m in (1, 2, 3, 4):
        if np.abs(w * m - np.rint(w * m)).max() < 1e-7:
            n = [int(x) for x in np.rint(w * m)]
            break
    if n is None:
        n = [0, 0, 0]
    length = float(np.linalg.norm(u))
    did = 0
    # handed-out cells store scaled positions: the Cartesian round trip costs ~eps * cond(lattice) * |lattice| in
    # absolute terms (4e-13 for the shear-20 supercell, more than 1e-9 * 1e-4), so the tolerance follows the lattice
    slack = 1e-14 * float(np.linalg.cond(lat)) * float(np.abs(lat).max())
    for k, d in enumerate(dists):
        if abs(length - d) <= max(1e-9 * d, slack):
            did = k + 1
    return n, did


def project_dataset(ph, idx, dists):
    lat = ph.supercell.cell
    return [[idx[int(d["number"])] + 1] + list(project_disp(d["displacement"], lat, dists)) for d in ph.dataset["first_atoms"]]


def project_cells(ph, cells, idx, dists):
    """handed-out displaced supercells -> ([[atom, direction, distance id]], clean, displacement arrays)."""
    sc = ph.supercell
    out, us = [], []
    clean = True
    for c in cells:
        ok = (len(c) == len(sc) and list(c.symbols) == list(sc.symbols) and np.array_equal(c.cell, sc.cell)
              and np.allclose(c.masses, sc.masses))
        if not ok:
            clean = False
            out.append([0, [0, 0, 0], 0])
            us.append(np.zeros((len(sc), 3)))
            continue
        u = c.positions - sc.positions
        # (PhonopyAtoms stores scaled positions: the round trip leaves ~1e-16 on every atom)
        moved = [i for i in range(len(sc)) if np.abs(u[i]).max() > 1e-9]
        if len(moved) != 1:
            clean = False
            out.append([0, [0, 0, 0], 0])
        else:
            out.append([idx[moved[0]] + 1] + list(project_disp(u[moved[0]], sc.cell, dists)))
        us.append(u)
    return out, clean, us


HIST_DISTS = [0.01, 0.03, 1e-4, 0.02]


def run_history(ph, idx, variant, final_opts, cap_calls):
    """A call history on one object ending in generate_displacements(final options) and a read of
    supercells_with_displacements.  Returns (steps for DispHistoryTrace, displacement arrays of the last read)."""
    dist, pm, diag, trig = final_opts
    other = HIST_DISTS[(HIST_DISTS.index(dist) + 1) % len(HIST_DISTS)] if dist in HIST_DISTS else 0.02
    steps = []

    def gen(d, p, dg, tr):
        ph.generate_displacements(distance=d, is_plusminus=PM_ARG[p], is_diagonal=dg, is_trigonal=tr)
        steps.append(dict(op="gen", ds=project_dataset(ph, idx, HIST_DISTS), cells=[], clean=True))

    def read():
        cells = ph.supercells_with_displacements
        pc, clean, us = project_cells(ph, cells, idx, HIST_DISTS)
        steps.append(dict(op="read", ds=project_dataset(ph, idx, HIST_DISTS), cells=pc, clean=bool(clean)))
        return us

    if variant == 0:        # another distance first
        gen(other, pm, diag, trig); read(); gen(dist, pm, diag, trig)
    elif variant == 1:      # is_diagonal flipped and another distance first
        gen(other, pm, not diag, trig); read(); gen(dist, pm, diag, trig)
    elif variant == 2:      # dataset re-assigned between reads, then regenerated
        gen(other, pm, diag, trig); read()
        ph.dataset = ph.dataset
        steps.append(dict(op="set", ds=project_dataset(ph, idx, HIST_DISTS), cells=[], clean=True))
        read(); gen(dist, pm, diag, trig); read()
    else:                   # plus/minus mode changed (another number of displacements) first
        gen(dist, "off" if pm != "off" else "on", diag, trig); read(); gen(other, pm, diag, trig); read()
        gen(dist, pm, diag, trig)
    us = read()
    return steps, us


class Capture:
    """Record the result of get_least_displacements as called by Phonopy.generate_displacements."""

    def __init__(self):
        self.calls = []

    def __enter__(self):
        self.orig = api_phonopy.get_least_displacements

        def wrapper(symmetry, **kw):
            res = self.orig(symmetry, **kw)
            self.calls.append((kw, [[int(x) for x in row] for row in res]))
            return res

        api_phonopy.get_least_displacements = wrapper
        return self

    def __exit__(self, *a):
        api_phonopy.get_least_displacements = self.orig


def disp_events_of(symmetry, rows, diag, pm, trig):
    """one DisplacementsTrace event per displaced atom"""
    evs = []
    for a in symmetry.get_independent_atoms():
        site = symmetry.get_site_symmetry(a)
        evs.append(dict(site=[[[int(x) for x in r] for r in m] for m in site], diag=bool(diag), pm=pm, trig=bool(trig),
                        out=[r[1:] for r in rows if r[0] == a]))
    return evs


def record_run(real, cell, S, prim, opts, ref_int, symprec=1e-5, scale=1.0):
    """Drive one real session; return the run record for FiniteDifferenceTrace (+ python-side details).
    scale: the forces are those of the crystal scale*Phi; the produced arrays are divided by scale before the
    projection to integers, so the tolerance TOL_PROJ is RELATIVE to the scale."""
    sym, diag, pm, layout, dist, trig, route, fcc = opts
    n = len(cell["atoms"])
    tol = TOL_PROJ
    if route == "file":      # FORCE_SETS holds forces with 10 decimals: |dF| <= 5e-11
        tol = max(TOL_PROJ, 1000 * 5e-11 / dist * real.D ** 2 * float((real.L ** 2).sum()))
    cells_tol = None
    if route.startswith("cells"):
        # displacements recovered from handed-out POSITIONS carry the round-off of the positions on every atom
        # (~2e-16 * |position|): the forces, hence every block, inherit eps * |pos| / dist * max|Phi| absolutely
        cells_tol = max(TOL_PROJ, 1e3 * 2.3e-16 * 4.0 * float(np.abs(real.L).sum()) / dist * float(np.abs(ref_int).max()))
    run = dict(sym=sym, diag=diag, pm=pm, trig=trig, layout=layout, nops=0, reps=[], mapa=[], site=[], dirs=[], p2s=[], fc=0,
               exact=False, conv=0, convexact=False, err="")
    info = dict(opts=dict(is_symmetry=sym, is_diagonal=diag, is_plusminus=pm, is_trigonal=trig, layout=layout,
                          distance=dist, forces_route=route, fc_calculator=fcc, symprec=symprec, scale=scale), tol=tol)
    devs = []
    arr = arr2 = None
    try:
        with contextlib.redirect_stdout(io.StringIO()):
            ph = Phonopy(real.unitcell(), supercell_matrix=S, primitive_matrix=prim, is_symmetry=sym, symprec=symprec,
                         log_level=0)
        info["primitive_matrix"] = None if ph.primitive_matrix is None else np.array(ph.primitive_matrix).tolist()
        idx = real.match_atoms(S, cell, ph.supercell)
        symm = ph.symmetry
        cell_us = None
        with Capture() as cap:
            if route.startswith("cells"):
                info["history"], cell_us = run_history(ph, idx, int(route.split(":")[1]), (dist, pm, diag, trig), cap.calls)
            else:
                ph.generate_displacements(distance=dist, is_plusminus=PM_ARG[pm], is_diagonal=diag, is_trigonal=trig)
        rows = cap.calls[-1][1]
        reps = [int(a) for a in symm.get_independent_atoms()]
        run["nops"] = int(len(symm.symmetry_operations["rotations"]))
        run["reps"] = [idx[a] + 1 for a in reps]
        mapa = [0] * n
        for i, m in enumerate(symm.get_map_atoms()):
            mapa[idx[i]] = idx[int(m)] + 1
        run["mapa"] = mapa
        run["site"] = [[[[int(x) for x in r] for r in mat] for mat in symm.get_site_symmetry(a)] for a in reps]
        run["dirs"] = [[r[1:] for r in rows if r[0] == a] for a in reps]
        run["p2s"] = [idx[int(a)] + 1 for a in ph.primitive.p2s_map]
        info["ptrans"] = ptrans_of(ph.primitive_matrix, real.D)
        devs = disp_events_of(symm, rows, diag, pm, trig)
        # the dataset handed to the user is the directions, scaled to `dist` along the supercell axes
        fa = ph.dataset["first_atoms"]
        if len(fa) != len(rows):
            raise RuntimeError("dataset-length")
        lat = ph.supercell.cell
        fc_ref = real.to_real(ref_int, idx)
        forces = []
        for d, row in zip(fa, rows):
            v = np.dot(row[1:], lat)
            v = v * dist / np.linalg.norm(v)
            if d["number"] != row[0] or np.abs(np.array(d["displacement"]) - v).max() > 1e-10 * dist:
                raise RuntimeError("dataset-mismatch")
            u = np.array(d["displacement"], dtype=float)
            forces.append(-np.einsum("a,jab->jb", u, fc_ref[d["number"]]))
        forces = np.array(forces) * scale
        if cell_us is not None:
            # forces of the harmonic crystal for the displaced supercells the object HANDED OUT:
            # u = positions(cell_k) - positions(supercell)
            if len(cell_us) != len(fa):
                raise RuntimeError("handed-out cells: %d for %d displacements" % (len(cell_us), len(fa)))
            forces = np.array([-np.einsum("ia,ijab->jb", u, fc_ref) for u in cell_us]) * scale
        kw = dict(calculate_full_force_constants=(layout == "full"), show_drift=False, fc_calculator=fcc)
        with contextlib.redirect_stdout(io.StringIO()):
            if route == "setter" or route.startswith("cells"):
                ph.forces = forces
            elif route in ("dataset", "file"):
                ds = dict(natom=int(ph.dataset["natom"]),
                          first_atoms=[dict(number=int(d["number"]), displacement=list(d["displacement"]), forces=f.copy())
                                       for d, f in zip(fa, forces)])
                if route == "file":
                    rdir = tlcmod.new_rundir("c01_forcesets")
                    try:
                        fn = os.path.join(rdir, "FORCE_SETS")
                        write_FORCE_SETS(ds, filename=fn)
                        ds = parse_FORCE_SETS(natom=n, filename=fn)
                    finally:
                        import shutil
                        shutil.rmtree(rdir, ignore_errors=True)
                ph.dataset = ds
            if route == "arg":
                ph.produce_force_constants(forces=forces, **kw)
            else:
                ph.produce_force_constants(**kw)
        fc = np.array(ph.force_constants) / scale
        p2s_real = [int(a) for a in ph.primitive.p2s_map]
        if layout == "full":
            if fc.shape != (n, n, 3, 3):
                raise RuntimeError("shape %s" % (fc.shape,))
            T, resid = real.project(fc, None, idx)
            resid_abs = real.last_abs_resid
            inv = np.empty(n, dtype=int)
            inv[np.array(idx)] = np.arange(n)
            T = T[inv]
            fc_exp = fc_ref
        else:
            if fc.shape != (len(p2s_real), n, 3, 3):
                raise RuntimeError("shape %s" % (fc.shape,))
            T, resid = real.project(fc, None, idx)
            resid_abs = real.last_abs_resid
            fc_exp = fc_ref[p2s_real]
        arr = T
        # layout conversion of what was produced (compact_fc_to_full_fc uses distribute_force_constants_by_translations)
        inv = np.empty(n, dtype=int)
        inv[np.array(idx)] = np.arange(n)
        if layout == "full":
            cv = full_fc_to_compact_fc(ph.primitive, fc)
            arr2, resid2 = real.project(cv, None, idx)
        else:
            cv = compact_fc_to_full_fc(ph.primitive, fc.copy())
            arr2, resid2 = real.project(cv, None, idx)
            arr2 = arr2[inv]
        run["convexact"] = bool(resid2 < tol) if cells_tol is None else bool(real.last_abs_resid < cells_tol)
        info["resid_conv"] = resid2
        scale = float(np.abs(fc_ref).max())
        info.update(resid=resid, maxdiff_rel=float(np.abs(fc - fc_exp).max() / scale), n_disp=len(rows))
        run["exact"] = bool(resid < tol) if cells_tol is None else bool(resid_abs < cells_tol)
        info["cells_tol"] = cells_tol
    except Exception as e:  # an exception of the real code where the specification expects success
        run["err"] = type(e).__name__ + ": " + str(e)[:120]
        info["traceback"] = traceback.format_exc()[-1500:]
    return run, info, (arr, arr2), devs


def gen_sessions(ctx, only=None):
    """Steps B + C."""
    sess = sessions_for(ctx.tier) if only is None else [only]
    for s in sess:      # C01 quantifies over matrices the constructor accepts: right-handed, non-singular
        s.update(prim=PRIM_ARG[s["pname"]], box=3, ptrans=[[0, 0, 0]])
        if c01_ref.det3(s["S"]) <= 0:
            raise tlcmod.MachineryError("session with det S <= 0 is outside C01: %s" % s["S"])
    cells, crystals = c01_ref.reference(sess, ctx=ctx)
    for s in sess:
        s["chk"] = False
    dist_cycle = itertools.cycle(DISTANCES)
    route_cycle = itertools.cycle(ROUTES)
    fcc_cycle = itertools.cycle(FCCALC + FCCALC[:1])
    all_devs = []
    all_hists = []
    infos = {}
    for si, s in enumerate(sess):
        cell = cells[c01_ref.skey(s)]
        # every second crystal on a left-handed lattice (det L < 0)
        real = c01_ref.Realised(crystals[s["entry"]], a=2.0, seed=ctx.seed * 1000 + si,
                                left_handed=bool((si + ctx.seed) % 2) and s["pname"] != "auto",
                                mag=s["mag"], perturb=s["perturb"])
        # ('auto' on a left-handed lattice: guess_primitive_matrix returns a matrix of negative determinant that
        #  get_primitive_matrix refuses - the constructor does not accept the input, which is outside C01)
        s["left_handed"] = real.left_handed
        ref_int = np.array(cell["fc"], dtype=np.int64)
        arrays = [ref_int]
        runs = []
        combos = [c + (False,) for c in itertools.product([True, False], [True, False], ["auto", "on", "off"], ["full", "compact"])]
        if ctx.quick and len(cell["atoms"]) > 12:
            combos = combos[::2] if si % 2 else combos[1::2]
        # is_trigonal (a test-only option of the code) end to end
        combos += [(True, True, "auto", "full", True), (True, False, "on", "compact", True),
                   (True, True, "off", "compact", True), (False, True, "auto", "full", True)]
        # call histories on one object (re-generation between reads of supercells_with_displacements)
        nh = 2 if ctx.quick else 4
        hist = [(True, bool((si + k) % 2), ["auto", "on", "off"][(si + k) % 3], ["full", "compact"][k % 2], False, "cells:%d" % ((si + k) % 4))
                for k in range(nh)]
        # scale dimension: the crystal sc*Phi at displacement distance d (sessions marked `scaled`)
        scaled = []
        if s["scaled"]:
            pairs = list(itertools.product(SCALES, SCALE_DISTS))
            if ctx.quick:
                pairs = [(1e-9, 1e-9), (1e-9, 0.3), (1e6, 1e-9), (1e6, 0.3), (1e-6, 1e-3), (1e-6, 0.01), (1e-3, 1e-6),
                         (1.0, 1e-9), (1e3, 1e-3), (1e-6, 1e-6), (1.0, 0.3), (1e-3, 0.01)]
            for k, (sc_, d_) in enumerate(pairs):
                scaled.append((k % 5 != 4, bool(k % 2), ["auto", "on", "off"][k % 3], ["full", "compact"][(k // 2) % 2], False,
                               ["setter", "dataset", "arg"][k % 3], sc_, d_))
        ptr = None
        for sym, diag, pm, layout, trig, *hr in combos + hist + scaled:
            dist = hr[2] if len(hr) > 2 else next(dist_cycle)
            scale = hr[1] if len(hr) > 2 else 1.0
            route = hr[0] if hr else next(route_cycle)
            if route == "file":
                dist = 0.03
            opts = (sym, diag, pm, layout, dist, trig, route, next(fcc_cycle))
            run, info, (arr, arr2), devs = record_run(real, cell, s["S"], s["prim"], opts, ref_int, symprec=s["symprec"],
                                                      scale=scale)
            if "ptrans" in info:
                if ptr is None:
                    ptr = info["ptrans"]
                elif ptr != info["ptrans"]:
                    raise tlcmod.MachineryError("primitive lattice differs between runs of one session: %s" % s["entry"])
            for fld, a1 in (("fc", arr), ("conv", arr2)):
                if a1 is None:
                    run[fld] = 1
                    continue
                for k, a0 in enumerate(arrays):
                    if a0.shape == a1.shape and np.array_equal(a0, a1):
                        run[fld] = k + 1
                        break
                else:
                    arrays.append(a1)
                    run[fld] = len(arrays)
            runs.append(run)
            infos[(si, len(runs))] = info
            all_devs.extend(devs)
            if "history" in info:
                all_hists.append(info["history"])
            ctx.count((s["entry"], s["model"], json.dumps(s["S"]), s["pname"], s["mag"], s["symprec"], scale) + opts)
            ctx.traces += 1
        # the primitive translations the specification's session uses are those of the primitive matrix the code used
        s["ptrans"] = [list(t) for t in (ptr or [(0, 0, 0)])]
        s["runs"] = runs
        s["arrays"] = [a.tolist() for a in arrays]
        s["ref"] = 1
        s["natom"] = len(cell["atoms"])
    return sess, infos, all_devs, all_hists


def repo_disp_events(ctx):
    """Displacement searches on the crystals of the repository's tests, in several supercell bases."""
    files = sorted(glob.glob("/repo/test/phonopy_*.yaml*") + glob.glob("/repo/test/*/phonopy_*.yaml*"))
    files = [f for f in files if "mlp" not in f and "polymlp" not in f]
    if ctx.quick:
        keep = ("disp_NaCl", "disp_TiO2", "params_Si", "Zr3N4", "TiPN3")
        files = [f for f in files if any(k in f for k in keep)]
    mats = [None, D3(2, 1, 1), [[1, 1, 0], [-1, 1, 0], [0, 0, 1]]]
    if not ctx.quick:
        mats += [[[1, 0, 0], [1, 1, 0], [0, 0, 1]], [[1, 1, 1], [0, 1, 1], [0, 0, 1]], [[0, 1, 1], [1, 0, 1], [1, 1, 0]]]
    evs, used, skipped = [], [], []
    for f in files:
        try:
            with contextlib.redirect_stdout(io.StringIO()):
                ph0 = phonopy.load(f, produce_fc=False, is_nac=False, log_level=0)
        except Exception as e:
            skipped.append((os.path.basename(f), type(e).__name__))
            continue
        if len(ph0.unitcell) > 40:
            skipped.append((os.path.basename(f), "large"))
            continue
        for M in mats:
            try:
                with contextlib.redirect_stdout(io.StringIO()):
                    ph = ph0 if M is None else Phonopy(ph0.unitcell, supercell_matrix=M, log_level=0)
            except Exception as e:
                skipped.append((os.path.basename(f), "S=%s %s" % (M, type(e).__name__)))
                continue
            if len(ph.supercell) > 250:
                continue
            used.append((os.path.basename(f), M))
            for diag, pm, trig in itertools.product([True, False], ["auto", "on", "off"], [False, True]):
                rows = get_least_displacements(ph.symmetry, is_plusminus=PM_ARG[pm], is_diagonal=diag, is_trigonal=trig)
                rows = [[int(x) for x in r] for r in rows]
                evs.extend(disp_events_of(ph.symmetry, rows, diag, pm, trig))
                ctx.traces += 1
    return evs, used, skipped


def parse_behaviours(stdout):
    """PrintT records of the Displacements run: the ambient tables and one record per finished search."""
    amb, out = None, []
    for v in tlcmod.printed_values(stdout):
        if isinstance(v, list) and v and v[0] == "AMB":
            amb = v[1]
        elif isinstance(v, list) and v and v[0] == "DONE" and amb is not None:
            _, cfg, grp, fwd, diag, pm, trig, res = v
            site = [amb[cfg - 1][i - 1] for i in grp]
            if not fwd:
                site = site[::-1]
            out.append(dict(amb=json.dumps(amb[cfg - 1][:3]) + str(cfg), grp=list(grp), site=[[list(r) for r in m] for m in site],
                            diag=bool(diag), pm=pm, trig=bool(trig), out=[list(d) for d in res]))
    return out


class StubSymmetry:
    """What get_least_displacements reads from a Symmetry object: one atom with the given site symmetry."""

    def __init__(self, site):
        self.site = np.array(site, dtype="intc")

    def get_independent_atoms(self):
        return np.array([0], dtype="intc")

    def get_site_symmetry(self, atom_number):
        return self.site


def replay_behaviours(ctx, behaviours):
    evs = []
    mism = 0
    for b in behaviours:
        try:
            rows = get_least_displacements(StubSymmetry(b["site"]), is_plusminus=PM_ARG[b["pm"]], is_diagonal=b["diag"],
                                           is_trigonal=b["trig"])
            res = [[int(x) for x in r[1:]] for r in rows]
        except Exception as e:
            ctx.violation("replay:Displacements:exception", "get_least_displacements raised on a group the model handles",
                          dict(site=b["site"], diag=b["diag"], pm=b["pm"], trig=b["trig"], error=repr(e)))
            continue
        if res != b["out"]:
            mism += 1
        evs.append(dict(site=b["site"], diag=b["diag"], pm=b["pm"], trig=b["trig"], out=res))
        ctx.traces += 1
    ctx.extra["replay_direction_mismatches"] = mism
    return evs


def dedupe(evs):
    seen, out = set(), []
    for e in evs:
        k = json.dumps(e, sort_keys=True)
        if k not in seen:
            seen.add(k)
            out.append(e)
    return out


def witness_session(tr):
    for _, st in reversed(tr or []):
        se = st.get("ses")
        if isinstance(se, dict):
            return se
    return None


def load_replay(ctx):
    """./check C01 --replay <file>: re-run exactly the failing input of a replay file."""
    if not ctx.replay_path:
        return None
    with open(ctx.replay_path) as f:
        rp = json.load(f)
    key, d = rp.get("key", ""), rp.get("detail") or {}
    if key.startswith("session:") or key.startswith("tlc:FiniteDifference"):
        return ("session", dict(entry=d["entry"], model=d["model"], S=[list(r) for r in d["S"]], pname=d.get("primitive") or "P",
                                nonsym=False, hom=False, scaled=bool(d.get("scaled", True)), mag=d.get("mag", "none"), symprec=d.get("symprec", 1e-5),
                                perturb=d.get("perturb", 0.0)))
    if key.startswith("disptrace:") or key.startswith("replay:Displacements"):
        ev = d.get("event") or d
        return ("event", dict(site=ev["site"], diag=ev["diag"], pm=ev["pm"], trig=ev["trig"], out=ev.get("out", [])))
    return ("model", None)


def run(ctx):
    rp = load_replay(ctx)
    ctx.rule = ("A: one case per (subgroup of an ambient point group in a basis, direction list, order, plus/minus mode, "
                "trigonal flag); C/E: one case per real session (catalogue crystal, harmonic model, supercell matrix, "
                "primitive matrix, is_symmetry, is_diagonal, plus/minus, layout); D: one case per distinct "
                "(site-symmetry sequence, options, generated directions) recorded from real Symmetry objects")
    workers = min(8, os.cpu_count() or 4)

    # ---- A: the direction search on every subgroup -----------------------------------------------------
    amb = AMB_QUICK if ctx.quick else AMB_THOROUGH
    groups = [amb] if ctx.quick else [amb[:4], amb[4:7], amb[7:]]
    if os.environ.get("C01_SKIP_MODEL") or (rp and rp[0] != "model"):
        groups = []      # C01_SKIP_MODEL: experiments only (mutation runs; the model does not see the code)
    behaviours = []
    for gi, g in enumerate(groups):
        mc = ("---- MODULE MC_Displacements ----\nEXTENDS Displacements\nMCAmb == %s\nMCPMs == {\"auto\", \"on\", \"off\"}\n"
              "MCTrigs == {FALSE, TRUE}\nMCOrders == {\"fwd\", \"rev\"}\n"
              "ASSUME PrintT(<<\"AMB\", AmbTab>>)\n"
              "EmitDone == pc = \"done\" => PrintT(<<\"DONE\", cfg, SortedSeq(grp), site[1] = AmbTab[cfg][MinOf(grp)], "
              "diag, pm, trig, out>>)\n====\n" % to_tla(g))
        res = ctx.tlc("MC_Displacements", cfg_text=CFG_DISP + "INVARIANT EmitDone\n", extra_files={"MC_Displacements.tla": mc},
                      requirement=False, workers=workers, coverage=(gi == 0), extra_args=("-continue",), timeout=2400)
        names = sorted(set(n for n, _ in res.violations))
        for nme, tr in res.violations:
            if nme in DISP_REQ:
                st = tr[-1][1] if tr else {}
                ctx.violation("tlc:Displacements:" + nme,
                              "direction search violates %s on a finite integer matrix group" % nme,
                              dict(invariant=nme, site=st.get("site"), diag=st.get("diag"), pm=st.get("pm"),
                                   trig=st.get("trig"), chosen=st.get("chosen"), out=st.get("out")))
        bad = [n for n in names if n not in DISP_REQ]
        if bad:
            raise tlcmod.MachineryError("Displacements.tla: self-consistency invariants violated: %s" % bad)
        if gi == 0:
            cov = {k: v[1] for k, v in res.coverage.items()}
            ctx.extra["coverage_Displacements"] = cov
            need = ["Extend", "Start", "TryOne", "TryTwoWith", "FallbackThree", "ChoosePMWith", "AddMinus"]
            if any(cov.get(a, 0) == 0 for a in need):
                raise tlcmod.MachineryError("Displacements.tla: action never fired: %s" % cov)
        behaviours.extend(parse_behaviours(res.stdout))
    ctx.extra["ambient_groups"] = len(amb)
    ctx.extra["model_behaviours"] = len(behaviours)
    ctx.extra["subgroups_enumerated"] = len({(b["amb"], tuple(b["grp"])) for b in behaviours})

    # ---- B + C: reference crystals, real sessions ------------------------------------------------------
    if rp and rp[0] == "session":
        sess, infos, devs, hists = gen_sessions(ctx, only=rp[1])
    elif rp:
        sess, infos, devs, hists = [], {}, [], []
    else:
        sess, infos, devs, hists = gen_sessions(ctx)
    ctx.extra["sessions"] = [dict(entry=s["entry"], model=s["model"], S=s["S"], primitive=s["pname"], natom=s["natom"],
                                  left_handed=s["left_handed"], mag=s["mag"], scaled=s["scaled"], hom=s["hom"], symprec=s["symprec"], perturb=s["perturb"],
                                  ptrans=s["ptrans"],
                                  runs=len(s["runs"]), distinct_arrays=len(s["arrays"])) for s in sess]
    resids = [i["resid"] for i in infos.values() if "resid" in i]
    diffs = [i["maxdiff_rel"] for i in infos.values() if "maxdiff_rel" in i]
    ctx.extra["projection_residual_max"] = max(resids) if resids else None
    ctx.extra["fc_rel_error_max_observed"] = max(diffs) if diffs else None
    ctx.extra["projection_tolerance"] = TOL_PROJ

    # ---- D: displacement traces -------------------------------------------------------------------------
    revs, used, skipped = repo_disp_events(ctx) if not rp else ([], [], [])
    if rp and rp[0] == "event":
        behaviours = [rp[1]]
    # spec -> code: the real search is driven on the groups TLC enumerated (all of them in the thorough tier,
    # a seeded third in the quick tier); what it returns is validated like every other recorded search
    if ctx.quick and len(behaviours) > 1500:
        behaviours = ctx.rng.sample(behaviours, 1500)
    bevs = replay_behaviours(ctx, behaviours)
    ctx.extra["model_behaviours_replayed"] = len(bevs)
    events = dedupe(devs + revs + bevs)
    ctx.extra["disp_events_recorded"] = len(devs) + len(revs) + len(bevs)
    ctx.extra["disp_events_distinct"] = len(events)
    ctx.extra["repo_crystals"] = sorted({u[0] for u in used})
    ctx.extra["repo_skipped"] = skipped[:20]
    for e in events:
        ctx.count(("disp", json.dumps(e, sort_keys=True)))
    if events:
        ctx.sample(dict(kind="displacement event", **events[0]))
    chunk = 4000
    for c0 in range(0, len(events), chunk):
        evs = events[c0:c0 + chunk]
        mc = ("---- MODULE MC_DisplacementsTrace ----\nEXTENDS DisplacementsTrace\nMCAmb == <<>>\nMCNone == {}\n"
              "MCEvents == {%s}\n====\n" % ",\n".join(to_tla(e) for e in evs))
        res = ctx.tlc("MC_DisplacementsTrace", cfg_text=CFG_DTRACE, extra_files={"MC_DisplacementsTrace.tla": mc},
                      requirement=False, workers=workers, extra_args=("-continue",), timeout=2400)
        drift = set()
        for nme, tr in res.violations:
            ev = (tr[-1][1].get("ev") if tr else None)
            if nme.startswith("Impl"):
                ctx.violation("disptrace:" + nme,
                              "get_least_displacements output violates %s (recorded from a real Symmetry object)" % nme,
                              dict(invariant=nme, event=ev))
            else:
                drift.add(nme)
                ctx.extra.setdefault("SPEC-DRIFT", []).append(dict(invariant=nme, event=ev))
        if drift:
            # the requirement holds on the recorded output but the transcribed search would have chosen
            # other directions: specification drift, not a violation of C01
            print("SPEC-DRIFT C01: %s (requirement intact): the step machine does not reproduce the recorded "
                  "directions" % sorted(drift))

    # ---- D2: call histories -------------------------------------------------------------------------------
    if hists:
        seen_h, uh = set(), []
        for hh in hists:
            k = json.dumps(hh)
            if k not in seen_h:
                seen_h.add(k)
                uh.append(hh)
        dsets = []
        for st in uh[0]:
            if st["ds"] not in dsets:
                dsets.append(st["ds"])
        mc = ("---- MODULE MC_DispHistory ----\nEXTENDS DispHistory\nMCD == {%s}\n====\n" % ", ".join(to_tla(d) for d in dsets))
        ctx.tlc("MC_DispHistory", cfg_text="INIT HInit\nNEXT HNext\nCONSTANTS\n DataSets <- MCD\n MaxLen = 7\nCHECK_DEADLOCK FALSE\n"
                "INVARIANT InvHandedOut\nINVARIANT InvCache\n", extra_files={"MC_DispHistory.tla": mc}, workers=2, timeout=600)
        mc = ("---- MODULE MC_DispHistoryTrace ----\nEXTENDS DispHistoryTrace\nMCH == {%s}\nMCN == {}\n====\n"
              % ",\n".join(to_tla(x) for x in uh))
        res = ctx.tlc("MC_DispHistoryTrace", cfg_text="INIT TInit\nNEXT TNext\nCONSTANTS\n DataSets <- MCN\n MaxLen = 0\n Histories <- MCH\n"
                      "CHECK_DEADLOCK FALSE\nINVARIANT ImplHandedOut\nINVARIANT ImplReadKeepsDataset\nINVARIANT ConformsDataset\n"
                      "INVARIANT ConformsHandedOut\n", extra_files={"MC_DispHistoryTrace.tla": mc}, requirement=False,
                      workers=workers, extra_args=("-continue",), timeout=1200)
        ctx.extra["histories_recorded"] = len(hists)
        ctx.extra["histories_distinct"] = len(uh)
        ctx.sample(dict(kind="call history", steps=[dict(op=x["op"], ds=x["ds"], cells=x["cells"]) for x in uh[0]]))
        for nme, tr in res.violations:
            st = tr[-1][1] if tr else {}
            hh, ii = st.get("h"), st.get("i")
            det = dict(invariant=nme, step=ii, history=hh)
            if nme.startswith("Impl"):
                ctx.violation("history:" + nme, "supercells_with_displacements hands out cells that are not the supercell plus "
                              "the current dataset's displacements (%s)" % nme, det)
            else:
                ctx.extra.setdefault("SPEC-DRIFT", []).append(det)
                print("SPEC-DRIFT C01: %s in a call history (requirement intact)" % nme)

    # ---- E: sessions --------------------------------------------------------------------------------------
    model_pms = '{"auto"}' if ctx.quick else '{"auto", "on", "off"}'
    batches = [sess[i::4] for i in range(4)] if ctx.quick else [[s] for s in sess]
    batches = [b for b in batches if b]
    first = True
    for b in batches:
        body = ", ".join(c01_ref.session_tla(s, dict(runs=s["runs"], arrays=s["arrays"], ref=s["ref"], nonsym=bool(s["nonsym"])))
                         for s in b)
        mc = ("---- MODULE MC_FDTrace ----\nEXTENDS FiniteDifferenceTrace\nMCSessions == {%s}\nMCPMs == %s\n"
              "MCDiags == {TRUE, FALSE}\nMCSyms == {TRUE, FALSE}\nMCTrigs == %s\nMCScales == {<<1, 1>>, <<2, 3>>, <<5, 1>>}\n====\n"
              % (body, model_pms, "{FALSE}" if ctx.quick else "{FALSE, TRUE}"))
        res = ctx.tlc("MC_FDTrace", cfg_text=CFG_FDTRACE, extra_files={"MC_FDTrace.tla": mc}, requirement=False,
                      workers=min(workers, max(2, 2 * len(b))), coverage=first, extra_args=("-continue",), timeout=3000)
        if first:
            cov = {k: v[1] for k, v in res.coverage.items()}
            ctx.extra["coverage_FiniteDifference"] = cov
            need = ["Setup", "Series", "Atoms", "Keys", "Cells", "Lattice", "Ops", "Perms", "Group", "SymMappings", "Generate",
                    "SupplyForces", "Equations", "PivotA", "PivotB", "PivotC", "Pivot", "SolveAtom", "CheckAtom",
                    "Distribute", "ByTranslations"]
            if any(cov.get(a, 0) == 0 for a in need):
                raise tlcmod.MachineryError("FiniteDifference.tla: action never fired: %s" % cov)
            first = False
        seen = set()
        for nme, tr in res.violations:
            se = witness_session(tr)
            key = (nme, json.dumps([se.get("entry"), se.get("S"), se.get("mag"), sorted(map(list, se.get("ptrans")))]) if se else "")
            if key in seen:
                continue
            seen.add(key)
            if nme in FD_HYP:
                raise tlcmod.MachineryError("FiniteDifference.tla: hypothesis %s fails on the reference crystal %s"
                                            % (nme, key[1]))
            detail = dict(invariant=nme, entry=se and se.get("entry"), model=se and se.get("model"),
                          S=se and se.get("S"), ptrans=se and se.get("ptrans"))
            if se:
                # python-side details of the recorded runs of that session (the decision was TLC's)
                for si, s in enumerate(sess):
                    if s["entry"] == se.get("entry") and [list(r) for r in se.get("S")] == s["S"] and s["model"] == se.get("model") \
                            and s["mag"] == se.get("mag") and sorted(map(tuple, s["ptrans"])) == sorted(map(tuple, se.get("ptrans"))):
                        bad = []
                        for ri, r in enumerate(s["runs"]):
                            inf = infos[(si, ri + 1)]
                            if r["err"] or not r["exact"] or r["fc"] != 1 and r["layout"] == "full" \
                                    or inf.get("maxdiff_rel", 0) > 1e-8:
                                bad.append(dict(inf["opts"], err=r["err"], maxdiff_rel=inf.get("maxdiff_rel"),
                                                resid=inf.get("resid"), traceback=inf.get("traceback")))
                        detail["suspect_runs"] = bad[:6]
                        detail.update(primitive=s["pname"], mag=s["mag"], symprec=s["symprec"], perturb=s["perturb"], scaled=s["scaled"])
            if nme in FD_MODEL_REQ:
                ctx.violation("tlc:FiniteDifference:" + nme, "session model violates %s" % nme, detail)
            elif nme in FD_IMPL:
                ctx.violation("session:" + nme, "real phonopy session violates %s" % nme, detail)
            else:
                ctx.extra.setdefault("SPEC-DRIFT", []).append(detail)
                print("SPEC-DRIFT C01: %s on %s (requirement intact)" % (nme, key[1]))
    if sess:
      ctx.sample(dict(kind="session", entry=sess[0]["entry"], model=sess[0]["model"], S=sess[0]["S"],
                    run=sess[0]["runs"][0] and {k: v for k, v in sess[0]["runs"][0].items() if k not in ("site", "mapa")}))
    ctx.assumptions.append("harmonic reference crystals: catalogue pair springs + three-body angle terms (AngleSprings.tla); "
                           "forces are F = -Phi u evaluated in binary64 from the exact integer reference")
    ctx.assumptions.append("spglib finds the full space group of the realised cells (checked: ConformsNumOps/ConformsSite)")
    ctx.exhaustive = False
