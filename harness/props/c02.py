"""C02 - phonons equal the lattice Fourier sum of the interatomic force constants.

Spec: spec/DynMat.tla (definition series `def`, implementation-shaped series
`raw`/`herm`, invariants ImplEqFourierAtCommensurate(Q), ImplEqFourierShortRange
and the svecs-table requirements), spec/DynMatTrace.tla (conformance of real
sessions).  Driver shared with C03: harness/c02_dynmat.py.
"""
from __future__ import annotations

import numpy as np

from harness import bootstrap  # noqa: F401
from harness import c02_dynmat as dmh
from harness import c02_report as rpt
from harness.tla_values import to_tla

TOL_DM = 1e-10      # relative to max |D| of the case
TOL_EIG = 1e-10     # eigenvalue level, relative to max |e|
TOL_FREQ = 1e-8     # relative, for modes away from zero
TOL_FACTOR = 1e-6   # phonopy's (older CODATA) unit factor against the CODATA-2018 realisation


def geometries(ctx):
    g = list(dmh.GEOMS_QUICK)
    if not ctx.quick:
        g += dmh.GEOMS_MORE
    return g


def model_cases(ctx):
    """ModelCase(...) expressions for the design-level run: the specification's own supercell,
    maps and shortest vectors."""
    geoms = [("sc", dmh.diag(2, 2, 2), dmh.P1), ("sc", dmh.ROT45x2, dmh.PSHEAR),
             ("cscl", dmh.ROT45, dmh.P1), ("bcc", dmh.FCCLIKE, dmh.PI), ("nacl", dmh.diag(1, 1, 1), dmh.PF),
             ("hcp", dmh.HEX3, dmh.P1), ("tric", dmh.diag(2, 1, 1), dmh.P1), ("tetab", dmh.ROT45, dmh.P1),
             ("naclg", dmh.diag(1, 1, 1), dmh.PF), ("wz", dmh.diag(1, 1, 1), dmh.P1), ("sc", dmh.diag(3, 3, 3), dmh.P1)]
    if not ctx.quick:
        geoms += [("sc", dmh.DET3, dmh.PSWAP), ("sc", dmh.BCCLIKE, dmh.P1),
                  ("sc", dmh.diag(3, 1, 1), dmh.P1), ("cscl", dmh.diag(2, 2, 1), dmh.P1), ("bcc", dmh.diag(2, 1, 1), dmh.PI),
                  ("hcp", dmh.diag(2, 2, 1), dmh.P1),
                  ("cscl", dmh.diag(2, 2, 2), dmh.P1), ("cscl", dmh.FCCLIKE, dmh.P1), ("cscl", dmh.DET3, dmh.P1),
                  ("bcc", dmh.diag(2, 2, 2), dmh.PI), ("nacl", dmh.diag(2, 1, 1), dmh.PF), ("nacl", dmh.ROT45, dmh.PF),
                  ("hcp", dmh.diag(2, 2, 2), dmh.P1), ("wz", dmh.diag(2, 1, 1), dmh.P1), ("wz", dmh.HEX3, dmh.P1),
                  ("tric", dmh.CYC, dmh.P1), ("tric", dmh.diag(2, 2, 1), dmh.P1), ("tetab", dmh.diag(2, 2, 2), dmh.P1)]
        # integer matrices with entries in -1..1 and determinant 2..4 (all 3^9 are enumerated, a seeded
        # sample of 120 is model-checked) for the one-atom crystal and for CsCl
        import itertools
        import random
        pool = []
        for t in itertools.product((-1, 0, 1), repeat=9):
            m = [list(t[0:3]), list(t[3:6]), list(t[6:9])]
            d = int(round(np.linalg.det(np.array(m))))
            if 2 <= d <= 4:
                pool.append(m)
        r = random.Random(ctx.seed)
        r.shuffle(pool)
        ctx.extra["model_supercell_matrices_pool"] = len(pool)
        for n, m in enumerate(pool[:120]):
            geoms.append(("sc" if n % 3 else "cscl", m, dmh.P1))
    out = []
    for n, (e, S, P) in enumerate(geoms):
        lay = "full" if n % 2 == 0 else "compact"
        fck = dict(kind="chiral", seed=2) if (n % 3 == 2 and e in CHIRAL_OK) else dict(kind="springs", seed=0)
        out.append(to_tla(dict(id=n, entry=e, S=S, Pn=P[0], Pd=P[1], layout=lay, fck=fck,
                               scale=dict(s=1, t=1), sbox=MODEL_SBOX, cbox=dmh.cbox_for(S, P))))
    return geoms, out


MODEL_SBOX = 5
CHIRAL_OK = ("sc", "cscl", "nacl", "naclg", "bcc", "hcp")   # every site non-polar: JSeriesPermSym holds


def run(ctx):
    ctx.rule = ("a case is (catalogue crystal, supercell matrix S, primitive matrix P, force-constant layout, "
                "svecs storage); per case TLC decides the series identities and the harness compares the real "
                "kernels (batch C, single-q C, Python) with TLC's series at every commensurate q of the primitive "
                "zone (or 16 of them), 9 spec-chosen probe q (zone boundary, generic, outside the first zone) and "
                "seeded random q; non-trivial = distinct (geometry, layout, storage, kernel, q-kind)")
    ctx.assumptions += [
        "exp, sqrt, eigvalsh and the covariant->Cartesian change of components are interpreted by the harness "
        "(numpy) on TLC's exact integer series; equality at non-commensurate q is numerical (1e-10 relative)",
        "force constants are those of the catalogue's pair-spring models (exact integers computed by TLC)",
        "the supercell / primitive tilings themselves are C04's subject; here ReqCaseWellFormed checks each logged case",
    ]
    rng = np.random.default_rng(ctx.seed)
    # ---- 1. design level: the model on its own supercells ------------------------------------
    mgeoms, mcases = model_cases(ctx)
    invs = ["ReqCaseWellFormed", "ReqSvecCongruent", "ReqMultiplicity", "ReqMasses", "CommQComplete",
            "AssumeSearchComplete", "TermsAreSpringsTerms"] + dmh.INV_C02 + ["Hermitian", "GPeriodic"]
    res, pubs = dmh.run_tlc(ctx, "DynMat", mcases, invs, workers=6, coverage=False)
    dmh.report_tlc(ctx, res, "model", set(invs), "DynMat model")
    n_short = sum(1 for p in pubs.values() if p["out"]["shortRange"])
    ctx.extra["model_cases"] = len(mcases)
    ctx.extra["model_cases_short_range"] = n_short
    if len(pubs) != len(mcases) and not res.violations:
        raise dmh.tlcmod.MachineryError("model run published %d of %d cases" % (len(pubs), len(mcases)))

    # ---- 2. code -> spec: real sessions as events ---------------------------------------------
    geoms = geometries(ctx)
    sessions = {}
    events = []
    for gi, (entry, S, P) in enumerate(geoms):
        orc = dmh.oracle(entry, ctx.seed, ctx)
        flip = (gi + ctx.seed) % 2
        combos = [("full", "dense"), ("compact", "sparse")] if flip == 0 else [("full", "sparse"), ("compact", "dense")]
        for store in ("dense", "sparse"):
            try:
                sessions[(gi, store)] = dmh.make_session(orc, S, P, store == "dense")
            except Exception as e:  # phonopy refuses a valid geometry
                ctx.violation("session:raises", "Phonopy(...) raised %r for %s S=%s P=%s" % (e, entry, S, P),
                              dict(entry=entry, S=S, P=P, store=store))
        # an UNSTABLE crystal (force constants times -1: every eigenvalue negative) for two geometries:
        # the sign convention of imaginary frequencies is part of the claim
        neg = gi in (1, 7)
        for n, (layout, store) in enumerate(combos):
            ph = sessions.get((gi, store))
            if ph is None:
                continue
            # one of the two events of the non-polar crystals: spring model + kappa [r]x, whose 3x3 blocks are NOT
            # symmetric (the plain spring model would hide a transposed block convention)
            chiral = n == (gi // 2 + ctx.seed) % 2 and entry in CHIRAL_OK
            fck = dict(kind="chiral", seed=1 + (gi + ctx.seed) % 3) if chiral else dict(kind="springs", seed=0)
            ev = dmh.log_event(ctx, ph, orc, (entry, S, P), layout, store, fck,
                               dict(s=-1 if neg else 1, t=1), len(events))
            if ev is not None:
                ev["_gi"] = gi
                events.append(ev)
    ctx.traces += len(events)
    ctx.extra["events"] = len(events)
    ctx.extra["geometries"] = len(geoms)
    ctx.extra["max_supercell_atoms"] = max([len(e["atoms"]) for e in events] or [0])
    tinv = dmh.INV_STRUCT + dmh.INV_C02 + dmh.INV_ASSUME + dmh.INV_CONF + ["Hermitian", "GPeriodic"]
    cases = [dmh.event_tla(ev) for ev in events]
    res, pubs = dmh.run_tlc(ctx, "DynMatTrace", cases, tinv, workers=6)
    ctx.extra["actions_fired"] = ("every case reached pc = \"pub\", which requires Load, Choose, Prepare, BuildFourier, SetFC, "
                                  "SetMasses, MapElements, BuildRaw, MakeHermitian, Judge, Publish in sequence: %d of %d cases"
                                  % (len(pubs), len(events)))
    dmh.report_tlc(ctx, res, "trace", set(tinv), "real session", pubs)
    # the trace specification rejects wrong tables (corrupted copies of a recorded event)
    if not ctx.violations:
        for ent, pred in (("sc", lambda e: max(max(r) for r in e["mult"]) > 1), ("nacl", lambda e: len(e["atoms"]) == 16)):
            probe_ev = next((e for e in events if e["entry"] == ent and pred(e)), None)
            if probe_ev is not None and (ent == "sc" or not ctx.quick):
                dmh.binding_selfcheck(ctx, probe_ev, dmh.oracle(ent, ctx.seed))
    if len(pubs) != len(events) and not ctx.violations:
        raise dmh.tlcmod.MachineryError("trace run published %d of %d events" % (len(pubs), len(events)))

    # ---- 3. spec -> code: replay TLC's series on the real kernels ------------------------------
    phfac = None
    worst = dict(dm=0.0, eig=0.0, freq=0.0)
    stats = dict(short_range=0, series_differ=0, comm_q=0, probe_q=0, random_q=0)
    reports, jobs, layouts_logged = [], [], []
    rworst = dict(dm=0.0, eig=0.0, freq=0.0, vec=0.0)
    by_geom = {}
    for ev in events:
        if ev["id"] in pubs:
            by_geom.setdefault(ev["_gi"], {})[ev["layout"]] = dmh.Published(pubs[ev["id"]], dmh.oracle(ev["entry"], ctx.seed))
    for gi, lay in sorted(by_geom.items()):
        entry, S, P = geoms[gi]
        anyp = next(iter(lay.values()))
        seq = anyp.series_equal()
        stats["short_range"] += int(anyp.shortRange)
        stats["series_differ"] += int(not seq)
        if anyp.shortRange and not seq:
            ctx.violation("replay:short-range-series", "short-range case whose published series differ",
                          dict(entry=entry, S=S, P=P))
        comm = anyp.comm_q_prim()
        if len(comm) > 16:
            idx = sorted(rng.choice(len(comm), size=16, replace=False).tolist())
            comm = [comm[0]] + [comm[i] for i in idx if i != 0]
        probe = anyp.probe_q_prim()
        nrand = 3 if ctx.quick else 40
        rand = [rng.uniform(-1.5, 1.5, size=3) for _ in range(nrand)]
        qs = [("comm", q) for q in comm] + [("probe", q) for q in probe] + [("random", q) for q in rand]
        stats["comm_q"] += len(comm)
        stats["probe_q"] += len(probe)
        stats["random_q"] += len(rand)
        qarr = [q for _, q in qs]
        for layout, pub in sorted(lay.items()):
            full, compact = pub.fc_arrays(rng)
            exp_h = [pub.evaluate("herm", q) for q in qarr]
            exp_d = [pub.evaluate("def", q) if (kind == "comm" or pub.shortRange) else None for kind, q in qs]
            scale = max(np.abs(m).max() for m in exp_h)
            for store in ("dense", "sparse"):
                ph = sessions.get((gi, store))
                if ph is None:
                    continue
                try:
                    ph.force_constants = full if layout == "full" else compact
                    real = dmh.real_dynmats(ph, qarr)
                except Exception as e:
                    ctx.violation("replay:raises", "real kernel raised %r" % (e,),
                                  dict(entry=entry, S=S, P=P, layout=layout, store=store))
                    continue
                if phfac is None:
                    phfac = float(ph.unit_conversion_factor)
                    if abs(phfac / dmh.UNIT_FACTOR - 1) > TOL_FACTOR:
                        ctx.violation("replay:unit-factor", "unit factor %r is not sqrt(eV/amu)/A/2pi in THz (%r)"
                                      % (phfac, dmh.UNIT_FACTOR), dict(factor=phfac, expected=dmh.UNIT_FACTOR))
                for kern in ("batch", "C", "Py"):
                    for n, (kind, q) in enumerate(qs):
                        dreal = real[kern][n]
                        case = dict(entry=entry, S=S, P=P, layout=layout, store=store, kernel=kern, q=q.tolist(), qkind=kind)
                        err = float(np.abs(dreal - exp_h[n]).max() / scale)
                        worst["dm"] = max(worst["dm"], err)
                        if not err <= TOL_DM:
                            ctx.violation("replay:dynmat:%s:%s" % (kern, layout),
                                          "D(q) of the real kernel differs from the specification's series by %.3g (rel)" % err,
                                          dict(case, err=err, real=dreal, expected=exp_h[n]))
                        if exp_d[n] is not None:
                            err = float(np.abs(dreal - exp_d[n]).max() / scale)
                            worst["dm"] = max(worst["dm"], err)
                            if not err <= TOL_DM:
                                ctx.violation("replay:fourier:%s:%s" % (kern, layout),
                                              "D(q) differs from the lattice Fourier sum by %.3g (rel) at a %s q" % (err, kind),
                                              dict(case, err=err, shortRange=pub.shortRange, real=dreal, expected=exp_d[n]))
                        ctx.count((gi, layout, store, kern, kind))
                # frequencies = sign(e) sqrt|e| * factor of the specification's matrix
                for n, (kind, q) in enumerate(qs):
                    e, f = dmh.eig_freqs(exp_h[n], phfac)
                    fr = real["frequencies"][n]
                    stats["min_real_frequency"] = min(stats.get("min_real_frequency", 0.0), float(fr.min()))
                    emax = scale   # eigenvalues move by at most |dD|: judged on the scale of the case
                    er = np.sign(fr) * (fr / phfac) ** 2
                    err = float(np.abs(np.sort(er) - e).max() / emax)
                    worst["eig"] = max(worst["eig"], err)
                    big = np.abs(e) > 1e-4 * emax
                    ferr = float((np.abs(fr - f)[big] / np.abs(f)[big]).max()) if big.any() else 0.0
                    worst["freq"] = max(worst["freq"], ferr)
                    if not (err <= TOL_EIG and ferr <= TOL_FREQ):
                        ctx.violation("replay:frequencies", "frequencies are not sign(e) sqrt|e| factor of the series' matrix "
                                      "(eig err %.3g, freq err %.3g)" % (err, ferr),
                                      dict(entry=entry, S=S, P=P, layout=layout, store=store, q=q.tolist(), real=fr, expected=f))
                    ctx.count((gi, layout, store, "freq", kind))
        # every combination of the other outputs of run_qpoints, on this build now and on the other
        # build in a worker (spec/DynMatReport.tla judges the logged runs)
        layouts = sorted(lay)
        r_layout = layouts[(gi // 2) % len(layouts)]
        r_store = "dense" if (gi + ctx.seed) % 2 else "sparse"
        ph = sessions.get((gi, r_store))
        if ph is not None:
            pub = lay[r_layout]
            full, compact = pub.fc_arrays(rng)
            fc = full if r_layout == "full" else compact
            pick = sorted(set([0, min(1, len(comm) - 1), len(comm), len(comm) + 4, len(comm) + 7, len(qarr) - 1]))
            rq = [qarr[i] for i in pick]
            rexp = [pub.evaluate("herm", q) for q in rq]
            rscale = max(np.abs(m).max() for m in rexp)
            where = dict(entry=entry, S=S, P=P, layout=r_layout, store=r_store, q=[q.tolist() for q in rq])
            try:
                ph.force_constants = fc
                runs, w, bad = rpt.sweep(ph, rq, rexp, rscale, float(ph.unit_conversion_factor))
                reports.append(dict(id=len(reports), build=dmh.bootstrap.VARIANT, runs=runs, _where=where, _bad=bad))
                for k in w:
                    rworst[k] = max(rworst[k], w[k])
                ctx.count((gi, r_layout, r_store, dmh.bootstrap.VARIANT, "options-sweep"), n=8)
            except Exception as e:
                ctx.violation("report:raises", "run_qpoints option sweep raised %r" % (e,), where)
            # the same VALUES handed in under every memory layout / carrier / route (spec/DynMatLayout.tla)
            try:
                lq, lexp = rq[:3], rexp[:3]
                lruns, lw, lbad = rpt.layout_sweep(ph, fc, lq, lexp, rscale)
                layouts_logged.append(dict(id=len(layouts_logged), fclayout=r_layout, runs=lruns,
                                           _where=dict(where, q=[q.tolist() for q in lq]), _bad=lbad))
                rworst["layout_dm"] = max(rworst.get("layout_dm", 0.0), lw)
                ctx.count((gi, r_layout, r_store, "memory-layout-sweep"), n=len(lruns))
            except AssertionError as e:
                raise dmh.tlcmod.MachineryError("layout constructions do not have the advertised flags: %r" % (e,))
            uc = pub.orc.unitcell()
            jobs.append(dict(id=len(jobs), symbols=list(uc.symbols), scaled_positions=np.array(uc.scaled_positions),
                             cell=np.array(uc.cell), masses=list(uc.masses), S=S, P=dmh.pmat(P), dense=(r_store == "dense"),
                             fc=fc, qs=np.array(rq), exp=rexp, scale=rscale, _where=where))
        if gi < 3:
            ctx.sample(dict(entry=entry, S=S, P=P, supercell_atoms=anyp.ns, primitive_atoms=anyp.np,
                            shortRange=anyp.shortRange, formal_series_equal=seq, lcm_multiplicity=anyp.lcm,
                            commensurate_q=len(anyp.out["commM"]), q_example=qarr[len(comm)].tolist()))
    ctx.traces += len(by_geom) * 4
    judge_reports(ctx, reports, jobs, rworst)
    judge_layouts(ctx, layouts_logged, rworst)
    stats["chiral_cases_nonsymmetric_blocks"] = sum(1 for e in events if e["fck"]["kind"] == "chiral")
    stats["negative_eigenvalue_cases"] = sum(1 for e in events if e["scale"]["s"] < 0) // 2
    ctx.extra["replay"] = stats
    ctx.extra["observed_max_rel_error"] = worst
    ctx.extra["tolerances"] = dict(dm=TOL_DM, eig=TOL_EIG, freq=TOL_FREQ, unit_factor=TOL_FACTOR)
    ctx.extra["unit_factor"] = dict(phonopy=phfac, codata2018=dmh.UNIT_FACTOR)
    for k, tol in (("dm", TOL_DM), ("eig", TOL_EIG), ("freq", TOL_FREQ)):
        if not ctx.violations and worst[k] > 1e-3 * tol:
            raise dmh.tlcmod.MachineryError("margin: observed error %g for %s is within 1e3 of the tolerance" % (worst[k], k))
    if not ctx.violations and not stats.get("min_real_frequency", 0.0) < -1.0:
        raise dmh.tlcmod.MachineryError("vacuity: no imaginary (negative) frequency was exercised")
    if not ctx.violations and (stats["short_range"] == 0 or stats["series_differ"] == 0):
        raise dmh.tlcmod.MachineryError("vacuity: need both short-range cases and cases whose series differ: %s" % stats)


REPORT_INVS = ["ImplAllCombinationsLogged", "ImplReportedDIsTheSeries", "ImplReportedDIndependentOfOptions",
               "ImplNoDWhenNotRequested", "ImplFrequenciesAreTheSeries", "ImplFrequenciesIndependentOfOptions",
               "ImplEigenvectorsDiagonaliseReportedD", "ImplGroupVelocities", "ConformsReport"]


def judge_reports(ctx, reports, jobs, rworst):
    """second build in a worker process, then TLC on spec/DynMatReport.tla over all logged sessions."""
    import os
    import pickle
    import subprocess
    import sys
    import tempfile

    other = "serial" if dmh.bootstrap.VARIANT != "serial" else "omp"
    if jobs:
        tmp = tempfile.mkdtemp(prefix="c02_report_", dir=os.path.join(dmh.tlcmod.VERIF, ".run"))
        try:
            jp, op = os.path.join(tmp, "jobs.pkl"), os.path.join(tmp, "out.pkl")
            with open(jp, "wb") as f:
                pickle.dump([{k: v for k, v in j.items() if not k.startswith("_")} for j in jobs], f)
            env = dict(os.environ, VERIF_EXT_VARIANT=other)
            p = subprocess.run([sys.executable, "-m", "harness.c02_report", jp, op], cwd=dmh.tlcmod.VERIF, env=env,
                               stdout=subprocess.PIPE, stderr=subprocess.STDOUT, timeout=1500)
            if p.returncode != 0 or not os.path.exists(op):
                raise dmh.tlcmod.MachineryError("worker for the %s build failed:\n%s" % (other, p.stdout.decode()[-2000:]))
            with open(op, "rb") as f:
                res = pickle.load(f)
        finally:
            import shutil
            shutil.rmtree(tmp, ignore_errors=True)
        if res["build"] != other:
            raise dmh.tlcmod.MachineryError("worker ran on build %r, expected %r" % (res["build"], other))
        for r in res["results"]:
            where = jobs[r["id"]]["_where"]
            if r["error"]:
                ctx.violation("report:raises", "session / option sweep raised %s on the %s build" % (r["error"], other), where)
                continue
            reports.append(dict(id=len(reports), build=other, runs=r["runs"], _where=where, _bad=r["bad"]))
            for k in r["worst"]:
                rworst[k] = max(rworst[k], r["worst"][k])
            ctx.count((r["id"], other, "options-sweep"), n=8)
    if not reports:
        return
    ctx.traces += len(reports)
    recs = ["[id |-> %d, build |-> %s, runs |-> {%s}]" % (r["id"], to_tla(r["build"]), ", ".join(to_tla(u) for u in r["runs"]))
            for r in reports]
    mc = "---- MODULE MC_DynMatReport ----\nEXTENDS DynMatReport\nMCReports == {%s}\n====\n" % ",\n".join(recs)
    cfg = "SPECIFICATION Spec\nCONSTANTS\n Reports <- MCReports\nCHECK_DEADLOCK FALSE\n" + \
          "".join("INVARIANT %s\n" % i for i in REPORT_INVS)
    res = ctx.tlc("MC_DynMatReport", cfg_text=cfg, extra_files={"MC_DynMatReport.tla": mc}, requirement=False, workers=2)
    byid = {r["id"]: r for r in reports}
    for name, tr in res.violations:
        rid = tr[-1][1].get("r", {}).get("id") if tr else None
        cur = tr[-1][1].get("cur") if tr else None
        # every session that shows the same failure, with the concrete returned values
        allbad = [dict(r["_where"], build=r["build"], first_bad_run=r["_bad"]) for r in reports if r["_bad"] is not None]
        w = byid.get(rid, {})
        if not w and allbad:   # violated in the initial state: TLC prints no session; name the first failing one
            w = next(r for r in reports if r["_bad"] is not None)
            cur = {k: v for k, v in w["_bad"].items() if k not in ("returned_D", "error")}
        ctx.violation("report:" + name,
                      "run_qpoints output is not a function of (fc, masses, q) only: %s fails (TLC) on the %s build, request %s"
                      % (name, w.get("build"), {k: cur.get(k) for k in ("ev", "gv", "dm")} if isinstance(cur, dict) else None),
                      dict(invariant=name, session=w.get("_where"), build=w.get("build"), logged_run=cur,
                           failing_sessions=allbad[:6]))
    if res.violated and not res.violations:
        raise dmh.tlcmod.MachineryError("DynMatReport: %s" % res.violated)
    builds = sorted(set(r["build"] for r in reports))
    ctx.extra["options_sweep"] = dict(sessions=len(reports), builds=builds, runs=8 * len(reports),
                                      combinations="with_eigenvectors x with_group_velocities x with_dynamical_matrices",
                                      observed_max_error=rworst,
                                      tolerances=dict(dm=rpt.TOL_DM, eig=rpt.TOL_EIG, freq=rpt.TOL_FREQ, vec=rpt.TOL_VEC))
    if not ctx.violations:
        if len(builds) < 2:
            raise dmh.tlcmod.MachineryError("options sweep ran on one build only: %s" % builds)
        if max(rworst["dm"], rworst["eig"]) > 1e-3 * rpt.TOL_DM or rworst["vec"] > 1e-3 * rpt.TOL_VEC:
            raise dmh.tlcmod.MachineryError("margin: options sweep error %s within 1e3 of tolerance" % rworst)


LAYOUT_INVS = ["ImplAllLayoutsLogged", "ImplAccepted", "ImplDIsTheSeriesOfTheValues", "ImplDIsAFunctionOfValuesOnly",
               "ConformsLayoutReport"]


def judge_layouts(ctx, sessions, rworst):
    """TLC on spec/DynMatLayout.tla: reported D is a function of the values handed in only."""
    if not sessions:
        return
    ctx.traces += len(sessions)
    recs = ["[id |-> %d, fclayout |-> %s, runs |-> {%s}]" % (r["id"], to_tla(r["fclayout"]), ", ".join(to_tla(u) for u in r["runs"]))
            for r in sessions]
    mc = "---- MODULE MC_DynMatLayout ----\nEXTENDS DynMatLayout\nMCSessions == {%s}\n====\n" % ",\n".join(recs)
    cfg = "SPECIFICATION Spec\nCONSTANTS\n Sessions <- MCSessions\nCHECK_DEADLOCK FALSE\n" + \
          "".join("INVARIANT %s\n" % i for i in LAYOUT_INVS)
    # no -continue: a wrong layout handling fails in hundreds of states, each with a long trace; the first
    # counterexample names the invariant, the complete picture is in the logged runs (detail below)
    res = ctx.tlc("MC_DynMatLayout", cfg_text=cfg, extra_files={"MC_DynMatLayout.tla": mc}, requirement=False, workers=2)
    byid = {r["id"]: r for r in sessions}
    allbad = [dict(r["_where"], bad_runs=r["_bad"][:3]) for r in sessions if r["_bad"]]
    for name, tr in res.violations:
        st = tr[-1][1] if tr else {}
        w = byid.get(st.get("r", {}).get("id"), None) or next((r for r in sessions if r["_bad"]), sessions[0])
        cur = st.get("cur") if isinstance(st.get("cur"), dict) and "mem" in st.get("cur", {}) else \
            ({k: v for k, v in w["_bad"][0].items() if k not in ("returned_D_first_q",)} if w["_bad"] else None)
        # token classes of the session: which hand-ins gave a different matrix
        odd = {}
        for u in w["runs"]:
            odd.setdefault((u["kern"], u["vclass"]), {}).setdefault(u["dtok"], []).append("%s/%s/%s" % (u["arg"], u["route"], u["mem"]))
        split = {"%s,%s" % k: v for k, v in odd.items() if len(v) > 1}
        ctx.violation("layout:" + name,
                      "D depends on more than the VALUES handed in: %s fails (TLC); e.g. %s" % (name, cur),
                      dict(invariant=name, session=w["_where"], fc_layout=w["fclayout"], logged_run=cur,
                           differing_token_classes=split, failing_sessions=allbad[:4]))
    if res.violated and not res.violations:
        raise dmh.tlcmod.MachineryError("DynMatLayout: %s" % res.violated)
    ctx.extra["memory_layout_sweep"] = dict(
        sessions=len(sessions), runs=sum(len(r["runs"]) for r in sessions),
        fc_layouts=sorted(set(r["fclayout"] for r in sessions)),
        dimensions="fc: {C, F, transposed-owning, strided view, sub-buffer view, list, float32, float32-as-float64} x "
                   "{Phonopy.force_constants=, DynamicalMatrix(), get_dynamical_matrix()} x {batch, C, Py}; "
                   "q arrays {F, strided view, list}; masses {strided view, list, float32}",
        float32_refused=sum(1 for r in sessions for u in r["runs"] if u["status"] == "refused"),
        observed_max_error=rworst.get("layout_dm"))
    if not ctx.violations and len(set(r["fclayout"] for r in sessions)) < 2:
        raise dmh.tlcmod.MachineryError("vacuity: memory-layout sweep saw one force-constant layout only")
