"""X04 (extra) - irreducible representations of phonon modes (phonopy/phonon/irreps.py, character_table.py,
degeneracy.py; API Phonopy.set_irreps).

Specification: spec/Irreps.tla (+IrrepsCatalogue, PointGroups, IrrepsSpringsDump), spec/CharTable.tla, spec/DegSets.tla.

 (a) Irreps.tla, model mode: for the exact space group of every catalogue crystal (TLC, Crystal.tla: Aut) and every candidate q
     and both modes, the representation matrices of the definition are a projective homomorphism with the stated factor system,
     the mechanical character is a class function; TLC also decides which (q, mode) have all phases and eigenvalues in the
     twelfth roots of unity (admissible: exact arithmetic in Z[zeta_12]).
 (b) Irreps.tla, trace mode: Phonopy.set_irreps runs on oracle crystals (harness/x04_irreps.py) are projected to exact values
     and judged by TLC: refusal of non-primitive cells, little co-group, ground matrices, partition into degenerate sets,
     characters (dimension, sum rule against the exact mechanical character, irreducibility incl. time-reversal pairing by
     Herring's criterion, orthogonality, class function with the projective phases), point-group symbol, rotation symbols,
     labels against character_table.py and the exact multiplicities of the rows in the mechanical representation.
     spec -> code: TLC's multiplication table / factor system is replayed on the matrices IrReps.irreps reports.
 (c) CharTable.tla: every table of character_table.py (36 variants, 32 point groups).
 (d) DegSets.tla: degenerate_sets (machine = requirement on ascending input, exhaustively; replay on the real function) and
     rotate_eigenvectors (TLC computes sets and expected eigenvalues; real-valued predicates evaluated by the harness).
"""
from __future__ import annotations

import json
import os
from concurrent.futures import ThreadPoolExecutor

os.environ.setdefault("OMP_NUM_THREADS", "1")

import numpy as np

from harness import tlc as tlcmod
from harness import tla_values

IMPL = ["ImplStatus", "ImplLittleGroup", "ImplGround", "ImplPartition", "ImplCharsExact", "ImplDimension", "ImplAcoustic",
        "ImplSumRule", "ImplIrreducible", "ImplOrthogonal", "ImplClassFunction", "ImplPointGroup", "ImplLabelled", "ImplSymbols",
        "ImplLabels"]
FIELD = dict(status="ImplStatus", group="ImplLittleGroup", ground="ImplGround", partition="ImplPartition", chars="ImplCharsExact",
             dim="ImplDimension", acoustic="ImplAcoustic", sumrule="ImplSumRule", irreducible="ImplIrreducible",
             orthogonal="ImplOrthogonal", **{"class": "ImplClassFunction"}, pointgroup="ImplPointGroup", labelled="ImplLabelled",
             symbols="ImplSymbols", labels="ImplLabels", adm="WellFormed")

# q numerators over 12
QCANDS = [[0, 0, 0], [6, 0, 0], [6, 6, 0], [6, 6, 6], [0, 0, 6], [6, 0, 6], [4, 4, 0], [4, 4, 6], [3, 0, 0], [0, 0, 3], [0, 0, 4],
          [4, 0, 0], [3, 3, 0], [3, 3, 3], [2, 2, 2], [0, 6, 0], [6, 0, 3], [0, 0, 2], [1, 5, 7], [4, 8, 0], [0, 6, 6], [6, 3, 9],
          [3, 0, 3]]
PRIMITIVE = ["scx", "cscl", "hcpx", "wz", "tric", "tetab", "dia", "zb", "rut"]
NONPRIM = ["naclg", "bcc"]
# two different irreps share one frequency there in the (interpolated) spring model: an accidental degeneracy, on which the
# irreducibility requirement says nothing; the points are left out of the plan rather than weakening the requirement
ACCIDENTAL = {("scx", (4, 4, 6)), ("scx", (6, 3, 9))}


def printed(stdout, tag):
    out = []
    head = '"<<\\"%s\\"' % tag
    for line in stdout.splitlines():
        if line.startswith(head):
            out.append(tla_values.parse_value(json.loads(line)))
    return out


def account(ctx, module, res, note):
    ctx.states += res.distinct
    ctx.transitions += res.generated
    ctx.tlc_runs.append(dict(module=module, cfg=note, **res.summary(), coverage=None))


def unfreeze(x):
    if isinstance(x, dict):
        return {k: unfreeze(v) for k, v in x.items()}
    if isinstance(x, (list, tuple)):
        return [unfreeze(v) for v in x]
    if isinstance(x, frozenset):
        return sorted((unfreeze(v) for v in x), key=repr)
    return x


# ---------------------------------------------------------------------------------------
def aut_tla(aut):
    return "{" + ", ".join("<<<<%s>>, <<%d,%d,%d>>>>" % (",".join("<<%d,%d,%d>>" % tuple(r) for r in W), w[0], w[1], w[2]) for W, w in aut) + "}"


CONSTS = " Entry = \"%s\"\n Events <- MCE\n QCands <- MCQ\n Tables <- MCT\n AutIn <- MCAut\n"


def model_run(args):
    entry, aut, exact = args
    mc = ("---- MODULE MC_Irreps ----\nEXTENDS Irreps\nMCQ == {%s}\nMCE == {}\nMCT == <<>>\nMCAut == %s\n====\n"
          % (", ".join("<<%d,%d,%d>>" % tuple(q) for q in QCANDS), aut_tla(aut)))
    if exact:
        cfg = "INIT AInit\nNEXT ANext\nCONSTANTS\n" + CONSTS % entry + "CHECK_DEADLOCK FALSE\nINVARIANT AutExact\n"
        res0 = tlcmod.run("MC_Irreps", cfg_text=cfg, extra_files={"MC_Irreps.tla": mc}, workers=2)
        tlcmod.cleanup(res0)
        if res0.violated or res0.distinct != 1:
            raise tlcmod.MachineryError("x04: the oracle's space group of %s is not Aut(C): %s" % (entry, res0.violated))
    cfg = ("INIT MInit\nNEXT MNext\nCONSTANTS\n" + CONSTS % entry + "CHECK_DEADLOCK FALSE\n"
           "INVARIANT MEmit\nINVARIANT ModelHomomorphism\nINVARIANT ModelClassFunction\nINVARIANT ModelIdentity\n")
    res = tlcmod.run("MC_Irreps", cfg_text=cfg, extra_files={"MC_Irreps.tla": mc}, workers=2, extra_args=("-continue",))
    tlcmod.cleanup(res)
    return entry, res


def models(ctx, entries, worlds):
    adm = {}
    with ThreadPoolExecutor(max_workers=12) as ex:
        for entry, res in ex.map(model_run, [(en, worlds[en].orc.o["aut"], not ctx.quick) for en in entries]):
            account(ctx, "MC_Irreps", res, "(generated) model mode, entry=%s, %d q x 2 modes" % (entry, len(QCANDS)))
            if res.rc not in (0, 12, 13) and not res.violations and res.distinct == 0:
                raise tlcmod.MachineryError("x04: model run for %s failed:\n%s" % (entry, res.stdout[-3000:]))
            for name, trace in res.violations:
                st = trace[-1][1] if trace else {}
                ctx.violation("tlc:Irreps:" + name, "TLC: %s fails for the exact little group of %s" % (name, entry),
                              dict(entry=entry, event=unfreeze(st.get("ev"))))
            rows = printed(res.stdout, "ADM")
            if len(rows) < 2 * len(QCANDS):
                raise tlcmod.MachineryError("x04: model run for %s reported %d of %d (q, mode) pairs\n%s"
                                            % (entry, len(rows), 2 * len(QCANDS), res.stdout[-2000:]))
            for _, en, qv, cg, ok, prim, ng in rows:
                adm[(en, tuple(qv), bool(cg))] = dict(adm=bool(ok), prim=bool(prim), ng=ng)
    return adm


# ---------------------------------------------------------------------------------------
def plan(ctx, adm, entries):
    """(entry, qn, cog, tol, coarse) for every admissible pair; quick tier: a seed-dependent half of the non-Gamma points."""
    out = []
    for en in entries:
        k = 0
        for q in QCANDS:
            for cog in (False, True):
                a = adm[(en, tuple(q), cog)]
                if not a["prim"]:
                    if q == [0, 0, 0] or (q == [6, 0, 0] and not cog):
                        out.append((en, q, cog, 1e-4, False))
                    continue
                if not a["adm"] or (en, tuple(q)) in ACCIDENTAL:
                    continue
                k += 1
                if ctx.quick and q != [0, 0, 0] and (k + ctx.seed) % 2:
                    continue
                out.append((en, q, cog, [1e-4, 1e-5, 1e-3][(k + ctx.seed) % 3], False))
                if q in ([0, 0, 0], [6, 0, 0]) and not cog:
                    out.append((en, q, cog, 5.0, True))
    return out


def make_worlds(ctx, entries):
    from harness import x04_irreps as drv
    from harness.x04_oracle import XOracle

    # sequential: World silences phonopy through redirect_stdout, which is process-wide
    return {en: drv.World(en, seed=ctx.seed, oracle_cls=XOracle) for en in entries}


def record_all(ctx, items, worlds):
    from harness import x04_irreps as drv

    events, raws = {}, {}
    eid = 0
    for en, q, cog, tol, coarse in items:
        eid += 1
        try:
            ev, raw = drv.record(worlds[en], eid, q, cog, tol, coarse)
        except Exception as e:  # noqa: BLE001
            import traceback
            raise tlcmod.MachineryError("x04 recorder failed on %s q=%s: %s\n%s" % (en, q, e, traceback.format_exc()))
        events.setdefault(en, []).append(ev)
        raws[eid] = raw
        ctx.count(("irreps", en, tuple(q), cog, tol))
    ctx.traces += eid
    return events, raws


def trace_run(args):
    entry, evs, tabtext, aut = args
    from harness import x04_irreps as drv

    mc = ("---- MODULE MC_Irreps ----\nEXTENDS Irreps\nMCQ == {}\nMCE == {%s}\nMCT == %s\nMCAut == %s\n====\n"
          % (",\n ".join(drv.tla(e) for e in evs), tabtext, aut_tla(aut)))
    cfg = ("INIT TInit\nNEXT TNext\nCONSTANTS\n" + CONSTS % entry + "CHECK_DEADLOCK FALSE\n"
           + "INVARIANT Report\nINVARIANT ReportMul\n" + "".join("INVARIANT %s\n" % i for i in IMPL) + "INVARIANT WellFormed\n")
    res = tlcmod.run("MC_Irreps", cfg_text=cfg, extra_files={"MC_Irreps.tla": mc}, workers=3, extra_args=("-continue",))
    tlcmod.cleanup(res)
    return entry, res


def validate(ctx, events, raws, worlds):
    from harness import x04_irreps as drv

    tabs = drv.tables_from_phonopy()
    jobs = []
    for en, evs in events.items():
        pgs = set(e["pgs"] for e in evs)
        jobs.append((en, evs, drv.tla_tables(tabs, only=pgs), worlds[en].orc.o["aut"]))
    failed, mult = {}, {}
    with ThreadPoolExecutor(max_workers=12) as ex:
        for en, res in ex.map(trace_run, jobs):
            account(ctx, "MC_Irreps", res, "(generated) trace mode, entry=%s, %d events" % (en, len(events[en])))
            rows = printed(res.stdout, "V")
            if len(set(r[1] for r in rows)) != len(events[en]):
                raise tlcmod.MachineryError("x04: TLC reported on %d of %d events of %s\n%s"
                                            % (len(set(r[1] for r in rows)), len(events[en]), en, res.stdout[-3000:]))
            for _, eid, bad in rows:
                failed[eid] = sorted(bad)
            for _, eid, tab in printed(res.stdout, "M"):
                mult[eid] = tab
            names = set(FIELD[f] for _, _, bad in rows for f in bad)
            got = set(n for n, _ in res.violations)
            if not got <= names or (names and not got):
                raise tlcmod.MachineryError("x04: invariant verdicts %s differ from the per-event report %s (%s)"
                                            % (sorted(set(n for n, _ in res.violations)), sorted(names), en))
    byid = {e["id"]: (en, e) for en, evs in events.items() for e in evs}
    groups = {}
    for eid, bad in failed.items():
        en, e = byid[eid]
        if "adm" in bad:
            raise tlcmod.MachineryError("x04: inadmissible (q, mode) sent to TLC: %s %s" % (en, e["qv"]))
        mode = "cogroup" if e["cg"] else "group"
        # wrong representation matrices make every observation derived from them wrong: one class, the root
        for f in (["ground"] if "ground" in bad else bad):
            groups.setdefault("irreps:%s:%s" % (FIELD[f], mode), []).append(eid)
    for key, ids in sorted(groups.items()):
        wit = []
        for i in ids[:3]:
            en, e = byid[i]
            wit.append(dict(crystal=en, q=[x / 12 for x in e["qv"]], is_little_cogroup=e["cg"], degeneracy_tolerance=raws[i]["tol"],
                            status=e["st"], exception=raws[i]["exc"], band_sets=e["bsets"], labels=e["lbl"], point_group=e["pgs"],
                            operations=e["opl"], characters_2x_Zsqrt3=e["chr"], failing=failed[i]))
        ctx.violation(key, "requirement %s of Irreps.tla fails on what IrReps reported (%d runs; crystals %s)"
                      % (key.split(":")[1], len(ids), sorted(set(byid[i][0] for i in ids))), dict(events=len(ids), witnesses=wit,
                           cases=[[byid[i][0], byid[i][1]["qv"], byid[i][1]["cg"], raws[i]["tol"], byid[i][1]["bsets"]] for i in ids]))
    worst = max([r["margin"] for r in raws.values()] + [0.0])
    ctx.extra["irreps"] = dict(events=len(byid), violating=sum(1 for v in failed.values() if v), projection_margin=worst / drv.TOL,
                               per_crystal={en: len(evs) for en, evs in events.items()})
    if not ctx.violations and worst / drv.TOL > 1e-3:
        raise tlcmod.MachineryError("x04: projection margin exhausted: %g" % worst)
    return {eid: tab for eid, tab in mult.items() if "ground" not in failed[eid]}


def replay_mult(ctx, mult, raws, events):
    """spec -> code: TLC's multiplication table and factor system on the irrep matrices of every degenerate set."""
    byid = {e["id"]: (en, e) for en, evs in events.items() for e in evs}
    worst, n, bad = 0.0, 0, []
    for eid, tab in mult.items():
        raw = raws[eid]
        en, e = byid[eid]
        if e["crs"]:
            continue
        for s, mats in enumerate(raw["irreps"]):
            ng = len(mats)
            err = 0.0
            for k1 in range(ng):
                for k2 in range(ng):
                    k12, f = tab[k1][k2]
                    err = max(err, float(np.abs(mats[k1] @ mats[k2] - np.exp(2j * np.pi * f / 12) * mats[k12 - 1]).max()))
                err = max(err, float(np.abs(mats[k1] @ mats[k1].conj().T - np.eye(len(mats[k1]))).max()))
            n += 1
            worst = max(worst, err if err < 1e-6 else 0.0)
            if err > 1e-6:
                bad.append(dict(crystal=en, q=[x / 12 for x in e["qv"]], is_little_cogroup=e["cg"], band_set=e["bsets"][s], error=err))
    ctx.traces += n
    ctx.extra["irrep_matrix_sets_replayed"] = n
    ctx.extra["irrep_matrix_margin"] = worst / 1e-6
    groups = {}
    for b in bad:
        groups.setdefault("replay:irrep-matrices:" + ("cogroup" if b["is_little_cogroup"] else "group"), []).append(b)
    for key, items in groups.items():
        ctx.violation(key, "the matrices IrReps.irreps reports for a degenerate set are not a unitary (projective) representation with "
                      "the multiplication table and factor system TLC computed (%d sets)" % len(items), dict(sets=len(items), witnesses=items[:3]))


# ---------------------------------------------------------------------------------------
CT_INV = ["TableWellFormed", "TableGroup", "TableType", "TableClasses", "TableComplete", "TableOrthogonal", "TableLinear", "TableProducts"]


def chartable(ctx):
    from harness import x04_irreps as drv

    tabs = drv.tables_from_phonopy()
    mc = "---- MODULE MC_CharTable ----\nEXTENDS CharTable\nMCT == %s\n====\n" % drv.tla_tables(tabs)
    cfg = ("INIT Init\nNEXT Next\nCONSTANTS\n Tables <- MCT\nCHECK_DEADLOCK FALSE\nINVARIANT Report\nINVARIANT AllTypesListed\n"
           + "".join("INVARIANT %s\n" % i for i in CT_INV))
    res = tlcmod.run("MC_CharTable", cfg_text=cfg, extra_files={"MC_CharTable.tla": mc}, workers=4, extra_args=("-continue",))
    tlcmod.cleanup(res)
    account(ctx, "MC_CharTable", res, "(generated) %d tables" % sum(len(v) for v in tabs.values()))
    rows = printed(res.stdout, "T")
    nvar = sum(len(v) for v in tabs.values())
    if len(set((r[1][0], r[1][1]) for r in rows)) != nvar:
        raise tlcmod.MachineryError("x04: CharTable reported on %d of %d tables\n%s" % (len(rows), nvar, res.stdout[-2000:]))
    for _, tb, bad, order, nc in rows:
        ctx.count(("table", tb[0], tb[1]))
        for f in sorted(bad):
            ctx.violation("chartable:%s:%s" % (f, tb[0]), "character_table.py: table %s (variant %d) fails '%s' of CharTable.tla" % (tb[0], tb[1], f),
                          dict(point_group=tb[0], variant=tb[1], failing=sorted(bad), table=tabs[tb[0]][tb[1] - 1]))
    if "AllTypesListed" in [n for n, _ in res.violations]:
        ctx.violation("chartable:missing-type", "character_table.py lists no table for one of the 32 point-group types", dict(listed=sorted(tabs)))
    ctx.extra["character_tables"] = dict(tables=nvar, point_groups=len(tabs), failing=sum(1 for r in rows if r[2]))


def rot_cases(rng, n):
    out = [dict(ev=[0, 0, 1, 3, 3, 5], pe=[3, -1, 2, 0, 0, 7]), dict(ev=[0, 2, 4], pe=[1, 2, 3]), dict(ev=[0, 1, 2, 4], pe=[2, 2, -1, 0]),
           dict(ev=[5, 5, 5], pe=[1, 1, -2])]
    for _ in range(n):
        m = int(rng.integers(2, 7))
        ev = np.cumsum(rng.choice([0, 0, 1, 2, 3], size=m)).tolist()
        out.append(dict(ev=[int(x) for x in ev], pe=[int(x) for x in rng.integers(-3, 4, size=m)]))
    return out


def degsets(ctx):
    from harness import bootstrap  # noqa: F401
    from harness import x04_irreps as drv
    from phonopy.phonon.degeneracy import degenerate_sets, rotate_eigenvectors

    rng = np.random.default_rng(1000 + ctx.seed)
    cases = rot_cases(rng, 30 if ctx.quick else 150)
    nmax = 4 if ctx.quick else 5
    mc = ("---- MODULE MC_DegSets ----\nEXTENDS DegSets\nMCV == UNION {[1..n -> 0..3] : n \\in 1..%d}\nMCC == {1, 2}\nMCR == {%s}\n====\n"
          % (nmax, ", ".join(drv.tla(c) for c in cases)))
    base = "INIT Init\nNEXT Next\nCONSTANTS\n Vals <- MCV\n Cutoffs <- MCC\n RotCases <- MCR\nCHECK_DEADLOCK FALSE\n"
    res = ctx.tlc("MC_DegSets", cfg_text=base + "INVARIANT Emit\nINVARIANT MachineIsRequirement\nINVARIANT RequirementIsPartition\n"
                  "INVARIANT RunsWhenAscending\nINVARIANT RotWellPosed\n", extra_files={"MC_DegSets.tla": mc}, requirement=True, workers=4,
                  what="degenerate_sets: the loops differ from the partition into chains of close values on ascending input")
    ds, rot = printed(res.stdout, "DS"), printed(res.stdout, "ROT")
    # not a theorem: unordered input can give overlapping groups (no caller passes unordered values)
    un = tlcmod.run("MC_DegSets", cfg_text=base + "INVARIANT UnorderedIsPartition\n", extra_files={"MC_DegSets.tla": mc}, workers=2)
    tlcmod.cleanup(un)
    account(ctx, "MC_DegSets", un, "(generated) UnorderedIsPartition, expected to fail")
    if un.violated != "UnorderedIsPartition":
        raise tlcmod.MachineryError("x04: TLC found no unordered input on which degenerate_sets overlaps")
    st = un.trace[-1][1]
    ctx.extra["degenerate_sets_unordered_input_counterexample"] = dict(values=unfreeze(st["cs"]["v"]), cutoff=st["cs"]["c"],
                                                                      machine=unfreeze(st["out"]["m"]), partition=unfreeze(st["out"]["q"]))
    if len(ds) < 600 or len(rot) != len(set(json.dumps(c) for c in cases)):
        raise tlcmod.MachineryError("x04: DegSets emitted %d / %d cases" % (len(ds), len(rot)))
    n = 0
    for _, v, c, mach, req in ds:
        asc = all(v[i] <= v[i + 1] for i in range(len(v) - 1))
        got = degenerate_sets(np.array(v, dtype=float) / 8.0, cutoff=c / 8.0)
        got1 = [[int(i) + 1 for i in g] for g in got]
        want = unfreeze(req if asc else mach)
        n += 1
        ctx.count(("ds", tuple(v), c))
        if got1 != want:
            ctx.violation("degsets:replay" if asc else "conformance:degsets-unordered",
                          "degenerate_sets differs from %s of DegSets.tla" % ("the requirement" if asc else "the transcribed loops (unordered input)"),
                          dict(values=[x / 8.0 for x in v], cutoff=c / 8.0, expected_1based=want, got_1based=got1))
    worst = 0.0
    for _, r, sets, exp in rot:
        ev, pe = np.array(r["ev"], dtype=float), np.array(r["pe"], dtype=float)
        m = len(ev)
        crng = np.random.default_rng(abs(hash((tuple(r["ev"]), tuple(r["pe"]), ctx.seed))) % (2 ** 32))
        U = np.linalg.qr(crng.normal(size=(m, m)) + 1j * crng.normal(size=(m, m)))[0]
        C = crng.normal(size=(m, m)) + 1j * crng.normal(size=(m, m))
        M = (C + C.conj().T) / 2
        for g in sets:
            idx = [i - 1 for i in g]
            Q = np.linalg.qr(crng.normal(size=(len(idx), len(idx))) + 1j * crng.normal(size=(len(idx), len(idx))))[0]
            M[np.ix_(idx, idx)] = Q @ np.diag(pe[idx]) @ Q.conj().T
        dD = U @ M @ U.conj().T
        n += 1
        ctx.count(("rot", tuple(r["ev"]), tuple(r["pe"])))
        try:
            rot_vecs, vals = rotate_eigenvectors(ev * 2.0 ** -14, U.copy(), dD)
        except Exception as e:  # noqa: BLE001
            ctx.violation("degsets:rotate:exception", "rotate_eigenvectors raised %s" % type(e).__name__, dict(case=unfreeze(r), error=str(e)))
            continue
        err = dict(values=float(np.abs(np.array(vals).real - np.array(exp, dtype=float)).max()),
                   unitary=float(np.abs(rot_vecs.conj().T @ rot_vecs - np.eye(m)).max()))
        span = diag = 0.0
        for g in sets:
            idx = [i - 1 for i in g]
            span = max(span, float(np.abs(rot_vecs[:, idx] @ rot_vecs[:, idx].conj().T - U[:, idx] @ U[:, idx].conj().T).max()))
            diag = max(diag, float(np.abs(rot_vecs[:, idx].conj().T @ dD @ rot_vecs[:, idx] - np.diag(np.array(exp, dtype=float)[idx])).max()))
        err.update(same_span=span, diagonalises=diag)
        bad = [k for k, x in err.items() if not x < 1e-9]
        worst = max([worst] + [x for x in err.values() if x < 1e-9])
        if bad:
            ctx.violation("degsets:rotate:" + bad[0], "rotate_eigenvectors: %s fails for the degenerate sets / block eigenvalues TLC computed" % bad,
                          dict(eigvals_units_2pow_minus14=r["ev"], block_eigenvalues=r["pe"], sets_1based=unfreeze(sets), expected=unfreeze(exp),
                               got=np.array(vals).real.tolist(), errors=err))
    ctx.traces += n
    ctx.extra["degeneracy"] = dict(degenerate_sets_cases=len(ds), rotate_cases=len(rot), rotate_margin=worst / 1e-9)


def run(ctx):
    ctx.rule = ("one case = one Phonopy.set_irreps run (crystal, q, little group / co-group mode, degeneracy tolerance) judged by TLC; "
                "one exact little group (crystal, q, mode) in model mode")
    ctx.assumptions += [
        "eigenvectors come from numpy.linalg.eigh inside IrReps; the characters derived from them are projected to Z[zeta_12] "
        "(residual < 1e-8) and judged exactly",
        "closeness of neighbouring frequencies against the tolerance is a float comparison done by the recorder on IrReps' own frequencies",
        "primitive cell = unit cell; spring-model force constants (harness/oracle.py); q restricted to points where every phase is a twelfth root of unity",
    ]
    entries = PRIMITIVE + NONPRIM
    chartable(ctx)
    degsets(ctx)
    worlds = make_worlds(ctx, entries)
    adm = models(ctx, entries, worlds)
    ctx.extra["admissible"] = {en: sorted(set("%s%s" % (list(q), "c" if c else "") for (e, q, c), a in adm.items() if e == en and a["adm"]))
                               for en in entries}
    items = plan(ctx, adm, entries)
    events, raws = record_all(ctx, items, worlds)
    mult = validate(ctx, events, raws, worlds)
    replay_mult(ctx, mult, raws, events)
    ctx.extra["actions"] = ("linear machines (MLoad/MJudge, TLoad/TJudge, CharTable Load/Judge, DegSets Run): every behaviour passes through "
                            "every action of its mode; the per-event / per-table reports prove all of them were judged")
    for en in ("hcpx", "dia"):
        for e in events.get(en, [])[:1]:
            ctx.sample(dict(irreps_event=dict(crystal=en, q=[x / 12 for x in e["qv"]], is_little_cogroup=e["cg"], point_group=e["pgs"],
                                              band_sets=e["bsets"], labels=e["lbl"], characters_2x_over_Zsqrt3=e["chr"][:2])))
