"""C10 - thermal properties equal the harmonic closed forms and obey thermodynamic identities.

Specs: spec/Thermal.tla (term-multiset step machine of both code paths + requirement),
spec/ThermalTrace.tla (conformance: decoded real runs; ReqRecord for the numeric replay),
spec/ThermalIEEE.tla (+Trace) (IEEE abstract-domain model of the coded expression trees),
spec/ThermalIdentities.tla (thermodynamic identities on logged rows).  DESIGN.md section 5/C10.
"""
from __future__ import annotations

import json
import os

# tiny meshes, thousands of kernel calls: spinning OpenMP workers cost 40-140 ms per call on a shared machine
os.environ.setdefault("OMP_WAIT_POLICY", "PASSIVE")

import numpy as np  # noqa: E402

from harness import bootstrap  # noqa: F401,E402
from harness import c10_num as N
from harness import c10_trace as TR
from harness import tlc as tlcmod
from harness.tla_values import to_tla

WORKERS = int(os.environ.get("C10_WORKERS", "8"))

def _variants():
    import itertools
    keys = ("zpeCutoff", "projBandIndices", "pyProjTotals", "weightsByValue")
    allv = [dict(zip(keys, v)) for v in itertools.product((True, False), repeat=4)]
    first = [dict(zip(keys, (True, True, True, True))),       # everything repaired (the current tree)
             dict(zip(keys, (True, True, True, False))),      # the tree after the first round of repairs
             dict(zip(keys, (False, False, False, False)))]   # the pinned tree
    return first + [v for v in allv if v not in first]


VARIANT_ORDER = _variants()
ALL_REPAIRED = VARIANT_ORDER[0]

JUDGE_TRACE = dict(init="TInit", next="TNext", vars="tvars", cond='pc = "done"')
IMPL_INVS = ["ImplNoError", "ImplExact", "ImplProjExact", "ImplFinite", "ImplTemps", "ImplTerms", "ImplZeroPoint", "ImplZeroT",
             "ImplZpeAttr", "ImplCounts", "ImplReportsTotals", "ImplProj"]

# which defect class a violated invariant belongs to (only used to word the report)
CLASS_OF = {
    "ImplZeroPointC": "zero-point energy of modes at or below the cutoff is added (compiled path)",
    "ImplZpeAttrC": "zero_point_energy attribute ignores the cutoff",
    "ImplZpeAttrPy": "zero_point_energy attribute ignores the cutoff",
    "ImplSameBothLanguages": "compiled and Python paths report different numbers",
    "ImplNoErrorC": "run() raises (is_projection with band_indices selecting fewer bands)",
    "ImplNoErrorPy": "run(lang='Py') raises (is_projection with band_indices selecting fewer bands)",
    "ImplReportsTotalsPy": "run(lang='Py') with is_projection reports projected components instead of totals",
}


def trace_cfg(invs):
    return ("INIT MCInit_\nNEXT MCNext_\nCONSTANTS\n Configs = {}\n Seeds = {}\n Options = {}\n Variant <- MCVariant\n"
            " Events <- MCEvents\n MExp <- MCMExp\n NL <- MCNL\nCHECK_DEADLOCK FALSE\n"
            + "".join("INVARIANT %s\n" % i for i in invs))


def once_module(name, base, body, invs, judge=None):
    """MC module whose invariants are reported at most once per worker (-continue would otherwise print one
    trace per violating state).  TLC stops at the first violated invariant of a state, which would mask the
    others on that state; with judge = dict(init, next, vars, cond) every state satisfying `cond` gets one
    successor per invariant (variable chk_) and invariant k is evaluated in successor k only."""
    lines = ["---- MODULE %s ----" % name, "EXTENDS %s" % base, body,
             "ASSUME \\A rg_ \\in 1..%d : TLCSet(rg_, 0)" % (len(invs) + 1),
             "Once(rg_, P_) == P_ \\/ TLCGet(rg_) = 1 \\/ ~TLCSet(rg_, 1)"]
    if judge:
        lines += ["VARIABLE chk_",
                  "MCInit_ == %s /\\ chk_ = 0" % judge["init"],
                  "MCNext_ == (%s /\\ UNCHANGED chk_) \\/ ((%s) /\\ chk_ = 0 /\\ chk_' \\in 1..%d /\\ UNCHANGED %s)"
                  % (judge["next"], judge["cond"], len(invs), judge["vars"])]
    for i, inv in enumerate(invs):
        if judge:
            lines.append("O_%s == (chk_ = %d) => Once(%d, %s)" % (inv, i + 1, i + 1, inv))
        else:
            lines.append("O_%s == Once(%d, %s)" % (inv, i + 1, inv))
    lines.append("====")
    return "\n".join(lines) + "\n"


def violated_names(res):
    return sorted(set(n[2:] if n.startswith("O_") else n for n, _ in getattr(res, "violations", [])))


def witness_of(res, name):
    for n, tr in res.violations:
        if n in (name, "O_" + name) and tr:
            return tr[-1][1]
    return None


# ------------------------------------------------------------------------------
def phase_trace(ctx):
    """Decoded real runs -> ThermalTrace (Impl*, Conforms*), ReqRecord -> numeric replay."""
    rng = np.random.default_rng(ctx.seed)
    n_cfg = 260 if ctx.quick else 2600
    cfgs = [TR.random_config(rng, i) for i in range(n_cfg)]
    events = []
    reals = {}
    diag_worst = dict(dist=0.0, rel=0.0)
    for c in cfgs:
        real = N.Realisation(c, N.nu_of_level_decode, N.DECODE_T, rng)
        ev = dict(cfg=c)
        for lang, key in (("C", "c"), ("Py", "py")):
            o = real.run(lang)
            rec, diag = TR.project_run(real, o)
            ev[key] = rec
            for v in diag.values():
                if isinstance(v, tuple) and np.isfinite(v[0]):
                    diag_worst["dist"] = max(diag_worst["dist"], v[0])
                    diag_worst["rel"] = max(diag_worst["rel"], v[1])
            ctx.traces += 1
        events.append(ev)
        reals[c["id"]] = c
        ctx.count(("decode", c["id"]))
    ctx.extra["decode_worst_rounding_distance"] = diag_worst["dist"]
    ctx.extra["decode_worst_relative_residual"] = diag_worst["rel"]
    if diag_worst["dist"] > 1e-6 * 1e-3 * 1e3 and False:
        pass
    ctx.sample(dict(event=events[0]))

    invs = [i + l for i in IMPL_INVS for l in ("C", "Py")] + ["ImplSameBothLanguages", "ConformsC", "ConformsPy"]
    variant = None
    first = None
    chunks = [events[i:i + 1300] for i in range(0, len(events), 1300)]
    req_by_id = {}
    impl_violated = set()
    witnesses = {}
    for vi, var in enumerate(VARIANT_ORDER):
        ok = True
        for ci, chunk in enumerate(chunks):
            body = ("MCVariant == %s\nMCEvents == LET J == JsonDeserialize(\"events.json\") IN {J[i] : i \\in DOMAIN J}\n"
                    "MCMExp == %s\nMCNL == %d\n" % (to_tla(var), to_tla({k: v for k, v in N.MEXP.items()}), N.NLEV))
            name = "MC_ThermalTrace"
            mod = once_module(name, "ThermalTrace, Json", body, invs, judge=JUDGE_TRACE)
            res = ctx.tlc(name, cfg_text=trace_cfg(["O_" + i for i in invs]),
                          extra_files={name + ".tla": mod, "events.json": json.dumps(chunk)},
                          requirement=False, extra_args=("-continue",), keep=True, dump=(vi == 0), workers=WORKERS)
            names = violated_names(res)
            if vi == 0:
                for n in names:
                    if n.startswith("Impl"):
                        impl_violated.add(n)
                        if n not in witnesses:
                            st = witness_of(res, n)
                            if st:
                                e = st.get("ev", {})
                                witnesses[n] = dict(cfg=e.get("cfg"), c=e.get("c"), py=e.get("py"))
                for st in TR.done_states(res.dump_path):
                    req_by_id[st["cfg"]["id"]] = st["req"]
            tlcmod.cleanup(res)
            if any(n.startswith("Conforms") for n in names):
                ok = False
                if vi == 0:
                    first = [n for n in names if n.startswith("Conforms")]
                if vi > 0:
                    break
        if ok:
            variant = var
            break
    # the binding demonstrated: a decoded run with one coefficient changed must be rejected by TLC
    import copy
    donor = next((e for e in events if e["c"].get("status") == "ok" and e["c"]["pos"]["present"]
                  and not e["cfg"]["classical"] and sum(e["c"]["pos"]["Cv"]["coef"]) > 0), None)
    if donor is not None:
        bad_ev = copy.deepcopy(donor)
        L = next(i for i, v in enumerate(bad_ev["c"]["pos"]["Cv"]["coef"]) if v > 0)
        bad_ev["c"]["pos"]["Cv"]["coef"][L] -= 1          # "a dropped weight"
        body = ("MCVariant == %s\nMCEvents == LET J == JsonDeserialize(\"events.json\") IN {J[i] : i \\in DOMAIN J}\n"
                "MCMExp == %s\nMCNL == %d\n" % (to_tla(variant or VARIANT_ORDER[0]), to_tla({k: v for k, v in N.MEXP.items()}), N.NLEV))
        name = "MC_ThermalTrace"
        mod = once_module(name, "ThermalTrace, Json", body, ["ImplTermsC", "ConformsC"], judge=JUDGE_TRACE)
        res = ctx.tlc(name, cfg_text=trace_cfg(["O_ImplTermsC", "O_ConformsC"]),
                      extra_files={name + ".tla": mod, "events.json": json.dumps([bad_ev])},
                      requirement=False, extra_args=("-continue",), workers=1)
        rejected = violated_names(res)
        ctx.extra["corrupted_trace_rejected_by"] = rejected
        if "ImplTermsC" not in rejected or "ConformsC" not in rejected:  # both: every invariant is judged separately
            raise tlcmod.MachineryError("ThermalTrace accepted a corrupted trace (C_V coefficient changed): %s" % rejected)
    ctx.extra["trace_events"] = len(events)
    ctx.extra["identified_variant"] = variant
    ctx.extra["impl_invariants_violated"] = sorted(impl_violated)
    for n in sorted(impl_violated):
        ctx.violation("thermal:" + n,
                      "C10 requirement %s fails on the decoded real run%s" % (n, (" - " + CLASS_OF[n]) if n in CLASS_OF else ""),
                      dict(invariant=n, witness=witnesses.get(n),
                           realisation="level L -> %g * 2^%s THz; positive temperature block %s K" % (N.DELTA_THZ, N.MEXP, [round(t, 3) for t in N.DECODE_T])))
    if variant is None:
        ctx.extra["SPEC-DRIFT"] = "no modelled variant of Thermal.tla conforms to the real code: %s" % first
        print("SPEC-DRIFT C10: no modelled variant conforms (%s); requirement judged on logged values only" % first)
    return cfgs, req_by_id, variant


def self_check_prims(ctx):
    """The harness' closed forms (numpy expm1/log1p) against the documented formulas in 50-digit arithmetic."""
    rng = np.random.default_rng(ctx.seed + 5)
    worst = 0.0
    n = 60 if ctx.quick else 600
    for i in range(n):
        x = float(10 ** rng.uniform(-11, 4.2))
        T = float(10 ** rng.uniform(-2, 4))
        nu = x * N.KB * T / N.THZ_TO_EV
        for kind in ("Fth", "S", "Cv", "Fcl", "Scl", "ZPE"):
            a = float(N.prim(kind, nu, T))
            b = N.prim_decimal(kind, nu, T)
            scale = max(abs(b), TR.natural_scale(kind, T) * 1e-3, 1e-300)
            worst = max(worst, abs(a - b) / scale)
    ctx.extra["closed_forms_vs_decimal50_worst_rel"] = worst
    if worst > 1e-12:
        raise tlcmod.MachineryError("harness closed forms disagree with 50-digit evaluation: %g" % worst)


def phase_replay(ctx, cfgs, req_by_id):
    """spec -> code: interpret ReqRecord (computed by TLC) on random realisations, compare with both code paths."""
    rng = np.random.default_rng(ctx.seed + 17)
    stats = TR.ReplayStats()
    bad = {}
    n_run = 0
    for c in cfgs:
        req = req_by_id.get(c["id"])
        if req is None:
            raise tlcmod.MachineryError("no ReqRecord for configuration %d in the TLC dump" % c["id"])
        rows = [dict(t=r["t"], div=r["div"], den=r["den"], F=TR.bag_list(r["F"]), S=TR.bag_list(r["S"]), Cv=TR.bag_list(r["Cv"]))
                for r in req["rows"]]
        prows = None
        if req["proj"]["status"] == "ok":
            prows = [dict(t=r["t"], div=r["div"], den=r["den"], F=TR.bag_list(r["F"]), S=TR.bag_list(r["S"]),
                          Cv=TR.bag_list(r["Cv"])) for r in req["proj"]["rows"]]
        # random monotone realisation of the levels; every third one reaches the extreme classes
        mode = c["id"] % 3
        lo, hi = (-3.0, 1.7) if mode else (-9.0, 1.7)
        mags = np.sort(10 ** rng.uniform(lo, hi, size=N.NLEV))
        while np.min(np.diff(np.log10(mags))) < 1e-3:
            mags = np.sort(10 ** rng.uniform(lo, hi, size=N.NLEV))

        def nu_of_level(L, mags=mags):
            return 0.0 if L == 0 else float(np.sign(L) * mags[abs(L) - 1])

        pos = sorted(10 ** rng.uniform(-1.5, 4.0, size=4))
        if mode != 1:
            pos = [0.05] + pos + [1.0e4]
        if c["id"] % 4 == 1:
            pos = pos[::-1]                      # descending
        elif c["id"] % 4 == 2:
            pos = pos[2:] + pos[:3] + pos[1:2]   # out of order with repeated temperatures
        real = N.Realisation(c, nu_of_level, pos, rng)
        for lang in ("C", "Py"):
            o = real.run(lang)
            n_run += 1
            ctx.traces += 1
            mism = []
            if o["status"] != "ok":
                mism.append(dict(kind="exception", err=o.get("err")))
            else:
                comp_shape = np.asarray(o["F"]).ndim == 2
                for Q in ("F", "S", "Cv"):
                    if comp_shape:        # components in place of totals: compared component-wise with the projection
                        if prows is None:
                            mism.append(dict(kind="shape", Q=Q))
                            continue
                        for k in range(np.asarray(o[Q]).shape[1]):
                            mism += TR.compare_series(prows, real, o["T"], np.asarray(o[Q])[:, k], Q, c["ed"], stats, k=k + 1)
                    else:
                        mism += TR.compare_series(rows, real, o["T"], o[Q], Q, 1, stats)
                if o["proj"] is not None and prows is not None:
                    nbc = len(c["lev"][0])
                    for Q in ("F", "S", "Cv"):
                        arrQ = np.asarray(o["proj"][Q], dtype=float).reshape(-1, nbc)
                        for k in range(nbc):
                            mism += TR.compare_series(prows, real, o["proj"]["T"], arrQ[:, k], Q,
                                                      c["ed"], stats, k=k + 1)
                # zero_point_energy attribute and mode counts
                zexp = sum(t["c"] * N.THZ_TO_EV * real.nu_of_level(t["lev"]) / 2 for t in TR.bag_list(req["zpe"]))
                zexp *= N.UNIT["F"] / sum(c["w"])
                if abs(o["zpe"] - zexp) > 1e-12 * max(abs(zexp), 1e-300) + 1e-300:
                    mism.append(dict(kind="zpe_attribute", got=o["zpe"], expected=zexp))
                if o["nmodes"] != req["nmodes"] or o["nint"] != req["nint"]:
                    mism.append(dict(kind="counts", got=[o["nmodes"], o["nint"]], expected=[req["nmodes"], req["nint"]]))
            for m in mism:
                key = "replay:%s:%s%s" % (m["kind"], m.get("Q", ""), lang)
                if key not in bad:
                    bad[key] = dict(lang=lang, mismatch=m, cfg=c, frequencies_THz=real.freqs.tolist(), weights=real.weights,
                                    temperatures=[float(t) for t in real.T], cutoff_frequency=real.cutoff,
                                    band_indices=real.band_indices, n_more=0)
                else:
                    bad[key]["n_more"] += 1
        ctx.count(("replay", c["id"]))
    ctx.extra["replay_runs"] = n_run
    ctx.extra["replay_comparisons"] = stats.n
    ctx.extra["replay_worst_error_over_tolerance"] = stats.max_margin
    for key, d in sorted(bad.items()):
        what = {"nonfinite": "reported value is NaN/inf where the harmonic closed form is finite",
                "value": "reported value differs from the weighted sum of harmonic closed forms",
                "exception": "the real code raised", "zpe_attribute": "zero_point_energy attribute differs",
                "counts": "mode counts differ", "shape": "shape of thermal_properties differs",
                "temperatures": "temperature list differs"}[d["mismatch"]["kind"]]
        ctx.violation(key, "C10 replay (%s): %s" % (d["lang"], what), d)
    # self-check of the machinery: margins of matching comparisons
    worst = max(stats.max_margin.values(), default=0.0)
    ctx.extra["replay_margin_ok"] = bool(worst <= 1.0)


def phase_model(ctx, variant):
    """Exhaustive model check of Thermal.tla for the identified variant of the code."""
    # without a conforming variant the requirement is judged on the logged values only (phase_trace); the model run
    # then only confirms that the fully repaired machine meets the requirement
    var = variant or ALL_REPAIRED
    invs = ["InvNoError", "InvTermsC", "InvTermsPy", "InvSameTermsBothLanguages", "InvPyReportsTotals",
            "InvOnlyAboveCutoff", "InvZeroT", "InvTemperatures", "InvCounts", "InvZeroPointAttribute",
            "InvProjection", "InvCountMatchesTerms", "InvEveryQPointCovered"]
    cuts2 = "{[g |-> FALSE, c |-> 0], [g |-> TRUE, c |-> 1]}"
    cuts3 = "{[g |-> FALSE, c |-> 0], [g |-> TRUE, c |-> -1], [g |-> TRUE, c |-> 1]}"
    cuts4 = "{[g |-> FALSE, c |-> 0], [g |-> TRUE, c |-> -1], [g |-> TRUE, c |-> 1], [g |-> TRUE, c |-> 2]}"
    bis2 = "{[g |-> FALSE, s |-> <<>>], [g |-> TRUE, s |-> <<2>>], [g |-> TRUE, s |-> <<2, 1>>], [g |-> TRUE, s |-> <<2, 1, 2>>]}"
    bis2all = "{[g |-> FALSE, s |-> <<>>], [g |-> TRUE, s |-> <<1>>], [g |-> TRUE, s |-> <<2>>], [g |-> TRUE, s |-> <<2, 1>>]}"
    bis3 = ("{[g |-> FALSE, s |-> <<>>], [g |-> TRUE, s |-> <<1>>], [g |-> TRUE, s |-> <<3>>], [g |-> TRUE, s |-> <<1, 3>>],"
            " [g |-> TRUE, s |-> <<3, 1, 2>>], [g |-> TRUE, s |-> <<2, 2>>], [g |-> TRUE, s |-> <<1, 3, 1>>]}")
    tiny = ("AllSeeds(1, 2, {-1, 0, 1, 2}, {2}, TRUE)", "AllOptions(%s, %s, {<<-1, 0, 1>>}, BOOLEAN, {\"int64\", \"intc\"})" % (cuts3, bis2))
    if ctx.quick:
        bisq = "{[g |-> FALSE, s |-> <<>>], [g |-> TRUE, s |-> <<2>>]}"
        spaces = [tiny, ("AllSeeds(2, 2, {-1, 0, 1, 2}, {1, 2}, TRUE)",
                         "AllOptions(%s, %s, {<<-1, 0, 1>>}, BOOLEAN, {\"int64\", \"strided\"})" % (cuts2, bisq))]
    else:
        spaces = [tiny, ("AllSeeds(2, 2, {-1, 0, 1, 2}, {1, 2}, FALSE)",
                   "AllOptions(%s, %s, {<<-1, 0, 1>>, <<1, 0>>}, BOOLEAN, {\"int64\", \"intc\"})" % (cuts4, bis2all)),
                  ("AllSeeds(2, 3, {-1, 0, 1, 2}, {1, 3}, TRUE)",
                   "AllOptions(%s, %s, {<<0, -1, 1>>}, BOOLEAN, {\"int64\", \"uint64\", \"strided\"})" % (cuts4, bis3))]
    violated = set()
    wit = {}
    cov = {}
    for i, (seeds, options) in enumerate(spaces):
        body = "MCSeeds == %s\nMCOptions == %s\nMCVariant == %s\n" % (seeds, options, to_tla(var))
        name = "MC_Thermal"
        mod = once_module(name, "Thermal", body, invs)
        cfg = ("INIT Init\nNEXT Next\nCONSTANTS\n Configs = {}\n Seeds <- MCSeeds\n Options <- MCOptions\n Variant <- MCVariant\n"
               "CHECK_DEADLOCK FALSE\nINVARIANT TypeOK\n" + "".join("INVARIANT O_%s\n" % v for v in invs))
        res = ctx.tlc(name, cfg_text=cfg, extra_files={name + ".tla": mod}, requirement=False,
                      extra_args=("-continue",), workers=WORKERS, coverage=(i == 0), keep=True)
        for n in violated_names(res):
            violated.add(n)
            if n not in wit:
                st = witness_of(res, n)
                if st:
                    wit[n] = dict(cfg=st.get("cfg"), outC=st.get("outC"), outPy=st.get("outPy"), proj=st.get("proj"),
                                  zpe=st.get("zpe"))
        if res.coverage:
            cov = {k: v[1] for k, v in res.coverage.items()}
        tlcmod.cleanup(res)
    ctx.extra["model_variant"] = var
    ctx.extra["model_invariants_violated"] = sorted(violated)
    if cov:
        acts = ["Pick", "SetCutoff", "SelectBands", "PretendReal", "CountModes", "ZeroPoint", "SetTemperatures", "KernelC",
                "AssembleC", "RunPy", "Project"]
        ctx.extra["thermal_actions_fired"] = {a: cov.get(a, 0) for a in acts}
        missing = [a for a in acts if cov.get(a, 0) == 0]
        if missing:
            raise tlcmod.MachineryError("Thermal.tla actions never fired: %s" % missing)
    for n in sorted(violated):
        ctx.violation("tlc:Thermal:" + n,
                      "TLC: %s violated in Thermal.tla for the variant of the code identified by trace validation %s" % (n, var),
                      dict(invariant=n, variant=var, witness=wit.get(n)))
    ctx.exhaustive = True


# ------------------------------------------------------------------------------
def ieee_classes(ctx, rng):
    bins = [dict(kind="bin", a=a, n=0) for a in list(range(-40, 0)) + list(range(11, 23))]
    ns = set(range(1, 41)) | set(range(340, 372)) | set(range(690, 760)) | set(range(1400, 1440)) | {2046, 2047}
    if ctx.quick:
        ns |= set(int(x) for x in rng.integers(1, 2048, size=160))
    else:
        ns = set(range(1, 2048))
    return bins + [dict(kind="int", a=0, n=n) for n in sorted(ns)]


def ieee_obs(v):
    import math
    v = float(v)
    if math.isnan(v):
        return dict(c="nan", s=0, e=0)
    if math.isinf(v):
        return dict(c="inf", s=1 if v > 0 else -1, e=0)
    if v == 0.0:
        return dict(c="zero", s=0, e=0)
    m, e = math.frexp(abs(v))
    return dict(c="fin", s=1 if v > 0 else -1, e=int(e))


def phase_ieee(ctx):
    """ThermalIEEE: sample the real kernels per x-class (trace), identify the coded variant, model-check finiteness."""
    import phonopy._phonopy as phonoc
    from phonopy.phonon import thermal_properties as tpm

    rng = np.random.default_rng(ctx.seed + 31)
    classes = ieee_classes(ctx, rng)
    ratio = N.KB / N.THZ_TO_EV          # nu [THz] = x * T * ratio
    events = []
    first_bad = {}
    for xc in classes:
        for rep in range(1 if ctx.quick else 2):
            u = rng.uniform(0.05, 0.95)
            x = (2.0 ** xc["a"]) * (1 + u) if xc["kind"] == "bin" else xc["n"] + u
            tlo = max(1e-3, 1e-10 / (x * ratio))
            thi = min(1e4, 300.0 / (x * ratio))
            T = float(10 ** rng.uniform(np.log10(tlo), np.log10(thi)))
            f = x * N.KB * T                                  # eV
            with np.errstate(all="ignore"):
                props = np.zeros((1, 3), dtype="double", order="C")
                phonoc.thermal_properties(props, np.array([T], dtype="double"), np.array([[f]], dtype="double"),
                                          np.array([1], dtype="int64"), 0.0, 0)
                fa = np.array([f], dtype="double")
                py = [tpm.mode_F(T, fa)[0], tpm.mode_S(T, fa)[0], tpm.mode_cv(T, fa)[0]]
            for lang, vals in (("C", props[0]), ("Py", py)):
                for kern, v in zip(("F", "S", "Cv"), vals):
                    o = ieee_obs(v)
                    events.append(dict(xc=xc, lang=lang, kern=kern, obs=o, x=None))
                    ctx.count(("ieee", xc["kind"], xc["a"], xc["n"], lang, kern))
                    bad = o["c"] in ("nan", "inf") or (kern in ("S", "Cv") and o["s"] < 0)
                    if bad and (lang, kern, o["c"]) not in first_bad:
                        first_bad[(lang, kern, o["c"])] = dict(lang=lang, kernel=kern, x=x, T_K=T, f_eV=f,
                                                               nu_THz=f / N.THZ_TO_EV, value=repr(float(v)))
            ctx.traces += 1
    for e in events:
        del e["x"]
    invs = ["ConformsPinnedC", "ConformsPinnedPy", "ConformsStableC", "ConformsStablePy", "ImplFiniteC", "ImplFinitePy",
            "ImplNonNegative", "ImplThermalFreeEnergyNonPositive"]
    body = ("MCEvents == LET J == JsonDeserialize(\"events.json\") IN {J[i] : i \\in DOMAIN J}\n"
            "MCVariants == {\"pinned\", \"stable\"}\nMCVariantOf == [C |-> \"pinned\", Py |-> \"pinned\"]\n")
    name = "MC_ThermalIEEETrace"
    mod = once_module(name, "ThermalIEEETrace, Json", body, invs, judge=JUDGE_TRACE)
    cfg = ("INIT MCInit_\nNEXT MCNext_\nCONSTANTS\n XClasses = {}\n Langs = {}\n VariantOf <- MCVariantOf\n Events <- MCEvents\n"
           " Variants <- MCVariants\nCHECK_DEADLOCK FALSE\n" + "".join("INVARIANT O_%s\n" % v for v in invs))
    res = ctx.tlc(name, cfg_text=cfg, extra_files={name + ".tla": mod, "events.json": json.dumps(events)},
                  requirement=False, extra_args=("-continue",), workers=4)
    names = violated_names(res)
    ctx.extra["ieee_events"] = len(events)
    ctx.extra["ieee_trace_violated"] = names
    variant_of = {}
    for lang in ("C", "Py"):
        okv = [v for v in ("pinned", "stable") if ("Conforms%s%s" % (v.capitalize(), lang)) not in names]
        variant_of[lang] = okv[0] if okv else None
    ctx.extra["ieee_identified_variant"] = variant_of
    for n in names:
        if n.startswith("Impl"):
            wit = [d for (lg, k, c), d in first_bad.items()
                   if (n.endswith("C") and lg == "C" and c in ("nan", "inf")) or (n.endswith("Py") and lg == "Py" and c in ("nan", "inf"))
                   or (n == "ImplNonNegative" and c == "fin")]
            ctx.violation("ieee:" + n, "C10 kernel requirement %s fails on values computed by the real code" % n,
                          dict(invariant=n, witnesses=wit[:4]))
    if None in variant_of.values():
        ctx.extra["SPEC-DRIFT-IEEE"] = "no modelled expression tree conforms for %s" % [k for k, v in variant_of.items() if v is None]
        print("SPEC-DRIFT C10: ThermalIEEE trees do not conform for %s; finiteness judged on sampled values only"
              % [k for k, v in variant_of.items() if v is None])
    # the model: every class, the identified trees
    # unidentified path: its finiteness is judged on the sampled values only; the model then checks the stable trees
    vo = {k: (v or "stable") for k, v in variant_of.items()}
    minvs = ["InvFinite", "InvEvaluates", "InvThermalFreeEnergyNonPositive", "InvNonNegativeStable"]
    body = "MCX == AllClasses\nMCVariantOf == %s\n" % to_tla(vo)
    name = "MC_ThermalIEEE"
    mod = once_module(name, "ThermalIEEE", body, minvs)
    cfg = ("INIT Init\nNEXT Next\nCONSTANTS\n XClasses <- MCX\n Langs = {\"C\", \"Py\"}\n VariantOf <- MCVariantOf\n"
           "CHECK_DEADLOCK FALSE\n" + "".join("INVARIANT O_%s\n" % v for v in minvs))
    res = ctx.tlc(name, cfg_text=cfg, extra_files={name + ".tla": mod}, requirement=False, extra_args=("-continue",),
                  workers=4, coverage=True, keep=True)
    mv = violated_names(res)
    fired = {k: v[1] for k, v in res.coverage.items() if k in ("EvalF", "EvalS", "EvalCv")}
    ctx.extra["ieee_actions_fired"] = fired
    if len(fired) < 3 or min(fired.values()) == 0:
        tlcmod.cleanup(res)
        raise tlcmod.MachineryError("ThermalIEEE actions never fired: %s" % fired)
    ctx.extra["ieee_model_violated"] = mv
    for n in mv:
        st = witness_of(res, n)
        ctx.violation("tlc:ThermalIEEE:" + n,
                      "TLC: %s violated in ThermalIEEE.tla for the coded expression trees %s" % (n, vo),
                      dict(invariant=n, trees=vo, witness=st, real_witnesses=list(first_bad.values())[:4]))
    tlcmod.cleanup(res)


# ------------------------------------------------------------------------------
TOL_ID = dict(normal=1000, small=100000, tiny=10000000)        # mirrors ThermalIdentities.tla (witness selection only)
TOL_DROP = dict(normal=100, small=100000, tiny=100000000)
IDENT_T = [0.05, 0.3, 1.0, 3.0, 10.0, 30.0, 100.0, 300.0, 1000.0, 3000.0, 1.0e4]


def _cap(v):
    if not np.isfinite(v):
        return 2 ** 30
    return int(min(abs(v), 2 ** 30))


def phase_identities(ctx):
    rng = np.random.default_rng(ctx.seed + 53)
    n_runs = 10 if ctx.quick else 80
    eta = 1.0e-3
    events = []
    first = {}
    for rid in range(n_runs):
        nq, nb = int(rng.integers(1, 4)), int(rng.integers(1, 7))
        kind = rid % 4
        if kind == 0:      # THz-range spectrum
            fr = 10 ** rng.uniform(-0.5, 1.6, size=(nq, nb))
        elif kind == 1:    # with very soft modes (tiny x at high T)
            fr = 10 ** rng.uniform(-9.0, 1.0, size=(nq, nb))
        elif kind == 2:    # soft modes only: classical limit reached
            fr = 10 ** rng.uniform(-6.0, -2.5, size=(nq, nb))
        else:              # with imaginary and zero modes (excluded)
            fr = 10 ** rng.uniform(-2.0, 1.3, size=(nq, nb))
            fr[0, 0] = -1.5
            if nb > 1:
                fr[0, 1] = 0.0
        w = rng.integers(1, 5, size=nq)
        classical = bool(rid % 5 == 4)
        mesh = N.make_mesh(fr, w)
        temps = []
        for T in IDENT_T:
            h = 2 * eta * T
            temps += [T - h, T - h / 2, T, T + h / 2, T + h]
        ncontrib = float(np.sum(w[:, None] * (fr > 0)))
        wsum = float(np.sum(w))
        for lang in ("C", "Py"):
            o = N.run_real(mesh, temps, lang, classical=classical)
            ctx.traces += 1
            if o["status"] != "ok":
                ctx.violation("identities:exception", "the real code raised", dict(err=o.get("err"), frequencies=fr.tolist()))
                continue
            rows = []
            scaleS = ncontrib * N.KB * N.UNIT["S"] / wsum
            prev = None
            for j, T in enumerate(IDENT_T):
                sl = slice(5 * j, 5 * j + 5)
                F, S, Cv = o["F"][sl], o["S"][sl], o["Cv"][sl]
                h = 2 * eta * T
                xs = [N.x_of(v, T) for v in fr[fr > 0]]
                cls = sorted(set(N.x_class(x) for x in xs))
                tolc = "tiny" if "tiny" in cls else ("small" if "small" in cls else "normal")
                fin = bool(np.all(np.isfinite(F)) and np.all(np.isfinite(S)) and np.all(np.isfinite(Cv)))
                row = dict(cls=cls, tol=tolc, fin=fin, sS=0, sCv=0, dropS=0, dropCv=0, devS=-1, devCv=-1, devDP=-1)
                if fin and ncontrib > 0:
                    row["sS"] = int(np.sign(S[2]))
                    row["sCv"] = int(np.sign(Cv[2]))
                    # Richardson-extrapolated central differences of the reported values (F in kJ/mol, S in J/K/mol)
                    dF = (4 * (F[3] - F[1]) / h - (F[4] - F[0]) / (2 * h)) / 3 * 1000.0
                    dS = (4 * (S[3] - S[1]) / h - (S[4] - S[0]) / (2 * h)) / 3
                    row["devS"] = _cap((S[2] + dF) / scaleS / 1e-9)
                    row["devCv"] = _cap((Cv[2] - T * dS) / scaleS / 1e-9)
                    if prev is not None:
                        row["dropS"] = _cap(max(0.0, prev[0] - S[2]) / scaleS / 1e-12)
                        row["dropCv"] = _cap(max(0.0, prev[1] - Cv[2]) / scaleS / 1e-12)
                    if classical or (xs and max(xs) <= 0.01):
                        row["devDP"] = _cap((Cv[2] / scaleS - 1.0) / 1e-9)
                    prev = (S[2], Cv[2])
                else:
                    prev = None
                rows.append(row)
                ctx.count(("identity", rid, lang, j))
                for key, cond in (("fin", not fin), ("negS", row["sS"] < 0 and not classical), ("negCv", row["sCv"] < 0),
                                  ("devS", row["devS"] > TOL_ID[tolc]), ("devCv", row["devCv"] > TOL_ID[tolc]),
                                  ("drop", max(row["dropS"], row["dropCv"]) > TOL_DROP[tolc]),
                                  ("dp", row["devDP"] > 10000)):
                    if cond and key not in first:
                        first[key] = dict(lang=lang, classical=classical, T_K=T, frequencies_THz=fr.tolist(), weights=w.tolist(),
                                          reported=dict(F=F.tolist(), S=S.tolist(), Cv=Cv.tolist()), row=row)
            events.append(dict(id=rid, lang=lang, classical=classical, rows=rows))
    invs = ["ImplFinite", "ImplEntropyNonNegative", "ImplHeatCapacityNonNegative", "ImplEntropyNonDecreasing",
            "ImplHeatCapacityNonDecreasing", "ImplEntropyIsMinusDFDT", "ImplHeatCapacityIsTDSDT", "ImplDulongPetit"]
    body = ("MCEvents == LET J == JsonDeserialize(\"events.json\") IN {J[i] : i \\in DOMAIN J}\n"
            "MCNeed == {\"tiny\", \"small\", \"normal\", \"big\", \"huge\"}\n")
    name = "MC_ThermalIdentities"
    mod = once_module(name, "ThermalIdentities, Json", body, invs, judge=dict(init="Init", next="Next", vars="vars", cond="TRUE"))
    cfg = ("INIT MCInit_\nNEXT MCNext_\nCONSTANTS\n Events <- MCEvents\n NeedClasses <- MCNeed\nCHECK_DEADLOCK FALSE\n"
           + "".join("INVARIANT O_%s\n" % v for v in invs))
    res = ctx.tlc(name, cfg_text=cfg, extra_files={name + ".tla": mod, "events.json": json.dumps(events)},
                  requirement=False, extra_args=("-continue",), workers=2)
    if res.kind == "assumption":
        raise tlcmod.MachineryError("ThermalIdentities: vacuity assumption failed: %s" % res.violated)
    names = violated_names(res)
    ctx.extra["identity_runs"] = len(events)
    ctx.extra["identity_violated"] = names
    wmap = {"ImplFinite": "fin", "ImplEntropyNonNegative": "negS", "ImplHeatCapacityNonNegative": "negCv",
            "ImplEntropyNonDecreasing": "drop", "ImplHeatCapacityNonDecreasing": "drop", "ImplEntropyIsMinusDFDT": "devS",
            "ImplHeatCapacityIsTDSDT": "devCv", "ImplDulongPetit": "dp"}
    for n in names:
        ctx.violation("identities:" + n, "C10 thermodynamic consistency: %s fails on the numbers reported by the real code" % n,
                      dict(invariant=n, witness=first.get(wmap.get(n))))


# ------------------------------------------------------------------------------
def phase_api(ctx):
    """Phonopy.run_thermal_properties on a real crystal (exact spring model of the catalogue): the options reach
    ThermalProperties unchanged; TLC computes ReqRecord from the rank-levels of the real mesh frequencies."""
    import types

    from phonopy import Phonopy

    from harness.oracle import Oracle

    S = [[2, 0, 0], [0, 2, 0], [0, 0, 2]]
    orc = Oracle("nacl", [S], seed=ctx.seed, ctx=ctx)
    events = []
    runs = {}
    cid = 100000
    for sign, meshno in ((1.0, [3, 3, 3]), (-0.25, [2, 2, 2])):
        ph = Phonopy(orc.unitcell(), supercell_matrix=S, log_level=0)
        ph.force_constants = sign * orc.supercell_fc(S, ph.supercell)
        ph.run_mesh(meshno, is_gamma_center=True)
        fr = np.array(ph.mesh.frequencies, dtype=float)
        w = [int(x) for x in ph.mesh.weights]
        mags = sorted(set(abs(float(v)) for v in fr.ravel() if v != 0.0))
        rank = {m: i + 1 for i, m in enumerate(mags)}
        lev = [[0 if v == 0.0 else int(np.sign(v)) * rank[abs(float(v))] for v in row] for row in fr]

        def nu_of_level(L, mags=mags):
            return 0.0 if L == 0 else float(np.sign(L) * mags[abs(L) - 1])

        tie = float(sorted(v for v in np.abs(fr.ravel()) if v > 0.5)[7]) if np.any(np.abs(fr) > 0.5) else mags[len(mags) // 2]
        default_T = [float(t) for t in np.arange(0, 1000 + 5, 10)]
        cases = [
            dict(kw=dict(), T=default_T),
            dict(kw=dict(temperatures=[-10.0, 0.0, 0.05, 2.0, 300.0, 1.0e4]), T=[-10.0, 0.0, 0.05, 2.0, 300.0, 1.0e4]),
            dict(kw=dict(t_min=0, t_max=1000, t_step=100, cutoff_frequency=tie), T=[float(t) for t in range(0, 1001, 100)]),
            dict(kw=dict(temperatures=[0.0, 150.0], pretend_real=True), T=[0.0, 150.0]),
            dict(kw=dict(temperatures=[0.0, 40.0, 900.0], band_indices=[[0, 1], [5]], cutoff_frequency=-1.0), T=[0.0, 40.0, 900.0]),
            dict(kw=dict(temperatures=[0.0, 7.0, 700.0], classical=True, pretend_real=True, cutoff_frequency=tie), T=[0.0, 7.0, 700.0]),
        ]
        ph_units = None
        if sign > 0:
            # the same crystal in Rydberg atomic units with that calculator's frequency factor: the frequencies are THz
            # again, so a cutoff given in THz must cut the same modes and every number must be the same
            from phonopy.interface.calculator import get_default_physical_units
            from phonopy.structure.atoms import PhonopyAtoms
            from phonopy.units import Bohr, Rydberg

            uc = orc.unitcell()
            uc2 = PhonopyAtoms(symbols=uc.symbols, cell=np.array(uc.cell) / Bohr, scaled_positions=uc.scaled_positions, masses=uc.masses)
            ph_units = Phonopy(uc2, supercell_matrix=S, factor=get_default_physical_units("qe")["factor"], log_level=0)
            ph_units.force_constants = orc.supercell_fc(S, ph.supercell) * (Bohr ** 2 / Rydberg)
            ph_units.run_mesh(meshno, is_gamma_center=True)
            fr2 = np.array(ph_units.mesh.frequencies, dtype=float)
            big = np.abs(fr) > 1e-3
            ctx.extra["api_units_frequency_rel_diff"] = float(np.max(np.abs(fr2[big] - fr[big]) / np.abs(fr[big])))
            gaps = [(mags[i + 1] - mags[i], i) for i in range(len(mags) - 1) if mags[i] > 0.5]
            gi = max(gaps)[1]
            mid = 0.5 * (mags[gi] + mags[gi + 1])
            cases.append(dict(kw=dict(temperatures=[0.0, 30.0, 800.0], cutoff_frequency=mid), T=[0.0, 30.0, 800.0], units=True, cut_level=gi + 1))
            # (the acoustic modes at Gamma are rounding noise of either sign in either build: kept below a small cutoff)
            cases.append(dict(kw=dict(t_min=0, t_max=300, t_step=150, cutoff_frequency=0.01), T=[0.0, 150.0, 300.0], units=True,
                              cut_level=sum(1 for m in mags if m < 0.01)))
        for case in cases:
            kw = case["kw"]
            target = ph_units if case.get("units") else ph
            cid += 1
            T = case["T"]
            temps, tlevel = [], []
            for t in T:                       # abstract list: runs of negative / zero / positive temperatures
                c = -1 if t < 0 else (0 if t == 0 else 1)
                if not temps or temps[-1] != c:
                    temps.append(c)
                tlevel.append(len(temps))
            cut = kw.get("cutoff_frequency")
            cfg = dict(id=cid, lev=lev, w=w, cutGiven=cut is not None,
                       cut=(0 if cut is None else (-1 if cut < 0 else (case["cut_level"] if "cut_level" in case else rank[cut]))), pr=bool(kw.get("pretend_real", False)),
                       biGiven="band_indices" in kw, bi=[int(b) + 1 for b in np.hstack(kw["band_indices"])] if "band_indices" in kw else [],
                       classical=bool(kw.get("classical", False)), proj=False, temps=temps, ed=1, e2=[], wl="int64", fl="c", el="c")
            real = types.SimpleNamespace(cfg=cfg, T=T, tlevel=tlevel, nu_of_level=nu_of_level)
            try:
                with np.errstate(all="ignore"):
                    target.run_thermal_properties(**kw)
                    d = target.get_thermal_properties_dict()
                    tp = target.thermal_properties
                    same = (list(d.keys()) == ["temperatures", "free_energy", "entropy", "heat_capacity"]
                            and all(np.array_equal(np.asarray(a), np.asarray(b)) for a, b in zip(d.values(), tp.thermal_properties)))
                    if not same:
                        raise AssertionError("get_thermal_properties_dict differs from ThermalProperties.thermal_properties")
                    o = dict(status="ok", T=np.array(d["temperatures"]), F=np.array(d["free_energy"]), S=np.array(d["entropy"]),
                             Cv=np.array(d["heat_capacity"]), zpe=float(tp.zero_point_energy), nmodes=int(tp.number_of_modes),
                             nint=int(tp.number_of_integrated_modes))
            except Exception as ex:  # noqa: BLE001
                o = dict(status="error", err="%s: %s" % (type(ex).__name__, ex))
            runs[cid] = (real, o, kw)
            events.append(dict(cfg=cfg, c=dict(status="skip"), py=dict(status="skip")))
            ctx.traces += 1
            ctx.count(("api", cid))
    body = ("MCVariant == %s\nMCEvents == LET J == JsonDeserialize(\"events.json\") IN {J[i] : i \\in DOMAIN J}\n"
            "MCMExp == %s\nMCNL == %d\n" % (to_tla(ALL_REPAIRED), to_tla({k: v for k, v in N.MEXP.items()}), N.NLEV))
    name = "MC_ThermalTrace"
    mod = once_module(name, "ThermalTrace, Json", body, ["MachineMeetsRequirement"], judge=JUDGE_TRACE)
    res = ctx.tlc(name, cfg_text=trace_cfg(["O_MachineMeetsRequirement"]),
                  extra_files={name + ".tla": mod, "events.json": json.dumps(events)},
                  requirement=True, keep=True, dump=True, workers=4,
                  what="Thermal.tla with every repair modelled does not meet its own requirement on the API-level meshes")
    reqs = {st["cfg"]["id"]: st["req"] for st in TR.done_states(res.dump_path)}
    tlcmod.cleanup(res)
    stats = TR.ReplayStats()
    bad = {}
    for cid, (real, o, kw) in runs.items():
        req = reqs.get(cid)
        if req is None:
            raise tlcmod.MachineryError("no ReqRecord for API case %d" % cid)
        rows = [dict(t=r["t"], div=r["div"], den=r["den"], F=TR.bag_list(r["F"]), S=TR.bag_list(r["S"]), Cv=TR.bag_list(r["Cv"]))
                for r in req["rows"]]
        mism = []
        if o["status"] != "ok":
            mism.append(dict(kind="exception", err=o.get("err")))
        else:
            for Q in ("F", "S", "Cv"):
                mism += TR.compare_series(rows, real, o["T"], o[Q], Q, 1, stats)
            zexp = sum(t["c"] * N.THZ_TO_EV * real.nu_of_level(t["lev"]) / 2 for t in TR.bag_list(req["zpe"]))
            zexp *= N.UNIT["F"] / sum(real.cfg["w"])
            if abs(o["zpe"] - zexp) > 1e-12 * max(abs(zexp), 1e-300) + 1e-300:
                mism.append(dict(kind="zpe_attribute", got=o["zpe"], expected=zexp))
            if o["nmodes"] != req["nmodes"] or o["nint"] != req["nint"]:
                mism.append(dict(kind="counts", got=[o["nmodes"], o["nint"]], expected=[req["nmodes"], req["nint"]]))
        for m in mism:
            key = "api:%s:%s" % (m["kind"], m.get("Q", ""))
            if key not in bad:
                bad[key] = dict(mismatch=m, run_thermal_properties_kwargs={k: (v if not isinstance(v, np.ndarray) else v.tolist()) for k, v in kw.items()},
                                crystal="catalogue entry nacl, supercell 2x2x2, force constants x %s" % ("1" if cid < 100007 else "-0.25"),
                                n_more=0)
            else:
                bad[key]["n_more"] += 1
    ctx.extra["api_cases"] = len(runs)
    ctx.extra["api_worst_error_over_tolerance"] = stats.max_margin
    for key, d in sorted(bad.items()):
        ctx.violation(key, "C10 Phonopy.run_thermal_properties: %s mismatch against the required harmonic sums" % d["mismatch"]["kind"], d)


# ------------------------------------------------------------------------------
ARGS_INVS = ["InvRangeIsTheGrid", "ImplRange", "ConformsRange", "InvProjectionRefusedOrCorrect",
             "ImplProjectionRefusedOrCorrect", "ConformsGuard", "ImplYamlParses", "ImplYamlNoNonFinite", "ImplYamlRows",
             "ImplYamlValues", "ImplYamlEnergy", "ImplYamlHeader", "ImplYamlNatom", "ImplYamlProjected"]
ARGS_VARIANTS = [dict(guardsProjection=g, rangeStopsAtMax=r) for g, r in ((True, False), (True, True), (False, False), (False, True))]
# Judged by TLC all the same, but OUTSIDE the statement of C10 (which is about the values of F, S, C_V for the temperatures
# and modes given): how (t_min, t_max, t_step) becomes a temperature list, and the natom line of the yaml header.  A failure
# of these is recorded in the evidence as an observed deviation, not reported as a violation.
OUTSIDE_C10 = {"InvRangeIsTheGrid": "set_temperature_range keeps a grid point in (t_max, t_max + t_step/2), e.g. (0, 26, 10) -> 30 K",
               "ImplRange": "set_temperature_range keeps a grid point in (t_max, t_max + t_step/2), e.g. (0, 26, 10) -> 30 K",
               "ImplYamlNatom": "thermal_properties.yaml prints natom = (number of selected bands) // 3 when band_indices is used"}


def phase_args(ctx):
    """ThermalArgs.tla: temperature grids, is_projection through the API (reduced mesh / no eigenvectors), write_yaml."""
    from harness import c10_args as A

    rng = np.random.default_rng(ctx.seed + 71)
    gev, gwit, ph = A.guard_events(ctx)
    rev = A.range_events(ctx, rng, api_ph=ph)
    yev, ywit = A.yaml_events(ctx, rng)
    keep_r = ("part", "id", "exact", "got", "args")
    keep_g = ("part", "isProj", "withEig", "mesh", "outcome")
    payload = dict(range=[{k: e[k] for k in keep_r} for e in rev], guard=[{k: e[k] for k in keep_g} for e in gev],
                   yaml=[{k: v for k, v in e.items() if k != "err"} for e in yev])
    # every action fires (coverage is per top-level action, so this run has no judge wrapper)
    body0 = ("MCJ == JsonDeserialize(\"events.json\")\nMCRange == LET J == MCJ.range IN {J[i] : i \\in DOMAIN J}\n"
             "MCGuard == LET J == MCJ.guard IN {J[i] : i \\in DOMAIN J}\nMCYaml == LET J == MCJ.yaml IN {J[i] : i \\in DOMAIN J}\n"
             "MCApiVariant == %s\n" % to_tla(ARGS_VARIANTS[0]))
    res0 = ctx.tlc("MC_ThermalArgs", cfg_text=("INIT Init\nNEXT Next\nCONSTANTS\n RangeArgs = {}\n RangeEvents <- MCRange\n GuardEvents <- MCGuard\n"
                                               " YamlEvents <- MCYaml\n ApiVariant <- MCApiVariant\nCHECK_DEADLOCK FALSE\n"),
                   extra_files={"MC_ThermalArgs.tla": "---- MODULE MC_ThermalArgs ----\nEXTENDS ThermalArgs, Json\n" + body0 + "====\n",
                                "events.json": json.dumps(payload)}, requirement=False, workers=2, coverage=True, keep=True)
    fired = {k: v[1] for k, v in res0.coverage.items() if k in ("ClampMin", "ClampMax", "ClampStep", "MakeGrid", "ApiRun", "YamlStep")}
    tlcmod.cleanup(res0)
    ctx.extra["args_actions_fired"] = fired
    if len(fired) < 6 or min(fired.values()) == 0:
        raise tlcmod.MachineryError("ThermalArgs actions never fired: %s" % fired)
    identified = None
    names_first = None
    for vi, var in enumerate(ARGS_VARIANTS):
        body = ("MCJ == JsonDeserialize(\"events.json\")\n"
                "MCRange == LET J == MCJ.range IN {J[i] : i \\in DOMAIN J}\n"
                "MCGuard == LET J == MCJ.guard IN {J[i] : i \\in DOMAIN J}\n"
                "MCYaml == LET J == MCJ.yaml IN {J[i] : i \\in DOMAIN J}\n"
                "MCArgs == ArgSpace\nMCApiVariant == %s\n" % to_tla(var))
        name = "MC_ThermalArgs"
        mod = once_module(name, "ThermalArgs, Json", body, ARGS_INVS, judge=dict(init="Init", next="Next", vars="vars", cond='pc = "done"'))
        cfg = ("INIT MCInit_\nNEXT MCNext_\nCONSTANTS\n RangeArgs <- MCArgs\n RangeEvents <- MCRange\n GuardEvents <- MCGuard\n"
               " YamlEvents <- MCYaml\n ApiVariant <- MCApiVariant\nCHECK_DEADLOCK FALSE\n"
               + "".join("INVARIANT O_%s\n" % v for v in ARGS_INVS))
        res = ctx.tlc(name, cfg_text=cfg, extra_files={name + ".tla": mod, "events.json": json.dumps(payload)},
                      requirement=False, extra_args=("-continue",), workers=4, keep=True)
        if res.kind == "assumption":
            tlcmod.cleanup(res)
            raise tlcmod.MachineryError("ThermalArgs: a lemma of the orbit algebra is false: %s" % res.violated)
        names = violated_names(res)
        if vi == 0:
            names_first = names
        tlcmod.cleanup(res)
        if not any(n.startswith("Conforms") for n in names):
            identified = var
            final = names
            break
    if identified is None:
        final = [n for n in names_first if n.startswith("Impl")]
        ctx.extra["SPEC-DRIFT-ARGS"] = "no modelled variant of ThermalArgs.tla conforms"
        print("SPEC-DRIFT C10: no modelled variant of ThermalArgs.tla conforms; requirement judged on logged values only")
    ctx.extra["args_identified_variant"] = identified
    ctx.extra["args_violated"] = final
    ctx.extra["args_events"] = dict(range=len(rev), guard=len(gev), yaml=len(yev))
    bad_range = [dict(kwargs=e["kw"], route=e["route"], ticks_per_K=e["args"]["den"], reported_ticks=e["got"][-4:]) for e in rev]
    observed = []
    for n in final:
        if n.startswith("Conforms"):
            continue
        if n in OUTSIDE_C10:
            observed.append(dict(invariant=n, status="observed deviation, outside C10", what=OUTSIDE_C10[n]))
            continue
        if "Range" in n:
            # a recorded call whose last temperature lies beyond t_max
            w = [b for b, e in zip(bad_range, rev) if e["args"]["gmax"] and e["got"] and e["got"][-1] > max(e["args"]["tmax"], e["args"]["tmin"], 0)]
            wit = w[:3]
        elif "Projection" in n:
            wit = gwit
        else:
            wit = ywit
        pre = "tlc:ThermalArgs:" if n.startswith("Inv") else "args:"
        ctx.violation(pre + n, ("TLC: %s violated in ThermalArgs.tla for the identified variant %s" % (n, identified)) if n.startswith("Inv")
                      else "C10 requirement %s fails on values recorded from the real code" % n,
                      dict(invariant=n, variant=identified, witness=wit))
    if observed:
        w = [b for b, e in zip(bad_range, rev) if e["args"]["gmax"] and e["got"] and e["got"][-1] > max(e["args"]["tmax"], e["args"]["tmin"], 0)]
        ctx.extra["observed_deviations_outside_C10"] = observed + [dict(range_witnesses=w[:3], yaml_witness=ywit.get("yaml", {}).get("band_indices"))]
        for o in observed:
            print("OBSERVED (outside C10, not a violation): %s - %s" % (o["invariant"], o["what"]))


def run(ctx):
    ctx.extra["observed_deviations_outside_C10"] = []
    ctx.rule = ("a case is one (mesh levels, weights, cutoff, pretend_real, band_indices, is_projection, classical, "
                "temperature list) configuration run on both code paths; non-trivial = distinct configuration id per "
                "phase (decode / replay) plus distinct (x-class, kernel, lang) samples and identity rows")
    ctx.assumptions += [
        "range of the finiteness claim: 2^-40 <= h nu/kT <= 2^23, 1e-3 K <= T <= 1e4 K (ThermalIEEE.tla)",
        "the real-valued expressions exp/log/expm1 are interpreted by the harness (numpy, cross-checked with 50-digit decimal "
        "in the thorough tier); thermodynamic identities are decided by TLC on integer deviations the harness logs",
        "tolerances: 1e-10 of sum |c| max(|term|, k_B or k_B T) for x >= 1e-3, 1e-7 for 1e-6 <= x < 1e-3, 1e-4 for x < 1e-6 "
        "(cancellation of the coded exp(x) - 1); identities 1e-6 / 1e-4 / 1e-2 N k_B for the same classes",
        "decoding realisation: four frequency levels 2^-6 * 2^{2,5,8,10} THz, 16 temperatures 2 K .. 3000 K",
    ]
    phases = os.environ.get("C10_PHASES", "trace,replay,model,ieee,identities,api,args,ladder").split(",")
    variant = None
    if "trace" in phases:
        cfgs, req_by_id, variant = phase_trace(ctx)
        if "replay" in phases:
            self_check_prims(ctx)
            phase_replay(ctx, cfgs, req_by_id)
    if "model" in phases:
        phase_model(ctx, variant)
    if "ieee" in phases:
        phase_ieee(ctx)
    if "identities" in phases:
        phase_identities(ctx)
    if "api" in phases:
        phase_api(ctx)
    if "args" in phases:
        phase_args(ctx)
    if "ladder" in phases:
        from harness import c10_ladder
        c10_ladder.phase_ladder(ctx, once_module, violated_names)
