"""X09 (extra) - resolution of the input cell and of the cell-related settings by the command-line front end
(phonopy/cui/collect_cell_info.py; phonopy/cui/phonopy_script.py: _read_phonopy_settings, _get_cell_info,
set_magnetic_moments).

Specification: spec/CellInfo.tla - a world = files present in the directory (abstract content tokens) x options given;
the code as a three-step machine (Resolve / Read / Settle); the requirement operators Req* written from the
documentation (doc/command-options.md, doc/phonopy-load.md, doc/input-files.md, doc/setting-tags.md, quoted in the
module), checked by TLC on the machine's outcome of EVERY world.  spec/CellInfoTrace.tla - the same operators evaluated
on what real runs returned.

 (a) TLC, exhaustive over the world families: the seven Inv* invariants, MachineIsDecide; the decision table is printed.
 (b) spec -> code: every printed row (quick: a seeded sample of directory worlds, closed under "irrelevant files
     removed") is replayed in a temporary directory holding real small files, on collect_cell_info directly and
     through argv / configuration file -> _read_phonopy_settings -> _get_cell_info (route of every setting drawn:
     option, configuration file, or both with the option to win); the outcome must be the table's.
 (c) code -> spec: the recorded outcomes (with the outcome in the world without the irrelevant files) are judged by
     TLC with the requirement operators (Impl*) and against the machine (ConformsOutcome).
"""
from __future__ import annotations

import json
import os
import re
import time

os.environ.setdefault("OMP_NUM_THREADS", "1")
from harness import bootstrap  # noqa: F401,E402
from harness import tlc as tlcmod  # noqa: E402
from harness import x09_world as W  # noqa: E402

INVS = ["InvExplicitCell", "InvDefaultSearch", "InvLoadNeedsYaml", "InvYamlSettings", "InvGivenIsUsed",
        "InvErrorsNameFile", "InvIrrelevantFiles", "InvNoTraceback", "InvMachineIsDecide"]
WHAT = {
    "ImplExplicitCell": "an explicitly named cell file was not the file read (doc/command-options.md -c; phonopy-load.md item 1)",
    "ImplDefaultSearch": "without a named file the calculator's default file name was not the one read (doc/command-options.md)",
    "ImplLoadNeedsYaml": "phonopy-load / yaml mode did not take phonopy_disp.yaml > phonopy.yaml (doc/phonopy-load.md)",
    "ImplYamlSettings": "supercell matrix / primitive matrix / calculator / moments of the yaml file were not taken (doc/input-files.md)",
    "ImplGivenIsUsed": "a setting given by the user was dropped or replaced without stopping (doc/setting-tags.md)",
    "ImplErrorsNameFile": "the failure is no message naming the file looked for",
    "ImplNoTraceback": "the front end ended in a Python exception instead of an error message",
    "ImplMainStops": "magnetic moments with automatic primitive axes: the command did not stop with its message naming the file read",
    "ImplIrrelevantFiles": "a file the documentation never has phonopy look at changed the outcome",
    "ConformsOutcome": "the outcome differs from the step machine of CellInfo.tla",
}
FIELDS = ("st", "src", "mode", "dim", "pa", "mag", "yml", "facts", "ment")

YV_MAIN = ["11110", "10110", "11010", "11100", "01100"]          # hdr dim pa calc mag
YV_ALL = ["1%d%d%d0" % (a, b, c) for a in (1, 0) for b in (1, 0) for c in (1, 0)] + ["0%d%d00" % (a, b) for a in (1, 0) for b in (1, 0)]
FL_OP = ('FL(a, b, c, d, e, x) == ("POSCAR" :> a) @@ ("unitcell.in" :> b) @@ (Disp :> c) @@ (Phy :> d) @@ (Params :> e)'
         ' @@ (CellX :> x)\n'
         'YV(s) == [hdr |-> s[1] = 1, dim |-> s[2] = 1, pa |-> s[3] = 1, calc |-> s[4] = 1, mag |-> s[5] = 1]\n')
ADM = r'''Fmt(k) == IF k = "qe" THEN "qe" ELSE "vasp"
Adm(x) ==
  /\ (x.name # CellX => x.fl[CellX] = "none")
  /\ (x.name # Params /\ x.name # "none" /\ x.name # CellX) => FALSE
  /\ (~x.load /\ x.calc # "none" /\ x.name # "none") => x.fl[x.name] \in {"none", Fmt(x.calc)}
  /\ (~x.load /\ x.calc = "vasp" /\ x.name = "none") => x.fl["POSCAR"] # "junk"
'''


def yv_tla(s):
    return "<<%s>>" % ", ".join(s)


def family_main(yvs):
    return ('{x \\in {[fl |-> FL(a, b, c, d, e, xx), yv |-> YV(v), load |-> l, calc |-> k, name |-> n, dim |-> dm, pa |-> p,\n'
            '           bauto |-> FALSE, mag |-> "none"] :\n'
            '   a \\in {"none", "vasp", "junk"}, b \\in {"none", "qe"}, c \\in {"none", "yaml", "ybroken"}, d \\in {"none", "yaml"},\n'
            '   e \\in {"none", "yaml"}, xx \\in {"none", "vasp", "qe", "yaml", "yother", "junk"}, v \\in {%s}, l \\in BOOLEAN,\n'
            '   k \\in {"none", "vasp", "qe"}, n \\in {"none", CellX, Params}, dm \\in BOOLEAN, p \\in {"none", "F"}} : Adm(x)}'
            % ", ".join(yv_tla(s) for s in yvs))


def family_settings():
    return ('{x \\in {[fl |-> FL(a, "none", c, "none", e, "none"), yv |-> YV(<<1, vd, vp, 1, vm>>), load |-> l, calc |-> "none",\n'
            '           name |-> n, dim |-> dm, pa |-> p, bauto |-> ba, mag |-> mg] :\n'
            '   a \\in {"none", "vasp"}, c \\in {"none", "yaml"}, e \\in {"none", "yaml"}, vd \\in 0..1, vp \\in 0..1, vm \\in 0..1,\n'
            '   l \\in BOOLEAN, n \\in {"none", Params}, dm \\in BOOLEAN, p \\in {"none", "F", "auto", "M"}, ba \\in BOOLEAN,\n'
            '   mg \\in {"none", "ok", "bad"}} : Adm(x) /\\ ((x.name = Params) <=> (x.fl[Params] = "yaml"))}')


def mc_model(worlds_expr):
    return ("---- MODULE MC_CellInfo ----\nEXTENDS CellInfo\n" + FL_OP + ADM + "MCWorlds ==\n" + worlds_expr + "\n====\n")


CFG = ("INIT Init\nNEXT Next\nCONSTANTS\n Worlds <- MCWorlds\n Emitting = TRUE\nCHECK_DEADLOCK FALSE\n"
       + "".join("INVARIANT %s\n" % i for i in INVS) + "INVARIANT Emit\n")

ROW = re.compile(r'<<\s*"T",\s*(.*?")\s*>>', re.S)


def parse_rows(stdout):
    rows = {}
    for m in ROW.finditer(stdout):
        body = m.group(1)
        body = body.replace("<<", "[").replace(">>", "]").replace("{", "[").replace("}", "]")
        body = re.sub(r"\bTRUE\b", "true", body)
        body = re.sub(r"\bFALSE\b", "false", body)
        v = json.loads("[" + body + "]")
        key = v[0]
        rows[key] = dict(st=v[1], src=v[2], mode=v[3], dim=v[4], pa=v[5], mag=v[6], yml=v[7], facts=sorted(v[8]),
                         ment=sorted(v[9]), obs=sorted(v[10]), main=v[11], cleared=v[12])
    return rows


def model(ctx, name, worlds_expr, workers):
    res = ctx.tlc("MC_CellInfo", cfg_text=CFG, extra_files={"MC_CellInfo.tla": mc_model(worlds_expr)}, requirement=False,
                  workers=workers)
    if res.violated:
        st = res.trace[-1][1] if res.trace else {}
        if res.kind not in ("invariant",):
            raise tlcmod.MachineryError("x09: TLC failed on family %s: %s %s\n%s" % (name, res.kind, res.violated, res.stdout[-2000:]))
        ctx.violation("tlc:CellInfo:%s" % res.violated,
                      "CellInfo.tla (family %s): %s fails on the step machine, i.e. the decision procedure of "
                      "collect_cell_info contradicts the documentation" % (name, res.violated),
                      dict(world=repr(st.get("w")), outcome=repr(st.get("out"))))
        return {}
    if res.rc != 0:
        raise tlcmod.MachineryError("x09: TLC rc=%s on family %s\n%s" % (res.rc, name, res.stdout[-3000:]))
    rows = parse_rows(res.stdout)
    ctx.extra.setdefault("actions_fired", {})[name] = ("DoResolve, DoRead, DoSettle fire once per world: %d states = 4 x %d worlds"
                                                       % (res.distinct, len(rows)))
    if len(rows) * 4 != res.distinct:
        raise tlcmod.MachineryError("x09: %d table rows for %d states (family %s)" % (len(rows), res.distinct, name))
    return rows


def same(exp, got):
    return [f for f in FIELDS if exp[f] != got[f]]


def replay(ctx, rows, keys, procs):
    """Real runs of the worlds `keys`; compare with the table.  Returns {(key, layer): outcome}."""
    from concurrent.futures import ProcessPoolExecutor
    import multiprocessing as mp

    groups = {}
    for k in keys:
        groups.setdefault("|".join(k.split("|")[:7]), []).append(k)
    tasks = [(sorted(g), ctx.seed, set(k for k in g if rows[k]["main"])) for _, g in sorted(groups.items())]
    got = {}
    with ProcessPoolExecutor(max_workers=procs, mp_context=mp.get_context("spawn")) as ex:
        for part in ex.map(W.replay_group, tasks, chunksize=8):
            for key, lay, route, o in part:
                got[(key, lay)] = (route, o)
    bad = {}
    for (key, lay), (route, o) in sorted(got.items()):
        ctx.count("replay:%s:%s" % (lay, key))
        if o["st"] == "exc":
            continue                        # judged by TLC (ImplNoTraceback), every such event is in the trace
        exp = rows[key]
        if lay == "main":
            exp = dict(st="err", src="none", mode="none", dim="none", pa="none", mag="none", yml=False, facts=["magauto"],
                       ment=[rows[key]["src"]])
        diff = same(exp, o)
        if diff:
            bad.setdefault((lay, tuple(diff)), []).append(dict(world=key, layer=lay, route=route, expected={f: exp[f] for f in FIELDS},
                                                             real=o))
    ctx.traces += len(got)
    for (lay, diff), wit in sorted(bad.items()):
        ctx.violation("cellinfo:Replay:%s:%s" % (lay, "+".join(diff)),
                      "replay of the decision table of CellInfo.tla on the real front end (%s): %s differ(s) in %d worlds"
                      % (lay, ", ".join(diff), len(wit)), dict(count=len(wit), witnesses=wit[:4]))
    return got


def world_tla(key):
    w = W.parse_key(key)
    yv = w["yv"]
    return ('[fl |-> FL(%s), yv |-> [hdr |-> %s, dim |-> %s, pa |-> %s, calc |-> %s, mag |-> %s], load |-> %s, calc |-> "%s", '
            'name |-> "%s", dim |-> %s, pa |-> "%s", bauto |-> %s, mag |-> "%s"]'
            % (", ".join('"%s"' % w["fl"][s] for s in W.SLOTS), *[str(yv[k]).upper() for k in ("hdr", "dim", "pa", "calc", "mag")],
               str(w["load"]).upper(), w["calc"], w["name"], str(w["dim"]).upper(), w["pa"], str(w["bauto"]).upper(), w["mag"]))


def res_tla(o):
    def sset(xs):
        return "{%s}" % ", ".join('"%s"' % x for x in xs)
    return ('[st |-> "%s", src |-> "%s", mode |-> "%s", dim |-> "%s", pa |-> "%s", mag |-> "%s", yml |-> %s, facts |-> %s, ment |-> %s]'
            % (o["st"], o["src"], o["mode"], o["dim"], o["pa"], o["mag"], str(bool(o["yml"])).upper(), sset(o["facts"]), sset(o["ment"])))


def validate(ctx, rows, got, evkeys, chunk=6000):
    """Trace validation: TLC judges recorded outcomes."""
    events = []
    for (key, lay) in evkeys:
        route, o = got[(key, lay)]
        ck = rows[key]["cleared"]
        oc = got[(ck, lay)][1] if (ck, lay) in got else o
        events.append((len(events), key, lay, route, o, oc))
    fails = {}
    seen = 0
    for i in range(0, len(events), chunk):
        part = events[i:i + chunk]
        mc = ("---- MODULE MC_CellInfoTrace ----\nEXTENDS CellInfoTrace\n" + FL_OP + "MCEvents == {\n%s\n}\n====\n"
              % ",\n".join('[xid |-> %d, lay |-> "%s", win |-> %s, res |-> %s, resc |-> %s]'
                           % (e[0], e[2], world_tla(e[1]), res_tla(e[4]), res_tla(e[5])) for e in part))
        cfg = ("INIT TInit\nNEXT TNext\nCONSTANTS\n Worlds = {}\n Emitting = FALSE\n Events <- MCEvents\nCHECK_DEADLOCK FALSE\n"
               "INVARIANT Report\n")
        res = ctx.tlc("MC_CellInfoTrace", cfg_text=cfg, extra_files={"MC_CellInfoTrace.tla": mc}, requirement=False, workers=4)
        if res.violated or res.rc != 0:
            raise tlcmod.MachineryError("x09: trace run failed: %s\n%s" % (res.violated, res.stdout[-3000:]))
        for m in re.finditer(r'<<\s*"Q",\s*(\d+),\s*\{(.*?)\}\s*>>', res.stdout, re.S):
            seen += 1
            for n in re.findall(r'"(\w+)"', m.group(2)):
                fails.setdefault(n, []).append(int(m.group(1)))
    if seen != len(events):
        raise tlcmod.MachineryError("x09: TLC judged %d of %d events" % (seen, len(events)))
    for n, ids in sorted(fails.items()):
        if n == "ImplNoTraceback":
            continue
        wit = [dict(world=events[i][1], layer=events[i][2], route=events[i][3], real=events[i][4], real_cleared=events[i][5],
                    machine={f: rows[events[i][1]][f] for f in FIELDS}) for i in ids[:4]]
        ctx.violation("cellinfo:%s" % n, "CellInfoTrace.tla, %s: %s (%d of %d events)" % (n, WHAT[n], len(ids), len(events)),
                      dict(events=len(ids), witnesses=wit))
    byexc = {}
    for i in fails.get("ImplNoTraceback", []):
        byexc.setdefault(events[i][4]["msg"].split(":")[0], []).append(i)
    for exc, ids in sorted(byexc.items()):
        wit = [dict(world=events[i][1], layer=events[i][2], route=events[i][3], real=events[i][4],
                    machine={f: rows[events[i][1]][f] for f in FIELDS}) for i in ids[:4]]
        ctx.violation("cellinfo:ImplNoTraceback:%s" % exc, "CellInfoTrace.tla, ImplNoTraceback: %s - %s (%d of %d events)"
                      % (WHAT["ImplNoTraceback"], events[ids[0]][4]["msg"][:160], len(ids), len(events)),
                      dict(events=len(ids), witnesses=wit))
    return len(events), {n: len(v) for n, v in fails.items()}


def binding_demo(ctx, rows, got):
    """Corrupted recorded outcomes must be rejected by the judgement that owns the corrupted field."""
    import copy

    def pick(pred):
        for (key, lay), (route, o) in sorted(got.items()):
            if lay == "front" and pred(W.parse_key(key), o, rows[key]):
                return key, o
        return None, None

    demos = []
    k, o = pick(lambda w, o, r: o["st"] == "ok" and w["name"] != "none" and not r["obs"] and o["yml"] and w["fl"][W.SLOTS[2]] == "yaml")
    if k:
        c = copy.deepcopy(o); c["src"] = W.SLOTS[2]
        demos.append(("named file ignored", k, c, "ImplExplicitCell"))
    k, o = pick(lambda w, o, r: o["st"] == "ok" and o["yml"] and w["yv"]["dim"] and not w["dim"])
    if k:
        c = copy.deepcopy(o); c["dim"] = "opt"
        demos.append(("yaml supercell matrix not taken", k, c, "ImplYamlSettings"))
    k, o = pick(lambda w, o, r: o["st"] == "ok" and w["pa"] == "F" and not w["bauto"])
    if k:
        c = copy.deepcopy(o); c["pa"] = "none"
        demos.append(("--pa dropped", k, c, "ImplGivenIsUsed"))
    k, o = pick(lambda w, o, r: o["st"] == "err" and "noyaml" in o["facts"] and w["load"])
    if k:
        c = copy.deepcopy(o); c["ment"] = []
        demos.append(("message names no file", k, c, "ImplErrorsNameFile"))
    k, o = pick(lambda w, o, r: o["st"] == "ok" and w["load"] and w["name"] == "none" and w["fl"][W.SLOTS[2]] == "yaml" and w["fl"][W.SLOTS[3]] == "yaml")
    if k:
        c = copy.deepcopy(o); c["src"] = W.SLOTS[3]; c["dim"] = "y:" + W.SLOTS[3]; c["pa"] = c["pa"].replace(W.SLOTS[2], W.SLOTS[3])
        demos.append(("phonopy.yaml preferred to phonopy_disp.yaml", k, c, "ImplLoadNeedsYaml"))
    if not demos:
        return
    mc = ("---- MODULE MC_CellInfoTrace ----\nEXTENDS CellInfoTrace\n" + FL_OP + "MCEvents == {\n%s\n}\n====\n"
          % ",\n".join('[xid |-> %d, lay |-> "front", win |-> %s, res |-> %s, resc |-> %s]' % (i, world_tla(d[1]), res_tla(d[2]), res_tla(d[2]))
                       for i, d in enumerate(demos)))
    cfg = ("INIT TInit\nNEXT TNext\nCONSTANTS\n Worlds = {}\n Emitting = FALSE\n Events <- MCEvents\nCHECK_DEADLOCK FALSE\nINVARIANT Report\n")
    res = tlcmod.run("MC_CellInfoTrace", cfg_text=cfg, extra_files={"MC_CellInfoTrace.tla": mc}, workers=2)
    tlcmod.cleanup(res)
    verdicts = {}
    for m in re.finditer(r'<<\s*"Q",\s*(\d+),\s*\{(.*?)\}\s*>>', res.stdout, re.S):
        verdicts[int(m.group(1))] = re.findall(r'"(\w+)"', m.group(2))
    out = []
    for i, d in enumerate(demos):
        names = verdicts.get(i, [])
        out.append(dict(corruption=d[0], rejected_by=names))
        if d[3] not in names:
            raise tlcmod.MachineryError("x09: corrupted event (%s) is not rejected by %s: %s" % (d[0], d[3], names))
    ctx.extra["binding_demo"] = out


def run(ctx):
    t0 = time.time()
    rng = ctx.rng
    procs = 6
    yvs = YV_MAIN if ctx.quick else YV_ALL
    rows = {}
    rows.update(model(ctx, "main", family_main(yvs), 8))
    rows.update(model(ctx, "settings", family_settings(), 4))
    ctx.extra["model_wall_s"] = round(time.time() - t0, 1)
    ctx.extra["worlds"] = len(rows)
    ctx.extra["yaml_variants(hdr,dim,pa,calc,mag)"] = yvs
    if not rows:
        return
    ctx.exhaustive = True
    obs = {}
    kinds = {}
    for k, r in rows.items():
        for n in r["obs"]:
            obs[n] = obs.get(n, 0) + 1
        kinds[r["st"]] = kinds.get(r["st"], 0) + 1
    ctx.extra["machine_outcomes"] = kinds
    ctx.extra["documented_deviations(worlds)"] = obs
    # ---- worlds to replay
    groups = {}
    for k in rows:
        groups.setdefault("|".join(k.split("|")[:7]), []).append(k)
    gkeys = sorted(groups)
    pick = set(gkeys)
    keys = set(k for g in pick for k in groups[g])
    keys |= set(rows[k]["cleared"] for k in list(keys))            # closed under removal of the irrelevant files
    missing = [k for k in keys if k not in rows]
    if missing:
        raise tlcmod.MachineryError("x09: cleared world outside the family: %s" % missing[:3])
    t1 = time.time()
    got = replay(ctx, rows, sorted(keys), procs)
    ctx.extra["replay_wall_s"] = round(time.time() - t1, 1)
    ctx.extra["replayed_worlds"] = len(keys)
    ctx.extra["real_runs"] = len(got)
    real = {}
    for (_, lay), (_, o) in got.items():
        real[lay + ":" + o["st"]] = real.get(lay + ":" + o["st"], 0) + 1
    ctx.extra["real_outcomes"] = real
    # ---- trace validation
    t2 = time.time()
    evk = sorted(got)
    cap = 6000 if ctx.quick else 24000
    if len(evk) > cap:
        must, per = [], {}
        for k in evk:                      # every kind of traceback and every whole-command run is judged by TLC
            o = got[k][1]
            if o["st"] == "exc":
                c = (k[1], o["msg"].split(":")[0])
                per[c] = per.get(c, 0) + 1
                if per[c] <= 300:
                    must.append(k)
            elif k[1] == "main":
                must.append(k)
        mset = set(must)
        rest = [k for k in evk if k not in mset and got[k][1]["st"] != "exc"]
        ctx.extra["tracebacks(layer,exception)"] = {"%s:%s" % c: n for c, n in sorted(per.items())}
        evk = sorted(must + rng.sample(rest, max(0, cap - len(must))))
    nev, fails = validate(ctx, rows, got, evk)
    ctx.extra["trace_events"] = nev
    ctx.extra["trace_failed_judgements"] = fails
    ctx.extra["trace_wall_s"] = round(time.time() - t2, 1)
    binding_demo(ctx, rows, got)
    for (key, lay) in evk[:3]:
        ctx.sample(dict(world=key, layer=lay, route=got[(key, lay)][0], real=got[(key, lay)][1]))
    ctx.rule = ("every world (files present x options) of CellInfo.tla: machine outcome satisfies the documentation (7 invariants); "
                "real collect_cell_info / _get_cell_info outcome = table row; recorded outcomes judged by TLC")
    ctx.assumptions.append("the content tokens (vasp / qe / yaml / yother / junk / ybroken) stand for what C17's readers, yaml.load and "
                           "is_file_phonopy_yaml return on the small real files of harness/x09_world.py; formats are C17's")
    ctx.assumptions.append("documented deviations (docstring of collect_cell_info) are excepted by name in the requirement and counted: "
                           "DevNameDropped, DevDimIgnored, DevCalcIgnored")
    ctx.assumptions.append("worlds where a calculator reader would be handed a file of another format (C17's readers raise) are "
                           "outside the enumerated families")
