"""C09 - symmetry-reduced mesh sampling equals full mesh sampling.

Spec: spec/MeshGrid.tla (requirement + step machine of GridPoints / MeshBase /
init_mesh / length2mesh), spec/MeshGridTrace.tla (conformance),
spec/MeshCatalogue.tla + spec/MeshGroups.tla (exact point groups, also in
primitive bases of centred lattices).  See DESIGN.md section 5/C09.

Steps of run():
  1. point groups of the reference crystals by TLC (MeshGroups);
  2. model run of MeshGrid (requirement as invariants on the machine, every
     action covered) and replay of its final states on the real code
     (spec -> code);
  3. trace validation of recorded real grids, GridPoints level and
     Phonopy.init_mesh level (code -> spec);
  4. weighted sums (thermal properties, smearing DOS, moments) with mesh
     symmetry on and off on spring-model crystals, frequencies constant on the
     classes TLC accepted (harness-side interpretation of the real-valued part);
  5. self-checks of the binding (corrupted trace rejected; pinned-variant
     model run reproduces the defects of the pinned tree on the specification).
"""
from __future__ import annotations

import io
import contextlib
import itertools
import json
import re
from fractions import Fraction

import numpy as np

from harness import bootstrap  # noqa: F401
from harness import c09_mesh as cm
from harness import tla_values, xtal
from harness import tlc as tlcmod
from harness.tla_values import to_tla

from phonopy import Phonopy
from phonopy.structure.grid_points import GridPoints, length2mesh

IMPL_INVS = ["ImplMeshIsRequested", "ImplEquivalentAxesEqual", "ImplQInFirstZone", "ImplQvCongruent", "ImplGridComplete", "ImplMapWellFormed", "ImplEveryPointIsImageHalf",
             "ImplEveryPointIsImageGeneric", "ImplIrWeights", "ImplWeightsSum", "ImplQpointsHalf",
             "ImplQpointsGeneric", "ImplExact", "ImplOffIsFull", "ImplSymOnOffEqual", "ImplGroupIsExact"]
CONF_INVS = ["ConformsInitMesh", "ConformsMesh", "ConformsIsShift", "ConformsIndexConvention", "ConformsMap",
             "ConformsIr", "ConformsQpoints"]
EVENT_INVS = ["EventRotsInCrystalGroup", "EventBoundaryRaw", "EventBzBoxSound"]
MODEL_INVS = ["TypeOK", "InvLengthRule", "InvBoundaryTheorem", "InvEquivalentAxesEqual", "InvMeshIsRequested", "InvGridComplete", "InvEveryPointIsImage", "InvIrWeights",
              "InvWeightsSum", "InvQpoints", "InvOffIsFull", "InvSymOnOffEqual", "InvCharacterisation",
              "InvClassesAreOrbits"]
ACTIONS = ["Choose", "LengthToMesh", "InitMesh", "Shift2Boolean", "HasMeshSymmetry", "Reduce", "ExtractIr"]

# shifts as (numerators, denominator): zero, the seven half shifts, integer and 3/2 shifts, generic ones
HALF_SHIFTS = [((a, b, c), 2) for a, b, c in itertools.product((0, 1), repeat=3)]
ODD_HALF = [((2, 0, 0), 2), ((3, 1, 0), 2), ((1, 3, 2), 2)]
GENERIC = [((1, 2, 3), 4), ((1, 0, 0), 4), ((1, 1, 1), 3), ((0, 2, 1), 5), ((3, 3, 3), 4), ((1, 2, 0), 8)]


def group_name(crystal, k):
    return crystal if k is None else "%s_s%d" % (crystal, k)


class World:
    """Groups (from TLC), their subgroups, lattices."""

    def __init__(self, ctx, names):
        self.pgs = cm.point_groups(names, ctx)
        self.names = names
        self.table = {}  # group name -> list of matrices
        self.subs = {}
        nprng = np.random.default_rng(ctx.seed + 77)
        self.lat = {}
        for n in names:
            self.table[n] = self.pgs[n]["pg"]
            self.subs[n] = cm.subgroups2(self.pgs[n]["pg"])
            for k, H in enumerate(self.subs[n]):
                self.table[group_name(n, k)] = H
            self.lat[n] = xtal.lattice_from_gram(np.array(self.pgs[n]["G"], dtype=float), a=1.7, rng=nprng)
        self.used = set()

    def rots(self, grp):
        self.used.add(grp)
        return self.table[grp]

    def table_tla(self):
        return "[" + ", ".join("%s |-> %s" % (g, to_tla(cm.set_of_mats(self.table[g]))) for g in sorted(self.used)) + "]"


def cfg_tla(cfg):
    return to_tla(cfg)


def is_generic(cfg):
    return any((2 * n) % cfg["sd"] != 0 for n in cfg["sn"])


def lat_equiv_pairs(rots):
    """pairs of axes phonopy's get_lattice_vector_equivalence([r.T ...]) calls equivalent (a row of R
    is a signed unit vector of another axis; LatEquiv of MeshGrid.tla).  Only used to NAME the class
    of a failing input."""
    pairs = set()
    for R in rots:
        R = np.array(R)
        for i in range(3):
            row = np.abs(R[i, :])
            for j in range(3):
                if j != i and row[j] == 1 and row.sum() == 1:
                    pairs.add((min(i, j), max(i, j)))
    return pairs


def classify(cfg, is_shift, world, mesh=None):
    """Name of the input class of a failing event (part of the violation key); mesh = the mesh numbers
    actually used (they differ from cfg["mesh"] for a length)."""
    if is_generic(cfg):
        return "generic-shift"
    mesh = mesh if mesh is not None else cfg["mesh"]
    if is_shift is not None and len(is_shift) == 3:
        for i, j in lat_equiv_pairs(world.table[cfg["grp"]]):
            if is_shift[i] != is_shift[j] and mesh[i] == mesh[j]:
                return "half-shift-unequal-on-equivalent-axes"
    return "regular"


# ------------------------------------------------------------------ real calls
def call_gridpoints(cfg, world, crystal, fit, norots=False):
    rots = world.rots(cfg["grp"])
    L = cfg["_L"] if "_L" in cfg else world.lat[crystal]
    rec = np.linalg.inv(L)
    shift = cm.shift_float(cfg)
    if all(n == 0 for n in cfg["sn"]) and cfg.get("_none_shift"):
        shift = None
    mesh = cfg["mesh"]
    if cfg["len"]:  # the real length2mesh with these rotations decides the mesh numbers
        mesh = length2mesh(cfg["_length"], L, rotations=np.array(rots, dtype="intc"))
    gp = GridPoints(mesh, rec, q_mesh_shift=shift, is_gamma_center=cfg["gamma"],
                    is_time_reversal=cfg["tr"], fit_in_BZ=fit,
                    rotations=None if norots else np.array(rots, dtype="intc"),
                    is_mesh_symmetry=cfg["sym"])
    return gp


BZ_OFF = dict(on=False, G=[[1, 0, 0], [0, 1, 0], [0, 0, 1]], D=1, B=1, qv=[])


def _adj_int(G):
    G = np.array(G, dtype=np.int64)
    c = np.zeros((3, 3), dtype=np.int64)
    for i in range(3):
        for j in range(3):
            m = np.delete(np.delete(G, i, 0), j, 1)
            c[i, j] = (-1) ** (i + j) * (m[0, 0] * m[1, 1] - m[0, 1] * m[1, 0])
    return c.T


def bz_record(gp, cfg, gram):
    """Handed-out q-points as integers over D = 2 sd lcm(mesh) (not reduced modulo D) with the exact integer
    Gram matrix of the reciprocal basis (Adj of the crystal's Gram matrix, common factor removed) and a box
    half-width for which BoxSound holds (re-checked by TLC: EventBzBoxSound); off when numbers would leave
    TLC's 32-bit range."""
    mesh = [int(x) for x in gp.mesh_numbers]
    D = 2 * cfg["sd"] * int(np.lcm.reduce(mesh))
    q = np.array(gp.qpoints, dtype=float) * D
    qv = np.rint(q)
    if q.size == 0 or float(np.abs(q - qv).max()) > 1e-6:
        return BZ_OFF
    qv = qv.astype(np.int64)
    Grec = _adj_int(gram)
    Grec = Grec // int(np.gcd.reduce(np.abs(Grec).ravel()))
    det = int(round(np.linalg.det(Grec.astype(float))))
    A = _adj_int(Grec)
    L = np.einsum("ki,ij,kj->k", qv, Grec, qv)
    for b in (1, 2, 3):
        w = D * (b + 1) - np.abs(qv)
        if w.min() <= 0:
            continue
        lhs = w.astype(object) ** 2 * det
        rhs = np.outer(L, np.diag(A)).astype(object)
        if max(int(lhs.max()), int(rhs.max())) >= 2 ** 30:
            return BZ_OFF
        if np.all(lhs > rhs):
            return dict(on=True, G=[[int(x) for x in r] for r in Grec], D=int(D), B=b,
                        qv=[[int(x) for x in r] for r in qv])
    return BZ_OFF


def make_event(eid, cfg, crystal, full, gp, passed=None, gram=None):
    res, ish, mesh, resid = cm.project(gp, cfg, None)
    ev = dict(id=eid, cfg={k: v for k, v in cfg.items() if not k.startswith("_")}, crystal=crystal, full=full,
              isShift=ish, mesh=mesh, res=res,
              bnd=cfg.get("_bnd") or dict(k=0, j=1, p=1, side="none", sign="none"),
              bz=bz_record(gp, cfg, gram) if gram is not None else BZ_OFF)
    if passed is not None:
        ev["passed"] = passed
    return ev, resid


def length_base(G, a, length):
    """rint(|a*_k| * length) from the exact Gram matrix (|a*_k|^2 = (G^-1)_kk / a^2); None if too
    close to a rounding boundary."""
    Gi = np.linalg.inv(np.array(G, dtype=float))
    vals = [length * np.sqrt(Gi[k, k]) / a for k in range(3)]
    if any(abs(v - np.floor(v) - 0.5) < 1e-3 for v in vals):
        return None
    return [int(np.rint(v)) for v in vals]


# ------------------------------------------------------------------ model run
def model_configs(ctx, world, api_crystals, apiw=None):
    rng = ctx.rng
    quick = ctx.quick
    cfgs = []
    crystals = [c for c in (["sc", "hcp", "ocp", "mcp2", "rhp", "fccp"] if quick else world.names) if c in world.names]
    meshes = [(1, 1, 2), (2, 2, 2), (2, 2, 3), (3, 3, 2), (2, 3, 1)] if quick else \
        [m for m in itertools.product((1, 2, 3), repeat=3)] + [(4, 4, 2), (4, 4, 4), (2, 4, 4), (4, 3, 4)]
    shifts = [HALF_SHIFTS[0], HALF_SHIFTS[4], HALF_SHIFTS[6], HALF_SHIFTS[7], HALF_SHIFTS[2], GENERIC[0]] if quick \
        else HALF_SHIFTS + ODD_HALF[:2] + GENERIC[:3]
    for c in crystals:
        for m in meshes:
            for (sn, sd) in shifts:
                for gamma, tr, sym in itertools.product((True, False), repeat=3):
                    cfgs.append(dict(level="grid", len=False, mesh=list(m), sn=list(sn), sd=sd, gamma=gamma,
                                     tr=tr, sym=sym, grp=c, _crystal=c))
    rng.shuffle(cfgs)
    cfgs = cfgs[: (400 if quick else 2200)]
    # subgroups (the low-order ones are where R s = s mod 2 can fail)
    sub = []
    for c in crystals:
        ks = list(range(len(world.subs[c])))
        rng.shuffle(ks)
        for k in ks[: (3 if quick else 6)]:
            for m in ([(2, 2, 2), (2, 2, 1)] if quick else [(2, 2, 2), (2, 2, 1), (3, 3, 3), (1, 2, 2), (4, 4, 2)]):
                for (sn, sd) in HALF_SHIFTS[1:4] + [GENERIC[1]]:
                    for tr in (True, False):
                        sub.append(dict(level="grid", len=False, mesh=list(m), sn=list(sn), sd=sd,
                                        gamma=bool(rng.getrandbits(1)), tr=tr, sym=True,
                                        grp=group_name(c, k), _crystal=c))
    if not quick:
        rng.shuffle(sub)
        sub = sub[:1000]
    cfgs += sub
    # Phonopy.init_mesh level, explicit meshes and lengths
    api = []
    for c in api_crystals:
        for m in [(2, 2, 2), (3, 3, 2), (2, 2, 1)]:
            for (sn, sd) in [HALF_SHIFTS[0], HALF_SHIFTS[4], HALF_SHIFTS[7], GENERIC[0]]:
                for gamma, tr, sym in itertools.product((True, False), repeat=3):
                    api.append(dict(level="api", len=False, mesh=list(m), sn=list(sn), sd=sd, gamma=gamma, tr=tr,
                                    sym=sym, grp=c, _crystal=c))
        for length in ([3.1, 5.3, 7.7] if quick else [2.2, 3.1, 4.4, 5.3, 6.6, 7.7, 9.1]):
            base = length_base(world.pgs[c]["G"], 1.7, length)
            if base is None or base[0] * base[1] * base[2] > 150:
                continue
            for (sn, sd) in [HALF_SHIFTS[0], HALF_SHIFTS[7]]:
                for gamma, sym in itertools.product((True, False), repeat=2):
                    api.append(dict(level="api", len=True, mesh=base, sn=list(sn), sd=sd, gamma=gamma, tr=True,
                                    sym=sym, grp=c, _crystal=c, _length=length))
    rng.shuffle(api)
    api = api[: (90 if quick else 1200)]
    if apiw is not None:
        api += apiw.boundary_cfgs(ctx)
    # every base triple for the length rule, exhaustively small (grid numbers do not matter there)
    return cfgs + api


def mc_module(name, extends, world, body):
    return ("---- MODULE %s ----\nEXTENDS %s\nMCGroupTable == %s\n%s\n"
            "ASSUME TableIsOK == \\A g \\in DOMAIN MCGroupTable : IsGroup(MCGroupTable[g])\n====\n"
            % (name, extends, world.table_tla(), body))


def check_tlc(res):
    """Anything TLC reports that is not an invariant violation (failed ASSUME of the group table, deadlock,
    evaluation error) is a machinery failure."""
    if res.violated and (res.kind != "invariant" or not res.violations):
        raise tlcmod.MachineryError("TLC: %s (%s)\n%s" % (res.violated, res.kind, res.stdout[-1500:]))


def strip(cfg):
    return {k: v for k, v in cfg.items() if not k.startswith("_")}


def run_model(ctx, world, cfgs, variant="repaired", coverage=True, dump=True):
    for c in cfgs:
        world.rots(c["grp"])
    body = "MCConfigs == {%s}" % ",\n".join(cfg_tla(strip(c)) for c in cfgs)
    mc = mc_module("MC_MeshGrid", "MeshGrid", world, body)
    cfg_text = ("INIT Init\nNEXT Next\nCONSTANTS\n Configs <- MCConfigs\n GroupTable <- MCGroupTable\n"
                " Variant = \"%s\"\nCHECK_DEADLOCK FALSE\n" % variant) + "".join("INVARIANT %s\n" % i for i in MODEL_INVS)
    res = ctx.tlc("MC_MeshGrid", cfg_text=cfg_text, extra_files={"MC_MeshGrid.tla": mc}, requirement=False,
                  dump=dump, coverage=coverage, workers=6, extra_args=("-continue",), keep=True, timeout=1500)
    check_tlc(res)
    return res


def done_states(path):
    """final states of the dump only (the others are not needed: cheaper than parsing everything)."""
    with open(path) as f:
        text = f.read()
    out = []
    for blk in re.split(r"^State \d+:[^\n]*$", text, flags=re.M)[1:]:
        if 'pc = "done"' in blk:
            blk = re.sub(r"^/\\ group = .*?(?=^/\\ )", "", blk, flags=re.M | re.S)  # the group itself is not needed
            out.append(tla_values.parse_state_body(blk))
    return out


class ApiWorld:
    """Real Phonopy objects with exact spring-model force constants."""

    STRAIN = 7.5e-5   # relative; far below the symmetry tolerance used for the strained cells
    SYMPREC = 1e-3

    def __init__(self, ctx, crystals, world=None):
        self.ph = {}
        self.orc = {}
        self.strained = {}  # label -> dict(ph, c, j, p, sign, L): cells with one of two equivalent axes strained
        self.base = {}  # label of a Phonopy object -> catalogue crystal
        S = [[2, 0, 0], [0, 2, 0], [0, 0, 2]]
        for c in crystals:
            orc = cm.MeshOracle(c, [S], a=1.7, seed=ctx.seed + 5, ctx=ctx)
            with contextlib.redirect_stdout(io.StringIO()):
                ph = Phonopy(orc.unitcell(), supercell_matrix=S)
            ph.force_constants = orc.supercell_fc(S, ph.supercell)
            self.ph[c] = ph
            self.orc[c] = orc
            self.base[c] = c
        # a dynamically unstable crystal (imaginary modes away from Gamma): the same exact force constants with
        # the opposite sign - still symmetric under the full space group, so the requirement is unchanged
        for c in crystals[:1] if ctx.quick else crystals[:3]:
            with contextlib.redirect_stdout(io.StringIO()):
                ph = Phonopy(self.orc[c].unitcell(), supercell_matrix=S)
            ph.force_constants = -self.orc[c].supercell_fc(S, ph.supercell)
            self.ph[c + "~unstable"] = ph
            self.base[c + "~unstable"] = c

        # Cells whose symmetry-equivalent axes differ below the symmetry tolerance (a relaxed structure): the
        # point group found at SYMPREC is still the exact one (checked), the raw numbers of a length are not
        # equal on the two axes.  Only the grids are examined on these (frequencies are symmetric to ~STRAIN only).
        from phonopy.structure.atoms import PhonopyAtoms

        for c in (crystals if world is not None else []):
            pairs = sorted(lat_equiv_pairs(world.table[c]))
            if not pairs:
                continue
            p_, j_ = pairs[0]
            for sign in ("long", "short"):
                u = self.orc[c].unitcell()
                L = np.array(u.cell, dtype=float)
                L[j_] *= (1 + self.STRAIN) if sign == "long" else (1 - self.STRAIN)
                cell = PhonopyAtoms(symbols=u.symbols, scaled_positions=u.scaled_positions, cell=L, masses=u.masses)
                with contextlib.redirect_stdout(io.StringIO()):
                    ph = Phonopy(cell, supercell_matrix=S, symprec=self.SYMPREC)
                ph.force_constants = self.orc[c].supercell_fc(S, self.ph[c].supercell)
                if len(ph.primitive_symmetry.pointgroup_operations) != len(world.table[c]):
                    raise tlcmod.MachineryError("strained %s cell: point group of order %d found at symprec %g" % (
                        c, len(ph.primitive_symmetry.pointgroup_operations), self.SYMPREC))
                self.strained["%s~%s" % (c, sign)] = dict(ph=ph, c=c, j=j_, p=p_, sign=sign, L=L)

    def polar(self, ctx):
        """Wurtzite-like polar crystal (catalogue 'wz', randomly oriented hexagonal lattice) with Born charges and
        dielectric tensor of the site/point symmetry (3m / 6mm: diagonal in the hexagonal frame, opposite on the
        two species) and the non-analytical term by Wang's method - the only frequency model that is not periodic
        in reciprocal lattice vectors, so it sees WHICH member of a class q + G is handed out."""
        if getattr(self, "_polar", None) is None:
            S = [[2, 0, 0], [0, 2, 0], [0, 0, 2]]
            orc = cm.MeshOracle("wz", [S], a=1.7, seed=ctx.seed + 5, ctx=ctx)
            L0 = xtal.lattice_from_gram(orc.G, a=1.7, rng=None)
            R = np.linalg.inv(L0) @ orc.L  # cart = cart0 @ R
            if np.abs(R @ R.T - np.eye(3)).max() > 1e-9:
                raise tlcmod.MachineryError("orientation of the wz lattice is not a rotation")
            u = orc.unitcell()
            zt = lambda sgn: R.T @ np.diag([1.3 * sgn, 1.3 * sgn, 1.7 * sgn]) @ R
            born = np.array([zt(1.0 if sym_ == u.symbols[0] else -1.0) for sym_ in u.symbols])
            eps = R.T @ np.diag([3.5, 3.5, 4.2]) @ R
            with contextlib.redirect_stdout(io.StringIO()):
                ph = Phonopy(u, supercell_matrix=S)
            ph.force_constants = orc.supercell_fc(S, ph.supercell)
            ph.nac_params = dict(born=born, dielectric=eps, factor=14.4, method="wang")
            if type(ph.dynamical_matrix).__name__ != "DynamicalMatrixWang":
                raise tlcmod.MachineryError("Wang NAC not active: %s" % type(ph.dynamical_matrix).__name__)
            self._polar = ph
            self.ph_polar_label = "wz~wang"
        return self._polar

    def boundary_cfgs(self, ctx):
        """Length-specified meshes just across a rounding boundary (BoundaryCases of MeshGrid.tla), each with
        mesh symmetry on and off."""
        out = []
        for label, st in self.strained.items():
            rec = np.linalg.norm(np.linalg.inv(st["L"]), axis=0)  # |a*_k|
            for k in ((1, 2) if ctx.quick else (1, 2, 3)):
                for side in ("above", "below"):
                    eps = 0.5 * (k + 0.5) * self.STRAIN
                    length = (k + 0.5 + (eps if side == "above" else -eps)) / rec[st["p"]]
                    vals = length * rec
                    o = 3 - st["j"] - st["p"]
                    if abs(vals[o] - np.floor(vals[o]) - 0.5) < 1e-3:
                        continue
                    base = [int(x) for x in np.rint(vals)]
                    if (k + 1) * (k + 1) * max(base[o], 1) > 100:
                        continue
                    for sym in (True, False):
                        for (sn, sd), gamma in ((HALF_SHIFTS[0], False), (HALF_SHIFTS[7], True)):
                            out.append(dict(level="api", len=True, mesh=base, sn=list(sn), sd=sd, gamma=gamma, tr=True,
                                            sym=sym, grp=st["c"], _crystal=st["c"], _length=float(length), _label=label,
                                            _bnd=dict(k=k, j=st["j"] + 1, p=st["p"] + 1, side=side, sign=st["sign"])))
        return out

    def init_mesh(self, cfg, crystal, run=False, label=None):
        """Phonopy.init_mesh / run_mesh with the GridPoints construction recorded."""
        label = label or cfg.get("_label")
        if label == "wz~wang":
            ph = self._polar
        else:
            ph = self.strained[label]["ph"] if label in self.strained else self.ph[label or crystal]
        shift = cm.shift_float(cfg)
        mesh = cfg["_length"] if cfg["len"] else cfg["mesh"]
        with cm.Recorder() as rec:
            (ph.run_mesh if run else ph.init_mesh)(mesh=mesh, shift=shift, is_time_reversal=cfg["tr"],
                                                   is_mesh_symmetry=cfg["sym"], is_gamma_center=cfg["gamma"])
        call = rec.calls[-1]
        kw = call["kw"]
        passed = dict(mesh=call["mesh"], gamma=bool(kw.get("is_gamma_center")), tr=bool(kw.get("is_time_reversal")),
                      sym=bool(kw.get("is_mesh_symmetry")),
                      rots=cm.set_of_mats(kw["rotations"]) if kw.get("rotations") is not None else frozenset())
        return call["gp"], passed


def real_for(cfg, world, apiw):
    crystal = cfg["_crystal"]
    if cfg["level"] == "api":
        gp, passed = apiw.init_mesh(cfg, crystal)
        return gp, passed
    return call_gridpoints(cfg, world, crystal, fit=True), None


def replay_model(ctx, world, apiw, cfgs, states):
    """spec -> code: the machine's final state for every configuration against the real objects."""
    by_key = {json.dumps(strip(c), sort_keys=True): c for c in cfgs}
    n = 0
    worst = 0.0
    for st in states:
        c = dict(st["cfg"])
        key = json.dumps(dict(level=c["level"], len=c["len"], mesh=list(c["mesh"]), sn=list(c["sn"]), sd=c["sd"],
                              gamma=c["gamma"], tr=c["tr"], sym=c["sym"], grp=c["grp"]), sort_keys=True)
        cfg = by_key[key]
        try:
            gp, passed = real_for(cfg, world, apiw)
        except Exception as e:  # the specification expects a grid
            ctx.violation(classify(cfg, None, world) + ":replay:exception",
                          "C09 replay: the real call raised %s" % type(e).__name__, dict(cfg=strip(cfg), err=repr(e)))
            continue
        res, ish, mesh, resid = cm.project(gp, cfg, None)
        worst = max(worst, resid)
        m = list(st["eff"]["mesh"])
        exp = dict(mesh=m, isShift=list(st["isShift"]), map=list(st["map"]), ir=list(st["ir"]),
                   weights=list(st["weights"]))
        got = dict(mesh=mesh, isShift=ish, map=res["map"], ir=res["ir"], weights=res["weights"])
        n += 1
        ctx.count(("replay", key))
        for f in ("mesh", "isShift", "map", "ir", "weights"):
            if exp[f] != got[f]:
                ctx.violation("%s:replay:%s" % (classify(cfg, ish, world, mesh), f),
                              "C09 replay: real %s differs from the specification's for the same configuration" % f,
                              dict(cfg=strip(cfg), field=f, expected=exp[f], observed=got[f], length=cfg.get("_length"),
                                   cell=cfg.get("_label"), boundary_case=cfg.get("_bnd"),
                                   rotations=world.table[cfg["grp"]]))
                break
    ctx.traces += n
    ctx.extra["replayed_model_states"] = n
    ctx.extra["qpoint_rounding_residual_max"] = worst
    return n


# ------------------------------------------------------------------ trace validation
def grid_events(ctx, world):
    rng = ctx.rng
    quick = ctx.quick
    n_rand = 300 if quick else 1400
    maxm = 4 if quick else 5
    events = []
    cfgs = []
    names = world.names
    shifts_all = HALF_SHIFTS * 3 + ODD_HALF + GENERIC
    # directed: low-order groups exchanging axes, equal mesh numbers, unequal half shifts (non-vacuity of
    # the class where a rotation does not map the shifted grid onto itself)
    directed = []
    for c in [x for x in ("ocp", "mcp", "mcp2", "rhp", "sc", "tetab", "bctp") if x in names]:
        cands = [None] + list(range(len(world.subs[c])))
        rng.shuffle(cands)
        for k in cands[: (4 if quick else 20)]:
            for m in ([(2, 2, 2), (2, 2, 1)] if quick else [(2, 2, 2), (2, 2, 1), (3, 3, 3), (1, 2, 2), (4, 4, 2), (3, 3, 1)]):
                (sn, sd) = HALF_SHIFTS[rng.choice([1, 2, 3, 4, 5, 6])]
                directed.append(dict(level="grid", len=False, mesh=list(m), sn=list(sn), sd=sd,
                                     gamma=bool(rng.getrandbits(1)), tr=bool(rng.getrandbits(1)), sym=True,
                                     grp=group_name(c, k), _crystal=c))
    for _ in range(n_rand):
        c = rng.choice(names)
        k = None if rng.random() < 0.45 else rng.randrange(len(world.subs[c]))
        while True:
            m = [rng.randint(1, maxm) for _ in range(3)]
            if rng.random() < 0.5:
                m[1] = m[0]
            if rng.random() < 0.3:
                m[2] = m[0]
            if m[0] * m[1] * m[2] <= (64 if quick else 80):
                break
        (sn, sd) = rng.choice(shifts_all)
        cfgs.append(dict(level="grid", len=False, mesh=m, sn=list(sn), sd=sd, gamma=bool(rng.getrandbits(1)),
                         tr=bool(rng.getrandbits(1)), sym=rng.random() < 0.8, grp=group_name(c, k), _crystal=c,
                         _none_shift=rng.random() < 0.5))
    # length2mesh with rotations that exchange axes of unequal reciprocal length (the alignment rule)
    lens = []
    nprng = np.random.default_rng(ctx.seed + 909)
    for _ in range(60 if quick else 400):
        c = rng.choice(names)
        k = None if rng.random() < 0.5 else rng.randrange(len(world.subs[c]))
        L = np.diag(nprng.uniform(0.8, 2.4, size=3)) @ xtal.random_rotation(nprng) if rng.random() < 0.7 \
            else xtal.triclinic_lattice(nprng, scale=1.5)
        length = float(nprng.uniform(1.0, 6.5))
        vals = length * np.linalg.norm(np.linalg.inv(L), axis=0)
        if np.any(np.abs(vals - np.floor(vals) - 0.5) < 1e-3):
            continue
        base = [int(x) for x in np.rint(vals)]
        if base[0] * base[1] * base[2] > (64 if quick else 100) or max(base) > 5:
            continue
        (sn, sd) = rng.choice(HALF_SHIFTS + GENERIC[:1])
        lens.append(dict(level="grid", len=True, mesh=base, sn=list(sn), sd=sd, gamma=bool(rng.getrandbits(1)),
                         tr=bool(rng.getrandbits(1)), sym=True, grp=group_name(c, k), _crystal=c, _L=L,
                         _length=length))
    for cfg in directed + cfgs + lens:
        c = cfg["_crystal"]
        norots = (cfg["grp"] == "tric") and rng.random() < 0.5  # rotations=None means the identity only
        try:
            fit = rng.random() < 0.6
            gp = call_gridpoints(cfg, world, c, fit=fit, norots=norots)
        except Exception as e:
            ctx.violation(classify(cfg, None, world) + ":trace:exception",
                          "C09: GridPoints raised %s where the specification expects a grid" % type(e).__name__,
                          dict(cfg=strip(cfg), err=repr(e)))
            continue
        # first-zone requirement: fit_in_BZ calls on the exact catalogue lattice
        gram = world.pgs[c]["G"] if (fit and "_L" not in cfg) else None
        ev, resid = make_event(len(events), cfg, c, cfg["grp"] == c, gp, gram=gram)
        events.append(ev)
        ctx.count(("grid", json.dumps(strip(cfg), sort_keys=True)))
    return events


def validate(ctx, world, events, tag):
    """code -> spec: TLC judges the recorded events (chunks of <= 1500 events)."""
    out = []
    chunk = 1500
    for lo in range(0, len(events), chunk):
        evs = events[lo:lo + chunk]
        for e in evs:
            world.rots(e["cfg"]["grp"])
            world.rots(e["crystal"])
        body = "MCEvents == {%s}" % ",\n".join(to_tla(e) for e in evs)
        mc = mc_module("MC_MeshGridTrace", "MeshGridTrace", world, body)
        cfg_text = ("INIT TInit\nNEXT TNext\nCONSTANTS\n Configs = {}\n GroupTable <- MCGroupTable\n Events <- MCEvents\n"
                    " Variant = \"repaired\"\nCHECK_DEADLOCK FALSE\n") + \
            "".join("INVARIANT %s\n" % i for i in IMPL_INVS + CONF_INVS + EVENT_INVS)
        res = ctx.tlc("MC_MeshGridTrace", cfg_text=cfg_text, extra_files={"MC_MeshGridTrace.tla": mc},
                      requirement=False, workers=6, extra_args=("-continue",), keep=True, timeout=2400)
        check_tlc(res)
        for name, tr in res.violations:
            eid = None
            if tr:
                eid = tr[-1][1].get("ev", {}).get("id")
            out.append((name, eid))
        tlcmod.cleanup(res)
    ctx.traces += len(events)
    ctx.extra["events_" + tag] = len(events)
    return out


def report(ctx, world, events, viols, tag):
    byid = {e["id"]: e for e in events}
    drift = {}
    for name, eid in viols:
        e = byid.get(eid)
        cls = classify(e["cfg"], e["isShift"], world, e["mesh"]) if e else "unknown"
        detail = None
        if e:
            detail = dict(invariant=name, cfg=e["cfg"], crystal=e["crystal"], length=e.get("length"),
                          handed_out_q_times_D=(e["bz"]["qv"], e["bz"]["D"]) if e["bz"]["on"] else None,
                          reciprocal_gram=e["bz"]["G"] if e["bz"]["on"] else None,
                          boundary_case=e["bnd"] if e["bnd"]["k"] else None, rotations=world.table[e["cfg"]["grp"]],
                          isShift=e["isShift"], mesh=e["mesh"], grid_mapping_table=e["res"]["map"],
                          ir_grid_points=e["res"]["ir"], weights=e["res"]["weights"], passed=e.get("passed"))
        if name in EVENT_INVS:
            raise tlcmod.MachineryError("malformed event (%s): %s" % (name, json.dumps(e["cfg"]) if e else eid))
        if name.startswith("Impl"):
            ctx.violation("%s:mesh:%s:%s" % (cls, tag, name),
                          "C09 requirement %s fails on the real grid (%s level, class %s)" % (name, tag, cls), detail)
        else:
            drift.setdefault((name, cls), detail)
    # conformance failures without a requirement failure in the same class: reported as violations too when the
    # reduction is weaker/stronger than the specification's on a class the requirement does not separate
    for (name, cls), detail in drift.items():
        if any(v["key"].startswith(cls + ":") for v in ctx.violations) or \
                any((k.get("key_prefix") or k["key"]).startswith(cls + ":") for k in ctx.known_hits):
            ctx.extra.setdefault("conformance_failures_in_violating_classes", []).append("%s:%s" % (name, cls))
            continue
        ctx.extra.setdefault("SPEC-DRIFT", []).append("%s:%s" % (name, cls))
        ctx.violation("%s:mesh:%s:%s" % (cls, tag, name),
                      "C09 conformance %s: the real grid is not the one the specification's machine produces "
                      "(%s level, class %s)" % (name, tag, cls), detail)


# ------------------------------------------------------------------ API level: events and weighted sums
def thermal(ph):
    ph.run_thermal_properties(t_min=0, t_max=600, t_step=150)
    d = ph.get_thermal_properties_dict()
    return np.concatenate([d["free_energy"], d["entropy"], d["heat_capacity"]])


def dos(ph, fmax):
    ph.run_total_dos(sigma=0.05 * fmax, freq_min=0.0, freq_max=1.1 * fmax, freq_pitch=fmax / 40,
                     use_tetrahedron_method=False)
    return np.array(ph.get_total_dos_dict()["total_dos"])


def safe_fractions(freqs, fmax):
    """cutoffs / window edges (fractions of fmax near 1/4, 1/2, 3/4) that no mode frequency touches: a mode
    exactly on a strict threshold would be in or out by rounding noise (single-atom crystals have modes at
    exactly fmax/2)."""
    out = {}
    f = np.abs(np.asarray(freqs)).ravel() / fmax
    for target in (0.25, 0.5, 0.75):
        x = target + 0.0113
        while np.abs(f - x).min() < 1e-4:
            x += 0.0071
        out[target] = x
    return out


def thermal_variants(ph, fmax, unstable, fr):
    """Weighted sums whose mode selection is not 'everything': cutoff inside the spectrum, band selections,
    pretend_real, both evaluation paths (ThermalProperties.run(lang=...)); moment and DOS windows."""
    from phonopy.phonon.thermal_properties import ThermalProperties

    out = {}
    nb = ph._mesh.frequencies.shape[1]
    bands = [None, [[0, nb - 1]], [list(range(1, nb, 2))]]
    cuts = [None] if unstable else [None, fr[0.25] * fmax, fr[0.5] * fmax]
    for cut in cuts:
        for bi, band in enumerate(bands):
            for pretend in ((False, True) if unstable else (False,)):
                for lang in ("C", "Py"):
                    tp = ThermalProperties(ph._mesh, cutoff_frequency=cut, pretend_real=pretend, band_indices=band)
                    tp.temperatures = [0.0, 40.0, 300.0, 900.0]
                    tp.run(lang=lang)
                    t, fe, s_, cv = tp.thermal_properties
                    key = "thermal[cutoff=%s,bands=%d,pretend_real=%s,lang=%s]" % (
                        "default" if cut is None else "%.4f*fmax" % (cut / fmax), bi, pretend, lang)
                    out[key] = np.concatenate([fe, s_, cv, [tp.zero_point_energy]])
                    out[key.replace("thermal[", "modecount[")] = np.array(
                        [float(tp.number_of_integrated_modes), float(tp.number_of_modes)])
    if not unstable:
        for lo, hi in ((fr[0.25], fr[0.75]), (fr[0.5], None), (None, fr[0.5])):
            vals = []
            for order in (1, 2):
                try:
                    ph.run_moment(order=order, freq_min=None if lo is None else lo * fmax,
                                  freq_max=None if hi is None else hi * fmax)
                    vals.append(ph.get_moment())
                except ZeroDivisionError:  # no mode in the window (PhononMoment divides by the mode count):
                    vals.append(np.nan)    # must then be empty with and without mesh symmetry
            out["moments[window=%s..%s]" % (lo and round(lo, 4), hi and round(hi, 4))] = np.array(vals, dtype=float)
        ph.run_total_dos(sigma=0.04 * fmax, freq_min=0.25 * fmax, freq_max=0.6 * fmax, freq_pitch=fmax / 60,
                         use_tetrahedron_method=False)
        out["dos[window=0.25..0.6]"] = np.array(ph.get_total_dos_dict()["total_dos"])
    return out


def moments(ph):
    out = []
    for order in (1, 2, 3):
        ph.run_moment(order=order)
        out.append(ph.get_moment())
    return np.array(out, dtype=float)


def api_events(ctx, world, apiw, events_start):
    rng = ctx.rng
    quick = ctx.quick
    events = []
    margins = []
    for label, ph in apiw.ph.items():
        c = apiw.base[label]
        unstable = label != c
        meshes = [(2, 2, 2), (3, 3, 2), (4, 4, 2), (2, 2, 1), (3, 3, 3), (1, 2, 2), (2, 3, 4)]
        shifts = HALF_SHIFTS + GENERIC[:2] + [ODD_HALF[1]]
        combos = [(m, s, g, t) for m in meshes for s in shifts for g in (True, False) for t in (True, False)]
        rng.shuffle(combos)
        # directed first: unequal half shift on possibly equivalent axes, and a generic shift
        combos = [((2, 2, 2), HALF_SHIFTS[4], True, False), ((2, 2, 1), HALF_SHIFTS[4], True, True),
                  ((2, 2, 2), GENERIC[0], False, True)] + combos
        for (m, (sn, sd), gamma, tr) in combos[: (14 if quick else 40)]:
            base_cfg = dict(level="api", len=False, mesh=list(m), sn=list(sn), sd=sd, gamma=gamma, tr=tr,
                            grp=c, _crystal=c)
            if rng.random() < 0.15 and not is_generic(base_cfg):
                length = rng.choice([3.1, 4.4, 5.3, 6.6])
                base = length_base(world.pgs[c]["G"], 1.7, length)
                if base is not None and base[0] * base[1] * base[2] <= 150:
                    base_cfg.update(len=True, mesh=base, _length=length)
            pair = {}
            fmax = None
            for sym in (True, False):
                cfg = dict(base_cfg, sym=sym)
                try:
                    gp, passed = apiw.init_mesh(cfg, c, run=True, label=label)
                    md = ph.get_mesh_dict()
                    freqs = np.array(md["frequencies"])
                    if fmax is None:
                        fmax = float(np.abs(freqs).max()) or 1.0
                        fr = safe_fractions(freqs, fmax)
                    vals = dict(thermal=thermal(ph))
                    if not unstable:
                        vals.update(moments=moments(ph), dos=dos(ph, fmax))
                    vals.update(thermal_variants(ph, fmax, unstable, fr))
                    pair[sym] = dict(cfg=cfg, gp=gp, freqs=freqs, weights=np.array(md["weights"]), vals=vals)
                except Exception as e:
                    ctx.violation(classify(cfg, None, world) + ":api:exception",
                                  "C09: mesh sampling raised %s where the specification expects a result" % type(e).__name__,
                                  dict(cfg=strip(cfg), err=repr(e)))
                    continue
                ev, resid = make_event(events_start + len(events), cfg, c, True, gp, passed, gram=world.pgs[c]["G"])
                events.append(ev)
                ctx.count(("api", json.dumps(strip(cfg), sort_keys=True)))
            on, off = pair.get(True), pair.get(False)
            if not on or not off:
                continue
            cls = classify(on["cfg"], [int(x) for x in on["gp"]._is_shift], world, [int(x) for x in on["gp"].mesh_numbers])
            for q in sorted(on["vals"]):
                a, b = on["vals"][q], off["vals"][q]
                if a.shape == b.shape and np.array_equal(np.isnan(a), np.isnan(b)):
                    a, b = np.nan_to_num(a), np.nan_to_num(b)
                    scale = max(np.abs(b).max(), 1e-30)
                    err = float(np.abs(a - b).max() / scale)
                else:
                    err = 1.0
                margins.append(err)
                if not (err < 1e-9):
                    ctx.violation("%s:api:%s-on-off" % (cls, q.split("[")[0] + ("-selected" if "[" in q else "")),
                                  "C09: %s with mesh symmetry on differs from the unreduced mesh sum (relative %.3g)" % (q, err),
                                  dict(crystal=label, cfg=strip(on["cfg"]), quantity=q, relative_difference=err,
                                       n_ir=int(len(on["weights"])), n_full=int(len(off["weights"])),
                                       on=on["vals"][q], off=off["vals"][q]))
            # frequencies are constant on the classes of the reduced run (the classes TLC judges)
            gpo = on["gp"]
            mp = np.array(gpo.grid_mapping_table)
            irs = {int(g): k for k, g in enumerate(gpo.ir_grid_points)}
            if len(off["freqs"]) == len(mp):
                f_on_full = np.array([on["freqs"][irs[int(r)]] for r in mp])
                errf = float(np.abs(f_on_full - off["freqs"]).max() / fmax)
                margins.append(errf)
                if not (errf < 1e-8):
                    ctx.violation("%s:api:frequencies-on-classes" % cls,
                                  "C09: frequencies of the full mesh differ from those of the class representatives "
                                  "(relative %.3g)" % errf,
                                  dict(crystal=c, cfg=strip(on["cfg"]), relative_difference=errf))
    # polar crystal with Wang's non-analytical term (not periodic in G): weighted sums on/off
    php = apiw.polar(ctx)
    pcombos = [(m, sh, g, t) for m in [(3, 3, 2), (4, 4, 2), (3, 3, 3), (2, 2, 2), (5, 5, 2)]
               for sh in (HALF_SHIFTS[0], HALF_SHIFTS[6], HALF_SHIFTS[7]) for g in (True, False) for t in (True, False)]
    rng.shuffle(pcombos)
    pcombos = [((3, 3, 2), HALF_SHIFTS[0], True, True), ((4, 4, 2), HALF_SHIFTS[0], False, True)] + pcombos
    npolar = 0
    for (m, (sn, sd), gamma, tr) in pcombos[: (7 if quick else 40)]:
        pair = {}
        fmax = None
        for sym in (True, False):
            cfg = dict(level="api", len=False, mesh=list(m), sn=list(sn), sd=sd, gamma=gamma, tr=tr, sym=sym,
                       grp="wz", _crystal="wz", _label="wz~wang")
            try:
                gp, passed = apiw.init_mesh(cfg, "wz", run=True)
                freqs = np.array(php.get_mesh_dict()["frequencies"])
                if fmax is None:
                    fmax = float(np.abs(freqs).max()) or 1.0
                pair[sym] = dict(cfg=cfg, gp=gp, vals=dict(thermal=thermal(php), moments=moments(php), dos=dos(php, fmax)))
            except Exception as e:
                ctx.violation("regular:api:exception", "C09: mesh sampling with Wang NAC raised %s" % type(e).__name__,
                              dict(cfg=strip(cfg), err=repr(e)))
                continue
            ev, resid = make_event(events_start + len(events), cfg, "wz", True, gp, passed, gram=world.pgs["wz"]["G"])
            events.append(ev)
            ctx.count(("api-wang", json.dumps(strip(cfg), sort_keys=True)))
        if True in pair and False in pair:
            on, off = pair[True], pair[False]
            cls = classify(on["cfg"], [int(x) for x in on["gp"]._is_shift], world, [int(x) for x in on["gp"].mesh_numbers])
            for q in sorted(on["vals"]):
                a, b = on["vals"][q], off["vals"][q]
                err = float(np.abs(a - b).max() / max(np.abs(b).max(), 1e-30)) if a.shape == b.shape else 1.0
                margins.append(err)
                npolar += 1
                if not (err < 1e-9):
                    ctx.violation("%s:api:%s-wang-nac-on-off" % (cls, q),
                                  "C09: %s with Wang NAC (not G-periodic) differs between mesh symmetry on and off "
                                  "(relative %.3g)" % (q, err),
                                  dict(crystal="wz, Wang NAC", cfg=strip(on["cfg"]), quantity=q, relative_difference=err,
                                       qpoints_on=np.array(on["gp"].qpoints).tolist()))
    ctx.extra["wang_nac_on_off_comparisons"] = npolar
    # length-specified meshes across rounding boundaries on strained cells, mesh symmetry on and off
    nb = 0
    for cfg in apiw.boundary_cfgs(ctx):
        c = cfg["_crystal"]
        try:
            gp, passed = apiw.init_mesh(cfg, c)
        except Exception as e:
            ctx.violation("regular:api:exception",
                          "C09: init_mesh raised %s where the specification expects a grid" % type(e).__name__,
                          dict(cfg=strip(cfg), err=repr(e)))
            continue
        ev, resid = make_event(events_start + len(events), cfg, c, True, gp, passed)
        ev["length"] = "%.9f" % cfg["_length"]
        events.append(ev)
        nb += 1
        ctx.count(("api-boundary", cfg["_label"], json.dumps(strip(cfg), sort_keys=True)))
    ctx.extra["events_boundary_length"] = nb
    ctx.extra["weighted_sum_comparisons"] = len(margins)
    ctx.extra["weighted_sum_max_relative_difference_accepted"] = max([m for m in margins if m < 1e-8], default=0.0)
    return events


# ------------------------------------------------------------------ run
def run(ctx):
    quick = ctx.quick
    ctx.rule = ("one case = one sampling-mesh construction (crystal/point group or subgroup, mesh numbers or length, "
                "shift, gamma-centre, time reversal, mesh symmetry, GridPoints or init_mesh level); distinct "
                "configurations are counted; the weighted-sum step counts (crystal, configuration) pairs on/off")
    names = ["sc", "hcp", "wz", "tetab", "tric", "fccp", "rhp", "ocp", "mcp", "mcp2", "bctp"] if quick else cm.ALL_NAMES
    world = World(ctx, names)
    api_crystals = ["hcp", "ocp", "mcp2"] if quick else ["sc", "hcp", "wz", "tetab", "tric", "fccp", "rhp", "ocp",
                                                         "mcp", "mcp2", "bctp", "ortho", "cscl"]
    apiw = ApiWorld(ctx, api_crystals, world)

    # 2. model run + replay ---------------------------------------------------------
    cfgs = model_configs(ctx, world, api_crystals, apiw)
    res = run_model(ctx, world, cfgs)
    model_viol = sorted(set(n for n, _ in res.violations))
    for name, tr in res.violations:
        st = tr[-1][1] if tr else {}
        ctx.violation("model:" + name, "C09 specification: the machine of MeshGrid.tla violates %s" % name,
                      dict(invariant=name, cfg=st.get("cfg"), state={k: st.get(k) for k in ("eff", "isShift", "map")}))
    cov = {a: res.coverage.get(a, (0, 0))[1] for a in ACTIONS}
    if not cov["Reduce"]:  # TLC names the action after the operator that contains the primed variables
        mm = re.search(r"^<ReduceWith line [^>]*>: (\d+):(\d+)", res.stdout, re.M)
        cov["Reduce"] = int(mm.group(2)) if mm else 0
    ctx.extra["action_coverage"] = cov
    ctx.extra["every_action_fired"] = all(v > 0 for v in cov.values())
    if not ctx.extra["every_action_fired"]:
        raise tlcmod.MachineryError("an action of MeshGrid never fired: %s" % cov)
    ctx.extra["model_configurations"] = len(cfgs)
    states = done_states(res.dump_path)
    tlcmod.cleanup(res)
    if len(states) != len({json.dumps(strip(c), sort_keys=True) for c in cfgs}):
        raise tlcmod.MachineryError("model run: %d final states for %d configurations" % (len(states), len(cfgs)))
    replay_model(ctx, world, apiw, cfgs, states)
    ctx.sample(dict(kind="model final state", cfg=states[0]["cfg"], eff=states[0]["eff"], isShift=states[0]["isShift"],
                    map=states[0]["map"], ir=states[0]["ir"], weights=states[0]["weights"]))

    # 3. trace validation -------------------------------------------------------------
    gev = grid_events(ctx, world)
    aev = api_events(ctx, world, apiw, len(gev))
    events = gev + aev
    viols = validate(ctx, world, events, "all")
    report(ctx, world, gev, [(n, i) for n, i in viols if i is not None and i < len(gev)], "grid")
    report(ctx, world, aev, [(n, i) for n, i in viols if i is not None and i >= len(gev)], "api")
    if any(i is None for _, i in viols):
        raise tlcmod.MachineryError("a TLC violation without a parsable event: %s" % sorted(set(n for n, i in viols if i is None)))
    ctx.extra["events_grid"] = len(gev)
    ctx.extra["events_api"] = len(aev)
    ctx.extra["violated_invariants"] = sorted(set(n for n, _ in viols))
    ctx.sample(dict(kind="grid event", **{k: gev[0][k] for k in ("cfg", "crystal", "isShift", "mesh")},
                    map=gev[0]["res"]["map"], weights=gev[0]["res"]["weights"]))
    if aev:
        ctx.sample(dict(kind="api event", **{k: aev[0][k] for k in ("cfg", "crystal", "isShift", "mesh")},
                        weights=aev[0]["res"]["weights"]))

    # 5. self-checks of the binding ---------------------------------------------------
    selfcheck(ctx, world, gev)
    ctx.assumptions += [
        "the real-valued parts (eigenfrequencies, exp/log in the thermal sums, Gaussian smearing) are evaluated by "
        "phonopy on both sides of the on/off comparison; the specification decides the grids, classes and weights",
        "frequencies are constant on exact orbits because the spring-model force constants obey the full space group "
        "(SpringsDump invariants, checked by TLC)",
        "shifts are rationals with denominators 1,2,3,4,5,8 (2*shift either an integer or clearly not one)",
    ]


def selfcheck(ctx, world, gev):
    """A corrupted event must be rejected; the pinned-variant machine must reproduce the pinned tree's
    defects on the specification itself (evidence only)."""
    import copy

    # pick a reduced, accepted-looking event and corrupt one map entry / one weight
    cand = [e for e in gev if len(e["res"]["ir"]) < len(e["res"]["map"]) and len(e["res"]["ir"]) >= 2
            and not is_generic(e["cfg"]) and classify(e["cfg"], e["isShift"], world, e["mesh"]) == "regular"]
    if not cand:
        raise tlcmod.MachineryError("no reduced event to corrupt")
    e1 = copy.deepcopy(cand[0])
    # send a point of the second class to the first representative
    r0, r1 = e1["res"]["ir"][0], e1["res"]["ir"][1]
    e1["res"]["map"][r1] = r0
    e1["id"] = 0
    e2 = copy.deepcopy(cand[-1])
    e2["res"]["weights"][0] += 1
    e2["id"] = 1
    for e in (e1, e2):
        world.rots(e["cfg"]["grp"])
        world.rots(e["crystal"])
    body = "MCEvents == {%s}" % ",\n".join(to_tla(e) for e in (e1, e2))
    mc = mc_module("MC_MeshGridTrace", "MeshGridTrace", world, body)
    cfg_text = ("INIT TInit\nNEXT TNext\nCONSTANTS\n Configs = {}\n GroupTable <- MCGroupTable\n Events <- MCEvents\n"
                " Variant = \"repaired\"\nCHECK_DEADLOCK FALSE\n") + \
        "".join("INVARIANT %s\n" % i for i in IMPL_INVS + CONF_INVS)
    res = tlcmod.run("MC_MeshGridTrace", cfg_text=cfg_text, extra_files={"MC_MeshGridTrace.tla": mc}, workers=2,
                     extra_args=("-continue",), keep=True, timeout=600)
    check_tlc(res)
    got = {}
    for name, tr in res.violations:
        eid = tr[-1][1].get("ev", {}).get("id") if tr else None
        got.setdefault(eid, set()).add(name)
    tlcmod.cleanup(res)
    ctx.extra["selfcheck_corrupted_map_rejected_by"] = sorted(got.get(0, []))
    ctx.extra["selfcheck_corrupted_weight_rejected_by"] = sorted(got.get(1, []))
    if not any(n.startswith("Impl") for n in got.get(0, [])) or not any(n.startswith("Impl") for n in got.get(1, [])):
        raise tlcmod.MachineryError("corrupted events were not rejected by a requirement invariant: %s" % got)
    if not ctx.quick:
        # the pinned code on the specification: TLC must find the generic-shift defects by itself
        cfgs = []
        for c in ("sc", "hcp"):
            for m in [(2, 2, 2), (1, 1, 2)]:
                for gamma, tr in itertools.product((True, False), repeat=2):
                    cfgs.append(dict(level="grid", len=False, mesh=list(m), sn=[1, 2, 3], sd=4, gamma=gamma, tr=tr,
                                     sym=True, grp=c))
        for c in cfgs:
            world.rots(c["grp"])
        body = "MCConfigs == {%s}" % ",\n".join(cfg_tla(c) for c in cfgs)
        mc = mc_module("MC_MeshGrid", "MeshGrid", world, body)
        cfg_text = ("INIT Init\nNEXT Next\nCONSTANTS\n Configs <- MCConfigs\n GroupTable <- MCGroupTable\n"
                    " Variant = \"pinned\"\nCHECK_DEADLOCK FALSE\n") + "".join("INVARIANT %s\n" % i for i in MODEL_INVS)
        res = tlcmod.run("MC_MeshGrid", cfg_text=cfg_text, extra_files={"MC_MeshGrid.tla": mc}, workers=2,
                         extra_args=("-continue",), keep=True, timeout=600)
        ctx.extra["pinned_variant_model_violations"] = sorted(set(n for n, _ in res.violations))
        tlcmod.cleanup(res)
