"""C18 - command-line tools are faithful front ends of the library.

Specs: spec/CLI.tla (+ generated spec/CLITable.tla) - tags/options -> settings, with the
requirement RoutesEquivalent / OptionOverridesTag / MixedIndependent; spec/CLITrace.tla -
trace validation of the real PhonopyConfParser; spec/CLIWorkflow.tla (+Trace) - the workflow
of phonopy_script.main for both commands (inputs present -> library calls -> output files),
replayed on the real commands and on the library.  See DESIGN.md section 5/C18.
"""
from __future__ import annotations

import os
import random

from harness import bootstrap  # noqa: F401
from harness import c18_table as T
from harness import tlc as tlcmod
from harness.tla_values import to_tla

VERIF = os.path.dirname(os.path.dirname(os.path.dirname(os.path.abspath(__file__))))

JENV = {"_JAVA_OPTIONS": "-XX:ParallelGCThreads=2 -XX:CICompilerCount=2"}  # modest JVM on a shared machine

IMPL = ["ImplRoutesEquivalent", "ImplOptionOverridesTag", "ImplMixedIndependent", "ImplTagSemantics",
        "ImplDefaults"]

CFG_TRACE = """INIT TInit
NEXT TNext
CONSTANTS
 Events <- MCEvents
 Cases = {}
 TwoPass = TRUE
CHECK_DEADLOCK FALSE
INVARIANT ImplRoutesEquivalent
INVARIANT ImplOptionOverridesTag
INVARIANT ImplMixedIndependent
INVARIANT ImplTagSemantics
INVARIANT ImplDefaults
INVARIANT ConformsFlow
INVARIANT InvKnownAttributes
"""

CFG_MODEL = """INIT Init
NEXT Next
CONSTANTS
 Cases <- MCCases
 TwoPass = %s
CHECK_DEADLOCK FALSE
INVARIANT InvRoutesEquivalent
INVARIANT InvOptionOverridesTag
INVARIANT InvMixedIndependent
INVARIANT InvMachineIsRun
INVARIANT InvKnownAttributes
INVARIANT InvCommandDefaults
"""


# ----------------------------------------------------------------------------------------
def table_self_check(ctx):
    """The committed table module is what the python table generates, and the table agrees
    with the documentation, argparse and the settings defaults of the tree under test."""
    text = T.emit()
    path = os.path.join(VERIF, "spec", "CLITable.tla")
    with open(path) as f:
        committed = f.read()
    if committed != text:
        raise tlcmod.MachineryError("spec/CLITable.tla is not what harness/c18_table.py emits "
                                    "(run: python -m harness.c18_table)")
    problems, stats = T.drift(bootstrap.REPO)
    ctx.extra["table"] = dict(rows=len(T.ROWS), rules=len(T.RULES),
                              examples=sum(len(r["examples"]) for r in T.ROWS), **stats)
    ctx.extra["doc_deviations"] = T.DOC_DEVIATIONS
    for p in problems:
        # a drift between the documented table and the tree is a finding about the front end
        ctx.violation("table:drift:" + p.split(" ")[0] + ":" + (p.split("'")[1] if "'" in p else p[:40]),
                      "C18 tag/option table differs from the tree: " + p, dict(problem=p))


def strip(e):
    return dict(id=e["id"], cmd=e["cmd"], kind=e["kind"], items=e["items"],
                runs=[dict(F=r["F"], O=r["O"], res=r["res"]) for r in e["runs"]])


def parser_level(ctx):
    from harness import c18_parser as P

    rng = random.Random(ctx.seed)
    evs = []
    for cmd in T.CMDS:
        evs.append(P.empty_event(cmd))
        evs += P.single_events(cmd)
        evs += P.override_events(cmd)
    pairs, n_inter, n_rest = P.pair_items(rng, ctx.quick)
    evs += P.pair_events(pairs, rng)
    evs += P.triple_events(P.triple_items(rng, ctx.quick), rng)
    byid = {e["id"]: e for e in evs}
    nruns = sum(len(e["runs"]) for e in evs)
    ctx.traces += nruns
    for e in evs:
        ctx.count(e["id"], n=len(e["runs"]))
    ctx.extra["parser_events"] = dict(events=len(evs), runs_of_real_parser=nruns,
                                      interacting_row_pairs=n_inter, other_row_pairs=n_rest,
                                      kinds={k: sum(1 for e in evs if e["kind"] == k)
                                             for k in ("empty", "single", "override", "pair", "triple")})
    ctx.sample(dict(event=byid["p:load:band:p+mesh:m3"]) if "p:load:band:p+mesh:m3" in byid else strip(evs[5]))

    # ---- model level: the machine over the same cases, both flows -------------------------
    cases = []
    for e in evs:
        if e["kind"] == "pair" and ctx.quick and not all(it["k"] in T.INTERACTING for it in e["items"]):
            continue
        for r in e["runs"]:
            cases.append(dict(id=e["id"], cmd=e["cmd"], kind=e["kind"], F=r["F"], O=r["O"]))

    def mc_of(cs):
        return "---- MODULE MC_CLI ----\nEXTENDS CLI\nMCCases == {%s}\n====\n" % ",\n".join(to_tla(c) for c in cs)

    res = ctx.tlc("MC_CLI", cfg_text=CFG_MODEL % "FALSE", extra_files={"MC_CLI.tla": mc_of(cases)}, requirement=True,
                  what="C18 requirement fails on the documented (merged) flow of the specification", workers=4, env=JENV)
    ctx.extra["model_merged_flow"] = dict(cases=len(cases), states=res.distinct)
    # the model of PhonopyConfParser as built (file pass, flush, option pass): TLC finds the configurations
    # whose settings depend on the route; run on the pairs with a combination rule (cheap), with coverage
    core = {"mesh", "band", "pdos", "qpoints", "qpoints_format", "moment", "moment_order", "read_qpoints"}
    small = [c for c in cases if c["kind"] in ("pair", "triple") and {it["k"] for it in c["F"] + c["O"]} <= core]
    res2 = ctx.tlc("MC_CLI", cfg_text=CFG_MODEL % "TRUE", extra_files={"MC_CLI.tla": mc_of(small)}, requirement=False,
                   workers=4, env=JENV, coverage=True, extra_args=("-continue",))
    uncovered = [a for a in ("ReadFile", "ParseConf", "SetSettings", "Flush", "ReadOptions")
                 if res2.coverage.get(a, (0, 0))[1] == 0]
    if uncovered:
        raise tlcmod.MachineryError("CLI.tla actions never fired: %s" % uncovered)
    predicted = sorted({tr[-1][1]["case"]["id"] for n, tr in res2.violations if tr and n == "InvMixedIndependent"})
    ctx.extra["model_two_pass_flow"] = dict(
        note="TLC on the model of PhonopyConfParser as built (file pass, flush, option pass): configurations "
             "for which InvMixedIndependent fails", cases=len(small), violated=sorted({n for n, _ in res2.violations}),
        route_dependent_configurations=predicted, actions_fired={k: v[1] for k, v in res2.coverage.items()})

    # ---- code -> spec: TLC judges the logged results ---------------------------------------
    chunk = 1500
    found = {}  # invariant -> set of event ids
    drift = set()
    for i in range(0, len(evs), chunk):
        part = evs[i:i + chunk]
        mc = "---- MODULE MC_CLITrace ----\nEXTENDS CLITrace\nMCEvents == {%s}\n====\n" % ",\n".join(
            to_tla(strip(e)) for e in part)
        res = ctx.tlc("MC_CLITrace", cfg_text=CFG_TRACE, extra_files={"MC_CLITrace.tla": mc}, requirement=False,
                      extra_args=("-continue",), workers=4, env=JENV)
        for name, tr in res.violations:
            eid = tr[-1][1].get("ev", {}).get("id") if tr else None
            if eid is None:
                raise tlcmod.MachineryError("violation of %s without a parsable trace" % name)
            if name.startswith("Conforms"):
                drift.add(eid)
            elif name.startswith("Impl"):
                found.setdefault(name, set()).add(eid)
            else:
                ctx.violation("tlc:CLITrace:" + name, "TLC: %s violated in CLITrace" % name, dict(event=byid[eid]))
    report_parser_violations(ctx, found, byid)
    impl_ids = set().union(*found.values()) if found else set()
    only_drift = sorted(drift - impl_ids)
    ctx.extra["parser_conformance"] = dict(
        events_not_reproduced_by_the_machine=len(drift), of_which_requirement_intact=len(only_drift))
    if only_drift:
        ctx.extra["SPEC-DRIFT"] = only_drift[:20]
        print("SPEC-DRIFT C18: %d events differ from CLI.tla's machine with the requirement intact, e.g. %s"
              % (len(only_drift), only_drift[:3]))


def _pub(e):
    return dict(id=e["id"], command="phonopy-load" if e["cmd"] == "load" else "phonopy",
                runs=[dict(conf_file=r["lines"], argv=r["argv"], result=r["res"]) for r in e["runs"]])


def report_parser_violations(ctx, found, byid):
    """One violation per failing class: (invariant, rows [, example]) - commands merged."""
    single_bad = set()
    for name, ids in found.items():
        for eid in ids:
            e = byid[eid]
            if e["kind"] == "single":
                single_bad.add((name, (e["items"][0]["k"], e["items"][0]["e"])))
    pair_bad = {(name, frozenset(it["k"] for it in byid[eid]["items"]))
                for name, ids in found.items() for eid in ids if byid[eid]["kind"] == "pair"}
    groups = {}
    for name, ids in found.items():
        for eid in sorted(ids):
            e = byid[eid]
            items = [(it["k"], it["e"]) for it in e["items"]]
            if e["kind"] in ("pair", "triple") and any((name, it) in single_bad for it in items):
                continue  # already reported by the single-tag case
            if e["kind"] == "triple" and any((name, frozenset(k for k, _ in pr)) in pair_bad
                                             for pr in ((items[0], items[1]), (items[0], items[2]), (items[1], items[2]))):
                continue  # already reported by a pair
            if e["kind"] == "single":
                key = "parser:%s:%s:%s" % (name, items[0][0], items[0][1])
            elif e["kind"] == "override":
                key = "parser:%s:%s:%s>%s" % (name, items[0][0], items[1][1], items[0][1])
            elif e["kind"] in ("pair", "triple"):
                key = "parser:%s:%s" % (name, "+".join(k for k, _ in items))
            else:
                key = "parser:%s:%s" % (name, e["kind"])
            groups.setdefault((name, key), []).append(e)
    what = {
        "ImplRoutesEquivalent": "a tag given in the configuration file and its command-line option give different settings",
        "ImplOptionOverridesTag": "option given together with the same tag in the file does not equal the option alone",
        "ImplMixedIndependent": "compatible tags give different settings when split between file and options",
        "ImplTagSemantics": "tag does not have the effect on the settings that the documentation (table) records",
        "ImplDefaults": "defaults of the command differ from the documented ones",
    }
    for (name, key), es in sorted(groups.items()):
        ctx.violation(key, "C18 %s: %s [%s]" % (name, what[name], key.split(":", 2)[2]),
                      dict(invariant=name, witnesses=[_pub(e) for e in es[:4]]))


def run(ctx):
    ctx.rule = ("parser level: every (command, configuration of one or two tag=value items, way of giving it: "
                "file / options / split / both) is one case, a case is non-trivial when distinct; "
                "workflow level: every (command, calculator, crystal, step of the workflow with its inputs) is one case")
    part = os.environ.get("C18_PART", "all")  # debugging aid: parser | workflow
    table_self_check(ctx)
    if part in ("all", "parser"):
        parser_level(ctx)
    if part in ("all", "workflow"):
        from harness import c18_workflow as W
        W.workflow_level(ctx)
