"""C07 - force-constant symmetrisers are projections; compact and full layouts agree.

Spec: spec/Symmetrize.tla (step machine over exact rational arrays + the
requirement from the definitions), spec/SymmetrizeMC.tla (abstract systems,
exhaustive / complete-by-linearity input spaces), spec/SymmetrizeTrace.tla
(conformance of recorded real executions), spec/SymSession.tla (histories of
API calls with a full-layout twin, replayed on a real Phonopy object).
See DESIGN.md section 5/C07.
"""
from __future__ import annotations

import os
import time

import numpy as np

from harness import bootstrap  # noqa: F401
from harness import c07_real as R
from harness import tlc as tlcmod
from harness.tla_values import to_tla

WORKERS = int(os.environ.get("C07_WORKERS", "6"))

IMPL_INVS = ["ImplExact", "ImplBitExact", "ImplTables", "ImplImposesFull", "ImplFixesFull", "ImplKeepsPeriodic",
             "ImplIdempotent", "ImplImposesCompact", "ImplFixesCompact", "ImplCompactEqFull", "ImplExpandIsDefinition",
             "ImplImposesSG", "ImplFixesSG", "ImplSGKeeps", "ImplSGKeepsPermSym", "ImplSGApiEqDirect", "ImplTransposeIsTranspose", "ImplTransposeInvolution",
             "ImplDriftUnchanged", "ImplDriftDisplayed", "ImplCompactFullCompact", "ImplToCompactIsDefinition", "ImplFullCompactFull"]
CONF_INVS = ["ConformsOut", "ConformsFullSym", "ConformsDriftDisplayed"]
SELF_INVS = ["InvValidSystem", "InvValidOps", "InvArithExact", "InvAnnounced"]
MODEL_INVS = ["InvImposesFull", "InvFixesFull", "InvKeepsPeriodic", "InvImposesCompact", "InvFixesCompact",
              "InvImposesSG", "InvFixesSG", "InvSGKeeps", "InvSGKeepsPermSym", "InvIdempotent", "InvCompactEqFull", "InvPyEqC",
              "InvTransposeIsTranspose", "InvTransposeInvolution", "InvDriftUnchanged", "InvDriftDisplayed", "InvExpandIsDefinition",
              "InvCompactFullCompact", "InvToCompactIsDefinition", "InvFullCompactFull"]
INFO_INVS = ["InfoIsOrthogonalProjector"]


def cfg_text(init, nxt, systems, cases, variant, invs, alias="Alias"):
    return ("INIT %s\nNEXT %s\nCONSTANTS\n Systems <- %s\n Cases <- %s\n Variant = \"%s\"\nCHECK_DEADLOCK FALSE\nALIAS %s\n"
            % (init, nxt, systems, cases, variant, alias)
            + "INVARIANT TypeOK\n" + "".join("INVARIANT %s\n" % i for i in invs))


def verdict_names(res):
    """All requirement names found violated: invariant names TLC reported plus every name in the
    `verdict` of a reported state (TLC reports only the first violated invariant of a state)."""
    names = {}
    for inv, tr in res.violations:
        last = tr[-1][1] if tr else {}
        vs = set(last.get("verdict", ()) or ())
        if not vs:
            vs = {inv}
        for v in vs:
            names.setdefault(v, last)
    return names


# ---------------------------------------------------------------------------
# recorded executions
# ---------------------------------------------------------------------------
def lit(x):
    return R.arr_lit(np.asarray(x))


def gen_events(ctx, rs, nprng, scale):
    """Cases for one real system: (route, level, x, flags)."""
    ns, npp = rs.ns, rs.np_
    quick = ctx.quick
    levels = [1, 2] if quick or ns > 4 else [1, 2, 3]
    cases = []

    def add(route, level, x, **fl):
        cases.append(dict(route=route, level=level, x=np.asarray(x, dtype=np.int64), **fl))

    # space-group inputs are arrays in covariant lattice components (integers): arbitrary, space-group
    # invariant (group mean of an arbitrary one), permutation/translation symmetric only, and obeying everything
    # (like a spring model)
    def unit(shape, pos, val=1):
        a = np.zeros(shape, dtype=np.int64)
        a.ravel()[pos] = val
        return a

    cshape, fshape = (npp, ns, 3, 3), (ns, ns, 3, 3)
    if rs.ops is not None:  # space-group systems: only the space-group route (the others do not see the lattice)
        fd = [nprng.integers(-2, 3, size=fshape) for _ in range(2 if quick else 4)]
        fb = [unit(fshape, p) for p in sorted(nprng.choice(int(np.prod(fshape)), size=2 if quick else 6, replace=False))]
        for x in fd + fb:
            add("sg", 1, x)
        for x in fd:
            add("sg", 1, rs.sg_mean(x), sym=True)
            add("sg", 1, rs.proj_def(x))
            add("sg", 1, rs.sg_mean(rs.proj_def(x)), sym=True)
        if rs.orc is not None:  # the exact spring-model force constants of the catalogue crystal
            add("sg", 1, rs.spring_fc(), sym=True, spring=True)
        return cases
    nbc = min(int(np.prod(cshape)), int((12 if quick else 72) * scale))
    nbf = min(int(np.prod(fshape)), int((8 if quick else 48) * scale))
    cb = [unit(cshape, p) for p in sorted(nprng.choice(int(np.prod(cshape)), size=nbc, replace=False))]
    fb = [unit(fshape, p) for p in sorted(nprng.choice(int(np.prod(fshape)), size=nbf, replace=False))]
    nd = 3 if quick else 8
    cd = [nprng.integers(-2, 3, size=cshape) for _ in range(nd)]
    fd = [nprng.integers(-2, 3, size=fshape) for _ in range(nd)]
    # compact layout
    for k, x in enumerate(cb + cd):
        add("compact", 1, x)
        if k % 3 == 0 or k >= len(cb):
            for lv in levels[1:]:
                add("compact", lv, x)
        add("transpose", 1, x)
    for x in cd:
        if npp != ns:  # with one primitive cell the array is square and phonopy takes its full-layout branch
            add("drift", 1, x)
        add("expand", 1, x)
    for x in cb[:4]:
        add("expand", 1, x)
    for x in cd + cb[:3]:  # symmetric periodic inputs
        s = rs.proj_def(rs.full_of(x))[rs.p2s]
        for lv in levels:
            add("compact", lv, s, sym=True)
    # full layout
    for k, x in enumerate(fb + fd):
        add("full", 1, x)
        if k % 3 == 0 or k >= len(fb):
            for lv in levels[1:]:
                add("full", lv, x)
        if k % 2 == 0:
            add("py", 1 + (k % len(levels)), x)
    for x in cd + cb[:3]:  # periodic full inputs
        f = rs.full_of(x)
        add("full", 1, f, periodic=True)
        add("tocompact", 1, f, periodic=True)
    for x in fd[:2]:
        add("tocompact", 1, x)
    for x in fd + fb[:3]:  # symmetric inputs
        s = rs.proj_def(x)
        for lv in levels:
            add("full", lv, s, sym=True)
        add("py", levels[-1], s, sym=True)
    return cases


def record(ctx):
    nprng = np.random.default_rng(ctx.seed + 7)
    systems, events = {}, []
    worst = 0.0
    for spec in R.SPECS:
        if ctx.quick and spec["tier"] != "quick":
            continue
        rs = R.RealSystem(spec, nprng)
        systems[rs.name] = rs
        scale = 1.0 if rs.ns <= 4 else 0.4
        for k, c in enumerate(gen_events(ctx, rs, nprng, scale)):
            ev = dict(id=len(events), sys=rs.name, route=c["route"], level=c["level"], x=lit(c["x"]),
                      sym=bool(c.get("sym", False)), periodic=bool(c.get("periodic", False)),
                      spring=bool(c.get("spring", False)))
            try:
                obs, resid = R.execute(rs, c["route"], c["level"], c["x"],
                                         via_api=(k % 2 == 0 and not (c["route"] == "compact" and rs.np_ == rs.ns)))
            except Exception as e:  # phonopy raised where the specification expects a result
                ctx.violation("symmetrize:raised:%s" % c["route"],
                              "phonopy raised %s in route %s" % (type(e).__name__, c["route"]),
                              dict(system=rs.name, route=c["route"], level=c["level"], x=c["x"].tolist(), error=repr(e)))
                continue
            worst = max(worst, resid)
            ev["obs"] = obs
            events.append(ev)
            ctx.count((rs.name, c["route"], c["level"], ev["x"]["den"], tuple(ev["x"]["a"])))
    ctx.traces += len(events)
    ctx.extra["projection_worst_residual"] = worst
    ctx.extra["projection_tolerance"] = R.TOL
    return systems, events


MC_TRACE = """---- MODULE MC_SymmetrizeTrace ----
EXTENDS SymmetrizeTrace
MCSystems == %s
MCEvents == {%s}
Alias == [id |-> cs.id, sys |-> cs.sys, route |-> cs.route, level |-> cs.level, pc |-> pc, verdict |-> verdict]
====
"""


def run_trace(ctx, systems, events, variant):
    """Validate the recorded executions against the step machine of the given variant.
    -> dict name -> witness event."""
    found = {}
    by_id = {e["id"]: e for e in events}
    # chunks of <= 700 events, each a deterministic mixture of all systems and routes
    order = list(events)
    if len(order) > 700:
        import random
        random.Random(12345).shuffle(order)
    chunks = [order[i:i + 700] for i in range(0, len(order), 700)]
    if len(order) <= 1500:
        chunks = [order]
    cov = {}
    seen_violation = False
    for chunk in chunks:
        used = sorted(set(e["sys"] for e in chunk))
        sysrec = {k: systems[k].record() for k in used}
        mc = MC_TRACE % (to_tla(sysrec), ",\n".join(to_tla(e) for e in chunk))
        # the first chunk enumerates every violated requirement (-continue: TLC reconstructs a trace per
        # failing case); once something failed, later chunks stop at their first violation
        res = ctx.tlc("MC_SymmetrizeTrace",
                      cfg_text=cfg_text("Init", "TNext", "MCSystems", "MCEvents", variant,
                                        IMPL_INVS + CONF_INVS + SELF_INVS),
                      extra_files={"MC_SymmetrizeTrace.tla": mc}, requirement=False, workers=WORKERS,
                      extra_args=() if seen_violation else ("-continue",),
                      coverage=(not ctx.quick and len(events) > 600 and chunk is chunks[0]), keep=True, timeout=3000)
        seen_violation = seen_violation or bool(res.violated)
        for k, v in res.coverage.items():
            cov[k] = cov.get(k, 0) + v[1]
        for name, st in verdict_names(res).items():
            if name not in found and "id" in st:
                found[name] = by_id.get(st["id"])
            elif name not in found:
                found[name] = None
        tlcmod.cleanup(res)
    return found, cov


def witness(ev, systems):
    if ev is None:
        return None
    rs = systems[ev["sys"]]
    return dict(system=ev["sys"], spec={k: v for k, v in rs.spec.items()}, route=ev["route"], level=ev["level"],
                x_den=ev["x"]["den"], x_flat=ev["x"]["a"], shape=[rs.np_ if ev["route"] in ("compact", "transpose", "drift", "expand") else rs.ns, rs.ns, 3, 3],
                observed={k: (v if not (isinstance(v, dict) and len(v.get("a", ())) > 40) else dict(den=v["den"], a_head=v["a"][:40]))
                          for k, v in ev["obs"].items()})


# ---------------------------------------------------------------------------
# model checking on abstract systems
# ---------------------------------------------------------------------------
MC_MODEL = """---- MODULE MC_SymmetrizeModel ----
EXTENDS SymmetrizeMC
MCCases == %s
Alias == IF pc = "judged"
           THEN [sys |-> cs.sys, route |-> cs.route, level |-> cs.level, prep |-> cs.prep, x |-> cs.x, x0 |-> x0, fc |-> fc,
                 pc |-> pc, verdict |-> verdict]
           ELSE [pc |-> pc]
====
"""


def run_model(ctx, variant):
    sets = ["CasesQuick(0)"] if ctx.quick else ["CasesQuick(0)", "CasesExhaustive(0)", "CasesLinear(0)"]
    any_violation = False
    for cases in sets:
        # On a defective transcription thousands of cases fail and TLC reconstructs a trace for each:
        # the small set enumerates every violated requirement (-continue); the big sets then stop at the first.
        cont = ("-continue",) if not any_violation else ()
        res = ctx.tlc("MC_SymmetrizeModel",
                      cfg_text=cfg_text("Init", "Next", "MCSystems", "MCCases", variant, MODEL_INVS + SELF_INVS + INFO_INVS),
                      extra_files={"MC_SymmetrizeModel.tla": MC_MODEL % cases}, requirement=False, workers=WORKERS,
                      extra_args=cont, coverage=(not ctx.quick and cases == sets[0]), keep=True, timeout=3000)
        any_violation = any_violation or bool(res.violated)
        names = verdict_names(res)
        if cases == sets[0] and not ctx.quick:
            ctx.extra["model_action_coverage"] = {k: v[1] for k, v in res.coverage.items()}
            never = [k for k, v in res.coverage.items() if k.startswith("A") and v[1] == 0 and k != "ASGAverage"]
            if never:
                raise tlcmod.MachineryError("actions never taken in the model run: %s" % never)
        for name, st in names.items():
            det = dict(variant=variant, cases=cases, invariant=name,
                       witness={k: st.get(k) for k in ("sys", "route", "level", "prep", "x", "x0", "fc", "verdict")})
            if name in ("ValidSystem", "ArithExact", "Announced", "InvValidSystem", "InvArithExact", "InvAnnounced"):
                raise tlcmod.MachineryError("model self-check failed: %s %s" % (name, det))
            if name in ("IsOrthogonalProjector", "InfoIsOrthogonalProjector"):
                ctx.extra["SPEC-DRIFT-model"] = det
                print("SPEC-DRIFT C07: full routine is not the orthogonal projector (requirement intact)")
                continue
            key = name if name.startswith("Inv") else "Inv" + name
            ctx.violation("tlc:Symmetrize:" + key,
                          "TLC: %s violated by the transcription of the routines as implemented (variant %s)" % (key, variant),
                          det)
        tlcmod.cleanup(res)


# ---------------------------------------------------------------------------
# histories of API calls: model checking + replay of TLC behaviours on a real object
# ---------------------------------------------------------------------------
MC_SESSION = """---- MODULE MC_SymSession ----
EXTENDS SymSession
MCSystems == %s
MCStarts == {%s}
Alias == [sys |-> st.sys, layout |-> layout, hist |-> hist, x |-> st.x, start |-> st.layout,
          stands_ok |-> SameArr(Stands, twin)]
====
"""

SESSION_CFG = ("INIT SInit\nNEXT SNext\nCONSTANTS\n Systems <- MCSystems\n Starts <- MCStarts\n Variant = \"%s\"\n"
               " MaxLen = %d\n MaxSym = 2\nCHECK_DEADLOCK FALSE\n")
SESSION_SYSTEMS = ["ab112", "sc122", "sc113", "ab111", "bccI", "naclF"]


def session_starts(ctx, systems):
    nprng = np.random.default_rng(ctx.seed + 23)
    starts = []
    for name in SESSION_SYSTEMS:
        rs = systems.get(name)
        if rs is None or (ctx.quick and rs.ns > 4):
            continue
        n = 1 if (ctx.quick or rs.ns > 4) else 2
        for _ in range(n):
            starts.append(dict(sys=name, layout="full", x=lit(nprng.integers(-2, 3, size=(rs.ns, rs.ns, 3, 3)))))
            starts.append(dict(sys=name, layout="compact", x=lit(nprng.integers(-2, 3, size=(rs.np_, rs.ns, 3, 3)))))
    return starts


def real_session_step(rs, call, K):
    """Perform one call of a session on rs.ph; returns the new denominator bound."""
    import phonopy._phonopy as phonoc

    ph, prim = rs.ph, rs.prim
    op = call["op"]
    with R._quiet():
        if op == "Symmetrize":
            ph.symmetrize_force_constants(level=call["level"], show_drift=False)
            K *= R.denom(rs.ns, call["level"])
        elif op == "ToCompact":
            ph.force_constants = R.FCM.full_fc_to_compact_fc(prim, ph.force_constants)
        elif op == "ToFull":
            ph.force_constants = R.FCM.compact_fc_to_full_fc(prim, ph.force_constants)
        elif op == "Transpose":
            s2pp, nsym = R.FCM.get_nsym_list_and_s2pp(prim.s2p_map, prim.p2p_map, prim.atomic_permutations)
            phonoc.transpose_compact_fc(ph.force_constants, prim.atomic_permutations, s2pp, prim.p2s_map, nsym)
        elif op == "ShowDrift":
            R.FCM.show_drift_force_constants(ph.force_constants, primitive=prim, values_only=True)
        else:
            raise ValueError(op)
    return K


def replay_behaviour(ctx, systems, beh):
    """beh: list of (action, state).  Drive the real object along it; compare after every call."""
    s0 = beh[0][1]
    rs = systems[s0["st"]["sys"]]
    shape = (rs.ns if s0["st"]["layout"] == "full" else rs.np_, rs.ns, 3, 3)
    x = np.array(s0["st"]["x"]["a"], dtype=float).reshape(shape) / s0["st"]["x"]["den"]
    with R._quiet():
        rs.ph.force_constants = R.f64(x)
    K = 1
    calls = []
    for act, stt in beh[1:]:
        call = stt["hist"][-1]
        calls.append(call)
        try:
            K = real_session_step(rs, call, K)
        except Exception as e:
            ctx.violation("replay:raised:%s" % call["op"], "phonopy raised %s during a replayed session" % type(e).__name__,
                          dict(system=rs.name, start=s0["st"], calls=calls, error=repr(e)))
            return False
        fl = dict(exact=True, bitexact=True)
        got = R.project(rs.ph.force_constants, K, fl)
        want = dict(den=stt["arr"]["den"], a=list(stt["arr"]["a"]), ok=True)
        lay = "full" if rs.ph.force_constants.shape[0] == rs.ph.force_constants.shape[1] and rs.np_ != rs.ns else stt["layout"]
        if not fl["exact"] or got["den"] != want["den"] or got["a"] != want["a"] or lay != stt["layout"]:
            ctx.violation("replay:%s" % call["op"],
                          "replay of a TLC behaviour: array after %s differs from the specification's" % call["op"],
                          dict(system=rs.name, spec=rs.spec, start=s0["st"], calls=calls, exact=fl["exact"],
                               expected=dict(den=want["den"], a_head=want["a"][:36]),
                               observed=dict(den=got["den"], a_head=got["a"][:36])))
            return False
    return True


def parse_sim(path):
    """One `tlc -simulate file=` behaviour -> [(action, state dict)]."""
    import re
    from harness import tla_values

    with open(path) as fh:
        text = fh.read()
    text = re.sub(r"^=+\s*$", "", text, flags=re.M)
    parts = re.split(r"^STATE_\d+ ==\s*$", text, flags=re.M)
    out = []
    for i, body in enumerate(parts[1:]):
        pre = parts[i]
        m = None
        for m in re.finditer(r"^\\\* <(\w+)", pre, flags=re.M):
            pass
        body = "\n".join(l for l in body.splitlines() if not l.startswith("\\*") and not l.startswith("----"))
        out.append((m.group(1) if m else "", tla_values.parse_state_body(body)))
    return out


def run_session(ctx, systems, variant):
    import glob
    from harness import tla_values

    starts = session_starts(ctx, systems)
    used = sorted(set(s["sys"] for s in starts))
    sysrec = {k: {kk: vv for kk, vv in systems[k].record().items() if kk != "ops"} for k in used}
    mc = MC_SESSION % (to_tla(sysrec), ",\n".join(to_tla(s) for s in starts))
    maxlen = 3 if ctx.quick else 4
    # (1) every history up to maxlen calls
    cfg = (SESSION_CFG % (variant, maxlen)) + ("ALIAS Alias\nINVARIANT TwinAgrees\nINVARIANT SymmetricAfterSymmetrize\n"
                                               "INVARIANT ArithOK\nPROPERTY SymmetrizeAgainIsNoop\nPROPERTY ShowDriftLooksOnly\n")
    res = ctx.tlc("MC_SymSession", cfg_text=cfg, extra_files={"MC_SymSession.tla": mc}, requirement=False,
                  workers=WORKERS, extra_args=("-continue",), keep=True, timeout=3000)
    names = {}
    for inv, tr in res.violations:
        names.setdefault(inv, tr[-1][1] if tr else {})
    if res.violated and not names:
        names[res.violated] = {}
    for name, stt in names.items():
        if name == "ArithOK":
            raise tlcmod.MachineryError("session arithmetic inexact: %s" % stt)
        ctx.violation("tlc:SymSession:" + name,
                      "TLC: %s violated over histories of API calls (transcription variant %s)" % (name, variant),
                      dict(invariant=name, variant=variant,
                           witness={k: stt.get(k) for k in ("sys", "start", "layout", "hist", "x")}))
    ctx.extra["session_histories_states"] = res.distinct
    tlcmod.cleanup(res)
    # (2) spec -> code: random behaviours generated by TLC, replayed on the real object
    nsim = 30 if ctx.quick else 300
    cfg = SESSION_CFG % (variant, maxlen + 1)
    res = ctx.tlc("MC_SymSession", cfg_text=cfg, extra_files={"MC_SymSession.tla": mc}, requirement=False,
                  workers=1, simulate=dict(num=nsim, file=True), depth=maxlen + 2, seed=ctx.seed + 1, keep=True, timeout=1200)
    files = sorted(glob.glob(os.path.join(res.simdir, "tr*")))
    ok = n = steps = 0
    for f in files:
        beh = parse_sim(f)
        if len(beh) < 2:
            continue
        n += 1
        steps += len(beh) - 1
        ok += bool(replay_behaviour(ctx, systems, beh))
    ctx.traces += n
    ctx.extra["replayed_behaviours"] = n
    ctx.extra["replayed_calls"] = steps
    ctx.extra["replayed_ok"] = ok
    tlcmod.cleanup(res)
    if n == 0:
        raise tlcmod.MachineryError("no behaviours generated for replay")


# ---------------------------------------------------------------------------
# process histories: several crystals handled by ONE Python process
# ---------------------------------------------------------------------------
PROC_GROUPS_QUICK = [["ab221", "ab411"], ["sc122", "sc114", "bccI112"], ["sgcu3au", "sgwz111"], ["sgsc112", "sgscnd2"]]
PROC_GROUPS_THOROUGH = [["ab221", "ab411", "ab141", "naclF", "ab122"], ["sc222", "sc124", "sc118"],
                        ["sc122", "sc114", "sc141", "scnd4", "bccI112"], ["bccP112", "ab112"],
                        ["sgcu3au", "sgwz111", "sgcu3aur"], ["sgsc112", "sgscnd2", "sgmono112"],
                        ["sghcp111", "sgab111", "orhcp111"]]

MC_PROC = """---- MODULE MC_SymProcess ----
EXTENDS %s
MCSystems == %s
MCInputs == %s
MCProc == %s
%s
====
"""


def proc_run(names, seed):
    """Handle the named crystals in this order in one fresh Python process."""
    import json
    import subprocess
    import sys

    env = dict(os.environ, PYTHONWARNINGS="ignore")
    p = subprocess.run([sys.executable, "-m", "harness.c07_proc", json.dumps(dict(seed=seed, names=list(names)))],
                       cwd=tlcmod.VERIF, env=env, stdout=subprocess.PIPE, stderr=subprocess.PIPE, timeout=600)
    for line in p.stdout.decode(errors="replace").splitlines():
        if line.startswith("C07PROC "):
            return json.loads(line[8:])
    return dict(error=p.stderr.decode(errors="replace")[-1500:])


def run_process(ctx, variant, only=None):
    from concurrent.futures import ThreadPoolExecutor

    groups = [list(only)] if only else (PROC_GROUPS_QUICK if ctx.quick else PROC_GROUPS_THOROUGH)
    names = sorted(set(n for g in groups for n in g))
    with ThreadPoolExecutor(4) as ex:
        iso = dict(zip(names, ex.map(lambda n: proc_run([n], ctx.seed), names)))
    for n, r in iso.items():
        if isinstance(r, dict):
            raise tlcmod.MachineryError("isolated process for %s failed: %s" % (n, r.get("error")))
    iso = {n: r[0] for n, r in iso.items()}
    sysrec = {n: iso[n]["record"] for n in names}
    inputs = {n: iso[n]["inputs"] for n in names}
    maxlen = max(2 if ctx.quick else 3, len(only or ()))

    def module(events):
        if events is None:
            return MC_PROC % ("SymProcess", to_tla(sysrec), to_tla(inputs), to_tla(set(names)),
                              "Alias == [pol |-> pol, hist |-> hist, verdict |-> verdict]")
        return MC_PROC % ("SymProcessTrace", to_tla(sysrec), to_tla(inputs), to_tla(set(names)),
                          "MCEvents == {%s}\nTAlias == [id |-> ev.id, hist |-> hist, verdict |-> verdict]"
                          % ",\n".join(to_tla(e) for e in events))

    def base(policies, ev=""):
        return ("CONSTANTS\n Systems <- MCSystems\n Inputs <- MCInputs\n ProcSystems <- MCProc\n" + ev +
                " Variant = \"%s\"\n MaxLen = %d\n Policies = %s\nCHECK_DEADLOCK FALSE\n" % (variant, maxlen, policies))
    # (1) the model: every ordered history of colliding crystals under every memo policy
    cfg = ("INIT PInit\nNEXT PNext\n" + base('{"contents", "s2p_shape", "natoms"}') +
           "ALIAS Alias\nINVARIANT HistoryIndependent\nINVARIANT CoarseMemoInvisible\n")
    res = ctx.tlc("MC_SymProcess", cfg_text=cfg, extra_files={"MC_SymProcess.tla": module(None)}, requirement=False,
                  workers=WORKERS, extra_args=("-continue",), keep=True, timeout=3000)
    disc = {}
    for inv, tr in res.violations:
        st = tr[-1][1] if tr else {}
        h = tuple(st.get("hist", ()))
        if inv == "HistoryIndependent":
            ctx.violation("tlc:SymProcess:HistoryIndependent",
                          "TLC: a process without memo (or with a memo keyed on the table contents) is not history independent",
                          dict(policy=st.get("pol"), history=list(h), differs=sorted(st.get("verdict", ()))))
        elif h:
            disc.setdefault(h, set()).add(st.get("pol"))
    ctx.extra["process_model_states"] = res.distinct
    ctx.extra["process_histories_where_a_coarse_memo_shows"] = len(disc)
    tlcmod.cleanup(res)
    if not disc and not only:
        raise tlcmod.MachineryError("no history on which a coarse memo would show: the process systems do not collide")
    # (2) replay: those histories (both orders occur), each in one real process
    hs = sorted(disc, key=lambda h: (0 if "s2p_shape" in disc[h] else 1, len(h), h))
    extra_pairs = [(a, b) for g in groups for a in g for b in g if a != b and (a, b) not in disc]
    cap = 16 if ctx.quick else 90
    todo = (hs + extra_pairs[: max(0, 4 if ctx.quick else 20)])[:cap]
    if only:
        todo = [tuple(only)]
    with ThreadPoolExecutor(4) as ex:
        runs = list(ex.map(lambda h: proc_run(h, ctx.seed), todo))
    events = []
    for h, r in zip(todo, runs):
        if isinstance(r, dict):
            ctx.violation("process:crashed", "a process handling %s did not finish" % (list(h),), dict(history=list(h), error=r.get("error")))
            continue
        seq = []
        for item in r:
            o, i = item["out"], iso[item["sys"]]["out"]
            seq.append(dict(sys=item["sys"], out={k: o[k] for k in ("arr", "shown", "tables", "exact")},
                            iso={k: i[k] for k in ("arr", "shown", "tables", "exact")}))
        events.append(dict(id=len(events), seq=seq, disc=(h in disc)))
        ctx.count(("process",) + tuple(h))
    ctx.traces += len(events)
    ctx.extra["process_histories_replayed"] = len(events)
    cfg = ("INIT TInit\nNEXT TNext\n" + base('{"none"}', " Events <- MCEvents\n") +
           "ALIAS TAlias\nINVARIANT ImplHistoryIndependent\nINVARIANT ConformsFresh\nINVARIANT ImplProjectionExact\n"
           "INVARIANT Discriminates\n")
    res = ctx.tlc("MC_SymProcess", cfg_text=cfg, extra_files={"MC_SymProcess.tla": module(events)}, requirement=False,
                  workers=WORKERS, extra_args=("-continue",), keep=True, timeout=3000)
    seen = {}
    for inv, tr in res.violations:
        st = tr[-1][1] if tr else {}
        for name in (set(st.get("verdict", ())) or {inv}):
            seen.setdefault(name, st)
    tlcmod.cleanup(res)
    for name, st in sorted(seen.items()):
        evn = events[st["id"]] if "id" in st else None
        det = None
        if evn is not None:
            det = dict(history=[x["sys"] for x in evn["seq"]], specs=[c07_spec(x["sys"]) for x in evn["seq"]], seed=ctx.seed,
                       differs={x["sys"]: sorted([r for r in x["out"]["arr"] if x["out"]["arr"][r] != x["iso"]["arr"][r]]
                                                 + (["shown"] if x["out"]["shown"] != x["iso"]["shown"] else [])
                                                 + (["tables"] if x["out"]["tables"] != x["iso"]["tables"] else []))
                                for x in evn["seq"]},
                       tables_in_history={x["sys"]: x["out"]["tables"] for x in evn["seq"]},
                       tables_in_isolation={x["sys"]: x["iso"]["tables"] for x in evn["seq"]})
        if name == "Discriminates":
            raise tlcmod.MachineryError("a replayed history announced as discriminating is not: %s" % det)
        what = ("C07 %s: a routine's result depends on which crystals the process handled before" % name
                if name == "ImplHistoryIndependent" else "C07 %s (process histories)" % name)
        ctx.violation("process:" + name, what, det)


def c07_spec(name):
    from harness import c07_proc
    return {k: v for k, v in c07_proc.spec_of(name).items()}


# ---------------------------------------------------------------------------
# size ladder: 64 ... 700 atoms, two thread modes (spec/SymLarge.tla)
# ---------------------------------------------------------------------------
LARGE_INVS = ["LargeExact", "LargeImposesTransInv", "LargeImposesPermSym", "LargeIdempotent", "LargeFixesSymmetric",
              "LargeCompactEqFull", "LargeThreadsAgree", "ConformsLargeEntries", "LargeAnnounced"]

MC_LARGE = """---- MODULE MC_SymLarge ----
EXTENDS SymLarge
MCEvents == {%s}
Alias == [id |-> ev.id, sys |-> ev.sys, mode |-> ev.mode, pc |-> pc, verdict |-> verdict]
====
"""


def large_run(names, seed, nsample, threads):
    import json
    import subprocess
    import sys

    env = dict(os.environ, PYTHONWARNINGS="ignore", OMP_NUM_THREADS=str(threads))
    p = subprocess.run([sys.executable, "-m", "harness.c07_large", json.dumps(dict(seed=seed, names=names, nsample=nsample))],
                       cwd=tlcmod.VERIF, env=env, stdout=subprocess.PIPE, stderr=subprocess.PIPE, timeout=1500)
    for line in p.stdout.decode(errors="replace").splitlines():
        if line.startswith("C07LARGE "):
            return json.loads(line[9:])
    raise tlcmod.MachineryError("size-ladder process (threads=%s) failed: %s" % (threads, p.stderr.decode(errors="replace")[-1500:]))


def res_class(v):
    return "zero" if v <= R.TOL else "small" if v <= 1e-6 else "large"


def run_large(ctx):
    from concurrent.futures import ThreadPoolExecutor

    names = ["sc444", "sc666", "ab555", "ab666"] if ctx.quick else \
        ["sc444", "sc666", "ab555", "ab666", "sc777", "sc888", "ab777", "naclF333"]
    nsample = 40 if ctx.quick else 120
    try:
        many = max(4, int(os.environ.get("OMP_NUM_THREADS", "4") or 4))
    except ValueError:
        many = 4
    with ThreadPoolExecutor(2) as ex:
        fm = ex.submit(large_run, names, ctx.seed, nsample, many)
        f1 = ex.submit(large_run, names, ctx.seed, nsample, 1)
        rm, r1 = fm.result(), f1.result()
    if not rm["use_openmp"]:
        ctx.assumptions.append("size ladder: the extension was built without OpenMP; both thread modes are serial")
    if len(rm["events"]) != len(r1["events"]):
        raise tlcmod.MachineryError("size-ladder runs disagree in length")
    events, worst = [], 0.0
    for a, b in zip(rm["events"], r1["events"]):
        for mode, e in (("threads%d" % many, a), ("threads1", b)):
            if "error" in e:
                ctx.violation("large:raised", "phonopy raised on a large supercell: %s" % e["error"],
                              dict(system=e["sys"], ns=e["ns"], route=e["route"], level=e["level"], kind=e["kind"], mode=mode))
        if "error" in a or "error" in b:
            continue
        same = a["digest"] == b["digest"]
        if not same:  # tolerate a legitimate reordering of floating sums, not a different result
            scale = max(1.0, max(abs(s["x"]) for s in a["sample"]))
            same = all(abs(float.fromhex(x["raw"]) - float.fromhex(y["raw"])) <= 1e-12 * scale
                       for x, y in zip(a["sample"], b["sample"])) and \
                all(res_class(a["facts"][k]) == res_class(b["facts"][k]) for k in ("rowsum", "colsum", "asym", "again", "moved", "vsfull"))
        for mode, e in (("threads%d" % many, a), ("threads1", b)):
            f = e["facts"]
            worst = max(worst, f["sample_resid"], f["rowsum"], f["colsum"], f["again"], f["vsfull"]) if mode == "threads1" else worst
            events.append(dict(id=len(events), sys=e["sys"], mode=mode, ns=e["ns"], route=e["route"], level=e["level"],
                               kind=e["kind"], den=e["den"],
                               facts=dict(exact=bool(f["finite"] and f["sample_resid"] <= R.TOL), rowsum=res_class(f["rowsum"]),
                                          colsum=res_class(f["colsum"]), asym=res_class(f["asym"]), again=res_class(f["again"]),
                                          moved=res_class(f["moved"]), vsfull=res_class(f["vsfull"]), threads=bool(same)),
                               sample=[{k: s_[k] for k in ("i", "j", "k", "l", "x", "xt", "cj", "ri", "cit", "rjt", "t", "tt", "out", "outt")}
                                       for s_ in e["sample"]],
                               residuals={k: f[k] for k in ("rowsum", "colsum", "asym", "again", "moved", "vsfull", "sample_resid")}))
            ctx.count(("large", e["sys"], mode, e["route"], e["level"], e["kind"]))
    ctx.traces += len(events)
    ctx.extra["large_events"] = len(events)
    ctx.extra["large_sizes"] = sorted(set(e["ns"] for e in events))
    ctx.extra["large_thread_modes"] = sorted(set(e["mode"] for e in events))
    ctx.extra["large_sampled_entries"] = sum(len(e["sample"]) for e in events)
    ctx.extra["large_worst_residual_serial"] = worst
    lits = [to_tla({k: v for k, v in e.items() if k != "residuals"}) for e in events]
    cfg = ("INIT LInit\nNEXT LNext\nCONSTANTS\n Events <- MCEvents\nCHECK_DEADLOCK FALSE\nALIAS Alias\n"
           + "".join("INVARIANT %s\n" % i for i in LARGE_INVS))
    res = ctx.tlc("MC_SymLarge", cfg_text=cfg, extra_files={"MC_SymLarge.tla": MC_LARGE % ",\n".join(lits)},
                  requirement=False, workers=WORKERS, extra_args=("-continue",), keep=True, timeout=1500)
    seen = {}
    for inv, tr in res.violations:
        st = tr[-1][1] if tr else {}
        for name in (set(st.get("verdict", ())) or {inv}):
            seen.setdefault(name, st)
    tlcmod.cleanup(res)
    for name, st in sorted(seen.items()):
        e = events[st["id"]] if "id" in st else {}
        det = dict(invariant=name, system=e.get("sys"), spec=c07_large_spec(e.get("sys")), ns=e.get("ns"), mode=e.get("mode"),
                   route=e.get("route"), level=e.get("level"), kind=e.get("kind"), seed=ctx.seed, facts=e.get("facts"),
                   residuals=e.get("residuals"), sample_head=(e.get("sample") or [])[:6])
        if name == "LargeAnnounced":
            raise tlcmod.MachineryError("size ladder: recorded ingredients inconsistent: %s" % det)
        what = ("C07 %s: the returned entries are not the orthogonal projector's" % name if name.startswith("Conforms")
                else "C07 %s fails on a large supercell (%s atoms, %s)" % (name, e.get("ns"), e.get("mode")))
        ctx.violation("large:" + name, what, det)


def c07_large_spec(name):
    from harness import c07_large
    try:
        return {k: v for k, v in c07_large.spec_of(name).items()}
    except KeyError:
        return None


# ---------------------------------------------------------------------------
# ./check C07 --replay <file>: re-run exactly the recorded failing case
# ---------------------------------------------------------------------------
def run_replay(ctx):
    import json

    with open(ctx.replay_path) as fh:
        d = json.load(fh)
    key, det = d["key"], d.get("detail") or {}
    w = det.get("witness") or {}
    if key.startswith("symmetrize:") and w.get("system"):
        spec = next(sp for sp in R.SPECS if sp["name"] == w["system"])
        rs = R.RealSystem(spec, np.random.default_rng(d.get("seed", 0) + 7))
        systems = {rs.name: rs}
        x = np.array(w["x_flat"], dtype=np.int64).reshape(w["shape"])
        nprng = np.random.default_rng(1)
        events = []
        cases = [(w["route"], w["level"], x)]
        if rs.np_ != rs.ns:
            cases += [("transpose", 1, nprng.integers(-2, 3, size=(rs.np_, rs.ns, 3, 3))) for _ in range(3)]
        for route, level, xx in cases:
            obs, _ = R.execute(rs, route, level, xx, via_api=False)
            events.append(dict(id=len(events), sys=rs.name, route=route, level=level, x=lit(xx), sym=False, periodic=False, obs=obs))
        ctx.traces += len(events)
        pf, _ = run_trace(ctx, systems, events[1:], "repaired") if len(events) > 1 else ({}, {})
        variant = "pinned" if any(n.startswith("Conforms") for n in pf) else "repaired"
        found, _ = run_trace(ctx, systems, events[:1], variant)
        ctx.extra["code_follows_variant"] = variant
        for name, ev in sorted(found.items()):
            ctx.violation("symmetrize:" + name, "C07 %s fails on the replayed case" % name,
                          dict(invariant=name, variant=variant, witness=witness(ev, systems)))
        return
    if key.startswith("process:") and det.get("history"):
        ctx.seed = d.get("seed", ctx.seed)
        return run_process(ctx, "repaired", only=det["history"])
    if key.startswith("tlc:Symmetrize:") and w.get("sys"):
        case = "{Mk(%s, %s, %d, %s, %s)}" % (to_tla(w["sys"]), to_tla(w["route"]), w["level"],
                                            to_tla(dict(den=w["x"]["den"], a=list(w["x"]["a"]), ok=True)), to_tla(w["prep"]))
        res = ctx.tlc("MC_SymmetrizeModel",
                      cfg_text=cfg_text("Init", "Next", "MCSystems", "MCCases", det.get("variant", "pinned"),
                                        MODEL_INVS + SELF_INVS + INFO_INVS),
                      extra_files={"MC_SymmetrizeModel.tla": MC_MODEL % case}, requirement=False, workers=2,
                      extra_args=("-continue",), keep=True)
        for name, st in verdict_names(res).items():
            k = name if name.startswith(("Inv", "Info")) else "Inv" + name
            ctx.violation("tlc:Symmetrize:" + k, "TLC: %s violated on the replayed case" % k,
                          dict(variant=det.get("variant"), witness={kk: st.get(kk) for kk in ("sys", "route", "level", "prep", "x", "fc", "verdict")}))
        tlcmod.cleanup(res)
        return
    run_all(ctx)


def run(ctx):
    if ctx.replay_path:
        return run_replay(ctx)
    return run_all(ctx)


def run_all(ctx):
    ctx.rule = ("a case = (system, route, level, input array); systems are recorded from real Phonopy objects "
                "(1-3 atoms per primitive cell, 1-8 primitive cells, even multiplicities included) or abstract tori; "
                "non-trivial = distinct (system, route, level, input)")
    t0 = time.time()
    systems, events = record(ctx)
    ctx.extra["recorded_events"] = len(events)
    routes = {}
    for ev in events:
        routes[ev["route"]] = routes.get(ev["route"], 0) + 1
    ctx.extra["recorded_events_by_route"] = routes
    ctx.extra["recorded_systems"] = {k: dict(np=v.np_, ns=v.ns, ntrans=len(v.perms)) for k, v in systems.items()}
    ctx.extra["t_record_s"] = round(time.time() - t0, 1)
    cpu0 = sum(os.times()[:4])
    for ev in events[:1] + events[len(events) // 2:len(events) // 2 + 1]:
        ctx.sample(dict(sys=ev["sys"], route=ev["route"], level=ev["level"], x_head=ev["x"]["a"][:18],
                        out_den=ev["obs"]["out"]["den"], out_head=ev["obs"]["out"]["a"][:18]))

    # --- code -> spec: which transcription does the code follow (decided on the transposition
    #     events, where the variants differ), and does it meet the requirement
    t0 = time.time()
    probe = [e for e in events if e["route"] == "transpose" and len(systems[e["sys"]].perms) % 2 == 0][:16]
    variant = "repaired"
    pf, _ = run_trace(ctx, systems, probe, "repaired")
    if any(n.startswith("Conforms") for n in pf):
        variant = "pinned"
    ctx.extra["variant_probe"] = dict(events=len(probe), repaired_conforms=(variant == "repaired"))
    found, cov = run_trace(ctx, systems, events, variant)
    if any(n.startswith("Conforms") for n in found):
        ctx.extra["code_follows_variant_note"] = "closest transcription: %s (conformance violations reported)" % variant
    ctx.extra["code_follows_variant"] = variant
    ctx.extra["trace_action_coverage"] = cov
    ctx.extra["t_trace_s"] = round(time.time() - t0, 1)
    ctx.extra["cpu_trace_s"] = round(sum(os.times()[:4]) - cpu0, 1)
    cpu0 = sum(os.times()[:4])
    for name, ev in sorted(found.items()):
        if name in ("Announced", "ArithExact", "InvAnnounced", "InvArithExact"):
            raise tlcmod.MachineryError("self-check %s failed on %s" % (name, witness(ev, systems)))
        what = ("C07 %s fails on the values returned by the implementation" % name if name.startswith("Impl") else
                "C07 %s: the implementation's result is not the step machine's" % name if name.startswith("Conforms") else
                "C07 %s fails on tables recorded from the implementation" % name)
        ctx.violation("symmetrize:" + name, what, dict(invariant=name, variant=variant, witness=witness(ev, systems)))
    never = [k for k, v in cov.items() if k.startswith("A") and v == 0 and not (k == "ASGAverage" and not any(s.ops for s in systems.values()))]
    if cov and never:
        raise tlcmod.MachineryError("actions never taken in the trace run: %s" % never)

    # --- the specification itself, on abstract systems, for the transcription the code follows
    t0 = time.time()
    run_model(ctx, variant)
    ctx.extra["t_model_s"] = round(time.time() - t0, 1)
    ctx.extra["cpu_model_s"] = round(sum(os.times()[:4]) - cpu0, 1)
    cpu0 = sum(os.times()[:4])

    # --- histories of API calls; spec -> code replay
    t0 = time.time()
    run_session(ctx, systems, variant)
    ctx.extra["t_session_s"] = round(time.time() - t0, 1)

    # --- process histories: results must not depend on crystals handled earlier in the same process
    t0 = time.time()
    run_process(ctx, variant)
    ctx.extra["t_process_s"] = round(time.time() - t0, 1)

    # --- size ladder (64 ... 700 atoms), default thread count and one thread
    t0 = time.time()
    run_large(ctx)
    ctx.extra["t_large_s"] = round(time.time() - t0, 1)
    ctx.assumptions.append("Size ladder: arrays of 64-700 atoms are not projected entry by entry; TLC judges whole-array facts "
                           "measured by the harness as residual classes (zero = <= 1e-9 relative; observed <= 2e-13) and, exactly, "
                           "a sample of entries (self blocks of rows spread over the array, off-diagonal blocks with their "
                           "partners) against the integer ingredients of the definition.")
    ctx.extra["cpu_session_s"] = round(sum(os.times()[:4]) - cpu0, 1)
    cpu0 = sum(os.times()[:4])

    ctx.assumptions.append("The routines are linear maps (no branch depends on a value; only +, -, x const, / const): "
                           "relations checked on a basis of the array space, on its image under the orthogonal projector "
                           "and on dense arrays hold for every array of that system.")
    ctx.assumptions.append("Real outputs are rounded to rationals with denominator 2(2 ns^2)^level; residual <= 1e-9 "
                           "is required (ImplExact) and bit-exactness for power-of-two supercell sizes (ImplBitExact).")
