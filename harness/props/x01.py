"""X01 (specification growth, adjacent to C09): generalized regular grids,
IterMesh/Mesh iteration, Brillouin-zone relocation.

Specs:
  spec/GenGrid.tla (+ GenGridCells.tla)  GeneralizedRegularGridPoints: the grid is the quotient
        M^-1 Z^3 / Z^3 of the grid matrix, SNF contract (spec/SNF.tla), addresses, the exact
        reciprocal point group (spec/MeshGroups.tla) transformed to the addresses, orbits.
  spec/BZReloc.tla   get_qpoints_in_Brillouin_zone / BrillouinZone / GridPoints._fit_qpoints_in_BZ:
        congruent, all shortest translates (sound box), the 27-neighbour window on Niggli forms.
  spec/MeshIter.tla, MeshIterTrace.tla   iteration protocol shared by Mesh and IterMesh.
Directions: code -> spec (recorded events judged by TLC) for all three; spec -> code (TLC-generated
call histories replayed on real Mesh and IterMesh objects; the machine of BZReloc run on each input
and compared with the real output).
"""
from __future__ import annotations

import contextlib
import glob
import io
import itertools
import json
import os
import re

import numpy as np

from harness import bootstrap  # noqa: F401
from harness import c09_mesh as cm
from harness import tla_values, xtal
from harness import tlc as tlcmod
from harness.oracle import SYMBOL_OF
from harness.tla_values import to_tla

from phonopy import Phonopy
from phonopy.structure.atoms import PhonopyAtoms
from phonopy.structure.brillouin_zone import BrillouinZone, get_qpoints_in_Brillouin_zone
from phonopy.structure.grid_points import GeneralizedRegularGridPoints, GridPoints


def check_tlc(res):
    if res.violated and (res.kind != "invariant" and res.kind != "action_property" or not res.violations):
        raise tlcmod.MachineryError("TLC: %s (%s)\n%s" % (res.violated, res.kind, res.stdout[-1500:]))


def witness(tr, field="id"):
    if not tr:
        return None
    return tr[-1][1].get("ev", {}).get(field)


# ------------------------------------------------------------------ crystals
CELLS_CFG = "INIT CInit\nNEXT CNext\nCONSTANT Wanted <- MCWanted\nCHECK_DEADLOCK FALSE\n"


def crystal_records(names, ctx):
    hs = cm._hash(["IntLinAlg", "Crystal", "Springs", "Catalogue", "MeshCatalogue", "GenGridCells"])
    path = cm._cache_path("x01cells", hs)
    if os.path.exists(path):
        with open(path) as f:
            out = json.load(f)
        if all(n in out for n in names):
            return out
    mc = "---- MODULE MC_GenGridCells ----\nEXTENDS GenGridCells\nMCWanted == MeshNames\n====\n"
    res = ctx.tlc("MC_GenGridCells", cfg_text=CELLS_CFG, extra_files={"MC_GenGridCells.tla": mc}, dump=True,
                  keep=True, workers=2, requirement=False, timeout=600)
    check_tlc(res)
    out = {}
    for st in tla_values.parse_dump(res.dump_path):
        out[st["name"]] = dict(G=st["cr"]["G"], D=st["cr"]["D"], atoms=[dict(a) for a in st["cr"]["atoms"]])
    tlcmod.cleanup(res)
    cm._atomic_write(path, out)
    return out


def realise(rec, nprng, a=1.7):
    L = xtal.lattice_from_gram(np.array(rec["G"], dtype=float), a=a, rng=nprng)
    return PhonopyAtoms(symbols=[SYMBOL_OF[at["sp"]] for at in rec["atoms"]],
                        scaled_positions=np.array([at["num"] for at in rec["atoms"]], dtype=float) / rec["D"],
                        cell=L, masses=[float(at["m"]) for at in rec["atoms"]]), L


def imat(M):
    return [[int(x) for x in r] for r in np.array(M)]


# ------------------------------------------------------------------ (a) generalized regular grids
GG_IMPL = ["ImplExact", "ImplNonSingular", "ImplSNFContract", "ImplCount", "ImplDistinct", "ImplOnLattice",
           "ImplComplete", "ImplAddresses", "ImplQOfAddress", "ImplPrimitiveBasis", "ImplGroupIntegral",
           "ImplGridInvariant", "ImplOps", "ImplOpsPermute", "ImplOrbitsPartition"]
GG_OTHER = ["CountTheorem", "ConformsOrder"]


def gengrid_events(ctx, names, recs):
    rng = ctx.rng
    nprng = np.random.default_rng(ctx.seed + 11)
    lengths = [2.5, 4.0, 5.5, 7.0] if ctx.quick else [2.0, 2.5, 3.3, 4.0, 4.8, 5.5, 6.3, 7.0, 8.5]
    nmax = 128 if ctx.quick else 256
    events = []
    skipped = 0
    for c in names:
        cell, L = realise(recs[c], nprng)
        combos = list(itertools.product(lengths, (True, False), (True, False), (True, False)))
        rng.shuffle(combos)
        for (length, suggest, tr, xfast) in combos[: (14 if ctx.quick else 50)]:
            cfg = dict(crystal=c, length=length, suggest=suggest, tr=tr, xfast=xfast)
            try:
                g = GeneralizedRegularGridPoints(cell, length, suggest=suggest, is_time_reversal=tr, x_fastest=xfast)
            except Exception as e:
                ctx.violation("gengrid:exception", "X01: GeneralizedRegularGridPoints raised %s" % type(e).__name__,
                              dict(cfg=cfg, err=repr(e)))
                continue
            M = np.array(g.grid_matrix)
            N = abs(int(round(np.linalg.det(M))))
            if N > nmax or N == 0 and False:
                skipped += 1
                continue
            Td = 6
            T = np.array(g.transformation_matrix, dtype=float) * Td
            Tn = np.rint(T)
            q = np.array(g.qpoints, dtype=float) * max(N, 1)
            qn = np.rint(q)
            resid = max(float(np.abs(T - Tn).max()), float(np.abs(q - qn).max()) if q.size else 0.0)
            ev = dict(id=len(events), crystal=c, suggest=suggest, tr=tr, xfast=xfast, M=imat(M), P=imat(g.snf.P),
                      Q=imat(g.snf.Q), D=imat(g.snf.D), Tn=imat(Tn), Td=Td, addr=imat(g.grid_address),
                      qn=imat(qn), ops=[imat(r) for r in g.reciprocal_operations], exact=bool(resid < 1e-6))
            ev["_cfg"] = cfg
            events.append(ev)
            ctx.count(("gengrid", json.dumps(cfg, sort_keys=True)))
    ctx.extra["gengrid_skipped_too_large"] = skipped
    return events


def gengrid_validate(ctx, events, pgs):
    used = sorted(set(e["crystal"] for e in events))
    table = "[" + ", ".join("%s |-> %s" % (n, to_tla(cm.set_of_mats(pgs[n]["pg"]))) for n in used) + "]"
    body = ",\n".join(to_tla({k: v for k, v in e.items() if not k.startswith("_")}) for e in events)
    mc = "---- MODULE MC_GenGrid ----\nEXTENDS GenGrid\nMCGroupTable == %s\nMCEvents == {%s}\n====\n" % (table, body)
    cfg = ("INIT GInit\nNEXT GNext\nCONSTANTS\n Events <- MCEvents\n GroupTable <- MCGroupTable\nCHECK_DEADLOCK FALSE\n"
           + "".join("INVARIANT %s\n" % i for i in GG_IMPL + GG_OTHER))
    res = ctx.tlc("MC_GenGrid", cfg_text=cfg, extra_files={"MC_GenGrid.tla": mc}, requirement=False, workers=6,
                  extra_args=("-continue",), keep=True, timeout=1800)
    check_tlc(res)
    byid = {e["id"]: e for e in events}
    for name, tr in res.violations:
        e = byid.get(witness(tr))
        detail = dict(invariant=name, cfg=e["_cfg"] if e else None,
                      grid_matrix=e["M"] if e else None, D=e["D"] if e else None, Q=e["Q"] if e else None,
                      transformation_matrix_x6=e["Tn"] if e else None, n_ops=len(e["ops"]) if e else None)
        if name == "CountTheorem":
            raise tlcmod.MachineryError("GenGrid: CountTheorem fails (specification defect): %s" % detail)
        ctx.violation("gengrid:" + name, "X01 generalized regular grid: %s fails on the real result" % name, detail)
    tlcmod.cleanup(res)
    ctx.traces += len(events)
    ctx.extra["events_gengrid"] = len(events)
    ctx.extra["gengrid_violated"] = sorted(set(n for n, _ in res.violations))


# ------------------------------------------------------------------ (c) Brillouin zone
BZ_IMPL = ["ImplExact", "ImplNonEmpty", "ImplCongruent", "ImplShortest", "ImplExactlyShortest", "ImplAllTies",
           "ImplNoDup"]
BZ_CONF = ["ConformsNiggli", "ConformsSet", "ConformsSingle"]
BZ_MACH = ["InvBoxSound", "InvCaseWellFormed", "Window27Complete"]


def adj3(G):
    G = np.array(G, dtype=np.int64)
    c = np.zeros((3, 3), dtype=np.int64)
    for i in range(3):
        for j in range(3):
            m = np.delete(np.delete(G, i, 0), j, 1)
            c[i, j] = (-1) ** (i + j) * (m[0, 0] * m[1, 1] - m[0, 1] * m[1, 0])
    return c.T


def det3(G):
    G = np.array(G, dtype=np.int64)
    return int(G[0, 0] * (G[1, 1] * G[2, 2] - G[1, 2] * G[2, 1]) - G[0, 1] * (G[1, 0] * G[2, 2] - G[1, 2] * G[2, 0])
               + G[0, 2] * (G[1, 0] * G[2, 1] - G[1, 1] * G[2, 0]))


def sound_box(Grec, D, x, bmax=4):
    """smallest cubic box half-width satisfying BoxSound of BZReloc.tla (re-checked by TLC), or None."""
    Grec = np.array(Grec, dtype=np.int64)
    x = np.array(x, dtype=np.int64)
    A = adj3(Grec)
    dt = det3(Grec)
    for b in range(1, bmax + 1):
        rng_ = np.arange(-b, b + 1)
        n = np.array(list(itertools.product(rng_, repeat=3)), dtype=np.int64)
        v = x + D * n
        Lmin = int(np.einsum("ni,ij,nj->n", v, Grec, v).min())
        lhs = [(D * (b + 1) - abs(int(x[i]))) ** 2 * dt for i in range(3)]
        if max(lhs) >= 2 ** 30 or Lmin * int(A.max()) >= 2 ** 30:
            return None
        if all(lhs[i] > Lmin * int(A[i, i]) for i in range(3)):
            return b
    return None


def random_unimodular(rng, steps):
    U = np.eye(3, dtype=int)
    for _ in range(steps):
        i, j = rng.sample(range(3), 2)
        E = np.eye(3, dtype=int)
        E[i, j] = rng.choice([-1, 1])
        U = E @ U
    return U


def bz_events(ctx, names, recs):
    rng = ctx.rng
    nprng = np.random.default_rng(ctx.seed + 23)
    events = []
    skipped = 0
    nlat = 14 if ctx.quick else 80
    nq = 16 if ctx.quick else 40
    for _ in range(nlat):
        c = rng.choice(names)
        G = np.array(recs[c]["G"], dtype=np.int64)
        U0 = random_unimodular(rng, rng.choice([0, 0, 1, 2, 3]))
        Gp = U0 @ G @ U0.T
        L = U0 @ xtal.lattice_from_gram(G.astype(float), a=rng.choice([0.9, 1.7, 3.1]), rng=nprng)
        rec = np.linalg.inv(L)  # reciprocal basis vectors as columns
        Grec = adj3(Gp)  # integer multiple of rec^T rec
        k = np.trace(rec.T @ rec) / np.trace(Grec)
        if np.abs(rec.T @ rec - k * Grec).max() > 1e-9 * np.abs(rec.T @ rec).max():
            raise tlcmod.MachineryError("reciprocal Gram matrix mismatch")
        D = rng.choice([2, 3, 4, 6, 8, 12])
        xs = [[rng.randint(-D, D) for _ in range(3)] for _ in range(nq)]
        xs[0] = [D // 2 if D % 2 == 0 else 1] * 3
        qs = np.array(xs, dtype=float) / D
        bz = BrillouinZone(rec)
        U = np.rint(bz._tmat)
        ok_u = float(np.abs(bz._tmat - U).max()) < 1e-6
        try:
            bz.run(qs)
            sets = bz.shortest_qpoints
            uniq = get_qpoints_in_Brillouin_zone(rec, qs, only_unique=True)
        except Exception as e:
            ctx.violation("bz:exception", "X01: Brillouin-zone relocation raised %s" % type(e).__name__,
                          dict(crystal=c, shear=U0.tolist(), err=repr(e)))
            continue
        for x, out, u1 in zip(xs, sets, uniq):
            b = sound_box(Grec, D, x)
            if b is None:
                skipped += 1
                continue
            for single, res in ((False, np.array(out)), (True, np.array([u1]))):
                on = np.rint(res * D)
                resid = float(np.abs(res * D - on).max())
                events.append(dict(id=len(events), kind="impl", G=imat(Grec), D=D, x=[int(v) for v in x], U=imat(U),
                                   B=[b, b, b], out=imat(on), single=single, exact=bool(resid < 1e-6 and ok_u),
                                   _src=dict(crystal=c, shear=U0.tolist(), api="only_unique" if single else "sets")))
            ctx.count(("bz", c, json.dumps(U0.tolist()), D, tuple(x)))
    # GridPoints._fit_qpoints_in_BZ: generic shifts
    for _ in range(6 if ctx.quick else 40):
        c = rng.choice(names)
        G = np.array(recs[c]["G"], dtype=np.int64)
        L = xtal.lattice_from_gram(G.astype(float), a=1.7, rng=nprng)
        rec = np.linalg.inv(L)
        Grec = adj3(G)
        mesh = [rng.randint(1, 2) for _ in range(3)]
        sd = rng.choice([3, 4, 5])
        sn = [rng.randint(0, sd - 1) for _ in range(3)]
        if all((2 * s) % sd == 0 for s in sn):
            sn[0] = 1
        gamma = bool(rng.getrandbits(1))
        gp = GridPoints(mesh, rec, q_mesh_shift=[s / sd for s in sn], is_gamma_center=gamma, is_time_reversal=False,
                        rotations=None, is_mesh_symmetry=False)
        bzo = BrillouinZone(rec)
        U = np.rint(bzo._tmat)
        N = mesh[0] * mesh[1] * mesh[2]
        D = 2 * sd * N
        ish = [int(v) for v in gp._is_shift]
        for g, qout in zip(gp.grid_address, gp.qpoints):
            x = [int((2 * sd * int(g[k]) + sd * ish[k] + 2 * sn[k]) * (N // mesh[k])) for k in range(3)]
            b = sound_box(Grec, D, x)
            if b is None:
                skipped += 1
                continue
            on = np.rint(np.array(qout) * D)
            resid = float(np.abs(np.array(qout) * D - on).max())
            events.append(dict(id=len(events), kind="impl", G=imat(Grec), D=D, x=x, U=imat(U), B=[b, b, b],
                               out=imat([on]), single=True, exact=bool(resid < 1e-6),
                               _src=dict(crystal=c, api="GridPoints._fit_qpoints_in_BZ", mesh=mesh, shift=[sn, sd],
                                         gamma=gamma)))
            ctx.count(("bzfit", c, tuple(mesh), tuple(sn), sd, gamma, tuple(int(v) for v in g)))
    ctx.extra["bz_skipped_box_or_range"] = skipped
    return events


def bz_validate(ctx, events):
    K, Dm = (4, 4) if ctx.quick else (6, 6)
    body = ",\n".join(to_tla({k: v for k, v in e.items() if not k.startswith("_")}) for e in events)
    half = Dm // 2
    mc = ("---- MODULE MC_BZReloc ----\nEXTENDS BZReloc\n"
          "SymMat(a, b, c, f, e, d) == <<<<a, d, e>>, <<d, b, f>>, <<e, f, c>>>>\n"
          "ReducedForms(K) == {G \\in {SymMat(a, b, c, f, e, d) : a \\in 1..K, b \\in 1..K, c \\in 1..K,\n"
          "   f \\in -(K \\div 2)..(K \\div 2), e \\in -(K \\div 2)..(K \\div 2), d \\in -(K \\div 2)..(K \\div 2)} : Niggli(G)}\n"
          "ModelCases == {[id |-> -1, kind |-> \"model\", G |-> g, D |-> %d, x |-> <<p1, p2, p3>>] :\n"
          "   g \\in ReducedForms(%d), p1 \\in 0..%d, p2 \\in -%d..%d, p3 \\in -%d..%d}\n"
          "MCCases == ModelCases \\cup {%s}\n====\n" % (Dm, K, half, half, half, half, half, body))
    cfg = ("INIT Init\nNEXT Next\nCONSTANT Cases <- MCCases\nCHECK_DEADLOCK FALSE\n"
           + "".join("INVARIANT %s\n" % i for i in BZ_MACH + BZ_IMPL + BZ_CONF))
    res = ctx.tlc("MC_BZReloc", cfg_text=cfg, extra_files={"MC_BZReloc.tla": mc}, requirement=False, workers=6,
                  extra_args=("-continue",), keep=True, timeout=2400)
    check_tlc(res)
    byid = {e["id"]: e for e in events}
    for name, tr in res.violations:
        st = tr[-1][1] if tr else {}
        evs = st.get("ev", {})
        e = byid.get(evs.get("id"))
        if name in ("InvBoxSound", "InvCaseWellFormed"):
            raise tlcmod.MachineryError("BZReloc: %s fails (case generator): %s" % (name, {k: evs.get(k) for k in ("kind", "G", "D", "x", "B")}))
        if name == "Window27Complete":
            ctx.violation("bz:Window27Complete",
                          "X01: the 27-neighbour window misses a shortest translate for a Niggli-reduced form",
                          dict(G=evs.get("G"), D=evs.get("D"), x=evs.get("x"), window=st.get("win"), sound=st.get("snd")))
            continue
        detail = dict(invariant=name, source=e["_src"] if e else None, G=evs.get("G"), D=evs.get("D"), x=evs.get("x"),
                      U=evs.get("U"), out=evs.get("out"), shortest=(st.get("snd") or {}).get("vecs"),
                      machine=st.get("win"))
        ctx.violation("bz:" + name, "X01 Brillouin-zone relocation: %s fails on the real result" % name, detail)
    tlcmod.cleanup(res)
    ctx.traces += len(events)
    ctx.extra["events_bz"] = len(events)
    ctx.extra["bz_model"] = dict(K=K, D=Dm)
    ctx.extra["bz_violated"] = sorted(set(n for n, _ in res.violations))


# ------------------------------------------------------------------ (b) Mesh / IterMesh
MI_INV = ["InvInOrder", "InvCounter", "InvStopOnlyAfterAll"]


class IterWorld:
    def __init__(self, ctx, crystals):
        self.ph = {}
        S = [[2, 0, 0], [0, 2, 0], [0, 0, 2]]
        for c in crystals:
            orc = cm.MeshOracle(c, [S], a=1.7, seed=ctx.seed + 5, ctx=ctx)
            with contextlib.redirect_stdout(io.StringIO()):
                ph = Phonopy(orc.unitcell(), supercell_matrix=S)
            ph.force_constants = orc.supercell_fc(S, ph.supercell)
            self.ph[c] = ph

    def make(self, c, kw, it, eig):
        ph = self.ph[c]
        ph.init_mesh(use_iter_mesh=it, with_eigenvectors=eig, **kw)
        return ph._mesh


def reference(world, c, kw):
    """Reference table of a configuration: q, weights, frequencies of a run Mesh and the dynamical matrices."""
    m = world.make(c, kw, False, True)
    m.run()
    ph = world.ph[c]
    dms = []
    for q in m.qpoints:
        ph.dynamical_matrix.run(q)
        dms.append(np.array(ph.dynamical_matrix.dynamical_matrix))
    return dict(q=np.array(m.qpoints), w=np.array(m.weights), f=np.array(m.frequencies), dm=dms, factor=ph._factor)


def drive(obj, hist, ref, expect_eig):
    """Apply a history; observation per call as in MeshIterTrace.tla."""
    obs = []
    eig_ok = True
    fmax = float(np.abs(ref["f"]).max()) or 1.0
    expected = 0  # only used to pick among equal rows
    for call in hist:
        if call == "iter":
            r = iter(obj)
            obs.append(-2 if r is obj else -3)
            continue
        try:
            f, e = next(obj)
        except StopIteration:
            obs.append(-1)
            expected = 0
            continue
        f = np.array(f)
        # compared as signed squares (eigenvalues): acoustic modes at Gamma are sqrt(noise)
        match = [k for k in range(len(ref["f"])) if f.shape == ref["f"][k].shape and
                 float(np.abs(f * np.abs(f) - ref["f"][k] * np.abs(ref["f"][k])).max()) <= 1e-8 * fmax * fmax]
        if not match:
            obs.append(-3)
        else:
            k = expected if expected in match else match[0]
            obs.append(k)
            if expect_eig:
                if e is None:
                    eig_ok = False
                else:
                    lam = (f / ref["factor"]) ** 2 * np.sign(f)
                    dm = (e * lam) @ e.conj().T
                    scale = float(np.abs(ref["dm"][k]).max()) or 1.0
                    if float(np.abs(dm - ref["dm"][k]).max()) > 1e-8 * scale:
                        eig_ok = False
            elif e is not None:
                eig_ok = False
        expected += 1
    return obs, eig_ok


def meshiter(ctx, world):
    rng = ctx.rng
    confs = []
    for c in world.ph:
        confs += [(c, dict(mesh=[2, 2, 2], is_gamma_center=True)),
                  (c, dict(mesh=[3, 3, 2], shift=[0.5, 0.5, 0], is_mesh_symmetry=True)),
                  (c, dict(mesh=[2, 2, 1], is_mesh_symmetry=False)),
                  (c, dict(mesh=[1, 1, 1])),
                  (c, dict(mesh=4.4)),
                  (c, dict(mesh=[2, 1, 2], shift=[0.25, 0.1, 0.3], is_time_reversal=False))]
    if ctx.quick:
        rng.shuffle(confs)
        confs = confs[:7]
    refs = []
    for c, kw in confs:
        ref = reference(world, c, kw)
        itm = world.make(c, kw, True, False)
        same = (np.array_equal(np.array(itm.qpoints), ref["q"]) and np.array_equal(np.array(itm.weights), ref["w"]))
        refs.append(dict(c=c, kw=kw, ref=ref, n=len(ref["q"]), same=bool(same)))
    ns = sorted(set(r["n"] for r in refs))
    maxcalls = 2 * max(ns) + 6
    # spec -> code: histories from TLC
    mc = "---- MODULE MC_MeshIter ----\nEXTENDS MeshIter\nMCNs == %s\n====\n" % to_tla(set(ns))
    cfg = ("SPECIFICATION Spec\nCONSTANTS\n Ns <- MCNs\n MaxCalls = %d\nCHECK_DEADLOCK FALSE\n" % maxcalls
           + "".join("INVARIANT %s\n" % i for i in MI_INV) + "PROPERTY PassComplete\n")
    nsim = 40 if ctx.quick else 400
    res = ctx.tlc("MC_MeshIter", cfg_text=cfg, extra_files={"MC_MeshIter.tla": mc}, requirement=True, workers=1,
                  simulate=dict(num=nsim, file=True), depth=maxcalls + 1, seed=ctx.seed + 3, keep=True, timeout=600)
    histories = []
    for f in sorted(glob.glob(os.path.join(res.simdir, "tr*"))):
        with open(f) as fh:
            text = fh.read()
        lasts = [int(x) for x in re.findall(r"^/\\ last = (-?\d+)\s*$", text, re.M)]
        nn = [int(x) for x in re.findall(r"^/\\ n = (\d+)\s*$", text, re.M)]
        if len(lasts) > 1:
            # the Python iteration protocol starts with iter(): Mesh computes its phonons there
            histories.append(dict(n=nn[0], expect=[-2] + lasts[1:],
                                  hist=["iter"] + ["iter" if v == -2 else "next" for v in lasts[1:]]))
    tlcmod.cleanup(res)
    # natural usages as further histories
    for r in refs:
        n = r["n"]
        histories.append(dict(n=n, hist=["iter"] + ["next"] * (n + 1) + ["iter"] + ["next"] * (n + 1), expect=None))
        histories.append(dict(n=n, hist=["iter"] + ["next"] * max(1, n // 2) + ["iter"] + ["next"] * (n + 2), expect=None))
    events = []
    replayed = 0
    for h in histories:
        cands = [r for r in refs if r["n"] == h["n"]]
        r = rng.choice(cands)
        eig = bool(rng.getrandbits(1))
        for cls, it in (("Mesh", False), ("IterMesh", True)):
            obj = world.make(r["c"], r["kw"], it, eig)
            obs, eig_ok = drive(obj, h["hist"], r["ref"], eig)
            if h["expect"] is not None:
                replayed += 1
                if obs != h["expect"]:
                    ctx.violation("meshiter:replay:" + cls,
                                  "X01: %s does not follow the specification's behaviour under a TLC-generated call history" % cls,
                                  dict(cls=cls, crystal=r["c"], mesh=r["kw"], with_eigenvectors=eig, history=h["hist"],
                                       expected=h["expect"], observed=obs))
            events.append(dict(id=len(events), cls=cls, n=h["n"], hist=h["hist"], obs=obs, sameGrid=r["same"],
                               eigOK=bool(eig_ok), _src=dict(crystal=r["c"], mesh=r["kw"], with_eigenvectors=eig)))
            ctx.count(("meshiter", cls, r["c"], json.dumps(r["kw"], sort_keys=True), eig, tuple(h["hist"])))
    # code -> spec
    body = ",\n".join(to_tla({k: v for k, v in e.items() if not k.startswith("_")}) for e in events)
    mc = "---- MODULE MC_MeshIterTrace ----\nEXTENDS MeshIterTrace\nMCEvents == {%s}\n====\n" % body
    cfg = ("INIT TInit\nNEXT TNext\nCONSTANTS\n Ns = {}\n MaxCalls = %d\n Events <- MCEvents\nCHECK_DEADLOCK FALSE\n" % (maxcalls + 8)
           + "".join("INVARIANT %s\n" % i for i in ["ImplObservations", "ImplSameGrid", "ImplEigenvectors", "EventWellFormed"] + MI_INV))
    res = ctx.tlc("MC_MeshIterTrace", cfg_text=cfg, extra_files={"MC_MeshIterTrace.tla": mc}, requirement=False,
                  workers=4, extra_args=("-continue",), keep=True, timeout=900)
    check_tlc(res)
    byid = {e["id"]: e for e in events}
    for name, tr in res.violations:
        e = byid.get(witness(tr))
        if name == "EventWellFormed":
            raise tlcmod.MachineryError("MeshIterTrace: malformed event")
        ctx.violation("meshiter:%s:%s" % (name, e["cls"] if e else "?"),
                      "X01 mesh iteration: %s fails on a recorded history" % name,
                      dict(invariant=name, source=e["_src"] if e else None, cls=e["cls"] if e else None,
                           history=e["hist"] if e else None, observed=e["obs"] if e else None))
    tlcmod.cleanup(res)
    ctx.traces += len(events)
    ctx.extra["events_meshiter"] = len(events)
    ctx.extra["meshiter_replayed_tlc_histories"] = replayed
    ctx.extra["meshiter_ns"] = ns
    ctx.extra["meshiter_violated"] = sorted(set(n for n, _ in res.violations))
    ctx.sample(dict(kind="mesh iteration history", **{k: events[0][k] for k in ("cls", "n", "hist", "obs")}))


# ------------------------------------------------------------------ self-checks
def selfchecks(ctx, gg_events, bz_events_, pgs):
    """Corrupted events must be rejected by requirement invariants."""
    import copy

    e = copy.deepcopy(next(x for x in gg_events if len(x["qn"]) >= 4))
    e["qn"][1] = list(e["qn"][2])  # a duplicated q-point
    e["id"] = 0
    table = "[%s |-> %s]" % (e["crystal"], to_tla(cm.set_of_mats(pgs[e["crystal"]]["pg"])))
    mc = ("---- MODULE MC_GenGrid ----\nEXTENDS GenGrid\nMCGroupTable == %s\nMCEvents == {%s}\n====\n"
          % (table, to_tla({k: v for k, v in e.items() if not k.startswith("_")})))
    cfg = ("INIT GInit\nNEXT GNext\nCONSTANTS\n Events <- MCEvents\n GroupTable <- MCGroupTable\nCHECK_DEADLOCK FALSE\n"
           + "".join("INVARIANT %s\n" % i for i in GG_IMPL))
    res = tlcmod.run("MC_GenGrid", cfg_text=cfg, extra_files={"MC_GenGrid.tla": mc}, workers=1, extra_args=("-continue",),
                     keep=True, timeout=300)
    got = sorted(set(n for n, _ in res.violations))
    tlcmod.cleanup(res)
    ctx.extra["selfcheck_gengrid_duplicate_q_rejected_by"] = got
    if not got:
        raise tlcmod.MachineryError("corrupted GenGrid event accepted")
    b = copy.deepcopy(next(x for x in bz_events_ if not x["single"]))
    b["out"] = [[b["out"][0][0] + b["D"], b["out"][0][1], b["out"][0][2]]] + b["out"][1:]  # a longer translate
    b["id"] = 0
    mc = ("---- MODULE MC_BZReloc ----\nEXTENDS BZReloc\nMCCases == {%s}\n====\n"
          % to_tla({k: v for k, v in b.items() if not k.startswith("_")}))
    cfg = ("INIT Init\nNEXT Next\nCONSTANT Cases <- MCCases\nCHECK_DEADLOCK FALSE\n"
           + "".join("INVARIANT %s\n" % i for i in BZ_IMPL))
    res = tlcmod.run("MC_BZReloc", cfg_text=cfg, extra_files={"MC_BZReloc.tla": mc}, workers=1, extra_args=("-continue",),
                     keep=True, timeout=300)
    got = sorted(set(n for n, _ in res.violations))
    tlcmod.cleanup(res)
    ctx.extra["selfcheck_bz_longer_translate_rejected_by"] = got
    if not got:
        raise tlcmod.MachineryError("corrupted BZReloc event accepted")


# ------------------------------------------------------------------ run
def run(ctx):
    ctx.rule = ("one case = one GeneralizedRegularGridPoints construction (crystal, length, suggest, time reversal, "
                "address order), one relocated q-point (lattice presentation, denominator, point, API), or one call "
                "history on a Mesh/IterMesh object; plus the model cases (Niggli form, point) of the window theorem")
    names = ["sc", "nacl", "bcc", "hcp", "wz", "tetab", "tric", "fccp", "rhp", "ocp", "mcp2", "bctp"] if ctx.quick \
        else cm.ALL_NAMES
    pgs = cm.point_groups(names, ctx)
    recs = crystal_records(names, ctx)
    gg = gengrid_events(ctx, names, recs)
    gengrid_validate(ctx, gg, pgs)
    ctx.sample(dict(kind="generalized grid", cfg=gg[0]["_cfg"], M=gg[0]["M"], D=gg[0]["D"], n_ops=len(gg[0]["ops"])))
    bz = bz_events(ctx, names, recs)
    bz_validate(ctx, bz)
    ctx.sample(dict(kind="BZ relocation", **{k: bz[0][k] for k in ("G", "D", "x", "U", "out", "single")}))
    world = IterWorld(ctx, ["hcp", "ocp"] if ctx.quick else ["hcp", "ocp", "mcp2", "tetab", "fccp"])
    meshiter(ctx, world)
    selfchecks(ctx, gg, bz, pgs)
    ctx.assumptions += [
        "eigenfrequencies/eigenvectors are evaluated by phonopy; a yield is identified with the stored q-point whose "
        "reference frequencies (a run Mesh) it equals (signed squares, 1e-8 of the largest)",
        "the standardized primitive cell chosen by spglib enters as logged data (transformation matrix); the "
        "specification checks it is a primitive basis of the exact crystal and carries the exact point group",
        "the mesh numbers derived from the length (estimate_supercell_matrix heuristics) are not part of the requirement",
    ]
