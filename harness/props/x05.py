"""X05 (specification growth): the Symmetry class and the atomic permutations.

Specs:
  spec/SymmetryClass.tla       decorated integer crystals; the (magnetic) space group BY DEFINITION (every
                               (W, w, th), W an integer isometry of the lattice, that maps the decorated crystal onto
                               itself), orbits, stabilisers, label-preserving translations, lattice-vector
                               equivalence, the 32 crystal classes by their census of rotation types.
  spec/SymmetryClassTrace.tla  code -> spec: one event = everything one real Symmetry object reports; TLC computes
                               the group and judges (Impl* requirement, Conforms* conventions, Thm* self-checks).
  spec/SymmetryCells.tla       spec -> code: TLC builds small decorated cells atom by atom (simulated / exhaustive);
                               the harness realises each and the real object is judged by the trace specification.
  spec/SymmetryCatalogue.tla   catalogue entries as decorated crystals + magnetic entries of our own.
"""
from __future__ import annotations

import os

os.environ["OMP_NUM_THREADS"] = "1"

import copy
import glob
import json
import re

import numpy as np

from harness import bootstrap  # noqa: F401
from harness import tla_values
from harness import tlc as tlcmod
from harness import x05_lib as xl
from harness.tla_values import to_tla

from phonopy.structure.symmetry import Symmetry

IMPL = ["ImplWellTyped", "ImplExact", "ImplGroupEqual", "ImplNoDuplicate", "ImplIsometries", "ImplClosed", "ImplPointGroup",
        "ImplReciprocal", "ImplPointGroupSymbol", "ImplSiteSymmetry", "ImplMapAtoms", "ImplIndependent",
        "ImplMapOperations", "ImplPermutations", "ImplPermutationsAction", "ImplLatticeVectorEquivalence"]
CONF = ["ConformsSmallest", "ConformsS2PKept", "ConformsFirstOperation", "ConformsReciprocalIndex"]
THM = ["ThmGroup", "ThmIsometries", "ThmEquivLength", "ThmClass", "ThmOrbitsPartition"]
VERDICT_OF = dict(ImplWellTyped="typed", ImplExact="exact", ImplGroupEqual="groupEqual", ImplNoDuplicate="noDuplicate",
                  ImplIsometries="isometries", ImplClosed="closed", ImplPointGroup="pointGroup",
                  ImplReciprocal="reciprocal", ImplPointGroupSymbol="pgSymbol", ImplSiteSymmetry="siteSym",
                  ImplMapAtoms="mapAtoms", ImplIndependent="independent", ImplMapOperations="mapOps",
                  ImplPermutations="perms", ImplPermutationsAction="permsAction",
                  ImplLatticeVectorEquivalence="latVecEq", ConformsSmallest="smallest", ConformsS2PKept="s2pKept",
                  ConformsFirstOperation="firstOp", ConformsReciprocalIndex="recIndex", ThmGroup="thmGroup",
                  ThmIsometries="thmIso", ThmEquivLength="thmEquivLength", ThmClass="thmClass",
                  ThmOrbitsPartition="thmOrbitsPartition")
NAME_OF = {v: k for k, v in VERDICT_OF.items()}

SUPERCELLS = [
    [[2, 0, 0], [0, 1, 0], [0, 0, 1]],
    [[1, 0, 0], [0, 1, 0], [0, 0, 2]],
    [[2, 0, 0], [0, 2, 0], [0, 0, 1]],
    [[1, 1, 0], [-1, 1, 0], [0, 0, 1]],
    [[0, 1, 1], [1, 0, 1], [1, 1, 0]],
    [[2, 1, 0], [0, 1, 0], [0, 0, 1]],
    [[1, 0, 0], [0, 1, 0], [0, 0, 3]],
    [[2, 0, 0], [0, 2, 0], [0, 0, 2]],
    [[-1, 1, 1], [1, -1, 1], [1, 1, -1]],
    [[1, 0, 1], [0, 2, 0], [-1, 0, 1]],
]


def check_tlc(res):
    if res.violated and (res.kind not in ("invariant", "action_property") or not res.violations):
        raise tlcmod.MachineryError("TLC: %s (%s)\n%s" % (res.violated, res.kind, res.stdout[-1500:]))


# ------------------------------------------------------------------ crystals from TLC
def catalogue(ctx):
    cfg = "INIT CInit\nNEXT CNext\nCHECK_DEADLOCK FALSE\n"
    res = ctx.tlc("SymmetryCatalogue", cfg_text=cfg, dump=True, keep=True, workers=2, requirement=False, timeout=600)
    check_tlc(res)
    out = {}
    for st in tla_values.parse_dump(res.dump_path):
        c = st["cr"]
        out[c["name"]] = plain(c)
    tlcmod.cleanup(res)
    return out


def plain(c):
    def mg(x):
        return [int(v) for v in x]

    return dict(name=c.get("name", "?"), gram=xl.imat(c["gram"]), den=int(c["den"]), mmode=c["mmode"],
                atm=[dict(sp=int(a["sp"]), num=xl.ivec(a["num"]), mg=mg(a["mg"])) for a in c["atm"]])


LAT_GRAM = None


def tlc_cells(ctx, num, max_atoms, exhaustive_none=False):
    """Cells built by TLC (spec -> code).  Simulated behaviours (final states; prefixes are cells as well), and in
    the thorough tier every cell without moments with up to two atoms."""
    mc = ("---- MODULE MC_SymmetryCells ----\nEXTENDS SymmetryCells\n"
          "MCModes == {\"none\", \"col\", \"ncl\"}\nMCNone == {\"none\"}\n====\n")
    cfg = ("INIT Init\nNEXT Next\nCONSTANTS\n MaxAtoms = %d\n NSpecies = 2\n WithExpect = TRUE\n Modes <- MCModes\nCHECK_DEADLOCK FALSE\n"
           "INVARIANT InvDistinct\n" % max_atoms)
    res = ctx.tlc("MC_SymmetryCells", cfg_text=cfg, extra_files={"MC_SymmetryCells.tla": mc}, requirement=True,
                  workers=1, simulate=dict(num=num, file=True), depth=max_atoms + 2, seed=ctx.seed + 17, keep=True,
                  timeout=600)
    cells = []
    lat = lattices()
    for f in sorted(glob.glob(os.path.join(res.simdir, "tr*"))):
        st = last_sim_state(f)
        if st is None:
            continue
        if not st.get("atoms"):
            continue
        cells.append(cell_of_state(st, lat))
    tlcmod.cleanup(res)
    ex = []
    if exhaustive_none:
        cfg = ("INIT Init\nNEXT Next\nCONSTANTS\n MaxAtoms = 2\n NSpecies = 2\n WithExpect = TRUE\n Modes <- MCNone\nCHECK_DEADLOCK FALSE\n"
               "INVARIANT InvDistinct\n")
        res = ctx.tlc("MC_SymmetryCells", cfg_text=cfg, extra_files={"MC_SymmetryCells.tla": mc}, requirement=True,
                      workers=2, dump=True, keep=True, timeout=900)
        for st in tla_values.parse_dump(res.dump_path):
            if st.get("atoms") and st.get("expect"):
                ex.append(cell_of_state(st, lat))
        tlcmod.cleanup(res)
    return cells, ex


_LAT = None


def last_sim_state(path):
    with open(path) as fh:
        text = fh.read()
    parts = re.split(r"^STATE_\d+ ==\s*$", text, flags=re.M)
    if len(parts) < 2:
        return None
    body = parts[-1].split("\n====")[0]
    body = "\n".join(l for l in body.splitlines() if not l.startswith("\\*"))
    return tla_values.parse_state_body(body)


def lattices():
    """The lattice table of SymmetryCells.tla (gram, den per index), read back from TLC once."""
    global _LAT
    if _LAT is None:
        mc = ("---- MODULE MC_SymmetryLat ----\nEXTENDS SymmetryCells\n"
              "ASSUME PrintT(<<\"LAT\", [k \\in 1..Len(Lattices) |-> <<Lattices[k].nm, Lattices[k].gram, Lattices[k].den>>]>>)\n"
              "====\n")
        cfg = ("INIT Init\nNEXT Next\nCONSTANTS\n MaxAtoms = 0\n NSpecies = 1\n WithExpect = FALSE\n Modes = {}\nCHECK_DEADLOCK FALSE\n")
        res = tlcmod.run("MC_SymmetryLat", cfg_text=cfg, extra_files={"MC_SymmetryLat.tla": mc}, workers=1, keep=True,
                         timeout=300)
        vals = [v for v in tlcmod.printed_values(res.stdout) if isinstance(v, (list, tuple)) and v and v[0] == "LAT"]
        tlcmod.cleanup(res)
        if not vals:
            raise tlcmod.MachineryError("lattice table of SymmetryCells not printed")
        _LAT = [dict(nm=x[0], gram=xl.imat(x[1]), den=int(x[2])) for x in vals[0][1]]
    return _LAT


def cell_of_state(st, lat):
    l = lat[int(st["lat"]) - 1]
    c = dict(name="tlc:" + l["nm"], gram=l["gram"], den=l["den"], mmode=st["mode"], atm=list(st["atoms"]))
    c = plain(c)
    x = st.get("expect")
    if x:
        c["_expect"] = dict(ops=[(xl.imat(g[0]), xl.ivec(g[1]), int(g[2])) for g in x["ops"]],
                            perms=[xl.ivec(p) for p in x["perms"]], reps=xl.ivec(x["reps"]))
    return c


def expected_for(ctx, crystals):
    """TLC computes Expected (SymmetryClass.tla) for crystals handed over by the harness (SymmetryExpect.tla)."""
    given = []
    for i, c in enumerate(crystals):
        given.append(dict(gid=i, gram=c["gram"], den=c["den"], atm=c["atm"], mmode=c["mmode"]))
    mc = ("---- MODULE MC_SymmetryExpect ----\nEXTENDS SymmetryExpect\nMCGiven == {%s}\n====\n"
          % ",\n".join(to_tla(g) for g in given))
    cfg = "INIT Init\nNEXT Next\nCONSTANT Given <- MCGiven\nCHECK_DEADLOCK FALSE\n"
    res = ctx.tlc("MC_SymmetryExpect", cfg_text=cfg, extra_files={"MC_SymmetryExpect.tla": mc}, requirement=False,
                  workers=6, dump=True, keep=True, timeout=1800)
    check_tlc(res)
    out = []
    for st in tla_values.parse_dump(res.dump_path):
        x = st.get("expect")
        if not x:
            continue
        c = dict(crystals[int(st["gv"]["gid"])])
        c["_expect"] = dict(ops=[(xl.imat(g[0]), xl.ivec(g[1]), int(g[2])) for g in x["ops"]],
                            perms=[xl.ivec(p) for p in x["perms"]], reps=xl.ivec(x["reps"]))
        out.append(c)
    tlcmod.cleanup(res)
    return out


def replay_crystals(ctx, cat):
    """catalogue entries, permuted, and integer supercells (translations, longer cycles) for the replay"""
    rng = ctx.rng
    out = []
    names = sorted(cat)
    maxat = 12 if ctx.quick else 24
    for nm in names:
        cr = cat[nm]
        n0 = len(cr["atm"])
        if n0 <= maxat:
            order = list(range(n0))
            rng.shuffle(order)
            out.append(xl.permute(cr, order))
        smats = [S for S in SUPERCELLS if n0 * abs(xl.det3(S)) <= maxat]
        rng.shuffle(smats)
        for S in smats[: (1 if ctx.quick else 3)]:
            sc, parent = xl.supercell(cr, S)
            order = list(range(len(parent)))
            rng.shuffle(order)
            out.append(xl.permute(sc, order))
    if ctx.quick:
        rng.shuffle(out)
        out = out[:24]
    return out


def replay_cells(ctx, cells, nprng):
    """spec -> code: the values TLC computed from the definition for the cells it built (operations, the permutation
    of the atoms by every operation, orbit representatives) against the real code: Symmetry's report, and
    compute_all_sg_permutations driven with TLC's operations."""
    from phonopy.structure.cells import compute_all_sg_permutations

    rng = ctx.rng
    n = 0
    for k, c in enumerate(cells):
        x = c.get("_expect")
        if not x:
            continue
        cr = {kk: v for kk, v in c.items() if kk != "_expect"}
        symprec = rng.choice([1e-5, 1e-5, 1e-3])
        noise = rng.choice([0.0, 0.0, 0.02]) * symprec
        cell, L = xl.realise(cr, nprng, a=rng.choice([1.3, 2.1]), noise=noise)
        D = cr["den"]
        detail = dict(crystal=cr, symprec=symprec, noise=noise, n_ops_definition=len(x["ops"]))
        rots = np.array([g[0] for g in x["ops"]], dtype="intc", order="C")
        trans = np.array([g[1] for g in x["ops"]], dtype="double", order="C") / D
        try:
            perms = compute_all_sg_permutations(cell.scaled_positions, rots, trans,
                                                np.array(cell.cell.T, dtype="double", order="C"), symprec)
        except Exception as e:
            report_exception(ctx, e, cr, "replay cell %d: compute_all_sg_permutations" % k, detail)
            continue
        n += 1
        ctx.count(("replay", json.dumps(cr, sort_keys=True)))
        if [xl.ivec(p) for p in perms] != x["perms"]:
            bad = next(i for i, p in enumerate(perms) if xl.ivec(p) != x["perms"][i])
            ctx.violation("replay:permutations",
                          "X05: compute_all_sg_permutations differs from the permutation TLC computes from the definition",
                          dict(operation=x["ops"][bad], expected=x["perms"][bad], observed=xl.ivec(perms[bad]), **detail))
        try:
            so = Symmetry(cell, symprec=symprec)
        except Exception as e:
            report_exception(ctx, e, cr, "replay cell %d" % k, dict(is_symmetry=True, **detail))
            continue
        ops = so.symmetry_operations
        real = sorted((tuple(map(tuple, xl.imat(r))), tuple(int(v) % D for v in np.rint(np.array(t) * D)))
                      for r, t in zip(ops["rotations"], ops["translations"]))
        want = sorted((tuple(map(tuple, g[0])), tuple(v % D for v in g[1])) for g in x["ops"])
        if real != want:
            ctx.violation("replay:operations:%s" % cr["mmode"],
                          "X05: the operations Symmetry reports differ from the group TLC computes from the definition",
                          dict(n_reported=len(real), missing=[w for w in want if w not in real][:4],
                               extra=[r for r in real if r not in want][:4], **detail))
        if xl.ivec(list(so.get_map_atoms())) != x["reps"]:
            ctx.violation("replay:map_atoms:%s" % cr["mmode"],
                          "X05: map_atoms differs from the smallest index of each orbit computed by TLC",
                          dict(expected=x["reps"], observed=xl.ivec(list(so.get_map_atoms())), **detail))
    ctx.traces += n
    ctx.extra["replayed_cells"] = n


# ------------------------------------------------------------------ one real object -> one event
def report_exception(ctx, e, cr, src, detail):
    """phonopy (or spglib) failed where the specification expects a result: a violation, keyed by type and place."""
    import traceback

    tb = traceback.extract_tb(e.__traceback__)
    where = tb[-1].name if tb else "?"
    key = "sym:exception:%s:%s" % (type(e).__name__, where)
    what = "X05: Symmetry raised %s in %s on an exactly representable crystal" % (type(e).__name__, where)
    if (isinstance(e, AttributeError) and where == "_set_symmetry_operations_with_magmoms" and cr["mmode"] != "none"
            and detail.get("is_symmetry", True) and "'NoneType' object has no attribute" in str(e)):
        # exactly this failure: the magnetic dataset of spglib is None and is dereferenced
        key = "sym:exception:magnetic-dataset-none"
        what = ("X05: Symmetry raises AttributeError on a magnetic cell: spglib could not identify the magnetic "
                "space-group type (get_magnetic_symmetry_dataset returned None) although the operations exist")
        ctx.extra["magnetic_dataset_none"] = ctx.extra.get("magnetic_dataset_none", 0) + 1
    d = dict(detail)
    d.update(source=src, crystal=cr, err=repr(e), tb=traceback.format_exc()[-1500:])
    ctx.violation(key, what, d)


def make_event(cr, bx, logged, src, symprec, noise, a, sym, s2p):
    n = len(cr["atm"])
    nops = len(logged["rots"])
    ev = dict(gram=cr["gram"], den=cr["den"], atm=cr["atm"], mmode=cr["mmode"], bx=bx, sym=bool(sym),
              s2p=list(s2p) if s2p is not None else [], deep=bool(nops <= 64 and nops * nops * n <= 40000))
    ev.update(logged)
    ev["_src"] = dict(source=src, symprec=symprec, noise=noise, a=a, is_symmetry=bool(sym), s2p_map=s2p, natom=n,
                      nops=nops, mmode=cr["mmode"])
    return ev


def observe(ctx, cr, src, nprng, symprec=1e-5, noise=0.0, a=1.7, sym=True, s2p=None):
    bx = xl.sound_box(cr["gram"])
    if bx is None:
        return None
    cell, L = xl.realise(cr, nprng, a=a, noise=noise)
    try:
        so = Symmetry(cell, symprec=symprec, is_symmetry=sym, s2p_map=(np.array(s2p, dtype="intc") if s2p is not None else None))
        logged = xl.project(so, cr, L, symprec, is_symmetry=sym)
    except Exception as e:
        report_exception(ctx, e, cr, src, dict(symprec=symprec, noise=noise, is_symmetry=sym, s2p_map=s2p,
                                               lattice_rows=L.tolist()))
        return None
    return make_event(cr, bx, logged, src, symprec, noise, a, sym, s2p)


def api_events(ctx, cat, nprng):
    """The objects a Phonopy instance builds: Symmetry(supercell, symprec, is_symmetry, s2p_map=primitive.s2p_map)
    and Symmetry(primitive, ...).  The real supercell / primitive cell are projected back to integer crystals."""
    import contextlib
    import io

    from phonopy import Phonopy

    rng = ctx.rng
    events = []
    names = sorted(cat)
    if ctx.quick:
        rng.shuffle(names)
        names = names[:10]
    maxat = 16 if ctx.quick else 32
    for nm in names:
        cr = cat[nm]
        n0 = len(cr["atm"])
        smats = [[[1, 0, 0], [0, 1, 0], [0, 0, 1]]] + [S for S in SUPERCELLS if n0 * abs(xl.det3(S)) <= maxat]
        rng.shuffle(smats)
        for S in smats[: (2 if ctx.quick else 5)]:
            symprec = rng.choice([1e-5, 1e-5, 1e-3])
            noise = rng.choice([0.0, 0.0, 0.02]) * symprec
            a = rng.choice([1.3, 1.7])
            sym = rng.random() < 0.6
            # (primitive_matrix="auto" is documented to refuse cells with magnetic moments)
            pm = rng.choice(["auto", None]) if cr["mmode"] == "none" else None
            cell, L = xl.realise(cr, nprng, a=a, noise=noise)
            src = "Phonopy(%s, supercell_matrix=%s, primitive_matrix=%s, is_symmetry=%s)" % (nm, json.dumps(S), pm, sym)
            detail = dict(symprec=symprec, noise=noise, is_symmetry=sym, lattice_rows=L.tolist())
            try:
                with contextlib.redirect_stdout(io.StringIO()):
                    ph = Phonopy(cell, supercell_matrix=S, primitive_matrix=pm, symprec=symprec, is_symmetry=sym)
                so = ph.symmetry
                sc, resid = xl.project_cell(ph.supercell, cr, L, S, a)
                if sc is None:
                    raise tlcmod.MachineryError("X05: supercell of %s not on the grid (%g)" % (src, resid))
                s2p = [int(x) for x in ph.primitive.s2p_map]
                bx = xl.sound_box(sc["gram"])
                if bx is None:
                    continue
                Lsc = np.array(ph.supercell.cell)
                logged = xl.project(so, sc, Lsc, symprec, is_symmetry=sym)
            except tlcmod.MachineryError:
                raise
            except Exception as e:
                report_exception(ctx, e, cr, src, detail)
                continue
            events.append(make_event(sc, bx, logged, src + ".symmetry", symprec, noise, a, sym, s2p if not sym else None))
            ctx.count(("api", src))
            # the primitive cell's object, when the primitive cell is the unit cell itself
            if len(ph.primitive) == n0 and np.allclose(ph.primitive.cell, L, atol=1e-10):
                try:
                    pc, resid = xl.project_cell(ph.primitive, cr, L, [[1, 0, 0], [0, 1, 0], [0, 0, 1]], a)
                    if pc is None:
                        continue
                    logged = xl.project(ph.primitive_symmetry, pc, L, symprec, is_symmetry=sym)
                except Exception as e:
                    report_exception(ctx, e, cr, src + ".primitive_symmetry", detail)
                    continue
                events.append(make_event(pc, xl.sound_box(pc["gram"]), logged, src + ".primitive_symmetry", symprec, noise,
                                         a, sym, None))
                ctx.count(("api-prim", src))
    return events


def clean(e):
    return {k: v for k, v in e.items() if not k.startswith("_")}


def judge(ctx, events, tag, workers=8):
    """TLC judges a batch of events; returns per-invariant failures."""
    for i, e in enumerate(events):
        e["id"] = i
    body = ",\n".join(to_tla(clean(e)) for e in events)
    mc = "---- MODULE MC_SymmetryClassTrace ----\nEXTENDS SymmetryClassTrace\nMCEvents == {%s}\n====\n" % body
    cfg = ("INIT TInit\nNEXT TNext\nCONSTANT Events <- MCEvents\nCHECK_DEADLOCK FALSE\nINVARIANT EventWellFormed\n"
           + "".join("INVARIANT %s\n" % i for i in IMPL + CONF + THM))
    res = ctx.tlc("MC_SymmetryClassTrace", cfg_text=cfg, extra_files={"MC_SymmetryClassTrace.tla": mc},
                  requirement=False, workers=workers, extra_args=("-continue",), keep=True, timeout=2400)
    check_tlc(res)
    failures = []
    for name, tr in res.violations:
        st = tr[-1][1] if tr else {}
        eid = st.get("ev", {}).get("id")
        e = events[eid] if eid is not None and eid < len(events) else None
        if name == "EventWellFormed":
            raise tlcmod.MachineryError("SymmetryClassTrace: malformed event %s" % (e["_src"] if e else "?"))
        verdict = st.get("verdict") or {}
        failed = sorted(NAME_OF[k] for k, v in verdict.items() if v is False and k in NAME_OF) or [name]
        failures.append((failed, e, st))
    tlcmod.cleanup(res)
    ctx.traces += len(events)
    ctx.extra.setdefault("events", {})[tag] = len(events)
    return failures


def report(ctx, failures):
    for failed, e, st in failures:
        thm = [f for f in failed if f.startswith("Thm")]
        if thm:
            raise tlcmod.MachineryError("SymmetryClassTrace: %s fails (specification or input defect): %s"
                                        % (thm, e["_src"] if e else None))
        src = e["_src"] if e else {}
        cls = "%s:%s" % (src.get("mmode", "?"),
                         "sym" if src.get("is_symmetry", True) else ("nosym+s2p" if src.get("s2p_map") else "nosym"))
        grp = st.get("grp")
        for f in failed:
            kind = "sym" if f.startswith("Impl") else "conforms"
            ctx.violation("%s:%s:%s" % (kind, f, cls),
                          "X05 Symmetry class: %s fails on the real result (%s)" % (f, cls),
                          dict(invariant=f, all_failed=failed, source=src,
                               crystal={k: e[k] for k in ("gram", "den", "atm", "mmode")} if e else None,
                               n_reported=len(e["rots"]) if e else None,
                               n_group_by_definition=len(grp) if grp is not None else None,
                               map_atoms=e["mapat"] if e else None, map_operations=e["mapop"] if e else None,
                               pointgroup_symbol=e["pgsym"] if e else None, lveq=e["lveq"] if e else None))


# ------------------------------------------------------------------ event sources
def catalogue_events(ctx, cat, nprng):
    rng = ctx.rng
    events = []
    names = sorted(cat)
    maxat = 16 if ctx.quick else 32
    for nm in names:
        cr = cat[nm]
        n0 = len(cr["atm"])
        # the entry itself, a permuted copy, supercells
        variants = [("unit", cr, None)]
        order = list(range(n0))
        rng.shuffle(order)
        variants.append(("unit-permuted", xl.permute(cr, order), None))
        smats = [S for S in SUPERCELLS if n0 * abs(xl.det3(S)) <= maxat]
        rng.shuffle(smats)
        for S in smats[: (2 if ctx.quick else 6)]:
            sc, parent = xl.supercell(cr, S)
            order = list(range(len(parent)))
            if rng.random() < 0.6:
                rng.shuffle(order)
            sc, lab = xl.permute(sc, order, parent)
            variants.append(("supercell %s" % json.dumps(S), sc, xl.s2p_from_labels(lab)))
        for what, c, s2p in variants:
            symprec = rng.choice([1e-5, 1e-5, 1e-3, 1e-6, 1e-4])
            noise = rng.choice([0.0, 0.0, 0.02]) * symprec
            a = rng.choice([1.3, 1.7, 2.9])
            src = "%s %s" % (nm, what)
            ev = observe(ctx, c, src, nprng, symprec=symprec, noise=noise, a=a)
            if ev:
                events.append(ev)
                ctx.count(("cat", src, symprec, noise > 0))
            # is_symmetry=False: identity only / pure translations inside the cell
            if s2p is not None or rng.random() < 0.3:
                use = s2p if (s2p is not None and rng.random() < 0.8) else None
                ev = observe(ctx, c, src, nprng, symprec=symprec, noise=noise, a=a, sym=False, s2p=use)
                if ev:
                    events.append(ev)
                    ctx.count(("cat-nosym", src, use is not None))
    return events


def cell_events(ctx, cells, nprng, tag):
    rng = ctx.rng
    events = []
    for k, c in enumerate(cells):
        c = {kk: v for kk, v in c.items() if kk != "_expect"}
        n = len(c["atm"])
        if tag == "sim":  # any prefix of a behaviour is a reachable cell
            m = rng.choice([n, n, n, max(1, n - 1), rng.randint(1, n)])
            c = dict(c, atm=c["atm"][:m])
        symprec = rng.choice([1e-5, 1e-5, 1e-3])
        noise = rng.choice([0.0, 0.0, 0.0, 0.02]) * symprec
        ev = observe(ctx, c, "%s cell %d" % (tag, k), nprng, symprec=symprec, noise=noise, a=rng.choice([1.3, 2.1]))
        if ev:
            events.append(ev)
            ctx.count((tag, json.dumps(c, sort_keys=True)))
    return events


# ------------------------------------------------------------------ self-checks (binding of the trace spec)
def selfchecks(ctx, events):
    """Deliberately corrupted events must be rejected by the named requirement invariants."""
    def not_involutions(e):
        return any(list(np.argsort(p)) != list(p) for p in e["prm"])

    base = next(e for e in events if e["sym"] and len(e["atm"]) >= 4 and 8 <= len(e["rots"]) <= 64 and e["deep"]
                and not_involutions(e) and len(set(e["mapat"])) < len(e["atm"]))
    demos = []
    e = copy.deepcopy(base)  # a wrong translation part
    e["trn"][-1][0] += 1
    demos.append(("translation part off by one grid step", e, "ImplGroupEqual"))
    e = copy.deepcopy(base)  # an operation dropped (map_operations may then point outside)
    for k in ("rots", "trn", "trev", "prm"):
        e[k] = e[k][:-1]
    demos.append(("operation dropped", e, "ImplGroupEqual|ImplWellTyped"))
    e = copy.deepcopy(base)  # two images exchanged in one permutation
    p = e["prm"][1]
    p[0], p[1] = p[1], p[0]
    demos.append(("permutation entries exchanged", e, "ImplPermutations"))
    e = copy.deepcopy(base)  # inverse permutation convention (perm[image] = atom)
    e["prm"] = [[int(x) for x in np.argsort(p)] for p in e["prm"]]
    demos.append(("inverse permutations", e, "ImplPermutations"))
    e = copy.deepcopy(base)  # reciprocal operations without time reversal
    if len(e["rcp"]) > len(e["ptg"]):
        e["rcp"] = e["rcp"][: len(e["ptg"])]
    else:
        e["rcp"][-1] = e["rcp"][0]
    demos.append(("reciprocal operations without -R / one missing", e, "ImplReciprocal"))
    e = copy.deepcopy(base)
    i, k = next((i, k) for i in range(len(e["atm"])) for k in range(len(e["rots"])) if e["prm"][k][i] != e["mapat"][i])
    e["mapop"][i] = k
    demos.append(("map_operations entry not sending the atom to its representative", e, "ImplMapOperations"))
    e = copy.deepcopy(base)
    e["site"][0] = e["site"][0][:-1] if len(e["site"][0]) > 1 else e["site"][0] + [e["rots"][1]]
    demos.append(("site symmetry incomplete", e, "ImplSiteSymmetry"))
    got = {}
    fails = judge_raw([d[1] for d in demos])
    for i, (nm, _, expect) in enumerate(demos):
        got[nm] = fails.get(i, [])
        if not set(expect.split("|")) & set(got[nm]):
            raise tlcmod.MachineryError("X05 self-check: corrupted event (%s) not rejected by %s: %s" % (nm, expect, got[nm]))
    ctx.extra["selfcheck_rejected_by"] = got


def judge_raw(events):
    evs = []
    for i, e in enumerate(events):
        e = dict(e)
        e["id"] = i
        evs.append(e)
    body = ",\n".join(to_tla(clean(e)) for e in evs)
    mc = "---- MODULE MC_SymmetryClassTrace ----\nEXTENDS SymmetryClassTrace\nMCEvents == {%s}\n====\n" % body
    cfg = ("INIT TInit\nNEXT TNext\nCONSTANT Events <- MCEvents\nCHECK_DEADLOCK FALSE\n"
           + "".join("INVARIANT %s\n" % i for i in IMPL + CONF))
    res = tlcmod.run("MC_SymmetryClassTrace", cfg_text=cfg, extra_files={"MC_SymmetryClassTrace.tla": mc}, workers=4,
                     extra_args=("-continue",), keep=True, timeout=900)
    out = {}
    for name, tr in res.violations:
        st = tr[-1][1] if tr else {}
        eid = st.get("ev", {}).get("id")
        verdict = st.get("verdict") or {}
        out[eid] = sorted(NAME_OF[k] for k, v in verdict.items() if v is False and k in NAME_OF) or [name]
    tlcmod.cleanup(res)
    return out


# ------------------------------------------------------------------ run
def run(ctx):
    ctx.rule = ("one case = one real Symmetry object (decorated crystal: catalogue entry / permuted / integer supercell / "
                "TLC-built cell; magnetic mode; symprec; sub-tolerance noise; orientation; is_symmetry, s2p_map) judged "
                "by TLC against the group computed from the definition")
    nprng = np.random.default_rng(ctx.seed + 5)
    cat = catalogue(ctx)
    ev_cat = catalogue_events(ctx, cat, nprng)
    sim, ex = tlc_cells(ctx, 60 if ctx.quick else 500, 4, exhaustive_none=not ctx.quick)
    ev_sim = cell_events(ctx, sim, nprng, "sim")
    ev_ex = cell_events(ctx, ex, nprng, "exhaustive")
    ev_api = api_events(ctx, cat, nprng)
    given = expected_for(ctx, replay_crystals(ctx, cat))
    replay_cells(ctx, sim + ex + given, nprng)
    ctx.extra["replayed_by_source"] = dict(tlc_cells=len(sim) + len(ex), catalogue_and_supercells=len(given))
    allev = ev_cat + ev_sim + ev_ex + ev_api
    # batches of bounded size (one TLC run each)
    allev.sort(key=lambda e: len(e["rots"]) * len(e["atm"]))
    batch, size, failures, nb = [], 0, [], 0
    for e in allev + [None]:
        w = 0 if e is None else len(e["rots"]) * (len(e["atm"]) + 12)
        if batch and (e is None or size + w > 120000 or len(batch) >= 400):
            failures += judge(ctx, batch, "batch%d" % nb)
            nb += 1
            batch, size = [], 0
        if e is not None:
            batch.append(e)
            size += w
    report(ctx, failures)
    ctx.extra["events_total"] = len(allev)
    ctx.extra["events_by_source"] = dict(catalogue=len(ev_cat), tlc_simulated=len(ev_sim), tlc_exhaustive=len(ev_ex),
                                          phonopy_api=len(ev_api))
    ctx.extra["events_by_mode"] = {m: sum(1 for e in allev if e["mmode"] == m) for m in ("none", "col", "ncl")}
    ctx.extra["events_nosym"] = sum(1 for e in allev if not e["sym"])
    ctx.extra["events_noisy"] = sum(1 for e in allev if e["_src"]["noise"] > 0)
    ctx.extra["max_ops"] = max(len(e["rots"]) for e in allev)
    ctx.extra["deep_events"] = sum(1 for e in allev if e["deep"])
    if ev_ex:
        ctx.exhaustive = False
        ctx.extra["exhaustive_part"] = "every cell without moments, <= 2 atoms, 2 species, of the 9 lattices of SymmetryCells.tla"
    for e in (ev_cat[:2] + ev_sim[:2]):
        ctx.sample(dict(source=e["_src"], n_ops=len(e["rots"]), map_atoms=e["mapat"], pointgroup=e["pgsym"]))
    if not ctx.violations:  # (the demonstrations start from events that were accepted)
        selfchecks(ctx, allev)
    ctx.extra["actions_covered"] = ("SymmetryClassTrace: Group, Tables, DoJudge fire for every event (4 states per event); "
                                    "SymmetryCells: Add and Finish fire in every simulated behaviour; SymmetryExpect: Next per crystal")
    ctx.assumptions += [
        "replay compares values computed by TLC from the definition (operations, permutations, smallest orbit index) "
        "with the real results exactly; compute_all_sg_permutations is driven with TLC's operations (w/den as doubles)",
        "the real lattice is a Cholesky realisation of the integer Gram matrix, rigidly rotated at random; reported "
        "translations are rounded to the crystal's position grid (residual bound 2*symprec, ImplExact)",
        "sub-tolerance noise is 0.02*symprec per atom; the abstract crystal stays the exact one",
        "collinear moments: m -> th*m, non-collinear: axial vectors m -> th*det(R)*R*m (spglib's documented defaults, "
        "which phonopy uses); the time-reversal parts are read from the spglib dataset kept by the Symmetry object",
        "the international point-group symbol is judged through the census of rotation types (32 classes); the setting "
        "variants of a symbol are identified",
    ]
