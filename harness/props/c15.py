"""C15 - a Phonopy object always answers from its current state, whatever its history.

Spec: spec/ApiHistory.tla (state machine of the public state-changing API, its
caches and the caller-held arrays; requirement = what a fresh object answers),
spec/ApiHistoryTrace.tla (conformance), spec/C15Data.tla (recorded histories,
generated per run).  Driver / projection: harness/c15_driver.py.
See DESIGN.md section 5/C15.

Steps
 1. TLC, exhaustive: the requirement model (no aliasing) satisfies every
    invariant for histories of any length (finite provenance abstraction).
 2. TLC, sensitivity: every seeded defect of the mechanism (Forget classes) is
    caught by a requirement invariant (machinery self-check, not vacuous).
 3. TLC: the model with the implementation's documented aliasing classes: which
    requirement invariants each class breaks (consequence table, evidence).
 4. code -> spec: random histories (length <= 30, biased orders) on the real
    code, all three dynamical-matrix classes, four crystals; every query is
    compared with a freshly constructed object; TLC validates every recorded
    history against ApiHistoryTrace (Impl* = requirement on the logged facts,
    Conforms* = the machine's state).
 5. spec -> code: TLC -simulate behaviours of the model are replayed on the
    real API, recorded and validated the same way; a scripted census passes
    through every hand-in / hand-out point of the API on every crystal.
 6. the repository's own tests run under harness/c15_pytest_trace.py: every
    Phonopy object a test creates becomes a history, validated the same way
    (queries repeated on a fresh object).

Result holders (round 2): ApiHistory.tla also models Phonopy._mesh (computed, lazy
init_mesh, IterMesh), the random-displacement generator, the snapshots of
run_qpoints / run_band_structure and of the mesh consumers (thermal properties,
DOS, moment, thermal displacements), set_group_velocity, ph2ph, dataset = None
and force constants handed in as list / view / Fortran / float32.  Requirement:
a result OBTAINED BEFORE a state change may be old (and stays exactly what it
was: ImplSnapshotFrozen), a query RUN AFTER it is answered from the current
contents or refused (FreshEquivalent / ImplRefusesStale).  The specification
describes the repaired mechanism (Repaired = TRUE, fixes/c15-stale-mesh.md); the
mechanism as found (Repaired = FALSE) is shown by TLC to violate FreshEquivalent.

Aliasing by documented design (DESIGN.md D15) is decided by TLC too (the
`known` set of ApiHistoryTrace) and reported with keys `alias:...`; an aliasing
at any other API point, or any staleness, is a violation `c15:Impl...`.
"""
from __future__ import annotations

import os

os.environ["OMP_NUM_THREADS"] = "1"  # tiny cells; the 16 cores are shared (oversubscription costs 100x)

import glob
import json
import re
import time

import numpy as np

from harness import bootstrap  # noqa: F401,E402
from harness import tlc as tlcmod  # noqa: E402
from harness import tla_values  # noqa: E402
from harness.tla_values import to_tla  # noqa: E402
from harness import c15_driver as D  # noqa: E402

# The aliasing classes documented for the pinned tree (DESIGN.md D15).  The
# model is run with exactly these; an aliasing observed on the real code that
# is NOT in this list is a violation (ImplAliasOnlyDocumented).
PINNED_ALIAS = ["fc_setter", "nac_setter", "fc_getter", "nac_getter", "dataset_getter",
                "displacements_getter", "forces_getter", "primitive_getter", "supercell_getter",
                "unitcell_getter"]

ALIAS_KEY = {
    "fc_setter": ("alias:force_constants_setter_keeps_caller_array",
                  "Phonopy.force_constants = a stores the caller's C-contiguous double array itself (no copy)"),
    "nac_setter": ("alias:nac_params_setter_keeps_caller_dict",
                   "Phonopy.nac_params = d stores the caller's dict itself; a later change of d by the caller desynchronises nac_params from the dynamical matrix"),
    "fc_getter": ("alias:force_constants_getter_returns_internal_array",
                  "Phonopy.force_constants returns the internal array"),
    "nac_getter": ("alias:nac_params_getter_returns_internal_dict",
                   "Phonopy.nac_params returns the internal dict"),
    "dataset_getter": ("alias:dataset_getter_returns_internal_dict", "Phonopy.dataset returns the internal dict"),
    "displacements_getter": ("alias:displacements_getter_returns_internal_array",
                             "Phonopy.displacements (type-2 dataset) returns the internal array"),
    "forces_getter": ("alias:forces_getter_returns_internal_array",
                      "Phonopy.forces (type-2 dataset) returns the internal array"),
    "primitive_getter": ("alias:primitive_getter_returns_internal_object", "Phonopy.primitive returns the internal Primitive object"),
    "supercell_getter": ("alias:supercell_getter_returns_internal_object", "Phonopy.supercell returns the internal Supercell object"),
    "unitcell_getter": ("alias:unitcell_getter_returns_internal_object", "Phonopy.unitcell returns the internal PhonopyAtoms object"),
    # not documented: reported under these keys if ever observed (ImplAliasOnlyDocumented fails too)
    "dataset_setter": ("alias:dataset_setter_shares_caller_data", "Phonopy.dataset = d shares mutable data with d"),
    "masses_setter": ("alias:masses_setter_keeps_caller_array", "Phonopy.masses = m keeps the caller's array"),
    "forces_setter": ("alias:forces_setter_keeps_caller_array", "Phonopy.forces = f keeps the caller's array"),
    "masses_getter": ("alias:masses_getter_returns_internal_array", "Phonopy.masses returns an internal array"),
    "copy_shares": ("alias:copy_shares_state", "Phonopy.copy() shares mutable state with the original"),
}
MUTATES_KEY = {
    "Symmetrize": ("alias:symmetrize_force_constants_mutates_caller_array",
                   "symmetrize_force_constants() modifies in place the array the caller handed to force_constants="),
    "SymmetrizeSG": ("alias:symmetrize_force_constants_by_space_group_mutates_caller_array",
                     "symmetrize_force_constants_by_space_group() modifies in place the array the caller handed to force_constants="),
    "Cutoff": ("alias:set_force_constants_zero_with_radius_mutates_caller_array",
               "set_force_constants_zero_with_radius() modifies in place the array the caller handed to force_constants="),
}

REQ_INVARIANTS = ["TypeOK", "FreshEquivalent", "LazyMeshCurrent", "DmExists", "Coherent", "MassesConsistent", "ScdCoherent",
                  "CopyIndependent", "NoInputAlias", "NoOutputAlias", "NoInputMutation", "NoOutputMutation", "NoTaint"]
# seeded defects of the mechanism and the invariant that has to catch them
# (SetMasses / DmqNoRebuild are behaviourally equivalent: the dynamical matrix reads
#  the masses through the shared Primitive; get_dynamical_matrix_at_q rebuilds redundantly)
FORGET = {"SetFC": "FreshEquivalent", "SetNAC": "FreshEquivalent", "ClearNAC": "FreshEquivalent",
          "Symmetrize": "FreshEquivalent", "SymmetrizeSG": "FreshEquivalent", "Cutoff": "FreshEquivalent",
          "ProduceFC": "FreshEquivalent", "GV": "FreshEquivalent", "SR": "FreshEquivalent",
          "SCD": "ScdCoherent", "SCDdisp": "ScdCoherent", "MassU": "MassesConsistent", "MassS": "MassesConsistent"}
EQUIVALENT_FORGET = ["SetMasses", "DmqNoRebuild"]

TRACE_INVARIANTS = ["ImplRefusesStale", "ImplNoError", "ImplRefuses", "ImplRefuseFrame", "ImplStored", "ImplSnapshotFrozen",
                    "ImplFreshEquivalent",
                    "ImplEnvFrame", "ImplDmExists", "ImplCoherent", "ImplMassesConsistent", "ImplScdCoherent",
                    "ImplCopyIndependent", "ImplAliasOnlyDocumented", "ImplNoForeignMutation",
                    "ConformsEnabled", "ConformsFC", "ConformsNAC", "ConformsMasses", "ConformsDataset",
                    "ConformsDM", "ConformsGV", "ConformsSCD", "ConformsCopy", "ConformsHeld", "ConformsResults"]


def mc_module(alias, forget, layouts=("full", "compact")):
    return ("---- MODULE MC_ApiHistory ----\nEXTENDS ApiHistory\nMCAlias == %s\nMCForget == %s\nMCLayouts == %s\n====\n"
            % (to_tla(set(alias)), to_tla(set(forget)), to_tla(set(layouts))))


def mc_cfg(max_held, env_aliased, invariants, frame=True, view=True, results=False, repaired=True):
    s = "INIT Init\nNEXT Next\n" + ("VIEW view\n" if view else "") + "CHECK_DEADLOCK FALSE\nCONSTANTS\n"
    s += " Alias <- MCAlias\n Forget <- MCForget\n Layouts <- MCLayouts\n MaxHeld = %d\n EnvAliased = %s\n" % (
        max_held, "TRUE" if env_aliased else "FALSE")
    s += " Results = %s\n Repaired = %s\n" % ("TRUE" if results else "FALSE", "TRUE" if repaired else "FALSE")
    s += "".join("INVARIANT %s\n" % i for i in invariants)
    if frame:
        s += "PROPERTY EnvFrame\n"
    return s


def violated_names(res):
    return sorted(set(n for n, _ in res.violations)) if res.violated else []


# ---------------------------------------------------------------------------
def model_checking(ctx):
    workers = 4
    # 1. requirement model: no aliasing; every invariant; exhaustive
    mh = 1 if ctx.quick else 2  # 5e3 / 7e4 states (MaxHeld = 3: 9.5e5 states, verified once, 20 min)
    res = ctx.tlc("MC_ApiHistory", cfg_text=mc_cfg(mh, True, REQ_INVARIANTS), requirement=True,
                  extra_files={"MC_ApiHistory.tla": mc_module([], [])}, workers=(workers if ctx.quick else 6), coverage=ctx.quick,
                  what="C15 requirement fails on the model of the API without aliasing")
    ctx.extra["requirement_model"] = dict(max_held=mh, states=res.distinct, depth=res.depth, violated=res.violated)
    cov = {k: v[1] for k, v in res.coverage.items()}
    acts = ["SetFC", "SetNAC", "ClearNAC", "SetMasses", "InPlaceFC", "SetDataset", "SetDisplacements", "SetForces",
            "ProduceFC", "GetSCD", "Copy", "Get", "Query", "MutateHandle", "Drop", "MutateCopy"]
    if ctx.quick:  # -coverage 1 (the thorough run has the same actions, more handles)
        never = [a for a in acts if cov.get(a, 0) == 0]
        ctx.extra["actions_never_fired"] = never
        if never and not res.violated:
            raise tlcmod.MachineryError("ApiHistory actions never fire: %s" % never)
    ctx.exhaustive = True

    log("requirement model done: %d states" % res.distinct)
    # 1b. the same with the result holders (mesh, random-displacement generator, result snapshots) and the
    #     queries that consume them; the mechanism is the REPAIRED one (fixes/c15-stale-mesh.md)
    mhr = 0 if ctx.quick else 1
    res2 = ctx.tlc("MC_ApiHistory", cfg_text=mc_cfg(mhr, True, REQ_INVARIANTS, results=True, repaired=True), requirement=True,
                   extra_files={"MC_ApiHistory.tla": mc_module([], [])}, workers=(workers if ctx.quick else 6),
                   what="C15 requirement fails on the model of the API with result holders")
    ctx.extra["requirement_model_with_result_holders"] = dict(max_held=mhr, states=res2.distinct, depth=res2.depth,
                                                              violated=res2.violated)
    # 1c. the mechanism AS FOUND in the pinned tree (a state change keeps the mesh and the generator):
    #     TLC exhibits the silent staleness; recorded as evidence (the conformance below decides on the code)
    res3 = ctx.tlc("MC_ApiHistory", cfg_text=mc_cfg(0, False, ["FreshEquivalent", "LazyMeshCurrent"], frame=False,
                                                    results=True, repaired=False), requirement=False,
                   extra_files={"MC_ApiHistory.tla": mc_module([], [])}, workers=2)
    ctx.extra["mechanism_as_found_keeps_mesh"] = dict(
        violated=res3.violated, counterexample=[(a, st.get("last")) for a, st in (res3.trace or [])][1:])
    if not res3.violated:
        raise tlcmod.MachineryError("the unrepaired mechanism (Repaired=FALSE) does not violate FreshEquivalent: vacuous")
    log("result-holder models done: %d states" % res2.distinct)
    # 2. sensitivity of the invariants (machinery self-check)
    names = sorted(FORGET)
    if ctx.quick:
        names = [names[(ctx.seed * 5 + j * 3) % len(names)] for j in range(5)]
        names = sorted(set(names))
    sens = {}
    for f in names:
        r = ctx.tlc("MC_ApiHistory", cfg_text=mc_cfg(0, True, [FORGET[f]], frame=False), requirement=False,
                    extra_files={"MC_ApiHistory.tla": mc_module([], [f])}, workers=2)
        sens[f] = r.violated
        if r.violated != FORGET[f]:
            raise tlcmod.MachineryError("seeded defect Forget=%s is not caught by %s (vacuous invariant)" % (f, FORGET[f]))
    ctx.extra["seeded_defects_caught_by_TLC"] = sens
    ctx.extra["seeded_defects_equivalent"] = EQUIVALENT_FORGET

    log("sensitivity done")
    # 3. the implementation's aliasing classes: which requirement invariants each one breaks
    #    (one run per (class, invariant), stopping at the first counterexample)
    if not ctx.quick:
        table = {}
        cons = ["FreshEquivalent", "MassesConsistent", "ScdCoherent"]
        for cl in [[c] for c in PINNED_ALIAS]:
            broken = []
            for inv in cons:
                r = ctx.tlc("MC_ApiHistory", cfg_text=mc_cfg(1, True, [inv] if inv != "EnvFrame" else [], frame=(inv == "EnvFrame")),
                            requirement=False, extra_files={"MC_ApiHistory.tla": mc_module(cl, [])}, workers=2)
                if r.violated:
                    broken.append(inv)
            table[cl[0]] = broken
        ctx.extra["aliasing_consequences_in_model"] = table


# ---------------------------------------------------------------------------
def tla_event(ev):
    e = {k: ev[k] for k in ("op", "lay", "m", "keep", "f", "typ", "cls", "k", "i", "chg", "own", "via", "snapok", "refused",
                            "err", "stored", "qok", "frame")}
    o = ev["obs"]
    e["obs"] = dict(layout=o["layout"], nacm=o["nacm"], massS=o["massS"], massU=o["massU"], dsT=o["dsT"], dsF=o["dsF"],
                    dm=o["dm"], gv=o["gv"], scd=o["scd"], cp=o["cp"], held=[dict(h) for h in o["held"]],
                    rs=dict(mesh=dict(o["rs"]["mesh"]), rd=o["rs"]["rd"], qp=o["rs"]["qp"], tp=o["rs"]["tp"]))
    return e


def data_module(histories):
    body = ",\n".join("<<" + ",\n  ".join(to_tla(tla_event(e)) for e in hist["events"]) + ">>" for hist in histories)
    return "---- MODULE C15Data ----\nHistories == <<\n%s\n>>\n====\n" % body


def trace_cfg(max_held):
    s = "INIT TInit\nNEXT TNext\nCHECK_DEADLOCK FALSE\nCONSTANTS\n Alias <- MCAlias\n Forget <- MCForget\n Layouts <- MCLayouts\n"
    s += " MaxHeld = %d\n EnvAliased = TRUE\n Results = TRUE\n Repaired = TRUE\n" % max_held
    s += "".join("INVARIANT %s\n" % i for i in TRACE_INVARIANTS)
    return s


def describe(hist, upto=None):
    evs = hist["events"][:upto]
    out = []
    for e in evs:
        a = {k: e[k] for k in ("lay", "m", "keep", "f", "typ", "cls", "k", "i") if e[k] not in ("none", 0, False)}
        if e["op"] == "SetFC" and not e.get("own", True):
            a["own"] = False
        if e["op"] == "Copy":
            a["via"] = e.get("via", "copy")
        out.append(dict(op=e["op"], **a, **({"refused": True} if e["refused"] else {}),
                        **({"err": e["errtext"]} if e["err"] else {})))
    return out


def validate(ctx, histories, max_held, tag):
    """TLC decides every recorded history; returns nothing, reports through ctx."""
    if not histories:
        return
    mc = ("---- MODULE MC_ApiHistoryTrace ----\nEXTENDS ApiHistoryTrace\nMCAlias == %s\nMCForget == {}\n"
          "MCLayouts == {\"full\", \"compact\"}\n====\n" % to_tla(set(PINNED_ALIAS)))
    res = ctx.tlc("MC_ApiHistoryTrace", cfg_text=trace_cfg(max_held), requirement=False, workers=1,
                  extra_files={"MC_ApiHistoryTrace.tla": mc, "C15Data.tla": data_module(histories)},
                  extra_args=("-continue",), keep=True)
    try:
        nev = sum(len(hh["events"]) for hh in histories)
        ctx.traces += len(histories)
        ctx.extra.setdefault("events_validated", 0)
        ctx.extra["events_validated"] += nev
        # completeness: every history was consumed to its end (or stopped at a reported stuck event)
        printed = [v for v in tlcmod.printed_values(res.stdout) if isinstance(v, list) and v and v[0] == "C15KNOWN"]
        byhid = {}
        for v in printed:  # TLC re-evaluates actions when it reconstructs an error trace: keep one per history
            byhid.setdefault(v[1], v)
        printed = [byhid[k] for k in sorted(byhid)]
        if sorted(byhid) != list(range(1, len(histories) + 1)):
            raise tlcmod.MachineryError("trace validation %s: %d of %d histories reported by TLC\n%s"
                                        % (tag, len(printed), len(histories), res.stdout[-2000:]))
        # violations: first failing event of each history and invariant
        seen = set()
        drift = {}
        for name, tr in res.violations:
            if not tr:
                continue
            st = tr[-1][1]
            hid, idx = st["hid"], st["i"] - 1
            hist = histories[hid - 1]
            if name.startswith("Conforms"):
                has_impl = any(n.startswith("Impl") and t and t[-1][1]["hid"] == hid for n, t in res.violations)
                if not has_impl:
                    d = drift.setdefault(name, [])
                    if len(d) < 3:
                        d.append(dict(world=hist["world"], seed=hist["seed"], source=hist["source"], event=idx,
                                      history=describe(hist, idx), logged=hist["events"][idx - 1]["obs"],
                                      machine={k: st[k] for k in ("layout", "nacm", "massS", "massU", "dsT", "dsF", "dm",
                                                                  "gv", "scd", "cp", "held", "rs") if k in st}))
                continue
            if (name, hid) in seen:
                continue
            seen.add((name, hid))
            e = hist["events"][idx - 1]
            ctx.violation("c15:" + name,
                          "C15 %s fails on the real Phonopy object after %s (history of %d calls, %s)"
                          % (name, e["op"], idx, hist["world"]),
                          dict(invariant=name, world=hist["world"], seed=hist["seed"], source=hist["source"],
                               perturb_nac=hist.get("perturb_nac"), event_index=idx, history=describe(hist, idx),
                               logged_state=e["obs"], qmargin=e.get("qmargin"), err=e.get("errtext")))
        if drift:
            ctx.extra.setdefault("SPEC-DRIFT", {}).update(drift)
            print("SPEC-DRIFT C15 (%s): %s (requirement intact)" % (tag, sorted(drift)))
        # known findings decided by TLC
        for v in printed:
            hid, known = v[1], v[2]
            hist = histories[hid - 1]
            for item in sorted(known, key=lambda x: (x[-1], x[:-1])):
                item = list(item)
                kind, idx = item[0], item[-1]
                if kind == "alias":
                    key, what = ALIAS_KEY[item[1]]
                elif kind == "mutates_caller":
                    key, what = MUTATES_KEY.get(item[1], ("alias:%s_mutates_caller_array" % item[1], "%s modifies an array handed in by the caller" % item[1]))
                else:  # consequence of the caller changing internal state through an alias
                    key, what = ALIAS_KEY[item[2]]
                    ctx.extra.setdefault("aliasing_consequences_on_real_code", {}).setdefault(item[2], set()).add(item[1])
                ctx.violation(key, what, dict(kind=kind, item=item[1:-1], world=hist["world"], seed=hist["seed"],
                                              source=hist["source"], event_index=idx, history=describe(hist, idx)))
                ctx.count(("known", key))
    finally:
        tlcmod.cleanup(res)


# ---------------------------------------------------------------------------
def simulate_ops(ctx, num, depth, env_aliased, seed):
    """behaviours of the model (implementation's aliasing switched on) from TLC -simulate"""
    res = ctx.tlc("MC_ApiHistory", cfg_text=mc_cfg(2, env_aliased, ["TypeOK"], frame=False, view=False, results=True),
                  requirement=True, extra_files={"MC_ApiHistory.tla": mc_module(PINNED_ALIAS, [])},
                  simulate=dict(num=num, file=True), depth=depth, seed=seed, workers=1, keep=True, timeout=300)
    out = []
    try:
        for f in sorted(glob.glob(os.path.join(res.simdir, "tr*"))):
            with open(f) as fh:
                text = fh.read()
            ops = [tla_values.parse_value(m.group(1)) for m in re.finditer(r"^/\\ last = (\[.*\])\s*$", text, re.M)]
            ops = [dict(o) for o in ops if o.get("op") != "Init"]
            if ops:
                out.append(ops)
    finally:
        tlcmod.cleanup(res)
    return out


def repo_test_histories(ctx, dirs, timeout):
    """The repository's own tests under the tracing plugin (harness/c15_pytest_trace.py):
    every Phonopy object a test creates becomes a history."""
    import subprocess
    import sys
    import tempfile

    fd, out = tempfile.mkstemp(prefix="c15_trace_", suffix=".jsonl", dir=os.path.join(tlcmod.VERIF, ".run"))
    os.close(fd)
    env = dict(os.environ, C15_TRACE_OUT=out, OMP_NUM_THREADS="1", PYTHONDONTWRITEBYTECODE="1",
               PYTHONPATH=tlcmod.VERIF + os.pathsep + os.environ.get("PYTHONPATH", ""), PYTHONWARNINGS="ignore")
    cmd = [sys.executable, "-m", "pytest", "-q", "-x", "-p", "no:cacheprovider", "-p", "harness.c15_pytest_trace"] + dirs
    try:
        p = subprocess.run(cmd, cwd=bootstrap.REPO, env=env, stdout=subprocess.PIPE, stderr=subprocess.STDOUT, timeout=timeout)
        tail = p.stdout.decode(errors="replace").strip().splitlines()[-1:] or [""]
        hists = []
        cuts = {}
        with open(out) as f:
            for line in f:
                d = json.loads(line)
                if d["cut"]:
                    key = d["cut"].split(":")[0][:40]
                    cuts[key] = cuts.get(key, 0) + 1
                hists.append(dict(events=d["events"], world="repository test objects", seed=0,
                                  source="repo-test " + (d["test"] or d["events"][0].get("test", ""))[:100]))
    finally:
        if os.path.exists(out):
            os.remove(out)
    ctx.extra["repo_tests"] = dict(dirs=dirs, pytest=tail[0][:120], histories=len(hists),
                                   events=sum(len(x["events"]) for x in hists), histories_cut=cuts)
    if p.returncode not in (0, 1) or not hists:
        raise tlcmod.MachineryError("tracing the repository tests failed (rc=%s): %s" % (p.returncode, tail))
    return hists


def log(msg):
    if os.environ.get("C15_VERBOSE"):
        print("[c15 %s] %s" % (time.strftime("%H:%M:%S"), msg), flush=True)


def run(ctx):
    ctx.rule = ("a case is one call of the public API (or one action of the caller on an array it holds) in a history "
                "on a real Phonopy object; non-trivial = distinct (world, operation+arguments, abstract state before)")
    ctx.extra["any_length"] = ("the provenance abstraction makes the state space of ApiHistory finite: TLC's exhaustive run "
                               "covers histories of every length (bounded only in the number of simultaneously live caller "
                               "handles), so no separate inductive-invariant proof (Apalache) is needed")
    ctx.assumptions += [
        "arrays handed to force_constants= are C-contiguous float64 arrays owning their data (the no-copy case)",
        "the built-in finite-difference solver only (type-2 datasets cannot produce force constants: no symfc/alm here)",
        "is_symmetry=True, store_dense_svecs=True, default factor; OMP_NUM_THREADS=1",
        "projection of the short-range force constants' provenance: content first seen after a query is attributed to the "
        "contents current at that query (the same query is compared with a fresh object)",
    ]
    if ctx.replay_path:  # ./check C15 --replay <file>: re-run exactly that history on the real code
        with open(ctx.replay_path) as f:
            det = json.load(f)["detail"]
        if det.get("world") not in D.WORLDS:
            raise tlcmod.MachineryError("replay file has no driver history (world=%r)" % det.get("world"))
        ops = [dict(dict(keep=False, f=False, refused=False, own=True, via="copy"), **{k: v for k, v in o.items() if k != "err"})
               for o in det["history"]]
        w = D.World(det["world"], seed=ctx.seed, ctx=ctx)
        evs, drv = D.replay_history(w, np.random.default_rng(det["seed"]), ops, max_held=2,
                                    perturb_nac=bool(det.get("perturb_nac")))
        validate(ctx, [dict(events=evs, world=det["world"], seed=det["seed"], source="replay",
                            perturb_nac=det.get("perturb_nac"))], 2, "replay")
        return
    t0 = time.time()
    model_checking(ctx)
    ctx.extra["t_model_s"] = round(time.time() - t0, 1)
    log("model checking done %.1fs" % (time.time() - t0))

    # ---- real code ----------------------------------------------------------
    nprng = np.random.default_rng(ctx.seed)
    world_names = list(D.WORLDS)
    worlds = {}
    for wn in world_names:
        worlds[wn] = D.World(wn, seed=ctx.seed, ctx=ctx)
    n_random = int(os.environ.get("C15_NRANDOM", 60 if ctx.quick else 600))
    n_sim = int(os.environ.get("C15_NSIM", 40 if ctx.quick else 300))
    max_held = 2
    histories = []
    margins = []
    t1 = time.time()

    def record(events, drv, wn, seed, source, perturb):
        histories.append(dict(events=events, world=wn, seed=seed, source=source, perturb_nac=perturb))
        margins.extend(drv.margins)
        prev = None
        for e in events:
            o = e["obs"]
            ctx.count((wn, e["op"], e["lay"], e["m"], e["typ"], e["cls"], e["k"], e["refused"],
                       json.dumps(prev, sort_keys=True) if prev else ""))
            prev = dict(layout=o["layout"], nacm=o["nacm"], dsT=o["dsT"], dsF=o["dsF"], dm=o["dm"], gv=o["gv"], scd=o["scd"])

    # 4a. scripted census: every hand-in / hand-out point of the API once per crystal (deterministic, so
    #     the set of aliasing classes reported does not depend on the seed), each followed by the
    #     in-place operations / a state change and a query
    K = lambda o, **kw: dict(op=o, **kw)  # noqa: E731
    census = [
        [K("SetFC", lay="full", keep=True), K("Symmetrize"), K("Query", k="qp"), K("Drop", i=1),
         K("SetFC", lay="full", keep=True), K("SymmetrizeSG"), K("Query", k="dmq"), K("Drop", i=1),
         K("SetFC", lay="compact", keep=True), K("Cutoff"), K("Query", k="qp"),
         K("Get", cls="fc_getter"), K("Symmetrize"), K("Query", k="qpgv"), K("Drop", i=2), K("Drop", i=1),
         K("SetNAC", m="gonze", keep=True), K("Get", cls="nac_getter"), K("Query", k="qp"), K("SetFC", lay="compact", keep=False),
         K("Query", k="gvq"), K("Drop", i=1), K("Drop", i=1), K("SetMasses", keep=True), K("Get", cls="masses_getter"),
         K("SetMasses", keep=False), K("Query", k="dmq"), K("Drop", i=1), K("Drop", i=1)],
        [K("SetDataset", f=True, typ="t2", keep=True), K("Get", cls="dataset_getter"), K("GetSCD"), K("Drop", i=1),
         K("Get", cls="displacements_getter"), K("SetDisplacements"), K("GetSCD"), K("Drop", i=2), K("Get", cls="forces_getter"),
         K("SetForces", keep=False), K("Drop", i=1), K("Drop", i=1), K("SetForces", keep=True),
         K("SetDataset", f=True, typ="t1", keep=True), K("GetSCD"), K("ProduceFC", lay="full"), K("Query", k="mesh"),
         K("Drop", i=1), K("Drop", i=1), K("Get", cls="dataset_getter"), K("SetForces", keep=True), K("ProduceFC", lay="compact"),
         K("Query", k="band")],
        [K("Get", cls="primitive_getter"), K("Get", cls="supercell_getter"), K("SetMasses", keep=False), K("Drop", i=1),
         K("Get", cls="unitcell_getter"), K("SetFC", lay="full", keep=False), K("SetMasses", keep=False), K("Query", k="meshgv"),
         K("Copy"), K("SetMasses", keep=False), K("MutateCopy"), K("Query", k="bandgv"), K("Copy")],
    ]
    # result holders: run, state change, read back / consume / run again; lazy mesh, IterMesh, generator;
    # force constants handed in in every other form and kept; ph2ph; dataset = None
    census += [
        [K("SetFC", lay="full", keep=False), K("Query", k="mesh"), K("Query", k="tp"), K("Query", k="tdos"),
         K("SetNAC", m="gonze", keep=False), K("Query", k="mesh"), K("Query", k="tp"), K("Query", k="qp"),
         K("SetMasses", keep=False), K("Query", k="qp"), K("Query", k="meshfull"), K("Query", k="pdos"), K("Query", k="td"),
         K("Symmetrize"), K("Query", k="band"), K("Query", k="meshlazy"), K("Query", k="meshdict"), K("Query", k="moment"),
         K("Cutoff"), K("Query", k="meshiter"), K("Query", k="td"), K("InitRD"), K("Query", k="rdq"), K("SetGV"),
         K("SetFC", lay="compact", keep=False), K("Query", k="qpgv"), K("InitRD"), K("SetNAC", m="wang", keep=False),
         K("Query", k="rdq")],
        [K("SetFC", lay="full", keep=True, own=False), K("Symmetrize"), K("Query", k="qp"), K("MutateHandle", i=1), K("Query", k="qp"),
         K("Drop", i=1), K("SetFC", lay="full", keep=True, own=False), K("Cutoff"), K("Drop", i=1),
         K("SetFC", lay="compact", keep=True, own=False), K("Symmetrize"), K("Drop", i=1),
         K("SetFC", lay="full", keep=True, own=False), K("SymmetrizeSG"), K("Query", k="dmq"), K("Copy", via="ph2ph"),
         K("MutateCopy"), K("Query", k="qp"), K("SetDataset", f=True, typ="t1", keep=False), K("GetSCD"), K("ClearDataset"),
         K("SetDataset", f=False, typ="t2", keep=False), K("ClearDataset")],
        # the staleness itself: a consumer / lazy mesh / generator used after a state change without a new set-up
        [K("SetFC", lay="full", keep=False), K("Query", k="mesh"), K("Query", k="tp"), K("SetFC", lay="full", keep=False),
         K("Query", k="tp")],
        [K("SetFC", lay="full", keep=False), K("Query", k="meshlazy"), K("SetMasses", keep=False), K("Query", k="meshdict")],
        [K("SetFC", lay="full", keep=False), K("Query", k="meshiter"), K("Symmetrize"), K("Query", k="td")],
        [K("SetFC", lay="full", keep=False), K("InitRD"), K("SetFC", lay="full", keep=False), K("Query", k="rdq")],
    ]
    for wn in world_names:
        for ci, ops in enumerate(census):
            s = 1000 + ci
            evs, drv = D.replay_history(worlds[wn], np.random.default_rng(s), ops, max_held=max_held, perturb_nac=True)
            record(evs, drv, wn, s, "census", True)

    # 4. code -> spec: random histories
    for j in range(n_random):
        wn = world_names[j % len(world_names)]
        s = int(nprng.integers(1 << 30))
        rng = np.random.default_rng(s)
        length = int(rng.integers(8, 31))
        evs, drv = D.random_history(worlds[wn], rng, length, max_held=max_held,
                                    allow_aliased_env=(j % 5 == 4), perturb_nac=(j % 2 == 1))
        record(evs, drv, wn, s, "random", j % 2 == 1)
    log("random histories done %.1fs" % (time.time() - t1))
    # 5. spec -> code: TLC behaviours
    sim = simulate_ops(ctx, n_sim * 3 // 4, 14 if ctx.quick else 24, False, ctx.seed + 1)
    sim += simulate_ops(ctx, n_sim - n_sim * 3 // 4, 14 if ctx.quick else 24, True, ctx.seed + 2)
    for j, ops in enumerate(sim):
        wn = world_names[(j + 1) % len(world_names)]
        s = int(nprng.integers(1 << 30))
        evs, drv = D.replay_history(worlds[wn], np.random.default_rng(s), ops, max_held=max_held, perturb_nac=(j % 2 == 0))
        record(evs, drv, wn, s, "tlc-simulate", j % 2 == 0)
    ctx.extra["t_real_s"] = round(time.time() - t1, 1)
    log("replays done %.1fs" % (time.time() - t1))
    ctx.extra["histories"] = dict(census=len(census) * len(world_names), random=n_random, tlc_behaviours=len(sim))
    opcount = {}
    for hh in histories:
        for e in hh["events"]:
            opcount[e["op"]] = opcount.get(e["op"], 0) + 1
    ctx.extra["real_calls_by_operation"] = opcount
    clsq = {}
    for hh in histories:
        for e in hh["events"]:
            if e["op"] == "Query" and not e["refused"]:
                kk = "%s/%s/%s" % (e["obs"]["dm"]["cls"], e["obs"]["layout"], e["k"])
                clsq[kk] = clsq.get(kk, 0) + 1
    ctx.extra["queries_by_class_layout_kind"] = clsq
    ctx.sample(dict(world=histories[0]["world"], history=describe(histories[0])))
    ctx.sample(dict(world=histories[-1]["world"], source="tlc-simulate", history=describe(histories[-1])))

    # 6. the repository's own tests as histories
    t3 = time.time()
    dirs = ["test/api"] if ctx.quick else ["test/api", "test/phonon", "test/harmonic", "test/spectrum", "test/gruneisen",
                                           "test/unfolding", "test/structure"]
    rh = repo_test_histories(ctx, dirs, 300 if ctx.quick else 1500)
    for hh in rh:
        for e in hh["events"]:
            ctx.count(("repo-test", e["op"], e["lay"], e["m"], e["typ"], e["k"], json.dumps(e["obs"]["dm"], sort_keys=True)))
            if e["op"] == "Query" and e.get("qmargin") is not None:
                margins.append(e["qmargin"])
    histories += rh
    log("repository tests traced %.1fs (%d histories)" % (time.time() - t3, len(rh)))

    nq = len(margins)
    ctx.extra["queries_compared_with_fresh_object"] = nq
    agree = [m for m in margins if m <= D.Driver.BOUND]
    ctx.extra["max_query_error_over_tolerance"] = max(agree) if agree else None  # of the queries that agree
    ctx.extra["query_agreement_bound_over_tolerance"] = D.Driver.BOUND
    # every other query is a disagreement, judged by TLC (Impl.. violation, or a known consequence of aliasing)
    ctx.extra["queries_differing_from_fresh_object"] = nq - len(agree)
    # TLC validates every history (batches of <= 150 histories)
    t2 = time.time()
    B = 150
    for b in range(0, len(histories), B):
        validate(ctx, histories[b:b + B], max_held, "batch%d" % (b // B))
    ctx.extra["t_validate_s"] = round(time.time() - t2, 1)
    log("validation done %.1fs" % (time.time() - t2))
    if "aliasing_consequences_on_real_code" in ctx.extra:
        ctx.extra["aliasing_consequences_on_real_code"] = {k: sorted(v) for k, v in ctx.extra["aliasing_consequences_on_real_code"].items()}
