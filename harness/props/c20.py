"""C20 - equations of state and quasi-harmonic analysis recover known parameters.

Specs: spec/QhaJet.tla (exact rationals, Taylor jets, unit exponent vectors),
spec/Eos.tla (+EosDump, EosTrace), spec/Qha.tla (+QhaTrace).  DESIGN.md section 5/C20.

  1. EosDump: TLC prints the expression trees of the three equations of state.
  2. Eos: TLC checks E(V0)=E0, P(V0)=0, V E''=B0, dB/dP=B0' on the exact 3-jet of every
     tree for every parameter set; EosTrace evaluates the same requirement on the jet
     MEASURED on phonopy's get_eos() (Cauchy integral) and compares it with the
     specification's jet; pointwise replay of the trees against get_eos().
  3. Qha pass 1: TLC runs the step machine of PhonopyQHA on every input, checks the
     requirement on it and prints the expected tables.
  4. the real PhonopyQHA is run on arrays realising each input (free energies exactly
     EOS curves of the trees), with the fit observed ('real') or interpreted by the
     specification's uninterpreted Fit ('stub'); results are projected to rationals.
  5. Qha pass 2 (QhaTrace): TLC evaluates the requirement on the projected results and
     compares them with the machine's.
"""
from __future__ import annotations

import os
import time
from fractions import Fraction as Fr

import numpy as np

from harness import bootstrap  # noqa: F401
from harness import c20_lib as L
from harness import tlc as tlcmod
from harness.tla_values import to_tla

EOS_NAMES = ("vinet", "birch_murnaghan", "murnaghan")

# ----------------------------------------------------------------------------- EOS part
CFG_DUMP = """INIT Init
NEXT Next
CONSTANTS
 EosNames = {}
 ParamSets = {}
CHECK_DEADLOCK FALSE
"""

EOS_REQ = ["ImplExact", "ImplEnergy", "ImplPressure", "ImplBulk", "ImplBulkPrime", "ImplPointwise", "ConformsJet",
           "InvEnergy", "InvPressure", "InvBulk", "InvBulkPrime", "InvJetLaws"]

CFG_EOSTRACE = """INIT TInit
NEXT TNext
CONSTANTS
 EosNames <- MCNames
 ParamSets <- MCParams
 Events <- MCEvents
CHECK_DEADLOCK FALSE
""" + "".join("INVARIANT %s\n" % i for i in EOS_REQ)

MC_EOSTRACE = """---- MODULE MC_EosTrace ----
EXTENDS EosTrace
MCNames == {}
MCParams == {}
MCEvents == {%s}
====
"""


def eos_param_sets(ctx):
    """Rational parameter sets: a fixed grid plus seeded random ones (B0' = 1 is a pole of
    the Vinet and Murnaghan forms and excluded)."""
    ps = []
    for e in (Fr(-21, 2), Fr(0), Fr(7, 2)):
        for b in (Fr(1, 8), Fr(1, 2), Fr(9, 8)):
            for bp in (Fr(3, 2), Fr(2), Fr(13, 4), Fr(4), Fr(21, 4), Fr(3, 4)):
                for v in (Fr(10), Fr(41, 2), Fr(81, 2)):
                    ps.append(dict(E0=e, B0=b, Bp=bp, V0=v))
    n_rand = 150 if ctx.quick else 1500
    rng = ctx.rng
    while n_rand > 0:
        bp = Fr(rng.randint(3, 28), 4)
        if bp == 1:
            continue
        ps.append(dict(E0=Fr(rng.randint(-240, 80), 4), B0=Fr(rng.randint(2, 32), 16), Bp=bp,
                       V0=Fr(rng.randint(20, 160), 2)))
        n_rand -= 1
    if ctx.quick:
        grid = ps[:162]
        rng.shuffle(grid)
        ps = grid[:60] + ps[162:]
    return ps


def eos_part(ctx, forms):
    from phonopy.qha.eos import get_eos

    ps = eos_param_sets(ctx)
    events = []
    worst = dict(jet=0.0, pts=0.0, imag=0.0)
    for name in EOS_NAMES:
        f = get_eos(name)
        for p in ps:
            pf = L.par_float(p)
            pd = {k: float(v) for k, v in p.items()}
            case = dict(eos=name, p={k: str(v) for k, v in p.items()})
            ctx.count(("eos", name, tuple(sorted(case["p"].items()))))
            try:
                cs, imag = L.measured_jet(f, pf)
                # pointwise: real function against the specification's tree (replay direction)
                Vs = pf[3] * np.array([0.7, 0.8, 0.9, 0.95, 0.99, 1.0, 1.01, 1.05, 1.1, 1.25, 1.4])
                real = np.asarray(f(Vs, *pf), dtype=float)
                ref = L.ast_eval(forms[name], Vs, pd)
                scale = abs(pf[0]) + pf[1] * pf[3]
                perr = float(np.abs(real - ref).max() / scale)
            except Exception as e:
                ctx.violation("eos:raises:" + name, "get_eos(%s) raised %s" % (name, type(e).__name__),
                              dict(case=case, error=repr(e)))
                continue
            worst["pts"] = max(worst["pts"], perr)
            worst["imag"] = max(worst["imag"], imag / scale)
            jet = []
            exact = imag <= 1e-9 * scale
            for k, c in enumerate(cs):
                # reduced coefficient c_k V0^k: small denominators (E0; 0; B0 V0/2; -B0 V0 (1+B0')/6)
                sk = max(1.0, abs(pf[0])) if k == 0 else pf[1] * pf[3]
                r, ok, res = L.project_free(c * pf[3] ** k, 1e-9 * sk, maxden=10 ** 5)
                worst["jet"] = max(worst["jet"], res / sk)
                exact = exact and ok
                jet.append(r)
            events.append(dict(name=name, p=L.par_rat(p), sjet=jet, exact=bool(exact), pts=bool(perr <= 1e-11),
                               _case=case, _cs=cs, _perr=perr))
    mc = MC_EOSTRACE % ",\n".join(to_tla({k: v for k, v in e.items() if not k.startswith("_")}) for e in events)
    res = ctx.tlc("MC_EosTrace", cfg_text=CFG_EOSTRACE, extra_files={"MC_EosTrace.tla": mc},
                  requirement=False, extra_args=("-continue",), workers=min(8, tlcmod.NCPU))
    ctx.traces += len(events)
    ctx.extra["eos_events"] = len(events)
    ctx.extra["eos_margins"] = dict(jet_residual_over_scale=worst["jet"], jet_tolerance=1e-9,
                                    pointwise_rel_err=worst["pts"], pointwise_tolerance=1e-11,
                                    cauchy_imag=worst["imag"])
    if worst["jet"] > 1e-12 and not res.violations:
        pass
    seen = set()
    for inv, tr in res.violations:
        if inv in seen:
            continue
        seen.add(inv)
        st = tr[-1][1] if tr else {}
        e = st.get("ev", {})
        wit = None
        for x in events:
            if x["name"] == e.get("name") and x["p"] == {k: list(v) for k, v in (e.get("p") or {}).items()}:
                wit = dict(case=x["_case"], measured_jet=x["_cs"], pointwise_rel_err=x["_perr"],
                           logged_reduced_jet=x["sjet"], exact=x["exact"])
                break
        ctx.violation("eos:" + inv, "C20 equation of state: %s fails (%s)" % (
            inv, "phonopy's get_eos" if inv.startswith(("Impl", "Conforms")) else "specification"),
            dict(invariant=inv, witness=wit, spec_jet=st.get("jet")))
    ctx.sample(dict(kind="eos", **{k: v for k, v in events[0].items() if not k.startswith("_")}))
    if not res.violations:
        eos_negative_controls(ctx, events)
    return res


def eos_negative_controls(ctx, events):
    """One measured jet corrupted in one coefficient must be rejected by the clause owning it."""
    import copy

    base = {k: v for k, v in events[len(events) // 2].items() if not k.startswith("_")}
    owners = ["ImplEnergy", "ImplPressure", "ImplBulk", "ImplBulkPrime"]
    evs = []
    for k, clause in enumerate(owners):
        e = copy.deepcopy(base)
        e["sjet"][k] = [e["sjet"][k][0] + 1, e["sjet"][k][1]]
        evs.append(e)
    mc = MC_EOSTRACE % ",\n".join(to_tla(e) for e in evs)
    r = ctx.tlc("MC_EosTrace", cfg_text=CFG_EOSTRACE, extra_files={"MC_EosTrace.tla": mc},
                requirement=False, extra_args=("-continue",), workers=1)
    names = set(n for n, _ in r.violations)
    missed = [c for c in owners if c not in names]
    ctx.extra["eos_negative_controls"] = dict(corrupted_coefficients=4, all_rejected=not missed)
    if missed:
        raise tlcmod.MachineryError("EOS negative controls not rejected: %r" % missed)


# ----------------------------------------------------------------------------- QHA part
QHA_INV = ["TypeOK", "InvIndexSafety", "InvCompletes", "InvFailedFitReported", "InvLength",
           "InvPerTemperatureElectronic", "InvPhononUnit", "InvPressureSign", "InvRecovery", "InvShiftInvariance", "InvOrderInvariance", "InvBulkModulusObject",
           "InvThermalExpansion", "InvHeatCapacity", "InvHeatCapacityPolyfit", "InvGruneisen", "InvFiles", "InvUnits"]
QHA_IMPL = ["ImplExact", "ImplCompletes", "ImplFailedFitReported", "ImplFitStart", "ImplLength",
            "ImplPerTemperatureElectronic", "ImplPhononUnit", "ImplPressureSign", "ImplRecoverVolume",
            "ImplRecoverGibbs", "ImplRecoverBulk", "ImplShiftInvariance", "ImplOrderInvariance", "ImplBulkModulusObject",
            "ImplThermalExpansion", "ImplHeatCapacity",
            "ImplHeatCapacityPolyfit", "ImplGruneisen", "ImplFiles"]
QHA_CONF = ["ConformsStatus", "ConformsLen", "ConformsRows", "ConformsBulkModulus", "ConformsTables",
            "ConformsStencils", "ConformsFiles"]

CFG_QHA = """INIT Init
NEXT Next
CONSTANTS
 Inputs <- MCInputs
CHECK_DEADLOCK FALSE
INVARIANT Emit
""" + "".join("INVARIANT %s\n" % i for i in QHA_INV)

MC_QHA = """---- MODULE MC_Qha ----
EXTENDS Qha
ASSUME PrintT(<<"FILESPECS", FileSpecs>>)
MCInputs == {%s}
====
"""

CFG_QHATRACE = """INIT TInit
NEXT TNext
CONSTANTS
 Inputs <- MCInputs
 Events <- MCEvents
CHECK_DEADLOCK FALSE
""" + "".join("INVARIANT %s\n" % i for i in QHA_INV + QHA_IMPL + QHA_CONF)

MC_QHATRACE = """---- MODULE MC_QhaTrace ----
EXTENDS QhaTrace
MCInputs == {}
MCEvents == {%s}
====
"""

V0S = [Fr(40), Fr(81, 2), Fr(39), Fr(161, 4)]
V1S = [Fr(0), Fr(1, 100), Fr(1, 50), Fr(3, 200), Fr(1, 200)]
V2S = [Fr(0), Fr(1, 10000), Fr(1, 20000), Fr(3, 20000)]
E0S = [Fr(-10), Fr(-21, 2), Fr(-7, 4), Fr(-61, 8)]
E1S = [Fr(0), Fr(-1, 1000), Fr(-1, 500), Fr(1, 2000)]
E2S = [Fr(0), Fr(-1, 100000), Fr(-3, 200000), Fr(-1, 50000)]
E3S = [Fr(0), Fr(0), Fr(-1, 1000000)]
B0S = [Fr(1, 2), Fr(3, 4), Fr(1), Fr(5, 8)]
B1S = [Fr(0), Fr(-1, 2000), Fr(-1, 1000)]
BPS = [Fr(4), Fr(7, 2), Fr(9, 2), Fr(5), Fr(3)]
PRESSURES = [None, Fr(0), Fr(2), Fr(-3, 2), Fr(10), Fr(1, 4)]


def q_pars(nT, rng):
    a = rng.randint(0, 3)
    return [dict(E0=Fr(-9) + Fr(j + a, 8), B0=Fr(3, 5) + Fr(j, 100), Bp=Fr(9, 2), V0=Fr(39) + Fr(j + a, 10))
            for j in range(nT)]


def cv_s_tabs(nT, rng):
    cv = [[Fr(20) + Fr(k, 2) + Fr(rng.randint(0, 8), 4), Fr(rng.randint(-5, 5), 10), Fr(rng.randint(-3, 3), 100)]
          for k in range(nT)]
    s = [[Fr(10) + 2 * k, Fr(1, 2) + Fr(rng.randint(0, 9), 10), Fr(rng.randint(-3, 3), 100)] for k in range(nT)]
    return cv, s


def vol_grid(case_tabs, rng):
    vs = [float(p["V0"]) for tab in case_tabs for p in tab]
    lo, hi = 0.9 * min(vs), 1.1 * max(vs)
    n = rng.randint(5, 11)
    g = np.linspace(lo, hi, n)
    if rng.random() < 0.5:  # non-uniform grid
        g = g + np.array([rng.uniform(-0.3, 0.3) for _ in range(n)]) * (hi - lo) / (2 * n)
        g.sort()
    return g


def make_case(cid, T, tmax, shape, P, eos, rng, mode, degrees=None, perturbed=False):
    nT = len(T)
    dv, de = degrees if degrees else (rng.randint(0, 2), rng.randint(0, 3))
    vpoly = [rng.choice(V0S), rng.choice(V1S[1:]) if dv >= 1 else Fr(0), rng.choice(V2S[1:]) if dv >= 2 else Fr(0)]
    epoly = [rng.choice(E0S), rng.choice(E1S[1:]) if de >= 1 else Fr(0), rng.choice(E2S[1:]) if de >= 2 else Fr(0),
             E3S[2] if de >= 3 else Fr(0)]
    if dv == 0 and de == 0:
        de = 1
        epoly[1] = E1S[1]  # rows of different temperatures must be distinguishable
    bpoly = [rng.choice(B0S), rng.choice(B1S) if max(T) <= 300 else Fr(0)]
    bppoly = [rng.choice(BPS), rng.choice([Fr(0), Fr(1, 1000)])]
    perturb = None
    if perturbed:
        perturb = [(Fr(rng.randint(-9, 9), 1000), Fr(rng.randint(-9, 9), 100)) for _ in range(nT)]
    qp = q_pars(nT, rng)
    cv, s = cv_s_tabs(nT, rng)
    c = L.Case(cid, T, tmax, shape, P, eos, vpoly, epoly, bpoly, bppoly, qp, cv, s, 40, [0.0], perturb=perturb,
               mode=mode)
    c.volumes = vol_grid([c.ptab, c.qtab], rng)
    if nT >= 3 and rng.random() < 0.15:
        # heat capacity below the cutoff of the Gruneisen routine at one temperature (C_V = 0 or negative)
        k = rng.randint(1, nT - 1)
        c.cvtab[k] = [Fr(0), Fr(0), Fr(0)] if rng.random() < 0.6 else [Fr(-1, 2), Fr(0), Fr(0)]
    c.wf = rng.random() < 0.2
    return c


def custom_ptab(T, v0s, rng):
    return [dict(E0=Fr(-10) - Fr(t, 1000), B0=Fr(1, 2), Bp=Fr(4), V0=Fr(v)) for t, v in zip(T, v0s)]


def gen_deep_cases(ctx, cases):
    """Degenerate and failing inputs (families F1..F8 of the deepening round)."""
    rng = ctx.rng
    n_each = 1 if ctx.quick else 3

    def add(T, tmax, shape, P, eos, mode, family, **kw):
        c = make_case(len(cases) + 1, T, tmax, shape, P, eos, rng, mode, **kw)
        c.family = family
        c.wf = False
        cases.append(c)
        return c

    grid = [0, 10, 20, 30, 40, 50]
    for rep in range(n_each):
        for ei, eos in enumerate(EOS_NAMES):
            shape = ["V", "TV"][(ei + rep) % 2]
            P = [None, Fr(2), Fr(10)][(ei + rep) % 3]
            # F1 injected failures of the fit: TypeError / RuntimeError at one temperature, at the BulkModulus fit
            for mode in ("stub", "real"):
                for pos in (0, 2, 4, 5):
                    c = add(grid, None, shape, P, eos, mode, "F1 fit raises TypeError at one temperature")
                    c.inject[("qha", pos)] = "typeerror"
                c = add(grid, 25, shape, P, eos, mode, "F1 fit raises TypeError at one temperature")
                c.inject[("qha", 1)] = "typeerror"
                c = add(grid, None, shape, P, eos, mode, "F1 fit raises TypeError at two temperatures")
                c.inject[("qha", 1)] = "typeerror"
                c.inject[("qha", 2)] = "typeerror"
            c = add(grid, None, shape, P, eos, "stub", "F1 fit raises RuntimeError at one temperature")
            c.inject[("qha", 2)] = "runtimeerror"
            c = add(grid, None, shape, P, eos, "stub", "F1 BulkModulus fit raises")
            c.inject[("bulkmodulus", 0)] = ["typeerror", "runtimeerror"][rep % 2]
            # F2 scipy's leastsq does not converge (volumes far below the equilibrium volume of the later curves)
            for far in (40, 60):
                T = [0, 10, 20, 30, 40]
                c = add(T, None, shape, None, eos, "real", "F2 leastsq does not converge")
                c.ptab = custom_ptab(T, [Fr(15, 2), Fr(38, 5), Fr(far), Fr(far) + 1, Fr(far) + 2], rng)
                c.poly_set = False
                c.qtab = [dict(E0=Fr(-9) + Fr(j, 8), B0=Fr(1, 2), Bp=Fr(4), V0=Fr(71, 10)) for j in range(len(c.qtab))]
                c.volumes = np.linspace(5.0, 9.0, 7)
                c.vref = 7
                c.cvtab = [[Fr(25 + k), Fr(0), Fr(0)] for k in range(len(T))]
                c.stab = [[Fr(10 + k), Fr(1, 2), Fr(0)] for k in range(len(T))]
            # F5 integer number types of electronic energies / volumes, with and without pressure
            for eld, vold in (("int", "float"), ("float", "int"), ("int", "int")):
                for Pi in (None, Fr(0), Fr(2), Fr(10)):
                    c = add(grid, None, shape, Pi, eos, "stub" if eld == "float" else "real", "F5 integer input arrays")
                    c.eldtype, c.voldtype = eld, vold
                    c.volumes = np.arange(34.0, 48.0, 2.0)
                    if eld == "int":
                        c.qtab = [dict(E0=Fr(-9) + Fr(j, 4), B0=Fr(3, 5), Bp=Fr(9, 2), V0=Fr(39)) for j in range(len(c.qtab))]
            # F6 temperature sequences that are not strictly ascending
            for T in ([50, 40, 30, 20, 10, 0], [0, 10, 10, 20, 30], [0, 20, 10, 30, 40], [10, 10, 10], [30, 20]):
                for tm in (None, 25):
                    add(T, tm, shape, P, eos, "stub", "F6 temperatures not strictly ascending")
            # F7 fewer distinct volumes than the fits need
            for vols, fam in (([40.0] * 7, "F7 all volumes equal"),
                              ([38.0, 38.0, 40.0, 40.0, 42.0, 42.0, 42.0], "F7 three distinct volumes"),
                              ([36.0, 38.0, 38.0, 40.0, 42.0, 44.0, 44.0], "F7 five distinct volumes (valid)")):
                for mode in ("stub", "real"):
                    if mode == "real" and len(set(vols)) < 5:
                        continue
                    c = add(grid, None, shape, P, eos, mode, fam)
                    c.volumes = np.array(vols)
            # F8 electronic (T,V) table with another number of rows than temperatures
            for dq in (2, -1, -3):
                for tm in (None, 15):
                    c = add(grid, tm, "TV", P, eos, "stub", "F8 electronic rows != temperatures")
                    nq = len(grid) + dq
                    c.qtab = q_pars(nq, rng)
    # F9 energy zero and fine temperature grids: the same curves with a constant C added to all energies
    # (total energies of all-electron / pseudopotential codes), and 1 K steps where consecutive F(V) rows differ
    # by less than 1e-6 relative
    f9 = 0
    for rep in range(n_each):
        for ei, eos in enumerate(EOS_NAMES):
            for mode in ("stub", "real"):
                shape = ["V", "TV"][(ei + rep + (mode == "real")) % 2]
                P = [None, Fr(2), Fr(-3, 2)][(ei + rep) % 3]
                pars = dict(vpoly=[Fr(40) + Fr(rep, 4), Fr(1, 100), Fr(1, 10000)],
                            epoly=[Fr(-10) - Fr(ei, 2), Fr(-1, 1000), Fr(-1, 100000), Fr(0)],
                            bpoly=[Fr(1, 2) + Fr(ei, 8), Fr(-1, 2000)], bppoly=[Fr(4) + Fr(ei, 2), Fr(0)])
                for C in (Fr(0), Fr(-2500), Fr(10000)):
                    c = poly_case(len(cases) + 1, [10 * k for k in range(8)], None if f9 % 2 else 55, shape, P, eos,
                                  rng, mode, "F9 constant energy offset C = %s eV, 10 K grid" % C, **pars)
                    c.apply_shift(C)
                    cases.append(c)
                    f9 += 1
                fine = dict(vpoly=[Fr(40) + Fr(rep, 4), Fr(1, 100), Fr(0)],
                            epoly=[Fr(-10) - Fr(ei, 2), Fr(-1, 100000), Fr(-1, 1000000), Fr(0)],
                            bpoly=[Fr(1, 2) + Fr(ei, 8), Fr(0)], bppoly=[Fr(4) + Fr(ei, 2), Fr(0)])
                for T in ([0, 1, 2, 3, 4, 5, 6, 7], [1000, 1001, 1002, 1003, 1004, 1005, 1006, 1007],
                          [0, 1, 2, 3, 10, 20, 30, 31, 32]):
                    c = poly_case(len(cases) + 1, T, None, shape, P, eos, rng, mode,
                                  "F9 fine temperature grid (1 K steps)", **fine)
                    cases.append(c)
    ctx.extra["deep_cases"] = len([c for c in cases if c.family != "main"])


def poly_case(cid, T, tmax, shape, P, eos, rng, mode, family, vpoly, epoly, bpoly, bppoly):
    nT = len(T)
    qp = [dict(E0=Fr(-9) + Fr(j, 8), B0=Fr(3, 5), Bp=Fr(9, 2), V0=Fr(39) + Fr(j, 10)) for j in range(nT)]
    cv = [[Fr(25) + Fr(k, 2), Fr(1, 10), Fr(1, 100)] for k in range(nT)]
    st = [[Fr(10) + 2 * k, Fr(1, 2), Fr(-1, 100)] for k in range(nT)]
    c = L.Case(cid, T, tmax, shape, P, eos, list(vpoly), list(epoly), list(bpoly), list(bppoly), qp, cv, st, 40, [0.0],
               mode=mode, family=family)
    c.volumes = vol_grid([c.ptab, c.qtab], rng)
    return c


def tmax_candidates(T):
    c = [None, T[0] - 5]
    for k, t in enumerate(T):
        c.append(t)
        if k + 1 < len(T):
            c.append((t + T[k + 1]) // 2)  # steps are even: an exact tie
            c.append((t + T[k + 1]) // 2 + 1)
    c += [T[-1] + 3, T[-1] + 1000]
    out = []
    for x in c:
        if x not in out:
            out.append(x)
    return out


def gen_cases(ctx):
    rng = ctx.rng
    cases = []
    nmax = 8
    steps_nu = [10, 20, 10, 30, 20, 10, 20, 30, 10, 20, 10]
    combos = [("V", None), ("TV", Fr(2)), ("V", Fr(-3, 2)), ("TV", None), ("V", Fr(0)), ("TV", Fr(1, 4))]

    def add(*a, **kw):
        cases.append(make_case(len(cases) + 1, *a, **kw))

    # a fixed-shape case that the negative controls can always use (uniform grid, TV, pressure, quadratic V0(T))
    add([0, 10, 20, 30, 40, 50], None, "TV", Fr(2), EOS_NAMES[ctx.seed % 3], rng, "stub", degrees=(2, 2))
    # (a) structural family: every (len(T) <= 8, grid kind, t_max class); shape/pressure cycled (quick) or all
    ci = 0
    for n in range(1, nmax + 1):
        grids = [[10 * i for i in range(n)], [sum(steps_nu[:i]) for i in range(n)]]
        for T in grids[: (1 if n == 1 else 2)]:
            for tm in tmax_candidates(T):
                sel = combos if not ctx.quick else [combos[(ci + ctx.seed) % len(combos)]]
                for shape, P in sel:
                    add(T, tm, shape, P, EOS_NAMES[ci % 3], rng, "stub")
                ci += 1
    ctx.extra["structural_cases"] = len(cases)
    # (b) random family, stub fit: temperature dependences, grids, pressures
    scale = float(os.environ.get("C20_SCALE", "1"))
    n_stub = int((200 if ctx.quick else 3000) * scale)
    n_real = int((250 if ctx.quick else 4000) * scale)
    for mode, n in (("stub", n_stub), ("real", n_real)):
        for i in range(n):
            nT = rng.randint(2, 8 if ctx.quick else 12)
            start = rng.choice([0, 0, 10, 50, 100])
            if rng.random() < 0.5:
                T = [start + 10 * k for k in range(nT)]
            else:
                T = [start]
                for _ in range(nT - 1):
                    T.append(T[-1] + rng.choice([10, 20, 30]))
            tm = rng.choice([None, None] + [t + d for t in T for d in (0, 4, 5)])
            shape = rng.choice(["V", "TV"])
            P = rng.choice(PRESSURES)
            add(T, tm, shape, P, rng.choice(EOS_NAMES), rng, mode, perturbed=(rng.random() < 0.25))
    cases[0].wf = True
    gen_deep_cases(ctx, cases)
    # order in which the volume points are listed: ascending, descending, a non-involutive shuffle
    for i, c in enumerate(cases[1:], 1):
        if c.family == "main" or c.family[:2] in ("F1", "F8", "F9"):
            c.set_vorder(["asc", "desc", "shuffle", "asc"][(i + ctx.seed) % 4])
    return cases


TOL = dict(
    stub=dict(bm=1e-9, vol=1e-9, gibbs=1e-9, bulk=1e-9, beta=1e-8, cp=1e-7, cpfit=1e-6, gru=1e-6, dsdv=1e-6),
    real=dict(bm=1e-6, vol=1e-6, gibbs=1e-6, bulk=1e-6, beta=1e-5, cp=1e-4, cpfit=1e-5, gru=1e-5, dsdv=1e-5),
)


def case_tol(c):
    """Projection tolerances derived from the scale of the input: the absolute round-off of the energies grows
    with |E| (offset C), and with it that of everything fitted to or differenced from them; the three-point
    parabola of C_P in T loses digits as T_max / dT_min grows."""
    t = dict(TOL[c.mode])
    s = max(1.0, c.escale / 10.0)
    dts = [abs(b - a) for a, b in zip(c.T, c.T[1:]) if b != a]
    g = max(1.0, (max(abs(x) for x in c.T) / min(dts)) / 10.0) if dts else 1.0
    for k in ("bm", "vol", "bulk", "beta", "gru", "cpfit", "dsdv"):
        t[k] = t[k] * s
    t["cp"] = t["cp"] * s * g
    return t


def parse_out(stdout):
    exp = {}
    for v in tlcmod.printed_values(stdout):
        if isinstance(v, list) and len(v) == 3 and v[0] == "OUT":
            exp[v[1]] = v[2]
    return exp


def seqs(o):
    """TLC prints an empty sequence as <<>> and a sequence of pairs as a list: normalise."""
    r = dict(o)
    for k in ("vol", "gibbs", "bulk", "beta", "cp", "cpfit", "gru", "bm", "bmpar", "rows", "files"):
        r[k] = [list(x) if isinstance(x, (list, tuple)) else x for x in (o.get(k) or [])]
    return r


def case_detail(c, extra=None):
    d = dict(id=c.id, family=c.family, mode=c.mode, eos=c.eos, temperatures=c.T, t_max=c.tmax, shape=c.shape,
             pressure=None if c.P is None else str(c.P), volumes=c.volumes.tolist(),
             volume_order=c.vorder, electronic_dtype=c.eldtype, volume_dtype=c.voldtype, injected={"%s#%d" % k: v for k, v in c.inject.items()},
             fit_outcomes=dict(bulkmodulus=c.bmplan, qha=c.fitplan),
             ptab=[{k: str(v) for k, v in p.items()} for p in c.ptab],
             qtab=[{k: str(v) for k, v in p.items()} for p in c.qtab],
             cvtab=[[str(x) for x in r] for r in c.cvtab], stab=[[str(x) for x in r] for r in c.stab])
    if extra:
        d.update(extra)
    return d


def trace_cfg(invs):
    return """INIT TInit
NEXT TNext
CONSTANTS
 Inputs <- MCInputs
 Events <- MCEvents
CHECK_DEADLOCK FALSE
""" + "".join("INVARIANT %s\n" % i for i in invs)


def public_event(e):
    return {k: v for k, v in e.items() if not k.startswith("_")}


def run_trace(ctx, events, invs, cont):
    mc2 = MC_QHATRACE % ",\n".join(to_tla(public_event(e)) for e in events)
    return ctx.tlc("MC_QhaTrace", cfg_text=trace_cfg(invs), extra_files={"MC_QhaTrace.tla": mc2},
                   requirement=False, extra_args=(("-continue",) if cont else ()), workers=min(8, tlcmod.NCPU))


def failed_clauses(stdout, tag="FAILED"):
    out = {}
    for v in tlcmod.printed_values(stdout):
        if isinstance(v, list) and len(v) == 3 and v[0] == tag:
            out[v[1]] = sorted(v[2])
    return out


def corrupt(e, what):
    import copy

    c = copy.deepcopy(public_event(e))
    o = c["obs"]
    if what == "vol":
        o["vol"][1] = [o["vol"][1][0] + 1, o["vol"][1][1]]
    elif what == "gibbs":
        o["gibbs"][0] = [o["gibbs"][0][0] - 1, o["gibbs"][0][1]]
    elif what == "bulk":
        o["bulk"][0] = L.rat(2 * L.unrat(o["bulk"][0]))
    elif what == "el":
        o["rows"][1]["el"] = 1 if o["rows"][1]["el"] != 1 else 2
    elif what == "pvsign":
        o["rows"][0]["pvsign"] = -1
    elif what == "phunit":
        o["rows"][0]["phunit"] = L.UONE
    elif what == "len":
        o["len"] += 1
    elif what == "beta":
        o["beta"][1] = [o["beta"][1][0] + 1, o["beta"][1][1]]
    elif what == "cp":
        o["cp"][1] = [o["cp"][1][0] + 1, o["cp"][1][1]]
    elif what == "exact":
        c["exact"] = False
    elif what == "bmpar":
        o["bmpar"][0]["V0"] = [o["bmpar"][0]["V0"][0] + 1, o["bmpar"][0]["V0"][1]]
    elif what == "file":
        v = o["files"][0]["trows"][1][1]
        o["files"][0]["trows"][1][1] = [v[0] + 1, v[1]]
    elif what == "filefmt":
        o["files"][2]["fmtok"] = False
    elif what == "start":
        o["starts"] = ["own", "prev"]
    elif what == "shift":  # the energies without their offset are not the generating ones
        b = c["inp"]["e0base"][1]
        c["inp"]["e0base"][1] = [b[0] + 1, b[1]]
    elif what == "failedfit":  # the environment let the second fit fail, the result pretends nothing happened
        c["inp"]["fitplan"][1] = "nonconv"
    return c


CONTROLS = dict(vol="ImplRecoverVolume", gibbs="ImplRecoverGibbs", bulk="ImplRecoverBulk",
                el="ImplPerTemperatureElectronic", pvsign="ImplPressureSign", phunit="ImplPhononUnit",
                len="ImplLength", beta="ImplThermalExpansion", cp="ImplHeatCapacity", exact="ImplExact",
                bmpar="ImplBulkModulusObject", file="ImplFiles", filefmt="ImplFiles", start="ImplFitStart",
                failedfit="ImplFailedFitReported", shift="ImplShiftInvariance")


def negative_controls(ctx, events):
    """A recorded event corrupted in one field must be rejected by the clause that owns the field;
    otherwise the trace specification is not binding (machinery failure)."""
    base = None
    for e in events:
        c = e["_case"]
        if (c.shape == "TV" and c.P is not None and c.P != 0 and c.poly_set and e["obs"]["len"] >= 3
                and e["obs"]["status"] == "ok" and e["exact"] and len(c.T) > 3
                and all(c.T[k + 1] - c.T[k] == c.T[1] - c.T[0] for k in range(len(c.T) - 1))
                and c.vpoly[2] != 0 and c.wf and e["obs"]["files"] and c.family == "main"):
            base = e
            break
    if base is None:
        raise tlcmod.MachineryError("no event suitable for the negative controls")
    missed = []
    evs = [public_event(base)]
    ids = {}
    for i, what in enumerate(CONTROLS):
        c = corrupt(base, what)
        c["inp"]["id"] = 900001 + i
        ids[what] = 900001 + i
        evs.append(c)
    r = run_trace(ctx, evs, ["Report"] + QHA_IMPL + QHA_CONF, True)
    failing = failed_clauses(r.stdout)
    names = set(n for n, _ in r.violations)
    for what, clause in CONTROLS.items():
        if clause not in failing.get(ids[what], []):
            missed.append((what, clause, failing.get(ids[what])))
    if not set(CONTROLS.values()) <= names | set(c for f in failing.values() for c in f):
        missed.append(("names", sorted(names)))
    if base["inp"]["id"] in failing:
        missed.append(("uncorrupted", "none", failing[base["inp"]["id"]]))
    ctx.extra["qha_negative_controls"] = dict(base_case=base["_case"].id, corrupted_fields=sorted(CONTROLS),
                                              all_rejected=not missed)
    if missed:
        raise tlcmod.MachineryError("negative controls not rejected as expected: %r" % missed)


def qha_part(ctx, forms, EV, NA):
    cases = gen_cases(ctx)
    by_id = {c.id: c for c in cases}
    batch = 1200
    resid_max = {m: {} for m in TOL}
    n_events = 0
    skipped = []
    first_ok_events = None
    clause_fail = {}   # clause -> list of case ids
    f9_margin = {}     # worst residual / scaled tolerance in the energy-offset / fine-grid family
    observed = {}      # observation outside the statement of C20 -> list of case ids
    for b0 in range(0, len(cases), batch):
        chunk = cases[b0:b0 + batch]
        # the real code first: what every fit call did (scipy status, exception) is the environment's
        # part of the input
        raws = {}
        for c in chunk:
            c.realise(forms, EV, NA)
            raws[c.id] = L.run_case(c, c.mode, EV, NA)
            if c.skip:
                skipped.append(c.id)
        chunk = [c for c in chunk if not c.skip]
        # pass 1: the machine on the inputs (requirement on the specification; expected tables)
        mc = MC_QHA % ",\n".join(to_tla(c.to_tla()) for c in chunk)
        r1 = ctx.tlc("MC_Qha", cfg_text=CFG_QHA, extra_files={"MC_Qha.tla": mc}, requirement=False,
                     workers=1, coverage=(b0 == 0))
        if b0 == 0:
            ctx.extra["qha_action_coverage"] = {k: v[1] for k, v in r1.coverage.items()}
            if any(v[1] == 0 for v in r1.coverage.values()) or len(r1.coverage) < 12:
                raise tlcmod.MachineryError("an action of Qha.tla never fired: %r" % r1.coverage)
        for inv, tr in r1.violations:
            st = tr[-1][1] if tr else {}
            cid = (st.get("inp") or {}).get("id")
            ctx.violation("qha:spec:" + inv, "C20: %s violated on the specification's machine" % inv,
                          dict(invariant=inv, case=case_detail(by_id[cid]) if cid in by_id else None))
        if r1.violations:
            continue
        exp = parse_out(r1.stdout)
        filespecs = None
        for v in tlcmod.printed_values(r1.stdout):
            if isinstance(v, list) and len(v) == 2 and v[0] == "FILESPECS":
                filespecs = v[1]
        if len(exp) != len(chunk) or not filespecs:
            raise tlcmod.MachineryError("expected tables for %d inputs, got %d" % (len(chunk), len(exp)))
        # pass 2: projection of the real results, judged by TLC
        events = []
        for c in chunk:
            e = seqs(exp[c.id])
            tol_c = case_tol(c)
            obs, exact, resid, mism = L.project_case(c, raws[c.id], e, tol_c, filespecs, EV, NA)
            ctx.count(("qha", c.family, c.mode, c.eos, c.shape, c.P is None, len(c.T), c.tmax is None, c.poly_set,
                       tuple(c.T), c.tmax, str(c.P), c.eldtype, c.voldtype, tuple(sorted(c.inject.items()))))
            for k, v in resid.items():
                if np.isfinite(v) and c.family == "main":
                    resid_max[c.mode][k] = max(resid_max[c.mode].get(k, 0.0), v)
                if np.isfinite(v) and c.family.startswith("F9"):
                    kk = k.replace("file:", "").replace("cpfitfile", "cpfit")
                    f9_margin[c.mode] = max(f9_margin.get(c.mode, 0.0), v / tol_c.get(kk, 1e-9))
            obs["bmrows"] = obs.pop("bm")
            events.append(dict(inp=c.to_tla(), obs=obs, exact=bool(exact), _case=c, _mism=mism, _exp=exp[c.id],
                               _err=raws[c.id]["err"]))
        raws.clear()
        n_events += len(events)
        ev_by_id = {e["_case"].id: e for e in events}
        r2 = run_trace(ctx, events, ["Observe"] + QHA_INV + QHA_IMPL + QHA_CONF, False)
        for cid, names in failed_clauses(r2.stdout, "OBSERVED").items():
            for n in names:
                observed.setdefault(n, []).append(cid)
        if first_ok_events is None:
            first_ok_events = events
        if r2.violated:
            # complete list of failing events (compact), then the official verdict with traces on a few
            r3 = run_trace(ctx, events, ["Observe", "Report"], False)
            failing = failed_clauses(r3.stdout)
            for cid, names in failed_clauses(r3.stdout, "OBSERVED").items():
                for n in names:
                    if cid not in observed.setdefault(n, []):
                        observed[n].append(cid)
            per_clause = {}
            for cid, names in failing.items():
                for n in names:
                    per_clause.setdefault(n, []).append(cid)
                    clause_fail.setdefault(n, []).append(cid)
            # main family: one violation per clause; other families: one per family, keyed by its leading clause
            groups = {}
            for n, ids in per_clause.items():
                for cid in sorted(ids):
                    fam = by_id[cid].family
                    groups.setdefault((n, "main") if fam == "main" else ("*", fam), {}).setdefault(n, []).append(cid)
            if not groups:  # a specification-side invariant
                st = r2.trace[-1][1] if r2.trace else {}
                cid = ((st.get("ev") or {}).get("inp") or {}).get("id")
                ctx.violation("qha:" + str(r2.violated), "C20: %s violated" % r2.violated,
                              dict(invariant=r2.violated, case=case_detail(by_id[cid]) if cid in by_id else None))
            lead = ["ImplOrderInvariance", "ImplShiftInvariance", "ImplRecoverVolume", "ImplFailedFitReported", "ImplCompletes", "ImplFitStart", "ImplFiles"]
            plan = []
            for (n, fam), clauses in sorted(groups.items()):
                first = n if n != "*" else ([c for c in lead if c in clauses] + sorted(clauses))[0]
                plan.append((first, fam, clauses, sorted(clauses[first])[0]))
            official = {}
            chosen = []
            for first, fam, clauses, cid in plan:
                if cid not in chosen:
                    chosen.append(cid)
            for c0 in range(0, min(len(chosen), 60), 20):
                r4 = run_trace(ctx, [ev_by_id[cid] for cid in chosen[c0:c0 + 20]], QHA_IMPL + QHA_CONF, True)
                for inv, tr in r4.violations:
                    st = tr[-1][1] if tr else {}
                    cid = ((st.get("ev") or {}).get("inp") or {}).get("id")
                    official.setdefault(cid, set()).add(inv)
            for first, fam, clauses, cid in plan:
                e = ev_by_id[cid]
                nfam = sum(1 for x in events if x["_case"].family == fam)
                key = "qha:%s" % first if fam == "main" else "qha:%s:%s" % (fam.split(" ")[0], first)
                ctx.violation(key, "C20 quasi-harmonic analysis: %s fails on the implementation for %d of %d inputs of "
                              "family '%s'" % (first, len(clauses[first]), nfam, fam),
                              dict(invariant=first, family=fam,
                                   failing_clauses={k: len(v) for k, v in sorted(clauses.items())}, inputs_in_family=nfam,
                                   named_by_tlc_as_first_violated_invariant=sorted(official.get(cid, [])),
                                   all_failing_clauses_of_this_input=failing.get(cid),
                                   case=case_detail(e["_case"]), phonopy_raised=e["_err"],
                                   observed=e["obs"], expected=e["_exp"], replay_mismatches=e["_mism"][:10]))
        else:
            # replay direction: any difference from the expected tables must have been rejected above
            for e in events:
                if e["_mism"] and e["_exp"].get("status") != "unspecified":
                    ctx.violation("qha:replay", "C20: real tables differ from the specification's",
                                  dict(case=case_detail(e["_case"]), mismatches=e["_mism"][:10]))
                    break
    # fits that the environment let fail on exact data of the main family
    main_real = [c for c in cases if c.mode == "real" and c.family == "main"]
    failed = [c.id for c in main_real if c.fitplan and any(p != "ok" for p in (c.fitplan + c.bmplan))]
    ctx.extra["qha_fit_not_converged_main_family"] = dict(cases=len(failed), of_real=len(main_real), ids=failed[:20])
    ctx.extra["qha_skipped_local_minimum"] = dict(cases=len(skipped), ids=skipped[:20])
    if len(failed) > max(3, 0.02 * len(main_real)):
        ctx.violation("qha:fit-fails", "scipy fit inside PhonopyQHA fails on exact EOS data in %d of %d cases"
                      % (len(failed), len(main_real)), case_detail(by_id[failed[0]]))
    ctx.extra["qha_failing_clauses"] = {k: len(v) for k, v in sorted(clause_fail.items())}
    what = dict(ObsRefuses="temperatures not strictly ascending or fewer than 4 distinct volumes are NOT refused: a result "
                           "is returned (descending + t_max returns the temperatures above t_max; repeated temperatures "
                           "give rank-deficient parabolas; < 4 distinct volumes an underdetermined fit)",
                ObsTypeErrorNotReplaced="a fit that raises TypeError (fault injection; not reachable with the pinned "
                                        "scipy) keeps its temperature in the result with the PREVIOUS temperature's "
                                        "parameters (first temperature: UnboundLocalError)")
    ctx.extra["observed_outside_C20"] = {
        k: dict(what=what.get(k, k), inputs=len(set(v)),
                families=sorted(set(by_id[c].family for c in v)),
                example=case_detail(by_id[sorted(v)[0]]) if v else None,
                recorded_in=dict(ObsRefuses="fixes/c20-temperature-order.md, fixes/c20-degenerate-volumes.md",
                                 ObsTypeErrorNotReplaced="fixes/c20-stale-fit-parameters.md").get(k))
        for k, v in sorted(observed.items())}
    if first_ok_events and not any(v["key"].startswith("qha:") for v in ctx.violations):
        negative_controls(ctx, first_ok_events)
    ctx.traces += n_events
    ctx.extra["qha_events"] = n_events
    ctx.extra["qha_residuals_over_tolerance"] = {
        m: {k: dict(observed=v, tolerance=TOL[m].get(k.replace("file:", "").replace("cpfitfile", "cpfit"), 1e-9))
            for k, v in d.items()} for m, d in resid_max.items()}
    worst = max([v["observed"] / v["tolerance"] for d in ctx.extra["qha_residuals_over_tolerance"].values()
                 for v in d.values()] or [0.0])
    worst = max([worst] + list(f9_margin.values()))
    ctx.extra["qha_worst_margin"] = worst
    ctx.extra["f9_worst_residual_over_scaled_tolerance"] = f9_margin
    if worst > 1e-2 and not ctx.violations:
        raise tlcmod.MachineryError("projection residual %.2g of the tolerance: tolerances not safe" % worst)
    ctx.sample(dict(kind="qha", **case_detail(cases[len(cases) // 2])))
    return cases


# ----------------------------------------------------------------------------- call sequences
CFG_SEQ = """INIT %s
NEXT %s
CONSTANTS
 Runs <- MCRuns
 AliasKinds <- %s
%sCHECK_DEADLOCK FALSE
"""
MC_SEQ = """---- MODULE MC_QhaSeqTrace ----
EXTENDS QhaSeqTrace
MCRuns == {%s}
MCNoAlias == {}
MCAlias == {"c", "f", "strided"}
MCEvents == {%s}
====
"""
SEQ_PRESSURES = [None, Fr(2), Fr(5), Fr(-1), None]


def seq_arrays(case, kind):
    """The caller's array objects (re-used by every call of a sequence) for one array kind."""
    el = np.array(case.el, dtype=float)
    vols = np.array(case.volumes, dtype=float)
    if kind == "f":
        el = np.asfortranarray(el)
    elif kind == "strided":
        big = np.zeros(el.shape[:-1] + (2 * el.shape[-1],))
        big[..., ::2] = el
        el = big[..., ::2]
        bv = np.zeros(2 * len(vols))
        bv[::2] = vols
        vols = bv[::2]
    elif kind == "int":
        el = el.astype(np.int64)
    elif kind == "list":
        el = el.tolist()
        vols = vols.tolist()
    return dict(volumes=vols, el=el, T=np.array(case.T, dtype=float), ph=np.array(case.ph), cv=np.array(case.cv),
                entropy=np.array(case.entropy))


def seq_copy(a):
    import copy

    return {k: (np.array(v, copy=True, order="K") if isinstance(v, np.ndarray) else copy.deepcopy(v))
            for k, v in a.items()}


def seq_same(a, b):
    for k in a:
        x, y = a[k], b[k]
        if isinstance(x, np.ndarray):
            if not (isinstance(y, np.ndarray) and x.dtype == y.dtype and x.shape == y.shape
                    and x.tobytes() == y.tobytes()):
                return False
        elif x != y:
            return False
    return True


def seq_call(case, api, arrs, P, EV, NA):
    """One constructor call on the given array objects; rows seen by the fit and returned tables."""
    import io
    import contextlib
    import phonopy.qha.core as core
    from phonopy import PhonopyQHA

    orig_fit, orig_run = core.fit_to_eos, core.QHA.run
    probe = L.FitProbe(case, orig_fit, "real")

    def run_wrapped(self, *a, **kw):
        probe.phase = "qha"
        return orig_run(self, *a, **kw)

    core.fit_to_eos, core.QHA.run = probe, run_wrapped
    out, status = {}, "ok"
    pr = None if P is None else float(P)
    try:
        with contextlib.redirect_stdout(io.StringIO()):
            if api == "BulkModulus":
                b = core.BulkModulus(arrs["volumes"], arrs["el"], pressure=pr, eos=case.eos)
                out["bm"] = np.concatenate([np.atleast_1d(np.asarray(x, dtype=float)) for x in b.get_parameters()])
            else:
                if api == "PhonopyQHA":
                    q = PhonopyQHA(volumes=arrs["volumes"], electronic_energies=arrs["el"], temperatures=arrs["T"],
                                   free_energy=arrs["ph"], cv=arrs["cv"], entropy=arrs["entropy"], eos=case.eos,
                                   pressure=pr)
                    out["bm"] = np.concatenate([np.atleast_1d(np.asarray(x, dtype=float))
                                                for x in q.get_bulk_modulus_parameters()])
                else:
                    q = core.QHA(arrs["volumes"], arrs["el"], arrs["T"], arrs["cv"], arrs["entropy"], arrs["ph"],
                                 pressure=pr, eos=case.eos)
                    q.run()
                for nm in ("volume_temperature", "gibbs_temperature", "bulk_modulus_temperature", "thermal_expansion",
                           "heat_capacity_P_numerical", "gruneisen_temperature", "helmholtz_volume"):
                    out[nm] = np.asarray(getattr(q, nm), dtype=float)
    except Exception as e:
        status = "raised:" + type(e).__name__
    finally:
        core.fit_to_eos, core.QHA.run = orig_fit, orig_run
    return probe.calls, out, status


def seq_effective_pressure(case, api, calls, EV, NA):
    """Coefficient (GPa) of the V term in the rows that reached the fit, relative to the pristine energies."""
    V = case.volumes
    upv = L.unit_factor(L.REQ_PV, EV, NA)
    uph = L.unit_factor(L.REQ_PH, EV, NA)
    el = np.asarray(case.el, dtype=float)
    el = el if case.shape == "TV" else el[None, :]
    phase = "bulkmodulus" if api == "BulkModulus" else "qha"
    rows = [r for ph, _, r, _ in calls if ph == phase]
    vals, ok = [], bool(rows)
    for i, r in enumerate(rows):
        j = min(i, len(el) - 1) if case.shape == "TV" else 0
        base = el[j] + (0 if phase == "bulkmodulus" else uph * case.ph[i])
        alpha, lin = L.identify_linear(r - base, V, 1e-9 * max(1.0, float(np.abs(r).max())))
        ok = ok and lin
        vals.append(alpha / upv)
    if not vals:
        return 0.0, False
    return float(vals[0]), bool(ok and max(vals) - min(vals) <= 1e-6)


def seq_part(ctx, forms, EV, NA):
    """Call sequences re-using the caller's arrays (QhaSeq.tla / QhaSeqTrace.tla)."""
    rng = ctx.rng
    events, runs = [], []
    kinds = ["c", "f", "strided", "int", "list"]
    rid = 0
    for api in ("PhonopyQHA", "QHA", "BulkModulus"):
        for shape in ("V", "TV"):
            for kind in kinds:
                for rep in range(1 if ctx.quick else 3):
                    rid += 1
                    press = list(SEQ_PRESSURES)
                    if rep:
                        rng.shuffle(press)
                    case = make_case(900000 + rid, [0, 10, 20, 30, 40], None, shape, None, EOS_NAMES[rid % 3], rng,
                                     "real", degrees=(2, 2))
                    case.wf = False
                    case.cvtab = [[Fr(25 + k), Fr(1, 10), Fr(0)] for k in range(5)]
                    if kind == "int":
                        case.eldtype = "int"
                    case.realise(forms, EV, NA)
                    arrs = seq_arrays(case, kind)
                    pristine = seq_copy(arrs)
                    sq = dict(id=rid, api=api, shape=shape, kind=kind,
                              pressures=[dict(set=P is not None, v=L.rat(0 if P is None else P)) for P in press])
                    obs, exact, log = [], True, []
                    for P in press:
                        calls, out, status = seq_call(case, api, arrs, P, EV, NA)
                        fcalls, fout, fstatus = seq_call(case, api, seq_copy(pristine), P, EV, NA)
                        peff, ok = seq_effective_pressure(case, api, calls, EV, NA)
                        r = Fr(peff).limit_denominator(1000) if np.isfinite(peff) else Fr(7)
                        ok = ok and abs(peff - float(r)) <= 1e-6 and status == "ok"
                        if abs(r.numerator) > 10 ** 6:
                            r, ok = Fr(7), False
                        fresh = (status == fstatus and set(out) == set(fout)
                                 and all(out[k].shape == fout[k].shape and np.allclose(out[k], fout[k], rtol=1e-9,
                                                                                         atol=1e-12) for k in out))
                        unmod = seq_same(pristine, arrs)
                        exact = exact and ok
                        obs.append(dict(pv=L.rat(r), fresh=bool(fresh), unmod=bool(unmod)))
                        log.append(dict(pressure=None if P is None else str(P), effective_pressure_GPa=peff,
                                        status=status, equals_fresh_call=bool(fresh), inputs_unmodified=bool(unmod)))
                        ctx.count(("seq", api, shape, kind, tuple(str(x) for x in press), str(P)))
                    events.append(dict(sq=sq, obs=obs, exact=bool(exact), _log=log, _case=case))
                    runs.append(sq)
    mc = MC_SEQ % (",\n".join(to_tla(r) for r in runs), ",\n".join(to_tla(public_event(e)) for e in events))
    invs = ["InvFreshEquivalent", "InvInputsUnmodified", "ImplSeqExact", "ImplFreshEquivalent", "ImplInputsUnmodified",
            "ConformsSeq"]
    r = ctx.tlc("MC_QhaSeqTrace", cfg_text=CFG_SEQ % ("TInit", "TNext", "MCNoAlias", " Events <- MCEvents\n")
                + "".join("INVARIANT %s\n" % i for i in invs), extra_files={"MC_QhaSeqTrace.tla": mc},
                requirement=False, extra_args=("-continue",), workers=2)
    ctx.traces += len(events)
    ctx.extra["seq_events"] = dict(sequences=len(events), calls=sum(len(e["obs"]) for e in events),
                                   apis=["PhonopyQHA", "QHA", "BulkModulus"], array_kinds=kinds,
                                   pressures=[None if P is None else str(P) for P in SEQ_PRESSURES])
    by = {e["sq"]["id"]: e for e in events}
    seen = set()
    for inv, tr in r.violations:
        if inv in seen:
            continue
        seen.add(inv)
        st = tr[-1][1] if tr else {}
        e = by.get(((st.get("ev") or {}).get("sq") or {}).get("id"))
        side = "implementation" if inv.startswith(("Impl", "Conforms")) else "specification"
        ctx.violation("seq:" + inv, "C20 call sequence re-using the caller's arrays: %s fails on the %s" % (inv, side),
                      dict(invariant=inv, run=e["sq"] if e else None, calls=e["_log"] if e else None,
                           case=case_detail(e["_case"]) if e else None))
    # specification-side control: a constructor that works on the caller's array must violate the requirement
    names = set()
    for inv in ("InvFreshEquivalent", "InvInputsUnmodified"):   # TLC names one violated invariant per state
        rc = ctx.tlc("MC_QhaSeqTrace", cfg_text=CFG_SEQ % ("TInit", "TNext", "MCAlias", " Events <- MCEvents\n")
                     + "INVARIANT %s\n" % inv, extra_files={"MC_QhaSeqTrace.tla": mc}, requirement=False, workers=2)
        if rc.violated:
            names.add(rc.violated)
    ctx.extra["seq_alias_model_control"] = sorted(names)
    if not {"InvFreshEquivalent", "InvInputsUnmodified"} <= names:
        raise tlcmod.MachineryError("QhaSeq with aliasing constructors does not violate the requirement: %r" % names)
    # trace-side control: an accumulated pressure / a modified input must be rejected
    if not r.violations:
        import copy

        bad = []
        for what in ("pv", "fresh", "unmod"):
            c = copy.deepcopy(public_event(events[0]))
            c["sq"]["id"] = 990000 + len(bad)
            if what == "pv":
                c["obs"][2]["pv"] = L.rat(Fr(7))
            else:
                c["obs"][2][what] = False
            bad.append(c)
        mcb = MC_SEQ % (",\n".join(to_tla(b["sq"]) for b in bad), ",\n".join(to_tla(b) for b in bad))
        rb = ctx.tlc("MC_QhaSeqTrace", cfg_text=CFG_SEQ % ("TInit", "TNext", "MCNoAlias", " Events <- MCEvents\n")
                     + "".join("INVARIANT %s\n" % i for i in invs), extra_files={"MC_QhaSeqTrace.tla": mcb},
                     requirement=False, extra_args=("-continue",), workers=1)
        nb = set(n for n, _ in rb.violations)
        ctx.extra["seq_negative_controls"] = sorted(nb)
        if not {"ImplFreshEquivalent", "ImplInputsUnmodified"} <= nb:
            raise tlcmod.MachineryError("corrupted call-sequence events not rejected: %r" % nb)


MC_QHAMODEL = """---- MODULE MC_QhaModel ----
EXTENDS QhaModel
MCSteps == {10, 20}
MCShapes == {"V", "TV"}
MCNvdQuick == {3, 5}
MCNvdAll == {1, 3, 5, 7}
====
"""


def model_part(ctx):
    """Exhaustive run of the machine on the input families enumerated by TLC itself (QhaModel.tla)."""
    maxn = 3 if ctx.quick else 5
    failn, deglen = (3, 2) if ctx.quick else (4, 3)
    cfg = """INIT Init
NEXT Next
CONSTANTS
 Inputs <- AllInputs
 MaxN = %d
 Steps <- MCSteps
 ShapeSel <- MCShapes
 PressureSel <- %s
 FailN = %d
 DegLen = %d
 NvdSel <- %s
CHECK_DEADLOCK FALSE
""" % (maxn, "SomePressures" if ctx.quick else "AllPressures", failn, deglen,
       "MCNvdQuick" if ctx.quick else "MCNvdAll") + "".join("INVARIANT %s\n" % i for i in QHA_INV)
    r = ctx.tlc("MC_QhaModel", cfg_text=cfg, extra_files={"MC_QhaModel.tla": MC_QHAMODEL}, requirement=True,
                workers=min(8, tlcmod.NCPU), what="C20: requirement violated on the specification's machine "
                "(exhaustive families)")
    ctx.extra["model_run"] = dict(
        family="ModelInputs: all temperature grids with 1..%d points and steps in {10,20} (every step pattern), every "
               "t_max on a 5 K raster from below the first to beyond the last temperature or none, shapes V/TV, "
               "pressures %s; FailInputs: uniform grids with 2..%d points, every assignment of fit outcomes "
               "(ok/nonconv/RuntimeError/TypeError) to the temperatures and to the BulkModulus fit; DegenerateInputs: "
               "every temperature sequence of length 1..%d over {0,10,20}, %s distinct volumes, int/float input, "
               "electronic (T,V) rows = temperatures -1/0/+1 (unordered temperatures / < 4 distinct volumes: machine "
               "status 'unspecified', outside the statement)"
               % (maxn, "none/2" if ctx.quick else "none/0/2/-3/2", failn, deglen,
                  "3/5" if ctx.quick else "1/3/5/7"),
        states=r.distinct, exhaustive=True)


def units_binding(ctx):
    """The exponent vectors of Qha.tla (CodeEVAngstromToGPa, CodeEvTokJmol) are what units.py defines."""
    import phonopy.units as u

    EV, NA = u.EV, u.Avogadro
    for name, vec in (("EVAngstromToGPa", L.U(1, 0, 21)), ("EvTokJmol", L.U(1, 1, -3))):
        want = L.unit_factor(vec, EV, NA)
        got = getattr(u, name)
        if abs(got - want) > 1e-13 * abs(want):
            ctx.violation("units:" + name, "phonopy.units.%s is not EV^%d NA^%d 10^%d" % (
                name, vec["ev"], vec["na"], vec["ten"]), dict(constant=name, value=got, expected=want))
    return EV, NA


def run(ctx):
    ctx.rule = ("EOS: one case per (form, rational parameter set); QHA: one case per distinct (fit mode, form, "
                "electronic shape, pressure, temperature grid, t_max, temperature dependence) input")
    t0 = time.time()
    EV, NA = units_binding(ctx)
    r = ctx.tlc("EosDump", cfg_text=CFG_DUMP, workers=1)
    forms = None
    for v in tlcmod.printed_values(r.stdout):
        if isinstance(v, list) and v and v[0] == "EOSFORMS":
            forms = v[1]
    if not forms or set(forms) != set(EOS_NAMES):
        raise tlcmod.MachineryError("EosDump did not print the three forms")
    eos_part(ctx, forms)
    ctx.extra["t_eos_s"] = round(time.time() - t0, 1)
    t1 = time.time()
    model_part(ctx)
    ctx.extra["t_model_s"] = round(time.time() - t1, 1)
    cases = qha_part(ctx, forms, EV, NA)
    t2 = time.time()
    seq_part(ctx, forms, EV, NA)
    ctx.extra["t_seq_s"] = round(time.time() - t2, 1)
    tally = {}
    for c in cases:
        for key, on in (("family:" + c.family, c.family != "main"), ("writes files", c.wf),
                        ("heat capacity below cutoff at one temperature", any(r[0] <= 0 for r in c.cvtab)),
                        ("volume order:" + c.vorder, True),
                        ("mode:" + c.mode, True), ("eos:" + c.eos, True), ("shape:" + c.shape, True),
                        ("pressure acts", c.P is not None and c.P != 0), ("pressure none", c.P is None),
                        ("pressure acts, eos:" + c.eos, c.P is not None and c.P != 0),
                        ("pressure zero", c.P is not None and c.P == 0),
                        ("t_max given", c.tmax is not None), ("polynomial tables (finite-difference definitions "
                        "apply)", c.poly_set), ("perturbed tables (stencil conformance only)", not c.poly_set),
                        ("non-uniform temperature grid", len(set(b - a for a, b in zip(c.T, c.T[1:]))) > 1),
                        ("single temperature", len(c.T) == 1)):
            if on:
                tally[key] = tally.get(key, 0) + 1
    ctx.extra["qha_case_tally"] = tally
    ctx.assumptions += [
        "B0' = 1 (pole of the Vinet and Murnaghan forms) excluded; B0 > 0, V0 > 0",
        "main family: volume grids of 5..11 distinct points; parameters B0 in 0.2..1 eV/A^3, B0' in 3..5.4, V0 "
        "inside the grid; what each fit call does (scipy status, exception) is observed and part of the input",
        "a fit that ends with scipy status 1..4 at other parameters than the exact curve's (local minimum) is outside "
        "the hypothesis: such inputs are counted and skipped",
        "at least two surviving temperatures (a single one trips phonopy's internal assertion; modelled, status 'assert')",
        "heat capacities are either <= 0 or >= 1e-3 V (never between 0 and the 1e-10 cutoff of the Gruneisen routine)",
        "EV and Avogadro of phonopy/units.py are taken as the base constants",
    ]
    ctx.exhaustive = False
