"""C08 - non-analytical term correction has the right limits.

Spec: spec/NAC.tla (symmetrisation by the exact space group, K(n) as a rational
matrix, the Wang lattice sum as a character sum, first-zone images),
spec/NACTrace.tla (conformance), spec/NACSwitch.tla (+ trace: which correction is
applied for which (q, direction) on which call route).

1. TLC checks the requirement on NAC.tla for all configurations of the run and
   dumps the reachable states (expected K(n) for every direction, the
   commensurate points, their first-zone images).
2. spec -> code: every dumped state is replayed on the real code (both methods,
   full/compact force constants, two call routes, three unit systems).
3. code -> spec: the observations are projected to rationals / booleans and
   TLC evaluates the requirement on them (NACTrace.tla).
"""
from __future__ import annotations

import os

# every call here hands one (or a handful of) q-points to the compiled kernels: OpenMP teams only add
# barrier spinning on a shared machine.  Must be set before the extension (libgomp) is loaded.
os.environ["OMP_NUM_THREADS"] = "1"
os.environ.setdefault("OMP_WAIT_POLICY", "passive")

import json

import numpy as np

from harness import bootstrap  # noqa: F401
from harness import tla_values, tlc as tlcmod
from harness.c08_nac import (NAC_FACTORS, NacCase, ShearedOracle, SpecCrystal, reciprocal_basis_not_reduced,
                             require_actions_fired, common_den, frac_project, rand_int_matrix,
                             sym_pd_matrix)
from harness.oracle import Oracle
from harness.tla_values import to_tla

I3 = [[1, 0, 0], [0, 1, 0], [0, 0, 1]]


def diag(a, b, c):
    return [[a, 0, 0], [0, b, 0], [0, 0, c]]


# (entry, supercell matrix, tier)
GEOMS = [
    ("nacl", diag(2, 1, 1), "quick"),
    ("naclg", I3, "quick"),
    ("nacl", [[1, 1, 0], [-1, 1, 0], [0, 0, 1]], "quick"),
    ("wz", diag(2, 2, 1), "quick"),
    ("wz", [[1, -1, 0], [1, 2, 0], [0, 0, 1]], "quick"),
    ("tetab", diag(2, 2, 2), "quick"),
    ("tetab", [[1, -1, 0], [1, 1, 0], [0, 0, 2]], "quick"),
    ("cscl", diag(3, 1, 1), "quick"),
    ("tric", [[1, 1, 0], [0, 1, 0], [0, 0, 2]], "quick"),
    ("p4", diag(2, 1, 1), "quick"),          # specification-only crystal (NACOps!P4Crystal), zero force constants
    # the same crystal in a NON-reduced (sheared, unimodular) basis, anisotropic supercells
    ("tric", diag(2, 1, 1), "quick", [[1, 2, 0], [0, 1, 0], [1, 0, 1]]),
    ("cscl", diag(2, 2, 2), "thorough"),
    ("cscl", diag(4, 1, 1), "thorough"),
    ("cscl", [[2, 1, 0], [0, 2, 1], [1, 0, 2]], "thorough"),
    ("naclg", diag(2, 1, 1), "thorough"),
    ("nacl", diag(2, 2, 1), "thorough"),
    ("wz", diag(3, 3, 1), "thorough"),
    ("wz", diag(2, 2, 2), "thorough"),
    ("tetab", diag(3, 3, 2), "thorough"),
    ("tetab", [[2, 1, 0], [-1, 2, 0], [0, 0, 1]], "thorough"),
    ("tric", diag(2, 2, 1), "thorough"),
    ("tric", [[2, 1, 0], [0, 1, 1], [1, 0, 2]], "thorough"),
    ("tric", diag(1, 2, 1), "thorough", [[1, 0, 0], [2, 1, 0], [0, -1, 1]]),
    ("tric", diag(3, 1, 2), "thorough", [[1, 1, 0], [0, 1, 0], [0, 2, 1]]),
]

NATOMS = {"nacl": 8, "naclg": 8, "wz": 4, "tetab": 2, "cscl": 2, "tric": 3, "p4": 8}
FIXED_DIRS = [(1, 0, 0), (0, 0, 1), (1, 1, 0), (1, 2, 3)]


PDEN = 97
HALF_TRANSLATIONS = [t for t in __import__("itertools").product(range(-3, 4), repeat=3) if t != (0, 0, 0)]


def make_cfgs(ctx):
    rng = ctx.rng
    geoms = [g for g in GEOMS if g[2] == "quick" or not ctx.quick]
    import os
    if os.environ.get("C08_MAXCFG"):            # experiments only (mutation runs)
        geoms = geoms[: int(os.environ["C08_MAXCFG"])]
    cfgs = []
    for k, geo in enumerate(geoms):
        entry, S = geo[0], geo[1]
        U = geo[3] if len(geo) > 3 else I3
        nat = NATOMS[entry]
        mode = "random"
        if k % 5 == 3:
            mode = "equal"      # all atoms the same charge: the acoustic sum rule leaves zero
        if k % 7 == 5:
            mode = "zero"
        if len(geo) > 3:
            mode = "random"          # sheared settings always carry non-zero charges
        if mode == "random":
            Z = [rand_int_matrix(rng) for _ in range(nat)]
        elif mode == "equal":
            z = rand_int_matrix(rng)
            Z = [z for _ in range(nat)]
        else:
            Z = [[[0] * 3] * 3 for _ in range(nat)]
        dirs = set(FIXED_DIRS[: 3 if ctx.quick else 4])
        while len(dirs) < (4 if ctx.quick else 7):
            d = tuple(rng.randint(-3, 3) for _ in range(3))
            if d != (0, 0, 0):
                dirs.add(d)
        # arbitrary points q = x / 97 that are not accidentally "half commensurate": q.t is not a multiple of 1/2
        # for any (half-)lattice translation t with entries up to 3/2 cells (the Wang lattice sum factorises and
        # vanishes on such planes)
        probes = set()
        while len(probes) < 2:
            x = tuple(rng.randint(-40, 40) for _ in range(3))
            if all(sum(a * b for a, b in zip(x, t)) % PDEN != 0 for t in HALF_TRANSLATIONS):
                probes.add(x)
        Cm = sym_pd_matrix(rng)
        if entry in ("tric", "p4"):
            # low symmetry: the raw dielectric tensor is a general matrix (eps_ij != eps_ji survives the point-group
            # average); its symmetric part stays the positive definite one drawn above
            a1, a2, a3 = (rng.choice((-2, -1, 1, 2)) for _ in range(3))
            Cm = [[Cm[0][0], Cm[0][1] + a1, Cm[0][2] + a2], [Cm[1][0] - a1, Cm[1][1], Cm[1][2] + a3],
                  [Cm[2][0] - a2, Cm[2][1] - a3, Cm[2][2]]]
        if U != I3:
            # tensors drawn in the catalogue setting and expressed in the sheared basis (Zh' = U^-T Zh U^T,
            # Cc' = U^-T Cc U^-1): the physical tensors are as moderate as in every other configuration
            Ua = np.array(U, dtype=int)
            Ui = np.rint(np.linalg.inv(Ua)).astype(int)
            Z = [(Ui.T @ np.array(z, dtype=int) @ Ua.T).tolist() for z in Z]
            Cm = (Ui.T @ np.array(Cm, dtype=int) @ Ui).tolist()
        cfgs.append(dict(id=k + 1, entry=entry, S=S, U=U, Z=Z, C=Cm, dirs=sorted(dirs),
                         lams=[-1, 2, 7], box=2, probes=sorted(probes), pden=PDEN, mode=mode))
    for fam in (("nacl", "naclg", "cscl"), ("wz", "tetab", "tric")):
        for c in cfgs:
            if c["entry"] in fam and c["mode"] == "random":
                c["ewald"] = True
                break
    return cfgs


def cfg_tla(c):
    return ("[U |-> %s, id |-> %d, entry |-> %s, S |-> %s, Z |-> %s, C |-> %s, dirs |-> %s, lams |-> %s, box |-> %d, "
            "probes |-> %s, pden |-> %d]" % (
                to_tla(c["U"]), c["id"], to_tla(c["entry"]), to_tla(c["S"]), to_tla(c["Z"]), to_tla(c["C"]),
                to_tla(set(map(tuple, c["dirs"]))), to_tla(set(c["lams"])), c["box"],
                to_tla(set(map(tuple, c["probes"]))), c["pden"]))


REQ_INVS = ["TypeOK", "ReqBornInvariant", "ReqEpsInvariant", "ReqBornASR", "ReqProjection", "ReqCentringConsistent",
            "ReqHomogeneous", "ReqSymmetric", "ReqAcoustic", "ReqZeroBorn", "ReqCovariant", "ReqBasisCovariant", "ReqEpsSymmetricPartOnly", "ReqWangGamma",
            "ReqWangVanishesAtCommensurate", "ReqPhaseClassFunction"]
PRE_INVS = ["PreDenominatorPositive", "PreTransGroupComplete", "PreShortestStable"]



def cfg_model(ctx):
    pre = PRE_INVS + ([] if ctx.quick else ["PreAutAgrees"])      # thorough: the fast space-group search = Crystal!Aut
    return "SPECIFICATION Spec\nCONSTANTS\n Cfgs <- MCCfgs\nCHECK_DEADLOCK FALSE\n" + \
        "".join("INVARIANT %s\n" % i for i in REQ_INVS + pre)

IMPL_INVS = ["ImplHomogeneousLadder", "ImplDipoleSum", "ImplFullTermsDipoleSum", "ImplFullTermsGammaLimit", "ImplFullTermsCommensurateNoOp",
             "ImplFullTermsZeroBornNoOp", "ImplBornExact", "ImplBornInvariant", "ImplBornASR", "ImplEpsInvariant", "ImplExactProjection",
             "ImplGammaLimit", "ImplHomogeneous", "ImplSymmetric", "ImplRoutesAgree", "ImplCommensurateNoOp",
             "ImplZeroBornNoOp"]
CONF_INVS = ["ImplGListComplete", "PreSomeNonReducedSetting", "ConformsBornSymmetrised", "ConformsEpsSymmetrised", "ConformsBornPrimitive", "ConformsNPrim",
             "ConformsCommImage", "ImplActive"]
CFG_TRACE = "INIT TInit\nNEXT TNext\nCONSTANTS\n Cfgs <- MCCfgs\n Events <- MCEvents\nCHECK_DEADLOCK FALSE\n" + \
    "".join("INVARIANT %s\n" % i for i in IMPL_INVS + CONF_INVS)


# ---------------------------------------------------------------------------------
def frac_tensor(ctx, arr, max_den=200000):
    """real array -> (nested lists of [num, den] reduced fractions, all exact?)"""
    flat = [frac_project(x, max_den) for x in np.asarray(arr, dtype=float).ravel()]
    ok = all(o for _, o in flat)
    vals = np.empty(len(flat), dtype=object)
    for i, (f, _) in enumerate(flat):
        vals[i] = [int(f.numerator), int(f.denominator)]
    return vals.reshape(np.asarray(arr).shape).tolist(), ok


def int_tensor(arr, max_den=5000):
    """real array -> (integer numerators over one common denominator, den, exact?)"""
    flat = [frac_project(x, max_den, tol=1e-9) for x in np.asarray(arr, dtype=float).ravel()]
    ok = all(o for _, o in flat)
    den = common_den([f for f, _ in flat])
    nums = np.array([int(f * den) for f, _ in flat], dtype=object).reshape(np.asarray(arr).shape)
    return nums.tolist(), den, ok


METHODS = ("wang", "gonze")
LAYOUTS = ("full", "compact")
ROUTES = ("qpoints", "dmrun")


FULLTERMS_CFGS = None      # ids of the configurations on which the full-terms object is exercised (None: all)
LADDER_CFGS = None         # ids of the configurations on which the ladder of lengths of n is run (None: all)


def routes_of(method, layout, cid=None):
    """call routes exercised for an object: the two production routes everywhere; on full force constants also
    the non-OpenMP q-point loop, the pure-Python Wang branch and the Gonze-Lee object with all Ewald terms."""
    r = list(ROUTES)
    if layout == "full":
        r.append("qpoints_py")
        if method == "wang":
            r.append("wang_py")
        elif FULLTERMS_CFGS is None or cid in FULLTERMS_CFGS:
            r.append("fullterms")
    return r

# tolerances (relative to the largest element of the plain dynamical matrix at the point);
# observed on the unchanged tree: see ctx.extra["margins"]
TOL = dict(gamma=1e-11, wang_comm=1e-11, gl_comm_bz=1e-9, gl_comm_recip=1e-3, zero_wang=1e-25, zero_gl=1e-11)


def run(ctx):
    ctx.rule = ("a case is one (configuration, kind of point, point/direction, NAC method, force-constant layout, "
                "call route) evaluated on the real code; configurations = polar catalogue crystals x supercell "
                "matrices x random integer raw Born/dielectric tensors (symmetrised exactly in TLA+)")
    cfgs = make_cfgs(ctx)
    global FULLTERMS_CFGS, LADDER_CFGS
    FULLTERMS_CFGS = set(c["id"] for c in cfgs[:2]) if ctx.quick else None
    LADDER_CFGS = (set(c["id"] for c in cfgs if c["U"] != I3) |
                   set([c["id"] for c in cfgs if c["mode"] == "random" and c["entry"] in ("nacl", "wz")][:2])) \
        if ctx.quick else None
    mc = "---- MODULE MC_NAC ----\nEXTENDS NAC\nMCCfgs == {\n%s\n}\n====\n" % ",\n".join(cfg_tla(c) for c in cfgs)
    res = ctx.tlc("MC_NAC", cfg_text=cfg_model(ctx), extra_files={"MC_NAC.tla": mc}, requirement=False,
                  dump=True, keep=True, coverage=not ctx.quick, extra_args=("-continue",), workers=4)
    try:
        bad = sorted(set(nm for nm, _ in res.violations))
        for nm in bad:
            if nm.startswith("Pre"):
                raise tlcmod.MachineryError("NAC.tla: adequacy/hypothesis invariant %s fails" % nm)
            ctx.violation("tlc:NAC:" + nm, "requirement %s fails on the specification's model" % nm,
                          dict(invariant=nm))
        states = tla_values.parse_dump(res.dump_path)
    finally:
        tlcmod.cleanup(res)
    require_actions_fired(ctx, res, "NAC", ["SetNAC", "GammaLimit", "AtCommensurate", "AtGeneric"])

    by_cfg = {}
    for st in states:
        if st["pc"] == "choose":
            continue
        d = by_cfg.setdefault(st["cfg"]["id"], dict(gamma=[], comm=[], generic=[]))
        if st["pc"] == "ready":
            d["ready"] = st
        else:
            d[st["pc"]].append(st)

    margins = {k: 0.0 for k in TOL}
    events = []
    factors = list(NAC_FACTORS.items())
    oracles = {}
    base = {}
    for c in cfgs:
        ent = c["entry"]
        if ent not in base:
            # supercells in the catalogue setting: S itself, or U^T S for a sheared setting
            mats = [g["S"] if g["U"] == I3 else ShearedOracle.original_supercell(g["U"], g["S"])
                    for g in cfgs if g["entry"] == ent]
            if ent == "p4":
                base[ent] = SpecCrystal(by_cfg[c["id"]]["ready"]["cr"], seed=ctx.seed * 101 + len(base))
            else:
                base[ent] = Oracle(ent, mats, seed=ctx.seed * 101 + len(base), ctx=ctx)
        key = (ent, to_tla(c["U"]))
        if key not in oracles:
            oracles[key] = base[ent] if c["U"] == I3 else ShearedOracle(base[ent], c["U"])
    cases = []
    for c in cfgs:
        fname, f = factors[(c["id"] + ctx.seed) % len(factors)]
        case = NacCase(c, oracles[(c["entry"], to_tla(c["U"]))], factor=f)
        spec = by_cfg[c["id"]]
        events.append(replay_cfg(ctx, c, case, spec, margins, fname))
        events[-1]["nonReducedReciprocal"] = reciprocal_basis_not_reduced(np.array(case.ph0.primitive.cell))
        cases.append((c, case, spec))

    ctx.extra["margins"] = {k: dict(observed=margins[k], tolerance=TOL.get(k)) for k in margins}
    ctx.assumptions.append(
        "Gonze-Lee: 'unchanged at commensurate q' is required at the first-zone images of each commensurate point "
        "(all of them when several have the same length), where make_Gonze_nac_dataset subtracts the dipole-dipole "
        "term; at images outside the first zone the truncated reciprocal sum is not periodic (deviation recorded "
        "under margins, up to 1e-2 two reciprocal vectors out). Wang: required and exact at every image.")
    ctx.assumptions.append(
        "q = 0 modulo the reciprocal lattice is the zone centre, not a 'non-zero commensurate point'; the dielectric "
        "tensor is symmetric positive definite; the direction n is non-zero.")
    for k in TOL:
        if TOL[k] > 0 and margins[k] > 1e-3 * TOL[k] and not ctx.violations:
            ctx.extra.setdefault("margin_warnings", []).append(k)

    # ---- code -> spec ------------------------------------------------------------
    mct = ("---- MODULE MC_NACTrace ----\nEXTENDS NACTrace\nMCCfgs == {}\nMCEvents == {\n%s\n}\n====\n"
           % ",\n".join(event_tla(e) for e in events))
    res2 = ctx.tlc("MC_NACTrace", cfg_text=CFG_TRACE, extra_files={"MC_NACTrace.tla": mct}, requirement=False,
                   extra_args=("-continue",), workers=4, coverage=not ctx.quick)
    require_actions_fired(ctx, res2, "NACTrace", ["TSetNAC", "TGamma", "TComm", "TGeneric"])
    violated = sorted(set(nm for nm, _ in res2.violations))
    ctx.extra["trace_violated_invariants"] = violated
    for nm in violated:
        wit = None
        for n2, tr in res2.violations:
            if n2 == nm and tr:
                st = tr[-1][1]
                wit = dict(cfg=st.get("cfg"), pc=st.get("pc"), n=st.get("n"), ob=st.get("ob"))
                break
        if nm == "PreSomeNonReducedSetting":
            raise tlcmod.MachineryError("no configuration with a non-reduced reciprocal basis (vacuity guard)")
        if nm == "ImplActive":
            # non-vacuity guard: a machinery failure only when nothing else is wrong (a broken correction
            # - NaN, zero - fails it too and is reported through the requirement invariants)
            if violated == ["ImplActive"] and not ctx.violations:
                raise tlcmod.MachineryError("non-vacuity guard ImplActive failed: %s"
                                            % json.dumps(wit, default=str)[:400])
            continue
        glb = any(e_["glist"]["theirs"] != e_["glist"]["mine"] for e_ in events)
        pre_ = "nac:fullterms:" if nm.startswith("ImplFullTerms") else \
            ("nac:glist:" if (nm == "ImplGListComplete" or (glb and nm == "ImplCommensurateNoOp")) else "nac:")
        ctx.violation(pre_ + nm,
                      "C08 %s fails on values recorded from the implementation" % nm,
                      dict(invariant=nm, witness=wit))
    ctx.traces += len(events)
    ctx.extra["configurations"] = [dict(id=c["id"], entry=c["entry"], S=c["S"], born=c["mode"]) for c in cfgs]

    switch_table(ctx, cases)
    history_part(ctx, cases)
    layout_part(ctx, cases)


# ---------------------------------------------------------------------------------
def replay_cfg(ctx, c, case, spec, margins, fname):
    ready = spec["ready"]
    zs, es = ready["zs"], ready["es"]
    at = case.at
    zero_born = all(v == 0 for m in zs["num"] for r in m for v in r)
    ev = dict(cfg=c, at=at, nprim=case.nprim)

    # ---- symmetrisation ------------------------------------------------------
    try:
        bu, eu = case.symmetrise_unit()
        bp, ep = case.symmetrise_prim()
    except Exception as e:  # the spec expects success
        ctx.violation("nac:symmetrise-raises", "symmetrize_borns_and_epsilon raised %r" % e, dict(cfg=c))
        raise
    zh = np.array([case.zh_of(z) for z in bu])
    num, den, ok = int_tensor(zh)
    ev["born"] = dict(num=num, den=den, exact=ok)
    num, den, ok2 = int_tensor(case.cc_of(eu))
    ev["eps"] = dict(num=num, den=den, exact=ok2)
    # replay: expected Cartesian tensors from the spec
    exp_b = np.array([case.L.T @ (np.array(m, float) / zs["den"]) @ case.Linv.T for m in zs["num"]])
    exp_e = case.L.T @ (np.array(es["num"], float) / es["den"]) @ case.L / case.a ** 2
    err = max(np.abs(bu - exp_b).max(), np.abs(eu - exp_e).max(),
              np.abs(bp - exp_b[[a - 1 for a in at]]).max(), np.abs(ep - exp_e).max())
    ctx.count(("sym", c["id"]))
    if not (err <= 1e-10):
        ctx.violation("nac:replay-symmetrise", "symmetrised Born/dielectric tensors differ from the group average",
                      dict(cfg=c, err=float(err), got=bu, expected=exp_b))

    objs = {}
    for method in METHODS:
        for layout in LAYOUTS:
            try:
                objs[(method, layout)] = case.nac_phonopy(method, layout, born=bp, eps=ep)
            except Exception as e:
                ctx.violation("nac:setup-raises", "setting nac_params raised %r" % e, dict(cfg=c, method=method))
                raise
    # Gonze-Lee: is the list of reciprocal lattice points the full sphere |G| < G_cutoff ?
    import itertools as _it
    dgl = objs[("gonze", "full")].dynamical_matrix
    plat = np.array(case.ph0.primitive.cell)
    prec = np.linalg.inv(plat)
    rng_ = [int(np.ceil(dgl._G_cutoff * np.linalg.norm(plat[i_]))) + 1 for i_ in range(3)]     # |n_i| = |a_i.G| <= |a_i||G|
    mine = sum(1 for g_ in _it.product(*[range(-r_, r_ + 1) for r_ in rng_])
               if np.linalg.norm(prec @ np.array(g_, float)) < dgl._G_cutoff)
    ev["glist"] = dict(theirs=int(len(dgl._G_list)), mine=int(mine))
    glist_bad = ev["glist"]["theirs"] != ev["glist"]["mine"]
    if glist_bad:
        ctx.violation("nac:glist:incomplete-sphere",
                      "Gonze-Lee: the list of reciprocal lattice points misses points inside its own cutoff sphere "
                      "(the cell is given in a non-reduced basis)",
                      dict(cfg=c, G_cutoff=float(dgl._G_cutoff), in_list=ev["glist"]["theirs"], in_sphere=ev["glist"]["mine"],
                           primitive_lattice=plat))
    # what the dynamical matrix object holds (after the API's own symmetrisation on the primitive cell)
    held = objs[("wang", "full")].dynamical_matrix.born
    num, den, ok3 = int_tensor(np.array([case.zh_of(z) for z in held]))
    ev["bornPrim"] = dict(num=num, den=den, exact=ok3)

    gam0 = np.zeros(3)
    d0 = case.plain_dm(gam0)
    nsc = case.nac_scale(bp, ep) if not zero_born else 0.0
    scale0 = max(np.abs(d0).max(), nsc, 1e-300)

    # ---- zone centre ----------------------------------------------------------------
    ev["gam"] = []
    lam = 7
    for st in spec["gamma"]:
        n_u = st["n"]
        n_p = case.to_prim_red(n_u) * 2          # integer for F and P
        exp = case.k_cart_expected(st["K"])
        runs = []
        for (method, layout), ph in objs.items():
            for route in routes_of(method, layout, c["id"]):
                try:
                    d1 = case.nac_dm(ph, gam0, route, direction=n_p)
                    d7 = case.nac_dm(ph, gam0, route, direction=lam * n_p)
                except Exception as e:
                    ctx.violation("nac:fullterms:gamma-raises" if route == "fullterms" else "nac:gamma-raises",
                                  "zone-centre query raised %r" % e,
                                  dict(cfg=c, n=n_u, method=method, layout=layout, route=route))
                    continue
                ctx.count(("gamma", c["id"], tuple(n_u), method, layout, route))
                e1 = np.abs(d1 - d0 - exp).max() / scale0
                e7 = np.abs(d7 - d1).max() / scale0
                margins["gamma"] = max(margins["gamma"], e1, e7)
                if not (e1 <= TOL["gamma"] and e7 <= TOL["gamma"]):
                    ctx.violation(("nac:replay-gamma:%s" % method) if route != "fullterms" else "nac:fullterms:replay-gamma",
                                  "D(Gamma; n) differs from D_plain + (4 pi f/V) K(n)/sqrt(mm') or depends on |n|",
                                  dict(cfg=c, n_unit=n_u, n_prim=n_p, method=method, layout=layout, route=route,
                                       rel_err=float(e1), rel_err_lam=float(e7), unit_system=fname,
                                       expected_correction=exp, got_correction=d1 - d0))
                npa = len(at)
                K1 = np.zeros((npa, npa, 3, 3))
                K7 = np.zeros((npa, npa, 3, 3))
                imag = 0.0
                for p in range(npa):
                    for pp in range(npa):
                        K1[p, pp], i1 = case.k_lattice(d1 - d0, p, pp)
                        K7[p, pp], i7 = case.k_lattice(d7 - d0, p, pp)
                        imag = max(imag, i1, i7)
                f1, o1 = frac_tensor(ctx, K1)
                f7, o7 = frac_tensor(ctx, K7)
                runs.append(dict(method=method, layout=layout, route=route, lam=lam, K=f1, Klam=f7,
                                 exact=bool(o1 and o7 and imag < 1e-9)))
        lad = []
        if (LADDER_CFGS is None or c["id"] in LADDER_CFGS) and st is spec["gamma"][0]:
            tol = q_tolerance()
            rec = np.linalg.inv(np.array(case.ph0.primitive.cell))
            unit = n_p / np.linalg.norm(rec @ n_p)
            for ln in LADDER + (3 * tol,):
                for method in METHODS:
                    ph = objs[(method, "full")]
                    for route in ROUTES:
                        try:
                            dl = case.nac_dm(ph, gam0, route, direction=unit * ln)
                        except Exception as e:
                            ctx.violation("nac:gamma-raises", "zone-centre query raised %r" % e,
                                          dict(cfg=c, n=n_u, length=ln, method=method, route=route))
                            continue
                        ctx.count(("gamma-ladder", c["id"], tuple(n_u), method, route, ln))
                        el = np.abs(dl - d0 - exp).max() / scale0
                        margins["gamma"] = max(margins["gamma"], el if np.isfinite(el) else 1e300)
                        if not (el <= TOL["gamma"]):
                            ctx.violation("nac:replay-gamma-length:%s" % method,
                                          "D(Gamma; n) depends on the length of n (|n| = %g 1/Angstrom)" % ln,
                                          dict(cfg=c, n_unit=n_u, length=ln, method=method, route=route, rel_err=float(el),
                                               tolerance_constant=tol))
                        npa = len(at)
                        Kl = np.zeros((npa, npa, 3, 3))
                        imag = 0.0
                        for p in range(npa):
                            for pp in range(npa):
                                Kl[p, pp], i1 = case.k_lattice(dl - d0, p, pp)
                                imag = max(imag, i1)
                        fl, ol = frac_tensor(ctx, Kl)
                        lad.append(dict(length="%.0e" % ln, method=method, route=route, K=fl,
                                        exact=bool(ol and imag < 1e-9)))
        ev["gam"].append(dict(n=n_u, runs=runs, ladder=lad))
        if len(ctx.samples) < 2:
            ctx.sample(dict(kind="gamma", entry=c["entry"], S=c["S"], n_unit=n_u, unit_system=fname,
                            K_spec=dict(P01=st["K"]["P"][at[0] - 1][at[-1] - 1], c1=st["K"]["c1"], c2=st["K"]["c2"])))

    # ---- commensurate points ---------------------------------------------------------
    ev["comm"] = []
    detS = int(round(np.linalg.det(np.array(c["S"], float))))
    for st in spec["comm"]:
        images = sorted(st["qs"])
        unique = len(images) == 1
        targets = [(y, "bz" if unique else "tie") for y in images[:3]]
        y0 = images[0]
        # images outside the first zone: add reciprocal vectors of the primitive lattice ((1,1,1) and (2,2,0)
        # are such vectors for P and F cells)
        targets.append((tuple(v + detS * g for v, g in zip(y0, (1, 1, 1))), "outside"))
        targets.append((tuple(v + detS * g for v, g in zip(y0, (2, 2, 0))), "outside"))
        runs = []
        for y, kind in targets:
            q_p = case.to_prim_red(np.array(y, float) / detS)
            dpl = case.plain_dm(q_p)
            sc = max(np.abs(dpl).max(), nsc, 1e-300)
            for (method, layout), ph in objs.items():
                for route in routes_of(method, layout, c["id"]):
                    try:
                        d1 = case.nac_dm(ph, q_p, route)
                    except Exception as e:
                        ctx.violation("nac:fullterms:comm-raises" if route == "fullterms" else "nac:comm-raises",
                                      "query raised %r" % e, dict(cfg=c, q=q_p, method=method))
                        continue
                    ctx.count(("comm", c["id"], tuple(y), method, layout, route))
                    e1 = np.abs(d1 - dpl).max() / sc
                    if method == "gonze" and kind == "outside":
                        # the Gonze-Lee reciprocal sum is taken over a sphere centred at the origin and is
                        # not periodic in q; phonopy subtracts the dipole term at the first-zone images only.
                        # Observed, not required (see assumptions).
                        margins["gl_outside_zone(observed only)"] = max(
                            margins.get("gl_outside_zone(observed only)", 0.0), e1)
                        continue
                    key = "wang_comm" if method == "wang" else ("gl_comm_bz" if kind == "bz" else "gl_comm_recip")
                    margins[key] = max(margins[key], e1)
                    zero = bool(e1 <= TOL[key])
                    if not zero:
                        ctx.violation("nac:glist:replay-commensurate" if (glist_bad and method == "gonze") else
                                      ("nac:replay-commensurate:%s" % method) if route != "fullterms" else "nac:fullterms:replay-commensurate",
                                      "the correction changes the dynamical matrix at a non-zero commensurate point",
                                      dict(cfg=c, label=st["n"], image=y, q_prim=q_p, kind=kind, method=method,
                                           layout=layout, route=route, rel_dev=float(e1), tolerance=TOL[key]))
                    runs.append(dict(method=method, layout=layout, route=route, image=list(y), kind=kind, zero=zero))
        ev["comm"].append(dict(m=st["n"], runs=runs))
    if spec["comm"] and len(ctx.samples) < 4:
        st = spec["comm"][0]
        ctx.sample(dict(kind="commensurate", entry=c["entry"], S=c["S"], label=st["n"], images=sorted(st["qs"]),
                        wang=st["wang"]))

    # ---- arbitrary points: zero Born charges are a no-op; non-zero ones are active ---------
    ev["gen"] = []
    for st in spec["generic"]:
        x = st["n"]
        q_p = case.to_prim_red(np.array(x, float) / c["pden"])
        dpl = case.plain_dm(q_p)
        sc = max(np.abs(dpl).max(), nsc, 1e-300)
        runs = []
        for (method, layout), ph in objs.items():
            for route in routes_of(method, layout, c["id"]):
                try:
                    d1 = case.nac_dm(ph, q_p, route)
                except Exception as e:
                    ctx.violation("nac:fullterms:generic-raises" if route == "fullterms" else "nac:generic-raises",
                                  "query at an arbitrary q raised %r" % e,
                                  dict(cfg=c, q=q_p, method=method, layout=layout, route=route))
                    continue
                ctx.count(("generic", c["id"], tuple(x), method, layout, route))
                e1 = np.abs(d1 - dpl).max() / sc
                key = "zero_wang" if method == "wang" else "zero_gl"
                if route == "wang_py":
                    key = "zero_gl"          # Python Fourier sum vs compiled plain matrix: rounding, not bitwise
                if zero_born:
                    margins[key] = max(margins[key], e1)
                    if not (e1 <= TOL[key]):
                        ctx.violation(("nac:replay-zero-born:%s" % method) if route != "fullterms" else "nac:fullterms:replay-zero-born",
                                      "zero Born charges change the dynamical matrix",
                                      dict(cfg=c, q_prim=q_p, method=method, layout=layout, route=route,
                                           rel_dev=float(e1), tolerance=TOL[key]))
                runs.append(dict(method=method, layout=layout, route=route, zero=bool(e1 <= TOL[key]),
                                 active=bool(e1 > 1e-6)))
        ew = []
        if c.get("ewald") and not zero_born and st is spec["generic"][0]:
            ew = ewald_checks(ctx, c, case, zs, es, objs[("gonze", "full")], q_p, margins)
        ev["gen"].append(dict(x=x, runs=runs, ew=ew))
    return ev


def ewald_checks(ctx, c, case, zs, es, ph, q_p, margins):
    """Gonze-Lee dipole-dipole term at an arbitrary q against harness/c08_ewald.py, with the specification's
    exact symmetrised tensors."""
    from phonopy.harmonic.dynamical_matrix import DynamicalMatrixGL
    from harness import c08_ewald as ew
    from harness.c08_nac import quiet

    prim = ph.primitive
    lat = np.array(prim.cell)
    tau = np.array(prim.positions)
    born = np.array([case.L.T @ (np.array(zs["num"][a - 1], float) / zs["den"]) @ case.Linv.T for a in case.at])
    eps = case.L.T @ (np.array(es["num"], float) / es["den"]) @ case.L / case.a ** 2
    qc = np.linalg.inv(lat) @ np.array(q_p, float)
    out = []
    # the independent sum is independent of its convergence parameter
    a1 = ew.cbar(qc, lat, tau, eps, 1.6)
    a2 = ew.cbar(qc, lat, tau, eps, 2.7)
    e0 = np.abs(a1 - a2).max() / np.abs(a1).max()
    margins["ewald_selfcheck"] = max(margins.get("ewald_selfcheck", 0.0), e0)
    out.append(dict(what="selfcheck", ok=bool(e0 <= 1e-12)))
    # default object: reciprocal sum only, convergence parameter Lambda (wave vectors without 2 pi: Lt = 2 pi Lambda)
    dm = ph.dynamical_matrix
    with quiet():
        if dm.Gonze_nac_dataset[0] is None:
            dm.make_Gonze_nac_dataset()
        got = dm._get_Gonze_dipole_dipole(np.array(q_p, float), None)
    exp = ew.dd_matrix(qc, lat, tau, eps, born, prim.masses, case.factor, 2 * np.pi * dm._Lambda, parts=("recip",))
    e1 = np.abs(got - exp).max() / np.abs(exp).max()
    # the object truncates its sum where exp(-G^2 tr(eps)/3 / 4 Lambda^2) = 1e-10; along the softest axis of an
    # anisotropic dielectric tensor the neglected terms are exp(-G^2 eps_min / 4 Lambda^2) (stated precision)
    emin = np.linalg.eigvalsh((eps + eps.T) / 2).min()
    tol1 = max(1e-7, 3000 * np.exp(-dm._G_cutoff ** 2 * emin / 4 / dm._Lambda ** 2))
    margins["ewald_recip/tolerance"] = max(margins.get("ewald_recip/tolerance", 0.0), e1 / tol1)
    ctx.count(("ewald-recip", c["id"]))
    if not (e1 <= tol1):
        ctx.violation("nac:ewald-recip", "reciprocal dipole-dipole sum of the Gonze-Lee object differs from the "
                      "documented formula", dict(cfg=c, q_prim=q_p, rel_err=float(e1)))
    out.append(dict(what="recip", ok=bool(e1 <= tol1)))
    # all terms, converged: Lambda large enough for the real-space sum to die out inside the supercell
    emax = np.linalg.eigvalsh((eps + eps.T) / 2).max()
    r_ws = 0.5 * min(np.linalg.norm(v) for v in np.array(ph.supercell.cell))
    lam = max(1.0, 5.5 * np.sqrt(emax) / r_ws / (2 * np.pi))
    gcut = lam * np.sqrt(4 * np.log(1e12) / emin)
    try:
        with quiet():
            dmf = DynamicalMatrixGL(ph.supercell, prim, np.array(dm.force_constants).copy(), with_full_terms=True,
                                    nac_params=dict(born=born, dielectric=eps, factor=case.factor, Lambda=lam,
                                                    G_cutoff=gcut))
            dmf.make_Gonze_nac_dataset()
            gotf = dmf._get_Gonze_dipole_dipole(np.array(q_p, float), None)
        expf = ew.dd_matrix(qc, lat, tau, eps, born, prim.masses, case.factor, 2.5)
        e2 = np.abs(gotf - expf).max() / np.abs(expf).max()
    except Exception as e:
        ctx.violation("nac:fullterms:ewald-raises", "Gonze-Lee object with all terms raised %r" % e, dict(cfg=c))
        e2 = float("inf")
    margins["ewald_full"] = max(margins.get("ewald_full", 0.0), e2 if np.isfinite(e2) else 1e300)
    ctx.count(("ewald-full", c["id"]))
    if not (e2 <= 1e-7):
        ctx.violation("nac:fullterms:replay-ewald", "dipole-dipole term of DynamicalMatrixGL(with_full_terms=True) differs "
                      "from the converged Ewald sum", dict(cfg=c, q_prim=q_p, rel_err=float(e2), Lambda=lam))
    out.append(dict(what="full", ok=bool(e2 <= 1e-7)))
    return out


def event_tla(e):
    c = e["cfg"]

    def runs_tla(rs):
        return "{" + ", ".join(to_tla(r) for r in rs) + "}"

    gam = "{" + ", ".join("[n |-> %s, runs |-> %s, ladder |-> %s]" % (to_tla(o["n"]), runs_tla(o["runs"]),
                                                                       runs_tla(o["ladder"])) for o in e["gam"]) + "}"
    comm = "{" + ", ".join("[m |-> %s, runs |-> %s]" % (to_tla(o["m"]), runs_tla(o["runs"])) for o in e["comm"]) + "}"
    gen = "{" + ", ".join("[x |-> %s, runs |-> %s, ew |-> %s]" % (to_tla(o["x"]), runs_tla(o["runs"]),
                                                                  runs_tla(o["ew"])) for o in e["gen"]) + "}"
    return ("[glist |-> %s, nonReducedReciprocal |-> %s, cfg |-> %s, at |-> %s, nprim |-> %d, born |-> %s, eps |-> %s, bornPrim |-> %s,\n "
            "gam |-> %s,\n "
            "comm |-> %s,\n gen |-> %s]" % (to_tla(e["glist"]), "TRUE" if e["nonReducedReciprocal"] else "FALSE", cfg_tla(c),
                                          to_tla(e["at"]),
                                          e["nprim"], to_tla(e["born"]),
                                          to_tla(e["eps"]), to_tla(e["bornPrim"]), gam, comm, gen))


CFG_SWITCH = """SPECIFICATION Spec
CONSTANTS
 Observed <- MCObserved
CHECK_DEADLOCK FALSE
INVARIANT ReqSwitch
INVARIANT ReqDirectionOnlyAtGamma
INVARIANT ReqTinyQCorrected
INVARIANT ImplSwitch
INVARIANT ConformsSwitch
INVARIANT ObservedComplete
"""


LADDER = (1e2, 7.0, 1.0, 1e-1, 1e-2, 3e-3, 1e-3, 1e-4)       # Cartesian lengths of the direction, 1/Angstrom


def q_tolerance():
    from phonopy.harmonic.dynamical_matrix import DynamicalMatrixNAC
    return float(DynamicalMatrixNAC.Q_DIRECTION_TOLERANCE)


def switch_table(ctx, cases):
    """NACSwitch.tla: which correction is applied for which (q, direction) on which route, with the LENGTH of the
    direction (a ladder from 1e2 down to 3 x Q_DIRECTION_TOLERANCE, and one rung below the tolerance) and of q
    (zero / tiny / finite) as dimensions."""
    from harness.c08_nac import quiet
    tol = q_tolerance()
    ctx.extra["Q_DIRECTION_TOLERANCE"] = tol
    ladder = LADDER + (3 * tol,)
    observed = []
    picked = [t for t in cases if t[0]["mode"] == "random" and len(t[2]["gamma"]) >= 2][: (2 if ctx.quick else 5)]
    for c, case, spec in picked:
        g1, g2 = spec["gamma"][0], spec["gamma"][1]
        n1 = case.to_prim_red(g1["n"]) * 2
        n2 = case.to_prim_red(g2["n"]) * 2
        k1 = case.k_cart_expected(g1["K"])
        k2 = case.k_cart_expected(g2["K"])
        if np.abs(k1 - k2).max() < 1e-6 * max(np.abs(k1).max(), 1e-300):
            continue
        rec = np.linalg.inv(np.array(case.ph0.primitive.cell))
        len1, len2 = np.linalg.norm(rec @ n1), np.linalg.norm(rec @ n2)
        u1, u2 = n1 / len1, n2 / len2                      # reduced coordinates of unit Cartesian length
        qg = case.to_prim_red(np.array(spec["generic"][0]["n"], float) / c["pden"])
        zero = np.zeros(3)
        rsize = max(np.linalg.norm(v) for v in np.array(case.ph0.supercell.cell))
        for method in METHODS:
            ph = case.nac_phonopy(method, "full")
            nsc = case.nac_scale(ph.dynamical_matrix.born, ph.dynamical_matrix.dielectric_constant)

            def add(route, qlen, dirn, dlen, scale, outcome):
                observed.append(dict(route=route, method=method, qlen=qlen, dir=dirn, dlen=dlen, scale=scale,
                                     outcome=outcome, cfg=c["id"]))
            for route in ("dmrun", "solver"):
                r = "qpoints" if route == "solver" else "dmrun"
                try:
                    # ---- zone centre -------------------------------------------------------------------
                    dpl = case.plain_dm(zero)
                    sc = max(np.abs(dpl).max(), nsc)
                    dn = case.nac_dm(ph, zero, r, None)
                    add(route, "zero", "none", "above", "-", "plain" if np.abs(dn - dpl).max() <= 1e-11 * sc else "other")
                    for ln in ladder:                     # direction of Cartesian length ln, two different directions
                        da = case.nac_dm(ph, zero, r, u1 * ln)
                        db = case.nac_dm(ph, zero, r, u2 * ln)
                        ea, eb = np.abs(da - dpl - k1).max() / sc, np.abs(db - dpl - k2).max() / sc
                        if not np.isfinite([ea, eb]).all():
                            out = "other"
                        elif ea <= 1e-10 and eb <= 1e-10:
                            out = "Kdir"
                        elif max(np.abs(da - dpl).max(), np.abs(db - dpl).max()) <= 1e-11 * sc:
                            out = "plain"
                        else:
                            out = "other"
                        add(route, "zero", "given", "above", "%.0e" % ln, out)
                        ctx.count(("switch-ladder", c["id"], method, route, ln))
                    if route == "dmrun":                  # a direction shorter than the tolerance is no direction
                        ds = case.nac_dm(ph, zero, r, u1 * 0.3 * tol)
                        add(route, "zero", "given", "below", "0.3tol",
                            "plain" if np.abs(ds - dpl).max() <= 1e-11 * sc else
                            ("Kdir" if np.abs(ds - dpl - k1).max() <= 1e-10 * sc else "other"))
                    # ---- a tiny q itself (no direction, and a direction that must be ignored) --------------
                    for ql in (3 * tol, 1e-4, 1e-3):
                        q = u1 * ql
                        dpl_q = case.plain_dm(q)
                        dq = case.nac_dm(ph, q, r, None)
                        dq2 = case.nac_dm(ph, q, r, u2 * 1.0)
                        # for |q| -> 0 along n1 the correction is the analytic term K(n1) up to O(|q| R)
                        rel = np.abs(dq - dpl_q - k1).max() / max(np.abs(k1).max(), 1e-300)
                        if np.abs(dq - dpl_q).max() <= 1e-11 * sc:
                            out = "plain"
                        elif rel <= 1e-6 + 10 * (2 * np.pi * ql * rsize):
                            out = "Kq"
                        else:
                            out = "other"
                        add(route, "tiny", "none", "above", "%.0e" % ql, out)
                        out2 = out if np.abs(dq2 - dq).max() <= 1e-11 * sc else "Kdir"
                        add(route, "tiny", "given", "above", "%.0e" % ql, out2)
                        ctx.count(("switch-tinyq", c["id"], method, route, ql))
                    # ---- a generic q ------------------------------------------------------------------------
                    dpl_g = case.plain_dm(qg)
                    scg = max(np.abs(dpl_g).max(), nsc)
                    dn = case.nac_dm(ph, qg, r, None)
                    add(route, "finite", "none", "above", "-", "plain" if np.abs(dn - dpl_g).max() <= 1e-11 * scg else "Kq")
                    for ln in (1e2, 1.0, 3 * tol):
                        da = case.nac_dm(ph, qg, r, u1 * ln)
                        db = case.nac_dm(ph, qg, r, u2 * ln)
                        if max(np.abs(da - dn).max(), np.abs(db - dn).max()) > 1e-11 * scg:
                            out = "Kdir"                  # depends on the direction
                        else:
                            out = "plain" if np.abs(dn - dpl_g).max() <= 1e-11 * scg else "Kq"
                        add(route, "finite", "given", "above", "%.0e" % ln, out)
                    ctx.count(("switch", c["id"], method, route))
                except Exception as e:
                    ctx.violation("nacswitch:raises", "query raised %r" % e, dict(cfg=c, method=method, route=route))
                    add(route, "zero", "given", "above", "raised", "other")
                    continue
            # ---- band structure through the zone centre: frequencies only; path lengths 0.2 and 2e-3 (1/Angstrom) -----
            fac = ph.unit_conversion_factor
            for plen, tag in ((0.2, "finite"), (2e-3, "tiny")):
                path = np.array([u1 * plen, u1 * plen / 2, zero])
                try:
                    with quiet():
                        ph.run_band_structure([path])
                        fr = np.array(ph.get_band_structure_dict()["frequencies"][0])
                except Exception as e:
                    ctx.violation("nacswitch:raises", "band structure through the zone centre raised %r" % e,
                                  dict(cfg=c, path=path, method=method))
                    add("band", "zero", "given", "above", "raised", "other")
                    continue
                fr = np.sign(fr) * (fr / fac) ** 2          # back to eigenvalues
                for qlen, idx in (("zero", 2), (tag, 0)):
                    q = path[idx]
                    dpl = case.plain_dm(q)
                    cands = dict(plain=np.linalg.eigvalsh(dpl))
                    if qlen == "zero":
                        cands["Kdir"] = np.linalg.eigvalsh(dpl + k1)
                    else:
                        cands["Kq"] = np.linalg.eigvalsh(case.nac_dm(ph, q, "qpoints", None))
                    tolf = 1e-9 * np.abs(fr[idx]).max()
                    hits = [k for k, v in cands.items() if np.abs(v - fr[idx]).max() <= tolf]
                    if not all(np.abs(cands[a_] - cands[b_]).max() > 100 * tolf for a_ in cands for b_ in cands if a_ < b_):
                        raise tlcmod.MachineryError("switch table: candidate spectra coincide (vacuous cell)")
                    add("band", qlen, "given", "above", "%.0e" % plen, hits[0] if len(hits) == 1 else "other")
                    ctx.count(("switch", c["id"], method, "band", qlen, plen))
    obs_tla = "{" + ", ".join(to_tla({k: v for k, v in o.items() if k != "cfg"}) for o in observed) + "}"
    mc = "---- MODULE MC_NACSwitch ----\nEXTENDS NACSwitch\nMCObserved == %s\n====\n" % obs_tla
    res = ctx.tlc("MC_NACSwitch", cfg_text=CFG_SWITCH, extra_files={"MC_NACSwitch.tla": mc}, requirement=False,
                  extra_args=("-continue",), workers=1, coverage=not ctx.quick)
    ctx.extra["switch_observations"] = len(observed)
    require_actions_fired(ctx, res, "NACSwitch", ["Caller", "DMRun", "Kernel"])

    def required(o):
        eff = o["dir"] == "given" and o["dlen"] == "above"
        return ("Kdir" if eff else "plain") if o["qlen"] == "zero" else "Kq"
    for nm in sorted(set(n for n, _ in res.violations)):
        if nm == "ObservedComplete":
            raise tlcmod.MachineryError("switch table: not every cell was observed")
        badobs = [o for o in observed if o["outcome"] != required(o)]
        ctx.violation("nacswitch:" + nm, "zone-centre switch: %s fails (a direction longer than Q_DIRECTION_TOLERANCE "
                      "= %g 1/Angstrom selects the direction-dependent term whatever its length; a tiny non-zero q is "
                      "corrected)" % (nm, tol), dict(invariant=nm, offending_observations=badobs[:12]))
    ctx.traces += len(observed)


# ---------------------------------------------------------------------------------
CFG_HIST = """SPECIFICATION Spec
CONSTANTS
 MaxLen = %d
 Observed <- MCObserved
CHECK_DEADLOCK FALSE
INVARIANT ReqCurrent
INVARIANT ReqNeverUnset
INVARIANT ImplAnswersFromCurrent
INVARIANT ImplZeroBornNoOp
"""


def _trim(steps):
    steps = list(steps)
    while steps and steps[-1][0] != "run":
        steps.pop()
    return tuple(steps)


def history_part(ctx, cases):
    """NACHistory.tla: one dynamical-matrix object, parameters assigned and re-assigned, every query must answer
    from the parameters currently set.  spec -> code: TLC enumerates the action sequences; code -> spec: the
    answers recorded on real DynamicalMatrixWang / DynamicalMatrixGL / Phonopy objects are judged by TLC."""
    from phonopy import Phonopy
    from phonopy.harmonic.dynamical_matrix import (DynamicalMatrixGL, DynamicalMatrixWang,
                                                   run_dynamical_matrix_solver_c)
    from harness.c08_nac import quiet

    maxlen = 4 if ctx.quick else 5
    mc0 = "---- MODULE MC_NACHistory ----\nEXTENDS NACHistory\nMCObserved == {}\n====\n"
    res = ctx.tlc("MC_NACHistory", cfg_text=CFG_HIST % maxlen, extra_files={"MC_NACHistory.tla": mc0},
                  requirement=True, dump=True, keep=True, workers=4, coverage=not ctx.quick)
    try:
        states = tla_values.parse_dump(res.dump_path)
    finally:
        tlcmod.cleanup(res)
    require_actions_fired(ctx, res, "NACHistory", ["SetNAC", "MakeGonze", "Run"])
    seqs = set()
    for st in states:
        t = _trim(tuple(tuple(x) for x in st["hist"]))
        if t:
            seqs.add((st["method"], st["route"], t))
    # Gonze-Lee on one object needs set, run, set, make, run (5 steps) to re-query after a re-assignment: added
    # explicitly in the quick tier (the thorough tier enumerates length 5)
    for route in ("solver", "dmrun"):
        for a, b in (("A", "B"), ("A", "Z"), ("Z", "A"), ("B", "A")):
            for q1 in ("gamma", "generic"):
                for q2 in ("gamma", "comm", "generic"):
                    seqs.add(("gonze", route, (("set", a), ("run", q1), ("set", b), ("make", "-"), ("run", q2))))
    seqs = sorted(seqs)
    # replayed: every sequence of length <= 4 with a re-assignment between two queries (all of them), the explicit
    # Gonze-Lee ones, and a seeded sample of the others (TLC enumerates all of them on the model)
    ctx.extra["history_sequences_enumerated"] = len(seqs)
    keep = [s_ for s_ in seqs if len(s_[2]) <= 4 + (s_[0] == "gonze" and any(x[0] == "make" for x in s_[2])) and
            sum(1 for x in s_[2] if x[0] == "set") >= 2 and sum(1 for x in s_[2] if x[0] == "run") >= 2]
    kset = set(keep)
    rest = [s_ for s_ in seqs if s_ not in kset]
    ctx.rng.shuffle(rest)
    seqs = keep + rest[: (200 if ctx.quick else 3000)]

    # ---- the concrete object and parameter sets ----------------------------------------------------
    pick = [t for t in cases if t[0]["mode"] == "random" and t[0]["entry"] in ("tetab", "cscl", "wz") and t[2]["comm"]]
    pick.sort(key=lambda t: len(t[1].ph0.supercell))
    # the symmetrised charges of a random configuration can vanish by accident (cubic: a single number): take
    # the first configuration whose charges are clearly non-zero
    pick = [t for t in pick if np.abs(t[1].symmetrise_prim()[0]).max() > 0.2]
    if not pick:
        raise tlcmod.MachineryError("history: no configuration with non-zero symmetrised Born charges")
    c, case, spec = pick[0]
    bpA, epA = case.symmetrise_prim()
    fA = case.factor
    fB = [v for v in NAC_FACTORS.values() if abs(v - fA) > 1e-9][0]
    P = dict(A=dict(born=bpA, dielectric=epA, factor=fA),
             B=dict(born=0.5 * bpA, dielectric=1.3 * epA, factor=fB),
             Z=dict(born=np.zeros_like(bpA), dielectric=epA, factor=fA))
    g = spec["gamma"][-1]
    n_p = case.to_prim_red(g["n"]) * 2
    kA = case.k_cart_expected(g["K"])
    gam_exp = dict(A=kA, B=kA * (0.25 / 1.3) * (fB / fA), Z=np.zeros_like(kA))
    zero = np.zeros(3)
    detS = int(round(np.linalg.det(np.array(c["S"], float))))
    comm_states = sorted(spec["comm"], key=lambda st: len(st["qs"]))
    cst = comm_states[0]
    q_comm = case.to_prim_red(np.array(sorted(cst["qs"])[0], float) / detS)
    comm_unique = len(cst["qs"]) == 1
    q_gen = case.to_prim_red(np.array(spec["generic"][0]["n"], float) / c["pden"])
    QP = dict(gamma=(zero, n_p), comm=(q_comm, None), generic=(q_gen, None))
    plain = {k: case.plain_dm(v[0]) for k, v in QP.items()}
    nsc = case.nac_scale(bpA, epA)
    sc, prim, fc = case.ph0.supercell, case.ph0.primitive, case.fc_full

    def new_dm(method):
        cls = DynamicalMatrixWang if method == "wang" else DynamicalMatrixGL
        with quiet():
            return cls(sc, prim, fc.copy())

    def query(dm, route, qc):
        q, d = QP[qc]
        with quiet():
            if route == "dmrun":
                dm.run(np.array(q, float), q_direction=d)
                return np.array(dm.dynamical_matrix)
            return np.array(run_dynamical_matrix_solver_c(dm, np.array([q], dtype="double"), d)[0])

    # references at the arbitrary point: a fresh object that only ever saw token t
    gen_ref = {}
    for method in METHODS:
        for t in "ABZ":
            dm = new_dm(method)
            dm.nac_params = dict(P[t])
            gen_ref[(method, t)] = query(dm, "solver", "generic") - plain["generic"]
        for a, b in (("A", "B"), ("A", "Z"), ("B", "Z")):
            if np.abs(gen_ref[(method, a)] - gen_ref[(method, b)]).max() < 1e-4 * nsc:
                raise tlcmod.MachineryError("history: parameter sets %s/%s indistinguishable at the arbitrary point" % (a, b))
    for a, b in (("A", "B"), ("A", "Z"), ("B", "Z")):
        if np.abs(gam_exp[a] - gam_exp[b]).max() < 1e-4 * nsc:
            raise tlcmod.MachineryError("history: parameter sets indistinguishable at the zone centre")

    def classify(method, qc, d):
        dd = d - plain[qc]
        scale = max(np.abs(plain[qc]).max(), nsc)
        if not np.isfinite(dd).all():
            return "other"
        if qc == "comm":
            tol = 1e-11 if method == "wang" else (1e-9 if comm_unique else 1e-3)
            return "noop" if np.abs(dd).max() <= tol * scale else "changed"
        cand = gam_exp if qc == "gamma" else {t: gen_ref[(method, t)] for t in "ABZ"}
        hits = [t for t in "ABZ" if np.abs(dd - cand[t]).max() <= 1e-9 * scale]
        return hits[0] if len(hits) == 1 else "other"

    events = []
    bad = []
    for method, route, steps in seqs:
        answers = []
        try:
            if route == "phonopy":
                with quiet():
                    ph = Phonopy(case.uc, supercell_matrix=c["S"], primitive_matrix=case.pm_name, log_level=0)
                    ph.force_constants = fc.copy()
                obj = ph
            else:
                obj = new_dm(method)
            for act, arg in steps:
                if act == "set":
                    if route == "phonopy":
                        with quiet():
                            obj.nac_params = dict(P[arg], method=method)
                    else:
                        obj.nac_params = dict(P[arg])
                    answers.append("-")
                elif act == "make":
                    with quiet():
                        obj.make_Gonze_nac_dataset()
                    answers.append("-")
                else:
                    if route == "phonopy":
                        d = case.nac_dm(obj, QP[arg][0], "qpoints", direction=QP[arg][1])
                    else:
                        d = query(obj, route, arg)
                    answers.append(classify(method, arg, d))
                    ctx.count(("history", method, route, steps[:len(answers)]))
        except Exception as e:
            ctx.violation("nachist:raises", "a step of the object history raised %r" % e,
                          dict(cfg=c, method=method, route=route, steps=steps, done=len(answers)))
            continue
        events.append(dict(method=method, route=route, steps=[list(x) for x in steps], answers=answers))
    obs_tla = "{" + ",\n".join(to_tla(e) for e in events) + "}"
    mc = "---- MODULE MC_NACHistory ----\nEXTENDS NACHistory\nMCObserved == %s\n====\n" % obs_tla
    res2 = ctx.tlc("MC_NACHistory", cfg_text=CFG_HIST % maxlen, extra_files={"MC_NACHistory.tla": mc},
                   requirement=False, extra_args=("-continue",), workers=4)
    want = sum(len(e["steps"]) + 1 for e in events)
    violated = sorted(set(nm for nm, _ in res2.violations))
    if not violated and res2.distinct != want:
        raise tlcmod.MachineryError("history: %d states for %d expected: a recorded event is not a behaviour of "
                                    "NACHistory.tla" % (res2.distinct, want))
    for nm in violated:
        wit = None
        for n2, tr in res2.violations:
            if n2 == nm and tr:
                st = tr[-1][1]
                e = st.get("ev", {})
                wit = dict(method=e.get("method"), route=e.get("route"), steps=e.get("steps"), answers=e.get("answers"),
                           required=st.get("req"))
                break
        ctx.violation("nachist:" + nm, "object history: %s fails - a query did not answer from the parameters "
                      "currently set" % nm, dict(invariant=nm, cfg=dict(entry=c["entry"], S=c["S"]), witness=wit,
                                                 tokens="A = symmetrised tensors of the configuration, B = (0.5 Z, 1.3 eps, "
                                                        "other unit factor), Z = zero Born charges"))
    ctx.traces += len(events)
    ctx.extra["history_sequences"] = len(events)
    ctx.extra["history_object"] = dict(entry=c["entry"], S=c["S"], supercell_atoms=len(sc))
    ctx.assumptions.append(
        "Object history (NACHistory.tla): on a DynamicalMatrixGL object make_Gonze_nac_dataset() is called after "
        "re-assigning nac_params before the next query (the setter keeps the short-range force constants of the "
        "previous parameters); queries with a stale dataset are outside the requirement.")


# ---------------------------------------------------------------------------------
CFG_LAYOUT = """SPECIFICATION Spec
CONSTANTS
 Observed <- MCObserved
CHECK_DEADLOCK FALSE
INVARIANT ReqValuesOnly
INVARIANT ImplValuesOnly
INVARIANT ObservedComplete
"""
MEM_LAYOUTS = ("C", "F", "transposed_view", "strided_view", "float32", "lists")


def relayout(a, layout):
    """the same values in another memory layout / container"""
    a = np.array(a, dtype="double", order="C")
    if layout == "C":
        return a
    if layout == "F":
        return np.asfortranarray(a)
    if layout == "transposed_view":
        axes = tuple(range(a.ndim))[::-1]
        return np.ascontiguousarray(a.transpose(axes)).transpose(axes)      # a view of reversed-axes data
    if layout == "strided_view":
        big = np.full(tuple(2 * n_ + 1 for n_ in a.shape), 7.25)
        sl = tuple(slice(1, None, 2) for _ in a.shape)
        big[sl] = a
        return big[sl]
    if layout == "float32":
        return a.astype(np.float32)
    if layout == "lists":
        return a.tolist()
    raise ValueError(layout)


def layout_part(ctx, cases):
    """NACLayout.tla: K depends on the VALUES of Z and eps only - the tensors are handed in as C-contiguous,
    Fortran-ordered, transposed / strided views, float32 arrays and nested lists, through Phonopy.nac_params,
    the DynamicalMatrixWang/GL constructors and the dm.nac_params setter."""
    from phonopy import Phonopy
    from phonopy.harmonic.dynamical_matrix import DynamicalMatrixGL, DynamicalMatrixWang
    from harness.c08_nac import quiet

    pick = [t for t in cases if t[0]["mode"] == "random" and t[2]["gamma"] and t[2]["generic"]]
    pick.sort(key=lambda t: {"tric": 0, "p4": 1, "wz": 2, "tetab": 3}.get(t[0]["entry"], 9))
    pick = [t for t in pick if np.abs(t[1].symmetrise_prim()[0]).max() > 0.2]
    c, case, spec = pick[0]
    bp, ep = case.symmetrise_prim()
    # values that every container can carry exactly
    vb = np.array(bp, dtype=np.float32).astype("double")
    ve = np.array(ep, dtype=np.float32).astype("double")
    g = spec["gamma"][-1]
    n_p = case.to_prim_red(g["n"]) * 2
    kexp = case.k_cart_expected(g["K"])
    q_gen = case.to_prim_red(np.array(spec["generic"][0]["n"], float) / c["pden"])
    zero = np.zeros(3)
    d0 = case.plain_dm(zero)
    dg = case.plain_dm(q_gen)
    nsc = case.nac_scale(vb, ve)
    sc0 = max(np.abs(d0).max(), nsc)
    scg = max(np.abs(dg).max(), nsc)
    sc, prim, fc = case.ph0.supercell, case.ph0.primitive, case.fc_full

    def evaluate(entry, method, born, eps):
        """-> (dm object, D(Gamma; n), D(q_gen))"""
        params = dict(born=born, dielectric=eps, factor=case.factor)
        with quiet():
            if entry == "phonopy":
                ph = Phonopy(case.uc, supercell_matrix=c["S"], primitive_matrix=case.pm_name, log_level=0)
                ph.force_constants = fc.copy()
                ph.nac_params = dict(params, method=method)
                dm = ph.dynamical_matrix
            else:
                cls = DynamicalMatrixWang if method == "wang" else DynamicalMatrixGL
                if entry == "constructor":
                    dm = cls(sc, prim, fc.copy(), nac_params=params)
                else:
                    dm = cls(sc, prim, fc.copy())
                    dm.nac_params = params
            dm.run(zero, q_direction=np.array(n_p, float))
            a = np.array(dm.dynamical_matrix)
            dm.run(np.array(q_gen, float))
            b = np.array(dm.dynamical_matrix)
        return dm, a, b

    observed = []
    worst = dict(shown=0.0, gamma=0.0, same=0.0)
    for entry in ("phonopy", "constructor", "setter"):
        for method in METHODS:
            _, ref_a, ref_b = evaluate(entry, method, relayout(vb, "C"), relayout(ve, "C"))
            for layout in MEM_LAYOUTS:
                for which in ("born", "dielectric", "both"):
                    born = relayout(vb, layout if which in ("born", "both") else "C")
                    eps = relayout(ve, layout if which in ("dielectric", "both") else "C")
                    try:
                        dm, a, b = evaluate(entry, method, born, eps)
                    except Exception as e:
                        ctx.violation("naclayout:raises", "handing in the tensors as %s raised %r" % (layout, e),
                                      dict(cfg=c, entry=entry, method=method, layout=layout, which=which))
                        observed.append(dict(entry=entry, method=method, layout=layout, which=which, shown=False,
                                             gamma=False, same=False))
                        continue
                    ctx.count(("layout", entry, method, layout, which))
                    e_shown = max(np.abs(np.array(dm.born) - vb).max() / np.abs(vb).max(),
                                  np.abs(np.array(dm.dielectric_constant) - ve).max() / np.abs(ve).max())
                    e_gam = np.abs(a - d0 - kexp).max() / sc0
                    e_same = max(np.abs(a - ref_a).max() / sc0, np.abs(b - ref_b).max() / scg)
                    if not np.isfinite([e_shown, e_gam, e_same]).all():
                        e_shown = e_gam = e_same = float("inf")
                    worst["shown"] = max(worst["shown"], e_shown)
                    worst["gamma"] = max(worst["gamma"], e_gam)
                    if layout != "float32":
                        worst["same"] = max(worst["same"], e_same)
                    o = dict(entry=entry, method=method, layout=layout, which=which, shown=bool(e_shown <= 1e-6),
                             gamma=bool(e_gam <= 1e-5),
                             # float32 tensors through Phonopy.nac_params are symmetrised in single precision
                             # (zeros_like keeps the dtype): agreement to single precision is what the values allow
                             same=bool(e_same <= (1e-6 if layout == "float32" else 1e-11)))
                    if layout == "float32":
                        worst["same_float32"] = max(worst.get("same_float32", 0.0), e_same)
                        e_same = 0.0
                    observed.append(o)
                    if not (o["shown"] and o["gamma"] and o["same"]):
                        ctx.violation("naclayout:%s:%s" % (entry, layout),
                                      "the correction depends on the memory layout of the Born charges / dielectric "
                                      "tensor handed in, not on their values only",
                                      dict(cfg=dict(entry=c["entry"], S=c["S"]), entry=entry, method=method, layout=layout,
                                           which=which, shown_err=float(e_shown), gamma_rel_err=float(e_gam),
                                           vs_C_layout_rel_err=float(e_same), born_values=vb, dielectric_values=ve,
                                           direction_prim=n_p))
    ctx.extra["layout_margins"] = worst
    mc = "---- MODULE MC_NACLayout ----\nEXTENDS NACLayout\nMCObserved == {%s}\n====\n" % ",\n".join(
        to_tla(o) for o in observed)
    res = ctx.tlc("MC_NACLayout", cfg_text=CFG_LAYOUT, extra_files={"MC_NACLayout.tla": mc}, requirement=False,
                  extra_args=("-continue",), workers=2, coverage=not ctx.quick)
    require_actions_fired(ctx, res, "NACLayout", ["Store", "Query"])
    for nm in sorted(set(n for n, _ in res.violations)):
        if nm == "ObservedComplete":
            raise tlcmod.MachineryError("layout table: not every (entry, method, layout, tensor) cell was observed")
        badobs = [o for o in observed if not (o["shown"] and o["gamma"] and o["same"])]
        ctx.violation("naclayout:" + nm, "NACLayout.tla %s fails on recorded results" % nm,
                      dict(invariant=nm, offending=badobs[:10]))
    ctx.traces += len(observed)
