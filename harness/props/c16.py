"""C16 - saving and reloading a calculation reproduces it.

Specs: spec/SaveLoad.tla (+SaveLoadTrace): decision procedure of Phonopy.save / phonopy.load and the
round-trip requirement; spec/TextCodec.tla (+TextCodecTrace): the printf/parse machine of the text
formats; spec/DatasetConv.tla: the two dataset types.  See DESIGN.md section 5/C16.
"""
from __future__ import annotations

import numpy as np

from harness import bootstrap
from harness import c16_world as W
from harness import c16_text as T
from harness.tla_values import to_tla

B = (False, True)


# --------------------------------------------------------------------------------------
# configuration space of SaveLoad.tla (mirrors the MC sets below)
NP_ARG0 = dict(snf=False, tol="unset", issym=True, dense=True, factor="unset")
NO_CELLS = dict(ucfile=False, scfile=False, unitcell=False, supercell=False)


def sample_cfg(rng, clean=None):
    name = rng.choice(["nacl", "tetab", "tric", "fe2", "tetsnf", "tetloose", "p4"])
    cell = dict(name=name, ext=rng.random() < 0.4,
                mag=(rng.choice(["none", "col", "noncol"]) if name == "fe2" else "none"),
                masses=rng.choice(["std", "c6", "c9", "set"]), generic=rng.random() < 0.4)
    cell.update(W.cell_attrs(name))
    t = rng.choice([0, 1, 1, 2, 2])
    ds = dict(type=t, forces=(t != 0 and rng.random() < 0.7), energies=(t != 0 and rng.random() < 0.4))
    kind = rng.choice(["none", "plain", "plain", "gonze", "wang"])
    fc = rng.choice(["none", "none", "full", "compact"])
    # the options save() does not record
    onp = dict(W.NP_OBJ0)
    if rng.random() < 0.45 or name in ("tetsnf", "tetloose"):
        onp.update(snf=rng.random() < 0.5, tol=rng.choice(["default", "loose"]), issym=rng.random() < 0.75,
                   dense=rng.random() < 0.7, factor=rng.choice(["default", "default", "own"]))
    # (an object holding force constants cannot hold NAC parameters without a unit factor: KeyError in the API)
    obj = dict(cell=cell, calc=rng.choice(["none", "qe"]), ds=ds, fc=fc,
               nac=dict(kind=kind, factor=(kind != "none" and (fc != "none" or rng.random() < 0.5))), np=onp)

    def tri(pf=0.25, pt=0.2):
        x = rng.random()
        return "F" if x < pf else ("T" if x < pf + pt else "unset")
    st = dict(fs=tri(), disp=tri(), fc=tri(0.25, 0.35), born=tri(0.15), eps=tri(0.15))
    comp = rng.choice(["F", "T", "xz"])
    if clean is None:
        clean = rng.random() < 0.55
    anp = dict(NP_ARG0)
    r = rng.random()
    if r < 0.3:      # the constructor's options repeated
        anp.update(snf=onp["snf"], tol=onp["tol"], issym=onp["issym"], dense=onp["dense"],
                   factor="own" if onp["factor"] == "own" else "unset")
    elif r < 0.45:   # anything
        anp.update(snf=rng.random() < 0.5, tol=rng.choice(["unset", "default", "loose"]), issym=rng.random() < 0.7,
                   dense=rng.random() < 0.7, factor=rng.choice(["unset", "own"]))
    if name == "fe2":
        anp["issym"] = onp["issym"]  # (whether the two Fe atoms are symmetry images depends on the moments)
    args = dict(isCompact=rng.random() < 0.6, produceFc=rng.random() < 0.8, isNac=rng.random() < 0.85,
                nacArg=False, bornFile=False, fsFile=0, fcFile="none", calcArg="none", cells=dict(NO_CELLS), fmt="vasp",
                smatArg=False, pmatArg=False, np=anp)
    env = dict(FS=0, FC="none", H5="none", BORN=False)
    if not clean:
        args.update(nacArg=rng.random() < 0.2, bornFile=rng.random() < 0.2,
                    fsFile=rng.choice([0, 0, 0, 1, 2]), fcFile=rng.choice(["none"] * 4 + ["txtF", "txtC", "h5F", "h5C"]),
                    calcArg=rng.choice(["none", "none", "none", "vasp", "qe"]))
        env.update(FS=rng.choice([0, 0, 1, 2]), FC=rng.choice(["none", "none", "full", "compact"]),
                   H5=rng.choice(["none", "none", "full", "compact"]), BORN=rng.random() < 0.35)
        if rng.random() < 0.45 and name not in ("fe2", "tetloose"):
            # crystal structure by argument(s): one or two of the four ways, files in one calculator's format
            ks = ["ucfile", "scfile", "unitcell", "supercell"]
            picked = [rng.choice(ks)]
            if rng.random() < 0.4:
                picked.append(rng.choice(ks))
            cells = dict(NO_CELLS)
            for k in picked:
                cells[k] = True
            both = rng.random() < 0.5
            calc_arg = rng.choice(["none", "vasp", "qe", "qe"])
            fmt = ("qe" if calc_arg == "qe" else "vasp") if rng.random() < 0.7 else rng.choice(["vasp", "qe"])
            args.update(cells=cells, fmt=fmt, smatArg=both or rng.random() < 0.3,
                        pmatArg=both or rng.random() < 0.3, calcArg=calc_arg)
            # structure files hold plain symbols; other sources of forces / force constants only when the
            # cells (and hence the atom counts and primitive atoms) are those of the object
            cell.update(ext=False, masses="std", generic=False)
            src = [k for k in ks if cells[k]][0]
            # (a VASP structure file groups the atoms by species: other atom order than the object's)
            if not (args["smatArg"] and args["pmatArg"] and src == "unitcell"):
                args.update(fsFile=0, fcFile="none", nacArg=False, bornFile=False)
                env.update(FS=0, FC="none", H5="none", BORN=False)
    return one_layout(dict(obj=obj, st=st, comp=comp, args=args, env=env, big=rng.random() < 0.25, zero=rng.random() < 0.35))


def one_layout(cfg):
    """cells whose primitive cell is the supercell have a single force-constants layout (written as 'full')"""
    o = cfg["obj"]
    if o["fc"] == "compact" and (o["cell"]["name"] == "p4" or (o["cell"]["name"] == "tetloose" and o["np"]["tol"] == "default")):
        o["fc"] = "full"
    return cfg


RAISED_DUMMY = dict(calc="none", units="std", scale="same",
                    cell=dict(src="none", smat="none"), np=dict(order="same", tol="default", issym=True, freq="default"),
                    ds=dict(src="none", type=0, forces=False, energies=False),
                    fc=dict(src="none", layout="none", sym=False),
                    nac=dict(src="none", method="none", factor="none"),
                    q=dict(symbols=True, lattice=0, positions=0, masses=0, magmoms=0, smat=True, pmat=0, maps=True,
                           ds=0, fc=0, nac=0, zeros=0, phonons=-1))


def run_one(cfg, seed, gonze_budget=1.0):
    """one real save+load -> event record (dict) for SaveLoadTrace, plus the world's text for the text layer."""
    with W.World(cfg, seed) as w:
        ph = w.build()
        o = cfg["obj"]
        consistent_fc = None
        if o["ds"]["type"] == 1 and o["ds"]["forces"] and o["fc"] != "none":
            # a coherent object: its force constants are those of its dataset
            consistent_fc = W.produced_fc(o, ph.dataset, o["fc"] == "compact", symmetrize=True)
            ph.force_constants = consistent_fc
            w.src_fc["yaml"] = consistent_fc.copy()
        ph2, err = w.save_load()
        wr, ydoc = W.written(w.text)
        obs, q = W.project(w, ph2, err, wr)
        if obs["status"] == "raised":
            d = dict(RAISED_DUMMY)
            d.update(obs)
            obs = d
            if getattr(w, "save_error", None) is not None:
                obs["err"] = "save:" + obs["err"]  # never accepted by ImplLoads
        else:
            obs["err"] = "none"
            obs["scale"] = "same"
            q["phonons"] = -1
            comparable = (cfg["args"]["calcArg"] == "none" and obs["cell"]["src"] == "yaml"
                          and obs["np"]["order"] == w.obj_order and obs["np"]["tol"] == o["np"]["tol"]
                          and (obs["fc"]["src"] == "yaml" or (obs["fc"]["src"] == "produced" and obs["fc"]["sym"]
                                                               and obs["ds"]["src"] == "yaml"
                                                               and obs["np"]["issym"] == bool(o["np"]["issym"])))
                          and ((o["nac"]["kind"] == "none" and obs["nac"]["src"] == "none") or obs["nac"]["src"] == "yaml"))
            if comparable:
                costly = obs["nac"]["src"] == "yaml" and o["nac"]["kind"] != "wang"  # Gonze-Lee NAC: ~1 s per object
                if costly and w.rng.random() >= gonze_budget:
                    q["phonons"] = -2  # comparable, skipped for the time budget (logged as such)
                else:
                    q["phonons"], obs["scale"] = compare_phonons(w, ph, ph2, obs)
        ev = dict(eo=cfg["obj"], es=cfg["st"], ec=cfg["comp"], ea=cfg["args"], ee=cfg["env"],
                  w=wr, container=w.container, named="xz" if w.filename.endswith(".xz") else "plain", obs=obs,
                  big=bool(cfg.get("big")), zero=bool(cfg.get("zero")), wseed=seed)
        return ev, dict(text=w.text, ph=ph, ph2=ph2, fc_exact=consistent_fc is None, ydoc=ydoc, obj_order=w.obj_order)


def compare_phonons(w, ph, ph2, obs):
    """frequencies of the reloaded object against those of the original (given the text-rounded masses
    and the calculator's default NAC factor when the original has none).  -> (error class, scale class):
    the scale class is the observed common ratio reloaded/original of the frequencies (same, default/own,
    own/default, other); the error class is that of the eigenvalues after removing this ratio."""
    o = w.cfg["obj"]
    # the reference lives on the lattice and primitive matrix as they stand in the text (their agreement with the
    # original to the written precision is q.lattice / q.pmat): the Gonze-Lee sum has a sharp reciprocal-space cutoff and jumps by 1e-7 when a
    # lattice entry moves by 1e-16
    ref = W.new_phonopy(o, lattice=np.array(ph2.unitcell.cell), pmat=ph2.primitive_matrix)
    ref.masses = np.round(ref.primitive.masses, 6)
    if obs["fc"]["src"] == "yaml":
        ref.force_constants = ph.force_constants
    else:
        # the same pipeline on the original dataset, in the layout load() was asked for (full and compact
        # symmetrisation are not the same function: C07, not this property)
        ref.force_constants = W.produced_fc(o, ph.dataset, w.cfg["args"]["isCompact"], symmetrize=True,
                                            pmat=ph2.primitive_matrix)
    if obs["nac"]["src"] == "yaml":
        nac = dict(ph.nac_params)
        if "factor" not in nac:
            nac["factor"] = W.DEFAULT_NAC_FACTOR[o["calc"]]
        ref.nac_params = nac
    try:
        f1 = W.frequencies(ref)
        f2 = W.frequencies(ph2)
    except Exception:
        return 9, "other"
    big = np.abs(f1) > 1e-3 * max(1e-12, float(np.abs(f1).max()))
    ratio = float(np.median(f2[big] / f1[big])) if big.any() else 1.0
    d0 = W.DEFAULT_FACTOR[o["calc"]]
    scale = "other"
    for name, val in (("same", 1.0), ("default/own", d0 / W.OWN_FACTOR), ("own/default", W.OWN_FACTOR / d0)):
        if abs(ratio - val) < 1e-6 * val:
            scale, ratio = name, val
    # compared as eigenvalues of the dynamical matrix (sign(f) f^2): a frequency near zero is the square
    # root of a small eigenvalue and amplifies the last-digit noise of the text without bound
    f2 = f2 / ratio
    l1, l2 = f1 * np.abs(f1), f2 * np.abs(f2)
    norm = max(1.0, float(np.abs(l1).max()))
    d = float(np.abs(l1 - l2).max()) / norm
    if d == 0.0:
        return 0, scale
    return int(min(9, np.ceil(d / 1e-9))), scale


MC_TRACE = """---- MODULE MC_SaveLoadTrace ----
EXTENDS SaveLoadTrace
MCEvents == {%s}
====
"""

CFG_TRACE = """INIT TInit
NEXT TNext
CONSTANTS
 Objs = {}
 Sts = {}
 Comps = {}
 ArgsSet = {}
 Envs = {}
 HasFcSolver = FALSE
 PinnedLoad = FALSE
 Events <- MCEvents
CHECK_DEADLOCK FALSE
INVARIANT ImplCalculator
INVARIANT ImplDataset
INVARIANT ImplForceConstants
INVARIANT ImplNac
INVARIANT ImplPhononsFromSaved
INVARIANT ImplSaveRule
INVARIANT ImplNoAmbientCapture
INVARIANT ImplExplicitBeatsAmbient
INVARIANT ImplSameOptions
INVARIANT ImplCellPriority
INVARIANT ImplPhononScale
INVARIANT ImplCells
INVARIANT ImplPhononsCompared
INVARIANT ImplLoads
INVARIANT ImplTolerance
INVARIANT ImplAtomOrder
INVARIANT ImplNumbers
INVARIANT ImplZeros
INVARIANT ImplPhonons
INVARIANT ConformsWritten
INVARIANT ConformsContainer
INVARIANT ConformsStatus
INVARIANT ConformsLoaded
INVARIANT ConformsSymmetrized
INVARIANT InvCalculator
INVARIANT InvDataset
INVARIANT InvForceConstants
INVARIANT InvNac
INVARIANT InvPhononsFromSaved
INVARIANT InvSaveRule
INVARIANT InvNoAmbientCapture
INVARIANT InvExplicitBeatsAmbient
INVARIANT InvLoads
INVARIANT InvAtomOrder
INVARIANT InvTolerance
INVARIANT InvSameOptions
INVARIANT InvCellPriority
"""


def focus_cfg(rng):
    """a clean save/load whose phonons can be compared, with random constructor options / load() options: the block
    that exercises the 'not persisted' options through to the frequencies"""
    cfg = sample_cfg(rng, clean=True)
    o = cfg["obj"]
    name = rng.choice(["tetsnf", "tetloose", "nacl", "tric", "tetab"])
    o["cell"].update(name=name, mag="none")
    o["cell"].update(W.cell_attrs(name))
    if rng.random() < 0.5:
        o["ds"] = dict(type=1, forces=True, energies=False)
        o["fc"] = rng.choice(["none", "full", "compact"])
    else:
        o["ds"] = dict(type=rng.choice([0, 2]), forces=False, energies=False)
        o["fc"] = rng.choice(["full", "compact"])
    o["nac"] = rng.choice([dict(kind="none", factor=False), dict(kind="wang", factor=True)])
    o["np"] = dict(snf=rng.random() < 0.5, tol=rng.choice(["default", "loose"]), issym=rng.random() < 0.8,
                   dense=rng.random() < 0.7, factor=rng.choice(["default", "own"]))
    cfg["st"] = dict(fs="unset", disp="unset", fc=rng.choice(["unset", "T"]), born="unset", eps="unset")
    a = cfg["args"]
    a.update(produceFc=True, isNac=True)
    r = rng.random()
    if r < 0.4:
        a["np"] = dict(NP_ARG0)
    elif r < 0.8:
        a["np"] = dict(snf=o["np"]["snf"], tol=o["np"]["tol"], issym=o["np"]["issym"], dense=o["np"]["dense"],
                       factor="own" if o["np"]["factor"] == "own" else "unset")
    cfg["big"] = False
    return one_layout(cfg)


def cells_cfg(rng, subset):
    """crystal structure given by the subset of the four ways: the block that walks through the priority list"""
    cfg = sample_cfg(rng, clean=True)
    o = cfg["obj"]
    name = rng.choice(["tetab", "tric", "tetsnf", "nacl"] if len(subset) > 1 else ["tetab", "tric", "tetsnf"])
    o["cell"].update(name=name, mag="none", ext=False, masses="std", generic=False)
    o["cell"].update(W.cell_attrs(name))
    o["np"] = dict(W.NP_OBJ0)
    a = cfg["args"]
    calc_arg = rng.choice(["none", "vasp", "qe"])
    a.update(cells={k: (k in subset) for k in NO_CELLS}, calcArg=calc_arg,
             fmt=("qe" if calc_arg == "qe" else "vasp") if rng.random() < 0.8 else rng.choice(["vasp", "qe"]),
             smatArg=(len(subset) == 1 or rng.random() < 0.5), pmatArg=rng.random() < 0.6, np=dict(NP_ARG0),
             nacArg=False, bornFile=False)
    cfg["big"] = False
    return one_layout(cfg)


def not_persisted_class(name, e, ld):
    """Is this violation ONLY the effect of a constructor option that save() does not record and that load() was not
    given?  -> (option, invariant) or None.  The two classes (fixes/c16-snf-supercell-order.md,
    fixes/c16-symmetry-tolerance-not-read.md):
      use_SNF_supercell - the saved file is the source of the cells, the supercell matrix is one for which the two
          constructions order the atoms differently, load()'s flag is not the object's, and the reloaded supercell has the
          atoms in the order of load()'s flag: ImplAtomOrder, its consequences on the numbers attached to the atoms, and
          the machine/outcome difference in np.order alone;
      symprec - the object was built with the loose tolerance, load() was given none, and the outcome is the default
          tolerance in effect (ImplTolerance, difference in np.tol alone) or, for the cell whose primitive matrix holds
          only at the loose tolerance, the symmetry failure (ImplLoads, ConformsStatus).
    Anything else - a wrong order or a failing load in any other situation - keeps its generic key."""
    try:
        eo, ea, ob = e["eo"], e["ea"], e["obs"]
        if any(ea["cells"].values()):
            return None
        ok = ob["status"] == "ok"
        want = ("snf" if eo["np"]["snf"] else "classic") if eo["cell"]["snfS"] else "same"
        built = ("snf" if ea["np"]["snf"] else "classic") if eo["cell"]["snfS"] else "same"
        snf = (eo["cell"]["snfS"] and bool(eo["np"]["snf"]) != bool(ea["np"]["snf"]) and ok
               and ob["np"]["order"] == built and built != want)
        tol = eo["np"]["tol"] == "loose" and ea["np"]["tol"] == "unset"
        tol_ok = tol and ok and ob["np"]["tol"] == "default"
        tol_raised = tol and not ok and ob["why"] == "symmetry" and eo["cell"]["fragile"]

        def core_diff():
            """fields in which the logged outcome differs from the machine's"""
            if not isinstance(ld, dict) or not ok or ld.get("status") != "ok":
                return None
            d = set()
            for k in ("calc", "ds", "nac", "cell"):
                if ob[k] != ld[k]:
                    d.add(k)
            if (ob["fc"]["src"], ob["fc"]["layout"]) != (ld["fc"]["src"], ld["fc"]["layout"]):
                d.add("fc")
            for k in ("order", "tol", "issym", "freq"):
                if ob["np"][k] != ld["np"][k]:
                    d.add("np." + k)
            return d
        if name == "ImplAtomOrder" and snf:
            return "use_SNF_supercell", "ImplAtomOrder"
        if name in ("ImplNumbers", "ImplPhonons", "ImplPhononsFromSaved") and snf:
            return "use_SNF_supercell", "ImplAtomOrder"     # numbers attached to the atoms of the other order
        if name == "ImplTolerance" and tol_ok:
            return "symprec", "ImplTolerance"
        if name in ("ImplLoads", "ConformsStatus") and tol_raised:
            return "symprec", "ImplLoads"
        if name == "ConformsLoaded":
            d = core_diff()
            if d and snf and d <= {"np.order"} | ({"np.tol"} if tol_ok else set()):
                return "use_SNF_supercell", "ImplAtomOrder"
            if d and tol_ok and d <= {"np.tol"}:
                return "symprec", "ImplTolerance"
    except Exception:
        return None
    return None


def saveload_layer(ctx, col, replay_cfgs=None):
    n = 210 if ctx.quick else 3000
    nfocus = 40 if ctx.quick else 500
    import itertools
    subsets = [c for r in (1, 2, 3, 4) for c in itertools.combinations(list(NO_CELLS), r)]   # 15
    ncells = len(subsets) * (1 if ctx.quick else 12)
    events, texts = [], []
    nprng = np.random.default_rng(ctx.seed + 77)
    if replay_cfgs is not None:
        n = len(replay_cfgs)
    for i in range(n):
        if replay_cfgs is not None:
            cfg, wseed = replay_cfgs[i]
        else:
            if i >= n - ncells:
                cfg = cells_cfg(ctx.rng, subsets[(n - 1 - i) % len(subsets)])
            elif i >= n - ncells - nfocus:
                cfg = focus_cfg(ctx.rng)
            else:
                cfg = sample_cfg(ctx.rng)
            wseed = ctx.seed * 100003 + i
        ev, aux = run_one(cfg, wseed, gonze_budget=1.0 if replay_cfgs is not None else (0.2 if ctx.quick else 0.5))
        events.append(ev)
        if aux["text"]:
            try:
                T.yaml_events(col, aux["text"], aux["ph"], aux["ph2"], ev["obs"], origin="yaml#%d" % i,
                              cap=(1 if ctx.quick else 3), rng=nprng,
                              cells_from_file=not any((cfg["args"].get("cells") or {}).values()),
                              same_order=(ev["obs"]["np"]["order"] == aux["obj_order"]))
            except Exception as e:  # a saved file that is not YAML / not the documented layout
                ctx.violation("text:yaml:Unreadable", "C16 the saved file cannot be walked as phonopy.yaml (%s: %s)" % (type(e).__name__, e),
                              dict(event=ev, error=repr(e)))
        ctx.count(("saveload", to_tla(dict(obj=cfg["obj"], st=cfg["st"], comp=cfg["comp"], args=cfg["args"], env=cfg["env"]))))
    ctx.traces += len(events)
    violated_all = set()
    for k in range(0, len(events), 2000):
        chunk = events[k:k + 2000]
        mc = MC_TRACE % ",\n".join(to_tla(e) for e in chunk)
        res = ctx.tlc("MC_SaveLoadTrace", cfg_text=CFG_TRACE, extra_files={"MC_SaveLoadTrace.tla": mc},
                      requirement=False, extra_args=("-continue",), workers=4)
        for name, tr in res.violations:
            stt = tr[-1][1] if tr else {}
            e = stt.get("ev", {})
            violated_all.add(name)
            cls = not_persisted_class(name, e, stt.get("ld"))
            if cls is not None:
                option, inv = cls
                hits = ctx.extra.setdefault("not_persisted_hits", {})
                hits["%s:%s" % (option, inv)] = hits.get("%s:%s" % (option, inv), 0) + 1
                ctx.violation("saveload:notpersisted:%s:%s" % (option, inv),
                              "C16 %s fails because the object was built with %s, which save() does not record and load() was not given"
                              % (inv, option), dict(invariant=inv, reported_as=name, option=option, event=e))
                continue
            if name.startswith("Conforms"):
                ctx.extra.setdefault("SPEC-DRIFT", [])
                if name not in ctx.extra["SPEC-DRIFT"]:
                    ctx.extra["SPEC-DRIFT"].append(name)
                ctx.violation("saveload:" + name, "C16 the implementation's save/load outcome differs from SaveLoad.tla (%s)" % name,
                              dict(invariant=name, event=e, machine=stt.get("ld")))
                continue
            ctx.violation("saveload:" + name, "C16 save/load requirement %s fails on the implementation's outcome" % name,
                          dict(invariant=name, event=e))
    ctx.extra["saveload_events"] = len(events)
    stats = {}
    for e in events:
        o = e["obs"]
        for k, v in (("status", o["status"]), ("ds.src", o["ds"]["src"]), ("ds.type", o["ds"]["type"]), ("fc.src", o["fc"]["src"]),
                     ("fc.layout", o["fc"]["layout"]), ("nac.src", o["nac"]["src"]), ("nac.factor", o["nac"]["factor"]),
                     ("calc", o["calc"]), ("container", e["container"]), ("cell", e["eo"]["cell"]["name"]),
                     ("why", o["why"]), ("cell.src", o["cell"]["src"]), ("cell.smat", o["cell"]["smat"]),
                     ("order(obj,loaded)", "%s,%s" % ("snf" if e["eo"]["np"]["snf"] and e["eo"]["cell"]["snfS"] else
                                                        ("classic" if e["eo"]["cell"]["snfS"] else "same"), o["np"]["order"])),
                     ("tol(obj,arg,loaded)", "%s,%s,%s" % (e["eo"]["np"]["tol"], e["ea"]["np"]["tol"], o["np"]["tol"])),
                     ("issym(obj,loaded)", "%s,%s" % (e["eo"]["np"]["issym"], o["np"]["issym"])),
                     ("factor(obj,loaded)", "%s,%s" % (e["eo"]["np"]["factor"], o["np"]["freq"])), ("scale", o["scale"]),
                     ("partial_nac_written", e["w"]["nac"]["born"] != e["w"]["nac"]["eps"]),
                     ("ext", e["eo"]["cell"]["ext"]), ("mag", e["eo"]["cell"]["mag"]), ("masses", e["eo"]["cell"]["masses"]),
                     ("generic_lattice", e["eo"]["cell"]["generic"]), ("big_values", e["big"]), ("zero_values", e["zero"]),
                     ("phonons", {-2: "skipped(budget)", -1: "not comparable"}.get(o["q"]["phonons"], "compared"))):
            stats.setdefault(k, {})
            stats[k][str(v)] = stats[k].get(str(v), 0) + 1
    ctx.extra["saveload_distribution"] = stats
    ctx.sample(events[0])
    return events, texts, violated_all


MC_MODEL = r"""---- MODULE MC_SaveLoad ----
EXTENDS SaveLoad
B == BOOLEAN
Cell0 == [name |-> "nacl", ext |-> FALSE, mag |-> "none", masses |-> "std", generic |-> FALSE, snfS |-> FALSE, fragile |-> FALSE, sid |-> TRUE, allIndep |-> FALSE]
DsAll == {[type |-> 0, forces |-> FALSE, energies |-> FALSE]} \cup
         {[type |-> t, forces |-> f, energies |-> e] : t \in {1, 2}, f \in B, e \in B}
NacAll == {[kind |-> "none", factor |-> FALSE]} \cup {[kind |-> k, factor |-> f] : k \in {"plain", "gonze", "wang"}, f \in B}
Tri == {"unset", "T", "F"}
Calcs == %(calcs)s
CalcArgs == %(calcargs)s
(* defaults of the fields a run does not vary (record merge) *)
ObjD == [np |-> NpObj0]
ArgD == [cells |-> NoCells, fmt |-> "vasp", smatArg |-> FALSE, pmatArg |-> FALSE, np |-> NpArg0]
UnitcellArg(g) == [cells |-> [NoCells EXCEPT !.unitcell = g], fmt |-> "vasp", smatArg |-> TRUE, pmatArg |-> TRUE, np |-> NpArg0]
(* run A: dataset / force-constants chain (NAC fixed) *)
ObjsA == {[cell |-> Cell0, calc |-> c, ds |-> d, fc |-> f, nac |-> [kind |-> "plain", factor |-> TRUE]] @@ ObjD :
            c \in Calcs, d \in DsAll, f \in {"none", "full", "compact"}}
StsA == {[fs |-> a, disp |-> b, fc |-> c, born |-> "unset", eps |-> "unset"] : a \in %(sw)s, b \in %(sw)s, c \in Tri}
ArgsA == {[isCompact |-> a, produceFc |-> b, isNac |-> TRUE, nacArg |-> FALSE, bornFile |-> FALSE, fsFile |-> c, fcFile |-> d, calcArg |-> e] @@ ArgD :
            a \in B, b \in B, c \in %(fs01)s, d \in %(fcfiles)s, e \in CalcArgs}
EnvsA == {[FS |-> a, FC |-> b, H5 |-> c, BORN |-> FALSE] : a \in {0, 1, 2}, b \in {"none", "full", "compact"}, c \in %(h5)s}
(* run B: NAC chain (dataset / force constants fixed) *)
ObjsB == {[cell |-> Cell0, calc |-> c, ds |-> [type |-> 1, forces |-> TRUE, energies |-> FALSE], fc |-> "none", nac |-> n] @@ ObjD :
            c \in {"none", "qe"}, n \in NacAll}
StsB == {[fs |-> x, disp |-> y, fc |-> "unset", born |-> a, eps |-> b] : a \in Tri, b \in Tri, x \in %(swb)s, y \in %(swb)s}
ArgsB == {[isCompact |-> TRUE, produceFc |-> TRUE, isNac |-> a, nacArg |-> b, bornFile |-> c, fsFile |-> 0, fcFile |-> "none", calcArg |-> e] @@ UnitcellArg(g) :
            a \in B, b \in B, c \in B, e \in {"none", "vasp", "qe"}, g \in B}
EnvsB == {[FS |-> 0, FC |-> "none", H5 |-> "none", BORN |-> a] : a \in B}
(* run C: the unit cell by argument (the saved file is then not parsed), all other sources *)
ObjsC == {[cell |-> Cell0, calc |-> "qe", ds |-> d, fc |-> f, nac |-> [kind |-> "plain", factor |-> TRUE]] @@ ObjD :
            d \in DsAll, f \in {"none", "full", "compact"}}
StsC == {[fs |-> "unset", disp |-> "unset", fc |-> c, born |-> "unset", eps |-> "unset"] : c \in Tri}
ArgsC == {[isCompact |-> a, produceFc |-> b, isNac |-> TRUE, nacArg |-> n, bornFile |-> FALSE, fsFile |-> c, fcFile |-> d, calcArg |-> e] @@ UnitcellArg(g) :
            a \in %(cB)s, b \in B, n \in %(cB)s, c \in {0, 1}, d \in {"none", "txtF"}, e \in {"none", "vasp"}, g \in B}
EnvsC == {[FS |-> a, FC |-> b, H5 |-> "none", BORN |-> c] : a \in {0, 2}, b \in {"none", "full"}, c \in B}
(* run D: the documented priority order of phonopy.load against the implemented one *)
ObjsD == {[cell |-> Cell0, calc |-> "none", ds |-> [type |-> 1, forces |-> TRUE, energies |-> FALSE], fc |-> f, nac |-> [kind |-> "plain", factor |-> TRUE]] @@ ObjD :
            f \in {"none", "full"}}
StsD == {[fs |-> "unset", disp |-> "unset", fc |-> c, born |-> b, eps |-> "unset"] : c \in {"unset", "T"}, b \in {"unset", "F"}}
ArgsD == {[isCompact |-> TRUE, produceFc |-> TRUE, isNac |-> TRUE, nacArg |-> FALSE, bornFile |-> FALSE, fsFile |-> c, fcFile |-> d, calcArg |-> "none"] @@ ArgD :
            c \in {0, 1}, d \in {"none", "txtF"}}
EnvsD == {[FS |-> 0, FC |-> b, H5 |-> "none", BORN |-> FALSE] : b \in {"none", "full"}}
(* run E: the options save() does not record, as constructor options and as arguments of load() *)
NpObjAll == {[snf |-> a, tol |-> b, issym |-> c, dense |-> d, factor |-> e] : a \in B, b \in {"default", "loose"}, c \in B, d \in B, e \in {"default", "own"}}
NpArgAll == {[snf |-> a, tol |-> b, issym |-> c, dense |-> d, factor |-> e] : a \in B, b \in {"unset", "default", "loose"}, c \in B, d \in B, e \in {"unset", "own"}}
ObjsE == {[cell |-> [Cell0 EXCEPT !.snfS = s, !.fragile = fr, !.sid = ~s, !.allIndep = fr], calc |-> "none", ds |-> [type |-> 1, forces |-> df, energies |-> FALSE],
           fc |-> f, nac |-> [kind |-> "none", factor |-> FALSE], np |-> n] : s \in B, fr \in B, df \in B, f \in {"none", "full"}, n \in NpObjAll}
StsE == {[fs |-> "unset", disp |-> "unset", fc |-> "unset", born |-> "unset", eps |-> "unset"]}
ArgsE == {[isCompact |-> TRUE, produceFc |-> TRUE, isNac |-> TRUE, nacArg |-> FALSE, bornFile |-> FALSE, fsFile |-> 0, fcFile |-> "none", calcArg |-> "none",
           cells |-> NoCells, fmt |-> "vasp", smatArg |-> FALSE, pmatArg |-> FALSE, np |-> n] : n \in NpArgAll}
EnvsE == {[FS |-> 0, FC |-> "none", H5 |-> "none", BORN |-> FALSE]}
(* run P: the two sensitive cells, default arguments of load() - for the pinned variant of load() *)
ObjsP == {[cell |-> [Cell0 EXCEPT !.snfS = TRUE, !.fragile = fr, !.sid = FALSE], calc |-> "none", ds |-> [type |-> 1, forces |-> TRUE, energies |-> FALSE],
           fc |-> "none", nac |-> [kind |-> "none", factor |-> FALSE], np |-> [NpObj0 EXCEPT !.snf = a, !.tol = b]] : a \in B, b \in {"default", "loose"}, fr \in B}
ArgsP == {[isCompact |-> TRUE, produceFc |-> TRUE, isNac |-> TRUE, nacArg |-> FALSE, bornFile |-> FALSE, fsFile |-> 0, fcFile |-> "none", calcArg |-> "none"] @@ ArgD}
(* run F: crystal structure by argument(s): every subset of the four ways, file format against calculator *)
CellsAll == {[ucfile |-> a, scfile |-> b, unitcell |-> c, supercell |-> d] : a \in B, b \in B, c \in B, d \in B}
ObjsF == {[cell |-> [Cell0 EXCEPT !.fragile = fr, !.sid = i], calc |-> c, ds |-> [type |-> 1, forces |-> TRUE, energies |-> FALSE], fc |-> "none",
           nac |-> [kind |-> "plain", factor |-> TRUE], np |-> [NpObj0 EXCEPT !.tol = t]] : fr \in B, i \in B, c \in {"none", "qe"}, t \in {"default", "loose"}}
ArgsF == {[isCompact |-> TRUE, produceFc |-> TRUE, isNac |-> TRUE, nacArg |-> FALSE, bornFile |-> FALSE, fsFile |-> 0, fcFile |-> "none", calcArg |-> e,
           cells |-> cs, fmt |-> fm, smatArg |-> sm, pmatArg |-> pm, np |-> [NpArg0 EXCEPT !.tol = t]] :
            e \in {"none", "vasp", "qe"}, cs \in CellsAll, fm \in {"vasp", "qe"}, sm \in B, pm \in B, t \in {"unset", "default"}}
====
"""

CFG_MODEL = """SPECIFICATION Spec
CONSTANTS
 Objs <- Objs%(r)s
 Sts <- Sts%(r)s
 Comps = %(comps)s
 ArgsSet <- Args%(r)s
 Envs <- Envs%(r)s
 HasFcSolver = %(solver)s
 PinnedLoad = %(pinned)s
CHECK_DEADLOCK FALSE
INVARIANT TypeOK
%(invs)s
"""

REQ_INVS = ["InvCalculator", "InvDataset", "InvForceConstants", "InvNac", "InvPhononsFromSaved", "InvSaveRule",
            "InvNoAmbientCapture", "InvExplicitBeatsAmbient", "InvLoads", "InvWrittenSubset",
            "InvAtomOrder", "InvTolerance", "InvSameOptions", "InvCellPriority"]
NP_INVS = ["InvAtomOrder", "InvTolerance", "InvLoads", "InvSameOptions"]
DOC_INVS = ["DocOrderFC", "DocOrderFS", "DocOrderYamlForces", "PartialNacLoadable"]


def model_layer(ctx):
    """TLC decides the requirement on the specification: exhaustive over the configuration space,
    factorised into the dataset/force-constants chain (A) and the NAC chain (B), which share no variable."""
    if ctx.quick:
        par = dict(calcs='{"none"}', calcargs='{"none"}', sw='{"unset", "F"}', fcfiles='{"none", "h5C"}',
                   h5='{"none", "full"}', swb='{"unset"}', fs01='{0, 2}', cB='{TRUE}')
        compsA = '{"F"}'
    else:
        par = dict(calcs='{"none", "qe"}', calcargs='{"none", "vasp"}', sw='{"unset", "F"}',
                   fcfiles='{"none", "txtF", "txtC", "h5F", "h5C"}', h5='{"none", "full", "compact"}', swb='Tri',
                   fs01='{0, 1, 2}', cB='B')
        compsA = '{"F", "xz"}'
    mc = MC_MODEL % par
    inv = "\n".join("INVARIANT " + i for i in REQ_INVS)
    envs = dict(E="StsE", F="StsE")
    for r, comps, solver in (("A", compsA, "FALSE"), ("B", '{"F", "T", "xz"}', "FALSE"), ("C", '{"F"}', "FALSE"),
                             ("E", '{"F"}', "FALSE"), ("F", '{"F"}', "FALSE"), ("B", '{"F"}', "TRUE")):
        cfg_text = CFG_MODEL % dict(r=r, comps=comps, solver=solver, invs=inv, pinned="FALSE")
        if r == "F":
            cfg_text = cfg_text.replace("Sts <- StsF", "Sts <- StsE").replace("Envs <- EnvsF", "Envs <- EnvsE")
        res = ctx.tlc("MC_SaveLoad", cfg_text=cfg_text,
                      extra_files={"MC_SaveLoad.tla": mc}, requirement=True, workers=8,
                      coverage=(r == "B" and solver == "TRUE"))
        if r == "B" and solver == "TRUE":
            cov = {k: v[1] for k, v in res.coverage.items()}
            acts = ["Choose", "Save", "ReadYaml", "Construct", "SelectNAC", "SelectDataset", "SelectFC", "Produce"]
            ctx.extra["coverage_actions"] = {a: cov.get(a, 0) for a in acts}
            if any(cov.get(a, 0) == 0 for a in acts):
                from harness.tlc import MachineryError
                raise MachineryError("SaveLoad action never fired: %s" % cov)
    # documented order vs implemented order: violations expected (DocDeviation, not C16)
    dev = {name: dict(reachable=False) for name in DOC_INVS}
    res = ctx.tlc("MC_SaveLoad", cfg_text=CFG_MODEL % dict(r="D", comps='{"F"}', solver="FALSE", pinned="FALSE",
                                                          invs="\n".join("INVARIANT " + i for i in DOC_INVS)),
                  extra_files={"MC_SaveLoad.tla": mc}, requirement=False, workers=1, extra_args=("-continue",))
    for name, tr in res.violations:
        if name in dev and not dev[name]["reachable"] and tr:
            stt = tr[-1][1]
            dev[name] = dict(reachable=True, witness=dict(obj=stt.get("obj"), st=stt.get("st"), args=stt.get("args"),
                                                           env=stt.get("env"), loaded=stt.get("ld")))
    ctx.extra["DocDeviation"] = dev
    # load() as in the pinned tree (saved supercell order and tolerance ignored): the requirement on the options that
    # are not persisted fails on the specification alone - recorded; the finding is established on the real code
    pinned = {}
    cfgp = CFG_MODEL % dict(r="P", comps='{"F"}', solver="FALSE", pinned="TRUE",
                            invs="\n".join("INVARIANT " + n for n in ("InvAtomOrder", "InvTolerance", "InvLoads")))
    cfgp = cfgp.replace("Sts <- StsP", "Sts <- StsE").replace("Envs <- EnvsP", "Envs <- EnvsE")
    res = ctx.tlc("MC_SaveLoad", cfg_text=cfgp, extra_files={"MC_SaveLoad.tla": mc}, requirement=False, workers=1,
                  extra_args=("-continue",))
    for name, tr in res.violations:
        if name not in pinned and tr:
            stt = tr[-1][1]
            pinned[name] = dict(obj_np=stt.get("obj", {}).get("np"), cell=stt.get("obj", {}).get("cell"),
                                args_np=stt.get("args", {}).get("np"), loaded=stt.get("ld"))
    ctx.extra["pinned_load_model"] = pinned
    ctx.assumptions.append("DocDeviation (DESIGN 7/D16): the priority order in the docstring of phonopy.load (file-name arguments and "
                           "yaml forces before ambient FORCE_CONSTANTS) is not the implemented one; SaveLoad.tla follows the code, "
                           "the documented order is evaluated separately (DocOrder* reachable violations recorded in the evidence) "
                           "and is not part of the C16 requirement")


MC_TEXT = """---- MODULE MC_TextCodecTrace ----
EXTENDS TextCodecTrace
MCEvents == {%s}
====
"""
CFG_TEXT = """INIT TInit
NEXT TNext
CONSTANTS
 KindsToCheck = {}
 UsePinned = FALSE
 Events <- MCEvents
CHECK_DEADLOCK FALSE
INVARIANT ImplTokens
INVARIANT ImplValues
INVARIANT ImplPrecision
INVARIANT ImplBack
INVARIANT ImplZerosKept
INVARIANT ImplZerosWritten
INVARIANT ImplFileRead
INVARIANT ConformsText
"""
CFG_TEXT_MODEL = """SPECIFICATION Spec
CONSTANTS
 KindsToCheck <- AllKinds
 UsePinned = %s
CHECK_DEADLOCK FALSE
INVARIANT InvTokens
INVARIANT InvValues
INVARIANT InvPrecision
INVARIANT InvZerosKept
"""


def text_layer(ctx, col):
    import tempfile, shutil, os
    # the requirement on the specification's formats, values spanning the printable range
    r0 = ctx.tlc("TextCodec", cfg_text=CFG_TEXT_MODEL % "FALSE", requirement=True, workers=4, coverage=True)
    cov = {a: r0.coverage.get(a, (0, 0))[1] for a in ("Choose", "Write")}
    ctx.extra.setdefault("coverage_actions_other", {})["TextCodec"] = cov
    if any(v == 0 for v in cov.values()):
        from harness.tlc import MachineryError
        raise MachineryError("an action of TextCodec never fired: %s" % cov)
    # the same on the formats as the pinned tree writes them: recorded, the finding is established on the real files below
    res = ctx.tlc("TextCodec", cfg_text=CFG_TEXT_MODEL % "TRUE", requirement=False, workers=4)
    ctx.extra["pinned_formats_model"] = dict(violated=res.violated,
                                             witness=(res.trace[-1][1] if res.trace else None))
    # files written by the real writers
    nprng = np.random.default_rng(ctx.seed + 99)
    tmp = tempfile.mkdtemp(prefix="c16t_", dir=os.path.join(W.VERIF, ".run"))
    outcomes = []
    try:
        reps = 3 if ctx.quick else 60
        for r in range(reps):
            for big in (False, True):
                outcomes += T.force_sets_events(col, nprng, big, natom=int(nprng.integers(2, 4)), nd=2)
                for compact in (False, True):
                    outcomes += T.force_constants_events(col, nprng, big, compact, tmp)
    finally:
        shutil.rmtree(tmp, ignore_errors=True)
    ctx.extra["codec_files"] = sorted(set(outcomes))
    for name, status in sorted(set(outcomes)):
        if status.startswith("write-raised") or name.endswith("/layout"):
            ctx.violation("text:%s:Writer" % name.replace("/big", ""),
                          "C16 the real writer failed or wrote a file that does not follow the documented layout: %s (%s)" % (name, status),
                          dict(file=name, outcome=status))
    evs = col.events
    limit = 6000 if ctx.quick else 45000
    if len(evs) > limit:
        # bound the TLC runs: all lines of FORCE_SETS / FORCE_CONSTANTS / BORN, a seeded sample of the yaml lines
        keep = [e for e in evs if not e.get("org", "").startswith("yaml")]
        ys = [e for e in evs if e.get("org", "").startswith("yaml")]
        idx = sorted(nprng.choice(len(ys), size=limit - len(keep), replace=False))
        evs = keep + [ys[i] for i in idx]
        ctx.extra["text_lines_sampled"] = dict(of=len(col.events), judged=len(evs))
    ctx.extra["text_lines"] = dict(events=len(evs), by_kind=col.bykind, skipped_not_short_decimal=col.skipped)
    ctx.traces += len(evs)
    for e in evs:
        ctx.count(("line", e["lk"], e["tx"]))
    # TLC judges the lines.  A violated invariant stops the run (error traces over thousands of initial
    # states are expensive); the class of lines it concerns is recorded and set aside, and TLC runs again.
    # The lines of FORCE_SETS / FORCE_CONSTANTS (few) and those of the saved yaml files (many) go separately.
    def judge(pool, label):
        remaining = list(pool)
        rounds = 0
        while remaining and rounds < 14:
            rounds += 1
            mc = MC_TEXT % ",\n".join(to_tla(e) for e in remaining)
            res = ctx.tlc("MC_TextCodecTrace", cfg_text=CFG_TEXT, extra_files={"MC_TextCodecTrace.tla": mc},
                          requirement=False, workers=4)
            if not res.violated:
                return rounds
            name = res.violated
            e = res.trace[-1][1].get("ev", {}) if res.trace else {}
            kind, org = e.get("lk"), e.get("org", "")
            if not kind:
                raise MachineryError("TextCodecTrace: violated %s without a parsable witness" % name)
            if name == "ConformsText":
                ctx.extra.setdefault("SPEC-DRIFT", []).append("text:%s" % kind)
                ctx.extra.setdefault("drift_witness", {})["text:%s" % kind] = dict(text=e.get("tx"), vals=e.get("vs"))
                print("SPEC-DRIFT C16: line kind %s is not rendered as TextCodec.tla says: %r" % (kind, e.get("tx")))
                remaining = [x for x in remaining if x["lk"] != kind]
            elif name == "ImplFileRead":
                base = org.replace("/big", "")
                ctx.violation("text:%s:ImplFileRead" % base,
                              "C16 the real reader does not accept a file the real writer wrote: %s (%s)" % (org, e.get("fs")),
                              dict(invariant=name, file=org, outcome=e.get("fs"), first_line=e.get("tx")))
                for x in remaining:
                    if x.get("org") == org:
                        x["fs"] = "ok"
            else:
                ctx.violation("text:%s:%s" % (kind, name),
                              "C16 text round trip: %s fails for line kind %s (%s) written by the real code" % (name, kind, org),
                              dict(invariant=name, kind=kind, origin=org, text=e.get("tx"), values=e.get("vs"), read_back=e.get("bk")))
                oc = "yaml" if org.startswith("yaml") else org
                remaining = [x for x in remaining
                             if not (x["lk"] == kind and (oc == "yaml" or x.get("org") == oc))]
        return rounds

    from harness.tlc import MachineryError
    files = [e for e in evs if not e.get("org", "").startswith("yaml")]
    yamls = [e for e in evs if e.get("org", "").startswith("yaml")]
    rounds = dict(files=judge(files, "files"), yaml=0)
    for k in range(0, len(yamls), 8000):
        rounds["yaml"] += judge(yamls[k:k + 8000], "yaml")
    ctx.extra["text_rounds"] = rounds
    # which variant of the two repaired rows does the tree write?
    variant = {}
    samples = []
    for kd in ("FS2_row", "FC_row"):
        samples += [x for x in evs if x["lk"] == kd and "/big" not in x.get("org", "")][:1]
    if samples:
        mc = MC_TEXT % ",\n".join(to_tla(e) for e in samples)
        res = ctx.tlc("MC_TextCodecTrace", cfg_text=CFG_TEXT.replace("INVARIANT ConformsText", "INVARIANT ConformsRepairedText\nINVARIANT ConformsPinnedText"),
                      extra_files={"MC_TextCodecTrace.tla": mc}, requirement=False, extra_args=("-continue",), workers=1)
        bad = set((n, tr[-1][1].get("ev", {}).get("lk")) for n, tr in res.violations if tr)
        for e in samples:
            kd = e["lk"]
            variant[kd] = "repaired" if ("ConformsRepairedText", kd) not in bad else ("pinned" if ("ConformsPinnedText", kd) not in bad else "other")
    ctx.extra["writer_variant"] = variant


MC_CONV = """---- MODULE MC_DatasetConvTrace ----
EXTENDS DatasetConvTrace
MCEvents == {%s}
====
"""
CFG_CONV = """INIT TInit
NEXT TNext
CONSTANTS
 MaxAtoms = 3
 MaxDisps = 3
 DTokens = {1, 2}
 FTokens = {1, 2}
 Events <- MCEvents
CHECK_DEADLOCK FALSE
INVARIANT ImplLossless
INVARIANT ImplView
INVARIANT ImplHdf5
INVARIANT ConformsConversion
"""
CFG_CONV_MODEL = """SPECIFICATION Spec
CONSTANTS
 MaxAtoms = 3
 MaxDisps = %d
 DTokens = {1, 2}
 FTokens = {1, 2}
CHECK_DEADLOCK FALSE
INVARIANT InvLossless
INVARIANT InvShape
"""
MC_BORN_MODEL = r"""---- MODULE MC_BornCodec ----
EXTENDS BornCodec
MCTs == {<<<<1, 2, 3>>, <<4, 5, 6>>, <<7, 8, 9>>>>, <<<<64, -3, 5>>, <<0, 17, -20>>, <<33, 2, -96>>>>} \cup
        {<<<<a, b, 0>>, <<c, 1, d>>, <<0, e, 2>>>> : a, b, c, d, e \in %s}
MCOrders == {%s}
====
"""
CFG_BORN_MODEL = """SPECIFICATION Spec
CONSTANTS
 Ts <- MCTs
 Orders <- MCOrders
CHECK_DEADLOCK FALSE
INVARIANT InvRoundTrip
INVARIANT InvNeutral
INVARIANT InvOnlyIndependent
"""
MC_BORN = """---- MODULE MC_BornCodecTrace ----
EXTENDS BornCodecTrace
MCEvents == {%s}
====
"""
CFG_BORN = """INIT TInit
NEXT TNext
CONSTANTS
 Ts = {}
 Orders = {}
 Events <- MCEvents
CHECK_DEADLOCK FALSE
INVARIANT ImplExact
INVARIANT ImplIndependent
INVARIANT ImplExpand
INVARIANT ImplEps
INVARIANT ConformsReps
INVARIANT ConformsBack
"""


def codec_layer(ctx, col):
    import tempfile, shutil, os
    from harness import c16_codecs as C
    nprng = np.random.default_rng(ctx.seed + 55)
    # specification level
    cov = {}
    r1 = ctx.tlc("DatasetConv", cfg_text=CFG_CONV_MODEL % (2 if ctx.quick else 3), requirement=True, workers=4, coverage=True)
    cov["DatasetConv"] = {a: r1.coverage.get(a, (0, 0))[1] for a in ("Choose", "Convert")}
    r2 = ctx.tlc("MC_BornCodec", coverage=True, cfg_text=CFG_BORN_MODEL,
            extra_files={"MC_BornCodec.tla": MC_BORN_MODEL % ("{-1, 1}" if ctx.quick else "-1..1", ", ".join(to_tla(o) for o in C.ORDERS))}, requirement=True, workers=4)
    cov["BornCodec"] = {a: r2.coverage.get(a, (0, 0))[1] for a in ("Choose", "Write", "Parse")}
    ctx.extra.setdefault("coverage_actions_other", {}).update(cov)
    if any(v == 0 for d in cov.values() for v in d.values()):
        from harness.tlc import MachineryError
        raise MachineryError("an action of DatasetConv/BornCodec never fired: %s" % cov)
    # real code
    tmp = tempfile.mkdtemp(prefix="c16c_", dir=os.path.join(W.VERIF, ".run"))
    try:
        evs = C.conv_events(nprng, 60 if ctx.quick else 600) + C.hdf5_events(nprng, tmp, 18 if ctx.quick else 180)
    finally:
        shutil.rmtree(tmp, ignore_errors=True)
    for e in evs:
        ctx.count(("conv", e["route"], to_tla(e["x"])))
    ctx.traces += len(evs)
    routes = {}
    for e in evs:
        routes[e["route"]] = routes.get(e["route"], 0) + 1
    ctx.extra["conversion_events"] = routes
    res = ctx.tlc("MC_DatasetConvTrace", cfg_text=CFG_CONV,
                  extra_files={"MC_DatasetConvTrace.tla": MC_CONV % ",\n".join(to_tla({k: v for k, v in e.items()}) for e in evs)},
                  requirement=False, extra_args=("-continue",), workers=2)
    seen = set()
    for name, tr in res.violations:
        e = tr[-1][1].get("ev", {}) if tr else {}
        key = "codec:%s:%s" % (e.get("route", "?").split("/")[0], name)
        if key not in seen:
            seen.add(key)
            ctx.violation(key, "C16 %s fails on the real code (%s)" % (name, e.get("route")), dict(invariant=name, event=e))
    bevs = C.born_events(nprng, 24 if ctx.quick else 300, col=col)
    for route, err in C.ERRORS:
        ctx.violation("codec:%s:Raised" % route, "C16 phonopy raised where the specification expects success (%s): %s" % (route, err),
                      dict(route=route, error=err))
    del C.ERRORS[:]
    for e in bevs:
        ctx.count(("born", to_tla(e["gt"]), to_tla(e["ord"])))
    ctx.traces += len(bevs)
    ctx.extra["born_events"] = len(bevs)
    res = ctx.tlc("MC_BornCodecTrace", cfg_text=CFG_BORN,
                  extra_files={"MC_BornCodecTrace.tla": MC_BORN % ",\n".join(to_tla(e) for e in bevs)},
                  requirement=False, extra_args=("-continue",), workers=2)
    seen = set()
    for name, tr in res.violations:
        if name in seen:
            continue
        seen.add(name)
        e = tr[-1][1].get("ev", {}) if tr else {}
        ctx.violation("born:" + name, "C16 BORN write/parse: %s fails on the real code" % name, dict(invariant=name, event=e))


MC_COMPAT_MODEL = r"""---- MODULE MC_YamlCompat ----
EXTENDS YamlCompat
B == BOOLEAN
MCContents == {[nac |-> [present |-> p, factor |-> p /\ f, method |-> IF p THEN m ELSE "none"],
                ds |-> [type |-> t, forces |-> t # 0 /\ fo, energies |-> t # 0 /\ en], cells |-> cl] :
                 p \in B, f \in B, m \in {"none", "gonze", "wang"}, t \in {0, 1, 2}, fo \in B, en \in B, cl \in {"all", "unit"}}
MCLayouts == {[atoms |-> a, nacAt |-> n, dsAs |-> d, natom |-> k] :
                a \in {"points", "atoms"}, n \in {"nested", "top"}, d \in {"cur", "v223"}, k \in {"supercell", "key", "no"}}
====
"""
CFG_COMPAT_MODEL = """SPECIFICATION Spec
CONSTANTS
 Contents <- MCContents
 Layouts <- MCLayouts
CHECK_DEADLOCK FALSE
INVARIANT InvLayoutIndependent
INVARIANT InvLoads
"""
MC_COMPAT = """---- MODULE MC_YamlCompatTrace ----
EXTENDS YamlCompatTrace
MCEvents == {%s}
====
"""
CFG_COMPAT = """INIT TInit
NEXT TNext
CONSTANTS
 Contents = {}
 Layouts = {}
 Events <- MCEvents
CHECK_DEADLOCK FALSE
INVARIANT ImplLayoutIndependent
INVARIANT ImplLoads
INVARIANT ImplNumbers
INVARIANT ImplResave
INVARIANT ConformsGot
"""


def compat_layer(ctx):
    """older layouts of phonopy.yaml: the repository's fixtures (read-only) and re-laid-out files of the C16 world"""
    import tempfile, shutil, os
    from harness import c16_compat as K
    r = ctx.tlc("MC_YamlCompat", cfg_text=CFG_COMPAT_MODEL, extra_files={"MC_YamlCompat.tla": MC_COMPAT_MODEL},
                requirement=True, workers=4, coverage=True)
    cov = {a: r.coverage.get(a, (0, 0))[1] for a in ("Choose", "Write", "ParseDataset", "ParseNac")}
    ctx.extra.setdefault("coverage_actions_other", {})["YamlCompat"] = cov
    if any(v == 0 for v in cov.values()):
        from harness.tlc import MachineryError
        raise MachineryError("an action of YamlCompat never fired: %s" % cov)
    nprng = np.random.default_rng(ctx.seed + 31)
    tmp = tempfile.mkdtemp(prefix="c16k_", dir=os.path.join(W.VERIF, ".run"))
    try:
        evs = [K.fixture_event(p, tmp) for p in K.fixtures(bootstrap.REPO)]
        evs += K.legacy_events(nprng, 10 if ctx.quick else 120, tmp)
    finally:
        shutil.rmtree(tmp, ignore_errors=True)
    ctx.traces += len(evs)
    lay = {}
    for e in evs:
        ctx.count(("compat", e["name"]))
        k = "%s:%s" % (e["kindOf"], "-".join(str(e["ly"][x]) for x in ("atoms", "nacAt", "dsAs", "natom")))
        lay[k] = lay.get(k, 0) + 1
    ctx.extra["compat_events"] = dict(fixtures=sum(1 for e in evs if e["kindOf"] == "fixture"),
                                      relaid=sum(1 for e in evs if e["kindOf"] == "legacy"), layouts=lay,
                                      raised=sorted(set(e["obs"]["err"] for e in evs if e["obs"]["status"] != "ok")))
    tl = [dict(nm=e["name"], ly=e["ly"], ct=e["ct"], obs={k: v for k, v in e["obs"].items() if k != "err"}) for e in evs]
    res = ctx.tlc("MC_YamlCompatTrace", cfg_text=CFG_COMPAT,
                  extra_files={"MC_YamlCompatTrace.tla": MC_COMPAT % ",\n".join(to_tla(e) for e in tl)},
                  requirement=False, extra_args=("-continue",), workers=2)
    seen = set()
    for name, tr in res.violations:
        e = tr[-1][1].get("ev", {}) if tr else {}
        lk = "-".join(str((e.get("ly") or {}).get(x)) for x in ("atoms", "nacAt", "dsAs", "natom"))
        key = "compat:%s:%s" % (lk, name)
        if key in seen:
            continue
        seen.add(key)
        ctx.violation(key, "C16 older phonopy.yaml layout: %s fails for %s" % (name, e.get("nm")), dict(invariant=name, event=e))


ASSUMPTIONS = [
    "The original object is set up with its calculator's default unit factors (frequency factor; NAC factor when the "
    "NAC parameters carry none): load() always takes the calculator's defaults, frequency_unit_conversion_factor of the "
    "file is written but never read.",
    "No solver for type-2 datasets (symfc/alm) is installed: load(produce_fc=True) of a type-2 dataset without force "
    "constants raises ForceCalculatorRequiredError; SaveLoad.tla models it (HasFcSolver = FALSE) and the requirement on "
    "reloaded phonons is evaluated for type-1 datasets and for stored force constants.",
    "Phonons are compared as eigenvalues of the dynamical matrix (sign(f) f^2) at 5 q-points, relative tolerance 1e-9, against "
    "the original object with the masses rounded to the 6 written decimals; force constants produced from a reloaded dataset "
    "are compared with the same pipeline (produce + symmetrize, same layout) on the original dataset.",
    "PartialNAC: with only one of born_effective_charge / dielectric_constant switched on, save() writes half of the NAC "
    "parameters and load() ignores them (recorded, PartialNacLoadable reachable violation; not counted against C16).",
    "get_displacements_and_forces carries displacements and forces only (no energies): the lossless claim is about those.",
    "Text level: numbers with at most nine significant digits (short decimals / dyadic fractions, 1e-9 .. 1.2e6, both signs, "
    "signed zero); lines with other numbers are judged through error classes (half a unit of the last written decimal + 2 ulp) "
    "in SaveLoadTrace, not character by character.",
    "Crystal structure by argument(s): unitcell=, supercell=, unitcell_filename=, supercell_filename= in every combination, "
    "files in VASP or QE format against calculator= (the reader of the calculator ARGUMENT is used; a mismatch raises); the "
    "saved file is then not parsed at all (documented).  The calculator file codecs themselves are C17.",
    "Options that save() does not record (SaveLoad.tla, class 'not persisted'): factor - DECISION: not a violation of C16, the "
    "property claims the same phonons only 'with that calculator's default unit factor'; the check verifies that an own factor "
    "changes the reloaded frequencies by exactly default/own and nothing else (ImplPhononScale), and that load(factor=own) "
    "reproduces them.  store_dense_svecs: no observable effect.  is_symmetry: the persisted fields are reproduced; only force "
    "constants re-derived from a dataset follow the symmetry setting of load() (compared when the settings agree).  "
    "use_SNF_supercell and symprec: genuine findings (fixes/c16-snf-supercell-order.md, c16-symmetry-tolerance-not-read.md); "
    "the specification describes the repaired load(), PinnedLoad = TRUE the pinned one (violations recorded in pinned_load_model).",
    "Older layouts (YamlCompat.tla): all phonopy yaml fixtures of /repo/test with a unit cell and a supercell matrix (versions "
    "1.11 ... 2.3x: top-level NAC keys, type-2 dataset before 2.24, type-1 with and without forces/energies) and files of the C16 "
    "world re-laid-out by the harness ('atoms/position' cells, top-level NAC, v2.23 dataset, natom key); numbers compared with an "
    "independent PyYAML reading (identical), and the loaded object saved by the current code loads to the same calculation.",
    "Not modelled: pypolymlp, hdf5_settings (NotImplementedError), phono3py keys.",
]


def run(ctx):
    ctx.assumptions.extend(ASSUMPTIONS)
    ctx.rule = ("one case = one (object variant, save settings, compression, load arguments, ambient files) "
                "configuration of SaveLoad.tla realised on the real code; distinct configurations are counted")
    import os
    table = T.format_table(ctx)
    col = T.Collector(table)
    if ctx.replay_path:
        # ./check C16 --replay <file>: a save/load event is re-run alone (same configuration, same numbers);
        # for the other classes (text, codec, born) the file-level layers are re-run with the recorded seed
        import json
        with open(ctx.replay_path) as f:
            rp = json.load(f)
        e = (rp.get("detail") or {}).get("event") or {}
        if "eo" in e:
            cfg = dict(obj=e["eo"], st=e["es"], comp=e["ec"], args=e["ea"], env=e["ee"], big=e.get("big", False), zero=e.get("zero", False))
            events, texts, violated = saveload_layer(ctx, col, replay_cfgs=[(cfg, int(e.get("wseed", 0)))])
            return
        ctx.seed = int(rp.get("seed", ctx.seed))
        codec_layer(ctx, col)
        text_layer(ctx, col)
        return
    if not os.environ.get("C16_DEV_SKIP_MODEL"):
        model_layer(ctx)
    if os.environ.get("C16_DEV_ONLY_MODEL"):
        return
    events, texts, violated = saveload_layer(ctx, col)
    codec_layer(ctx, col)
    compat_layer(ctx)
    text_layer(ctx, col)
