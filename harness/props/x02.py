"""X02 (specification growth) - band unfolding of ideal supercells and atomic modulations.

(a) phonopy/unfolding/core.py: spec/Unfolding.tla (+Trace): translations, index map, commensurate
    points, character orthogonality / sum rule (exact, TLC), weights and frequencies of real runs.
(b) phonopy/phonon/modulation.py: spec/Modulation.tla (+Trace): dimension parsing, Bloch phase
    classes (exact, TLC), amplitude / argument / eigenvector / positions / additivity of real runs.
Shared exact arithmetic: spec/Phases12.tla.  Real-valued primitives: harness/c19_num.py.
"""
from __future__ import annotations

import contextlib
import io
import os
import random
import tempfile
import warnings
from fractions import Fraction

import numpy as np

from harness import bootstrap  # noqa: F401
from harness import c19_num as num
from harness import tlc as tlcmod
from harness.oracle import Oracle
from harness.tla_values import to_tla

from phonopy import Phonopy
from phonopy.unfolding.core import Unfolding

TOL = 1000          # units of 1e-12 (1e-9); observed on the unchanged tree <= 1e-13
CAP = 10 ** 9
PINV = {None: [[1, 0, 0], [0, 1, 0], [0, 0, 1]], "F": [[-1, 1, 1], [1, -1, 1], [1, 1, -1]], "I": [[0, 1, 1], [1, 0, 1], [1, 1, 0]]}


def units(err):
    if err is None:
        return 0
    if not np.isfinite(err):
        return CAP
    return int(min(CAP, np.ceil(err / 1e-12)))


def det3(m):
    m = [[int(x) for x in r] for r in m]
    return (m[0][0] * (m[1][1] * m[2][2] - m[1][2] * m[2][1]) - m[0][1] * (m[1][0] * m[2][2] - m[1][2] * m[2][0])
            + m[0][2] * (m[1][0] * m[2][1] - m[1][1] * m[2][0]))


def adj3(M):
    M = np.array(M, dtype=object)
    c = np.zeros((3, 3), dtype=object)
    for i in range(3):
        for j in range(3):
            r = [k for k in range(3) if k != i]
            s = [k for k in range(3) if k != j]
            c[i, j] = (-1) ** (i + j) * (M[r[0]][s[0]] * M[r[1]][s[1]] - M[r[0]][s[1]] * M[r[1]][s[0]])
    return c.T


def hnf_matrices(nmax):
    out = []
    for n in range(1, nmax + 1):
        for a in range(1, n + 1):
            if n % a:
                continue
            for c in range(1, n // a + 1):
                if (n // a) % c:
                    continue
                f = n // a // c
                for b in range(c):
                    for d in range(f):
                        for e in range(f):
                            out.append([[a, 0, 0], [b, c, 0], [d, e, f]])
    return out


def project_sites(x_prim, symbols):
    """primitive coordinates of supercell atoms -> [(atom class a (1-based), integer lattice vector l)];
    classes by fractional part and symbol, in order of first appearance; returns also the residual."""
    reps = []
    out = []
    resid = 0.0
    for x, sy in zip(np.asarray(x_prim, dtype=float), symbols):
        hit = None
        for a, (tau, s0) in enumerate(reps):
            d = x - tau
            if s0 == sy and np.abs(d - np.rint(d)).max() < 1e-6:
                hit = a
                break
        if hit is None:
            reps.append((x - np.floor(x + 1e-9), sy))
            hit = len(reps) - 1
        d = x - reps[hit][0]
        resid = max(resid, float(np.abs(d - np.rint(d)).max()))
        out.append(dict(a=hit + 1, l=[int(v) for v in np.rint(d)]))
    return out, len(reps), resid


def judge(ctx, tag, module, cfg, mc_text, witness_of, coverage=False):
    res = ctx.tlc(module, cfg_text=cfg, extra_files={module + ".tla": mc_text}, requirement=False,
                  extra_args=("-continue",), keep=True, coverage=coverage)
    violated = sorted(set(n for n, _ in res.violations))
    witness = {}
    for n, tr in res.violations:
        if n not in witness and tr:
            witness[n] = witness_of(tr[-1][1].get("ev", {}))
    ctx.extra[tag + "_violated_invariants"] = sorted(set(ctx.extra.get(tag + "_violated_invariants", [])) | set(violated))
    if res.coverage:
        ctx.extra[tag + "_action_coverage"] = {k: v[1] for k, v in res.coverage.items()}
    if res.violated and not violated:
        raise tlcmod.MachineryError("TLC reported %s on %s\n%s" % (res.violated, module, res.stdout[-2000:]))
    chk = [v for v in violated if v.startswith("Check")]
    if chk:
        raise tlcmod.MachineryError("self-check %s failed in %s: %s" % (chk, module, [witness.get(v) for v in chk]))
    req = [v for v in violated if v.startswith("Impl") or v.startswith("Inv") or v == "TypeOK"]
    for v in req:
        ctx.violation(tag + ":" + v, "X02 requirement %s fails on the implementation's result" % v,
                      dict(invariant=v, witness=witness.get(v)))
    drift = [v for v in violated if v.startswith("Conforms")]
    if drift and not req:
        ctx.extra["SPEC-DRIFT-" + tag] = dict(invariants=drift, witness={v: witness.get(v) for v in drift})
        print("SPEC-DRIFT X02 %s: %s (requirement intact)" % (tag, drift))
    tlcmod.cleanup(res)
    return res


# ---------------------------------------------------------------------------
# (a) unfolding
# ---------------------------------------------------------------------------
UNF_QUICK = [
    ("cscl", [[2, 0, 0], [0, 2, 0], [0, 0, 1]], None), ("tric", [[2, 1, 0], [0, 1, 0], [0, 0, 2]], None),
    ("sc", [[3, 0, 0], [0, 3, 0], [0, 0, 1]], None), ("tric", [[3, 0, 0], [0, 1, 0], [0, 0, 1]], None),
    ("bcc", [[2, 0, 0], [0, 2, 0], [0, 0, 2]], "I"), ("tetab", [[1, 1, 0], [-1, 1, 0], [0, 0, 3]], None),
    ("sc", [[2, 1, 0], [0, 2, 0], [0, 0, 1]], None),
]
UNF_MORE = [
    ("hcp", [[2, 1, 0], [1, 2, 0], [0, 0, 1]], None), ("hcp", [[2, 0, 0], [0, 2, 0], [0, 0, 1]], None),
    ("nacl", [[1, 0, 0], [0, 1, 0], [0, 0, 1]], "F"), ("tric", [[2, 0, 0], [0, 2, 0], [0, 0, 2]], None),
    ("sc", [[5, 0, 0], [0, 1, 0], [0, 0, 1]], None), ("cscl", [[3, 0, 0], [0, 1, 0], [0, 0, 2]], None),
    ("tetab", [[2, 0, 0], [0, 2, 0], [0, 0, 1]], None), ("sc", [[4, 0, 0], [0, 4, 0], [0, 0, 1]], None),
    ("wz", [[2, 0, 0], [0, 2, 0], [0, 0, 2]], None),
]
# wave vectors of the primitive zone as fractions: generic, zone boundary, Gamma, on a commensurate point
UNF_QPOINTS = [[Fraction(1, 10), Fraction(23, 100), Fraction(-37, 100)], [Fraction(1, 2), Fraction(0), Fraction(0)],
               [Fraction(0), Fraction(0), Fraction(0)], [Fraction(1, 3), Fraction(1, 3), Fraction(0)],
               [Fraction(3, 8), Fraction(-1, 5), Fraction(2, 7)]]


def comm_points_by_definition(Sp):
    n = abs(det3(Sp))
    cols = [[Sp[i][j] for i in range(3)] for j in range(3)]
    return [(x, y, z) for x in range(n) for y in range(n) for z in range(n)
            if all((x * c[0] + y * c[1] + z * c[2]) % n == 0 for c in cols)], n


def groups_of(vals, scale):
    order = np.argsort(vals)
    groups, cur = [], [order[0]]
    for i in order[1:]:
        if abs(vals[i] - vals[cur[-1]]) <= 1e-7 * scale:
            cur.append(i)
        else:
            groups.append(cur)
            cur = [i]
    groups.append(cur)
    return groups


def unfolding_events(ctx, orc, entry, S, cent):
    Sp = (np.array(PINV[cent]) @ np.array(S)).tolist()
    N = abs(det3(Sp))
    with contextlib.redirect_stdout(io.StringIO()):
        ph = Phonopy(orc.unitcell(), supercell_matrix=S, primitive_matrix=cent, log_level=0)
        fc = orc.supercell_fc(S, ph.supercell)
        ph.force_constants = fc.copy()
    sc, prim = ph.supercell, ph.primitive
    n = len(sc)
    ss = num.SuperSeries(fc, sc.positions, sc.cell, sc.masses, prim.cell, prim.positions)
    ideal = np.array(sc.scaled_positions)
    sites, na, resid = project_sites(ideal @ np.array(Sp, dtype=float).T, sc.symbols)
    if resid > 1e-6 or na != len(prim):
        raise tlcmod.MachineryError("projection of ideal positions failed (%g, %d classes)" % (resid, na))
    pts, _ = comm_points_by_definition(Sp)
    Gs = [np.array(p, dtype=float) / N for p in pts]
    qs = UNF_QPOINTS if ctx.quick else UNF_QPOINTS + [[Fraction(1, 4), Fraction(1, 4), Fraction(1, 2)],
                                                       [Fraction(-2, 9), Fraction(1, 9), Fraction(4, 9)]]
    events, infos = [], []
    label0 = "%s S=%s P=%s" % (entry, S, cent)
    try:
        with contextlib.redirect_stdout(io.StringIO()):
            unf = Unfolding(ph, Sp, ideal, list(range(n)), np.array([[float(x) for x in q] for q in qs]))
            unf.run()
        trans = np.array(unf._trans_p)
        comm = np.array(unf.commensurate_points) * N
        if np.abs(trans - np.rint(trans)).max() > 1e-6 or np.abs(comm - np.rint(comm)).max() > 1e-6:
            raise AssertionError("translations / commensurate points are not lattice points")
        base = dict(S=Sp, na=na, trans=[[int(v) for v in t] for t in np.rint(trans)], sites=sites,
                    imap=[[int(k) + 1 for k in row] for row in unf._index_map_inv],
                    comm=[[int(v) % N for v in p] for p in np.rint(comm)])
        for iq, q in enumerate(qs):
            qf = np.array([float(x) for x in q])
            qS = [sum(q[i] * Sp[i][j] for i in range(3)) for j in range(3)]
            m = [int(np.floor(x + Fraction(1, 2))) for x in qS]
            for x, mm in zip(qS, m):      # rint of the code must be unambiguous: no ties
                if abs(abs(x - mm) - Fraction(1, 2)) < Fraction(1, 10 ** 6):
                    m = None
            if m is None:
                continue
            w = np.array(unf.unfolding_weights[iq])
            f = np.array(unf.frequencies[iq])
            lam = f * np.abs(f)
            scale = max(np.abs(lam).max(), 1e-300)
            prim_lams = [np.array(ss.modes(qf + G)[0]) for G in Gs]
            prim_lams = [x * np.abs(x) for x in prim_lams]
            e_freq = float(np.abs(np.sort(lam) - np.sort(np.concatenate(prim_lams))).max() / scale)
            grp = groups_of(lam, scale)
            e_grp = 0.0
            for g in grp:
                cnt = int(np.sum(np.abs(prim_lams[0] - lam[g].mean()) <= 3e-7 * scale))
                e_grp = max(e_grp, abs(float(w[g].sum()) - cnt))
            e_range = float(max(0.0, -w.min(), w.max() - 1.0))
            e_total = abs(float(w.sum()) - 3 * na)
            # sum rule: the same supercell modes seen from q + G for every commensurate G
            with contextlib.redirect_stdout(io.StringIO()):
                un2 = Unfolding(ph, Sp, ideal, list(range(n)), np.array([qf + G for G in Gs]))
                un2.run()
            W = np.array(un2.unfolding_weights)
            e_sum = 0.0
            for k in range(len(Gs)):
                lam_k = np.array(un2.frequencies[k])
                lam_k = lam_k * np.abs(lam_k)
                e_sum = max(e_sum, float(np.abs(np.sort(lam_k) - np.sort(lam)).max() / scale))
            order = [np.argsort(un2.frequencies[k] * np.abs(un2.frequencies[k])) for k in range(len(Gs))]
            srt = np.argsort(lam)
            pos = {int(j): r for r, j in enumerate(srt)}
            for g in grp:
                ranks = [pos[int(j)] for j in g]
                tot = sum(float(W[k][order[k][ranks]].sum()) for k in range(len(Gs)))
                e_sum = max(e_sum, abs(tot - len(g)))
            ev = dict(base, m=m, q=[str(x) for x in q], label=label0, ngroups=len(grp),
                      num=dict(wgrp=units(e_grp), wrange=units(e_range), total=units(e_total), sumg=units(e_sum),
                               freq=units(e_freq)))
            events.append(ev)
            infos.append(dict(label=label0, q=[str(x) for x in q], N=N, natoms=n, groups=len(grp),
                              err=dict(wgrp=e_grp, wrange=e_range, total=e_total, sumg=e_sum, freq=e_freq)))
            ctx.count(("unfolding", entry, str(S), str(cent), str(q)))
    except tlcmod.MachineryError:
        raise
    except Exception as e:
        ctx.violation("unfolding:exception", "Unfolding raised %s on an ideal supercell" % type(e).__name__,
                      dict(label=label0, exception="%s: %s" % (type(e).__name__, e)))
    return events, infos


MC_UNF = """---- MODULE MC_Unfolding ----
EXTENDS Unfolding
MCSSpace == {%s}
MCNAs == {1, 2}
MCMSpace == {<<0, 0, 0>>, <<1, 0, 0>>, <<1, 2, -1>>}
====
"""
CFG_UNF = """SPECIFICATION Spec
CONSTANTS
 SSpace <- MCSSpace
 NAs <- MCNAs
 MSpace <- MCMSpace
CHECK_DEADLOCK FALSE
INVARIANT TypeOK
INVARIANT InvIndexMap
INVARIANT InvOrthogonality
INVARIANT InvGFound
INVARIANT InvWeights
INVARIANT InvSumRule
"""
MC_UNFT = """---- MODULE MC_UnfoldingTrace ----
EXTENDS UnfoldingTrace
MCSSpace == {}
MCNAs == {1}
MCMSpace == {}
MCEvents == {%s}
MCTol == %d
====
"""
CFG_UNFT = """INIT TInit
NEXT TNext
CONSTANTS
 SSpace <- MCSSpace
 NAs <- MCNAs
 MSpace <- MCMSpace
 Events <- MCEvents
 Tol <- MCTol
CHECK_DEADLOCK FALSE
INVARIANT TypeOK
INVARIANT InvIndexMap
INVARIANT InvGFound
INVARIANT InvWeights
INVARIANT ImplTranslations
INVARIANT ImplCommPoints
INVARIANT ImplIndexMap
INVARIANT ImplOrthogonality
INVARIANT ImplSumRuleExact
INVARIANT ImplWeights
INVARIANT ImplSumRule
INVARIANT ImplFrequencies
INVARIANT CheckNonVacuous
INVARIANT ConformsIndexMap
"""


def run_unfolding_model(ctx):
    rng = random.Random(11 * ctx.seed + 1)
    mats = hnf_matrices(4 if ctx.quick else 6)
    if ctx.quick:
        big = [m for m in mats if det3(m) == 4]
        rng.shuffle(big)
        mats = [m for m in mats if det3(m) < 4] + big[:12]
    mats = mats + [[[1, 1, 0], [-1, 1, 0], [0, 0, 3]], [[-2, 0, 0], [0, 1, 0], [0, 0, 1]], [[0, 2, 0], [1, 0, 0], [0, 0, 1]]]
    mc = MC_UNF % ", ".join(to_tla(m) for m in mats)
    res = ctx.tlc("MC_Unfolding", cfg_text=CFG_UNF, extra_files={"MC_Unfolding.tla": mc}, requirement=True, coverage=True,
                  what="the unfolding machine violates its requirement on the exact model")
    cov = {k: v[1] for k, v in res.coverage.items()}
    ctx.extra["unfolding_model"] = dict(supercells=len(mats), action_coverage=cov)
    if not res.violated:
        for a in ("ChooseWith", "SetIndexMap", "FindG", "Project"):   # TLC names the innermost definition
            if cov.get(a, 0) == 0:
                raise tlcmod.MachineryError("action %s of Unfolding never fired" % a)
    for m in mats:
        ctx.count(("unfolding-model", to_tla(m)))


def run_unfolding(ctx, oracles):
    cases = list(UNF_QUICK) + ([] if ctx.quick else UNF_MORE)
    events, worst = [], {}
    for entry, S, cent in cases:
        evs, infos = unfolding_events(ctx, oracles[entry], entry, S, cent)
        events += evs
        for info in infos:
            for k, v in info["err"].items():
                worst[k] = max(worst.get(k, 0.0), v)
        if infos and len(ctx.samples) < 2:
            ctx.sample(infos[0])
    ctx.traces += len(events)
    ctx.extra["unfolding_events"] = len(events)
    ctx.extra["unfolding_worst_deviation"] = worst
    if worst and max(worst.values()) > 1e-3 * TOL * 1e-12 and max(worst.values()) <= TOL * 1e-12:
        raise tlcmod.MachineryError("unfolding deviation %g too close to the tolerance" % max(worst.values()))
    if not events:
        return

    def wit(e):
        return dict(label=e.get("label"), q=e.get("q"), m=e.get("m"), S=e.get("S"), num=e.get("num"))

    # binding demonstration: corrupted copies must be rejected
    import copy
    src = events[0]
    bad = []
    e = copy.deepcopy(src); e["imap"][1][0], e["imap"][1][1] = e["imap"][1][1], e["imap"][1][0]; e["label"] = "corrupt:imap"; bad.append(e)
    e = copy.deepcopy(src); e["comm"][-1] = list(e["comm"][0]); e["label"] = "corrupt:comm"; bad.append(e)
    e = copy.deepcopy(src); e["num"]["wgrp"] = TOL + 1; e["label"] = "corrupt:weights"; bad.append(e)
    r = tlcmod.run("MC_UnfoldingTrace", cfg_text=CFG_UNFT, extra_args=("-continue",), workers=2,
                   extra_files={"MC_UnfoldingTrace.tla": MC_UNFT % (",\n".join(to_tla(x) for x in [src] + bad), TOL)})
    tlcmod.cleanup(r)
    got = {}
    for nm, tr in r.violations:
        if tr:
            got.setdefault(tr[-1][1].get("ev", {}).get("label"), set()).add(nm)
    if src["label"] not in got:
        need = {"corrupt:imap": "ImplIndexMap", "corrupt:comm": "ImplCommPoints", "corrupt:weights": "ImplWeights"}
        miss = [k for k, v in need.items() if v not in got.get(k, set())]
        ctx.extra["unfolding_trace_self_check"] = {k: sorted(v) for k, v in got.items()}
        if miss:
            raise tlcmod.MachineryError("corrupted unfolding traces accepted: %s" % miss)
    mc = MC_UNFT % (",\n".join(to_tla(e) for e in events), TOL)
    res = judge(ctx, "unfolding", "MC_UnfoldingTrace", CFG_UNFT, mc, wit, coverage=not ctx.quick)
    ndist = len(set(to_tla(e) for e in events))
    if not res.violations and res.distinct != 7 * ndist:
        raise tlcmod.MachineryError("unfolding trace validation incomplete: %d states for %d events" % (res.distinct, ndist))


# ---------------------------------------------------------------------------
# (b) modulation
# ---------------------------------------------------------------------------
# (entry, S, centring, dimension argument (form, value), integer vectors k with q = M^-T k, delta_q)
MOD_QUICK = [
    ("cscl", [[2, 0, 0], [0, 2, 0], [0, 0, 2]], None, ("3", [2, 2, 1]), [[1, 1, 0], [1, 0, 0]], None),
    ("tric", [[2, 1, 0], [0, 2, 0], [0, 0, 1]], None, ("3x3", [[2, 1, 0], [0, 3, 0], [0, 0, 1]]), [[1, 1, 0], [0, 2, 0]], None),
    ("tric", [[2, 1, 0], [0, 2, 0], [0, 0, 1]], None, ("9", [1, 1, 0, -1, 1, 0, 0, 0, 2]), [[1, 0, 1]], None),
    ("bcc", [[2, 0, 0], [0, 2, 0], [0, 0, 2]], "I", ("3", [2, 2, 2]), [[1, 0, 1]], [1, 0, 0]),
    ("sc", [[3, 0, 0], [0, 3, 0], [0, 0, 1]], None, ("3", [3, 4, 1]), [[1, 1, 0], [2, 3, 0]], None),
    ("tetab", [[2, 0, 0], [0, 2, 0], [0, 0, 1]], None, ("3", [2, 1, 3]), [[1, 0, 1]], None),
    ("cscl", [[2, 0, 0], [0, 2, 0], [0, 0, 2]], None, ("bad", [2, 2]), [[0, 0, 0]], None),
]
MOD_MORE = [
    ("hcp", [[3, 0, 0], [0, 3, 0], [0, 0, 2]], None, ("3", [3, 3, 1]), [[1, 1, 0], [1, 2, 0]], None),
    ("wz", [[2, 0, 0], [0, 2, 0], [0, 0, 2]], None, ("3", [2, 2, 1]), [[1, 0, 0], [1, 1, 0]], None),
    ("nacl", [[1, 0, 0], [0, 1, 0], [0, 0, 2]], "F", ("3", [2, 2, 2]), [[1, 1, 1], [1, 0, 0]], None),
    ("tric", [[2, 0, 0], [0, 2, 0], [0, 0, 2]], None, ("3x3", [[2, 0, 1], [0, 2, 0], [-1, 0, 1]]), [[1, 1, 0], [1, 0, 1]], [0, 1, 0]),
    ("sc", [[4, 0, 0], [0, 4, 0], [0, 0, 1]], None, ("3", [6, 2, 1]), [[1, 1, 0], [5, 0, 0]], None),
    ("tetab", [[3, 0, 0], [0, 2, 0], [0, 0, 1]], None, ("9", [3, 0, 0, 0, 2, 0, 0, 0, 2]), [[1, 1, 1], [2, 0, 1]], None),
]
ARGS = [0.0, 30.0, 90.0, 217.5, -45.0]
AMPS = [1.0, 2.0, 0.35]


def dim_matrix(form, val):
    if form == "3":
        return np.diag(val)
    if form == "9":
        return np.array(val).reshape(3, 3)
    if form == "3x3":
        return np.array(val)
    return np.eye(3, dtype=int)


def read_poscar_positions(path):
    from phonopy.interface.vasp import read_vasp

    return np.array(read_vasp(path).scaled_positions)


def modulation_events(ctx, orc, case, rng):
    entry, S, cent, (form, val), ks, delta_q = case
    label0 = "%s S=%s P=%s dim=%s:%s delta_q=%s" % (entry, S, cent, form, val, delta_q)
    with contextlib.redirect_stdout(io.StringIO()):
        ph = Phonopy(orc.unitcell(), supercell_matrix=S, primitive_matrix=cent, log_level=0)
        fc = orc.supercell_fc(S, ph.supercell)
        ph.force_constants = fc.copy()
    prim = ph.primitive
    ss = num.SuperSeries(fc, ph.supercell.positions, ph.supercell.cell, ph.supercell.masses, prim.cell, prim.positions)
    M = dim_matrix(form, val)
    d = det3(M.tolist())
    adjT = np.array(adj3(M.tolist())).T
    nb = 3 * len(prim)
    modes, waves = [], []
    for k in ks:
        qn = [int(x) * (1 if d > 0 else -1) for x in adjT @ np.array(k, dtype=object)]
        qd = abs(d)
        q = [float(Fraction(x, qd)) for x in qn]
        for band in sorted(set([0, rng.randrange(nb), nb - 1])):
            modes.append([q, band, rng.choice(AMPS), rng.choice(ARGS)])
            waves.append(dict(qn=qn, qd=qd))
    arg = val if form != "3x3" else [list(r) for r in val]
    events, infos = [], []
    try:
        cwd = os.getcwd()
        with tempfile.TemporaryDirectory() as tmp, contextlib.redirect_stdout(io.StringIO()):
            os.chdir(tmp)
            try:
                ph.run_modulations(arg, [list(m) for m in modes], delta_q=delta_q)
                u, sc = ph.get_modulations_and_supercell()
                u = np.array(u)
                cells = ph.get_modulated_supercells()
                ph.write_modulations()
                written = dict(total=read_poscar_positions("MPOSCAR"), orig=read_poscar_positions("MPOSCAR-orig"),
                               each=[read_poscar_positions("MPOSCAR-%03d" % (i + 1)) for i in range(len(modes))])
            finally:
                os.chdir(cwd)
        Mlog = np.array(sc.supercell_matrix).astype(int)
        spos = np.array(sc.scaled_positions)
        xp = spos @ Mlog.T
        sites, na, resid = project_sites(xp, sc.symbols)
        if resid > 1e-6:
            raise AssertionError("modulation supercell atoms are not on primitive sites")
        masses = np.array(sc.masses)
        Na = len(sc)
        Linv = np.linalg.inv(np.array(sc.cell))
        first = {}
        for j, st in enumerate(sites):
            first.setdefault(st["a"], j)

        def wrap(x):
            return (x + 0.5) % 1.0 - 0.5

        # POSCAR files list the atoms grouped by species (order of first appearance, stable)
        seen = []
        for sy in sc.symbols:
            if sy not in seen:
                seen.append(sy)
        perm = [j for sy in seen for j in range(Na) if sc.symbols[j] == sy]
        e_add = float(np.abs(wrap(written["total"] - (spos + u.real.sum(axis=0) @ Linv)[perm])).max())
        e_add = max(e_add, float(np.abs(wrap(written["orig"] - spos[perm])).max()))
        for i, (q, band, A, argd) in enumerate(modes):
            qv = np.array(q)
            per = u[i] * np.sqrt(Na * masses)[:, None] / A * np.exp(-2j * np.pi * (xp @ qv))[:, None]
            evec = np.zeros(3 * na, dtype=complex)
            e_spread = 0.0
            for j, st in enumerate(sites):
                f0 = first[st["a"]]
                e_spread = max(e_spread, float(np.abs(per[j] - per[f0]).max()))
                if j == f0:
                    evec[3 * (st["a"] - 1):3 * st["a"]] = per[j]
            # SuperSeries orders primitive atoms as the real Primitive does; match classes by position
            order = []
            ppos = np.array(prim.scaled_positions)
            for a in range(na):
                x = xp[first[a + 1]]
                order.append([k for k in range(len(prim)) if np.abs(wrap(x - ppos[k])).max() < 1e-6][0])
            ev2 = np.zeros_like(evec)
            for a in range(na):
                ev2[3 * order[a]:3 * order[a] + 3] = evec[3 * a:3 * a + 3]
            D = ss.dynmat(qv)
            lam = np.linalg.eigvalsh(D)
            scale = max(np.abs(lam).max(), 1e-300)
            e_norm = abs(float(np.linalg.norm(ev2)) - 1.0)
            e_eig = float(np.abs(D @ ev2 - lam[band] * ev2).max() / scale)
            e_frq = abs(float(ph._modulation._eigvals[i]) - float(lam[band])) / scale
            flat = u[i].ravel()
            top = np.abs(flat).max()
            cand = [z for z in flat if abs(z) >= top * (1 - 1e-9)]
            e_arg = min(abs(np.angle(z * np.exp(-1j * np.pi * argd / 180.0))) for z in cand) / (2 * np.pi)
            e_pos = float(np.abs(wrap(np.array(cells[i].scaled_positions) - (spos + u[i].real @ Linv))).max())
            e_pos = max(e_pos, float(np.abs(wrap(written["each"][i] - (spos + u[i].real @ Linv)[perm])).max()))
            rel, mv, exact = [], [], True
            for j, st in enumerate(sites):
                f0 = first[st["a"]]
                nrm = float(np.vdot(u[i][f0], u[i][f0]).real)
                if nrm <= 1e-24 * top * top:
                    rel.append(0)
                    mv.append(False)
                    continue
                t = np.angle(np.vdot(u[i][f0], u[i][j])) / (2 * np.pi) * 12
                if abs(t - np.rint(t)) > 12e-9:
                    exact = False
                rel.append(int(np.rint(t)) % 12)
                mv.append(True)
            ev = dict(arg=dict(form=form, val=arg), Mlog=Mlog.tolist(), na=na, wave=waves[i], sites=sites, rel=rel, mv=mv,
                      exact=bool(exact), label=label0, mode="band=%d A=%g arg=%g" % (band, A, argd),
                      num=dict(spread=units(e_spread), norm=units(e_norm), eigen=units(e_eig), freq=units(e_frq),
                               arg=units(e_arg), pos=units(e_pos), add=units(e_add)))
            events.append(ev)
            infos.append(dict(label=label0, q=q, band=band, A=A, argument=argd, natoms=Na,
                              err=dict(spread=e_spread, norm=e_norm, eigen=e_eig, freq=e_frq, arg=e_arg, pos=e_pos, add=e_add)))
            ctx.count(("modulation", label0, str(q), band, A, argd))
    except tlcmod.MachineryError:
        raise
    except Exception as e:
        ctx.violation("modulation:exception", "run_modulations raised %s on a valid input" % type(e).__name__,
                      dict(label=label0, exception="%s: %s" % (type(e).__name__, e)))
    return events, infos


MC_MOD = """---- MODULE MC_Modulation ----
EXTENDS Modulation
MCDimArgs == {[form |-> "3", val |-> <<2, 2, 1>>], [form |-> "3", val |-> <<3, 1, 2>>],
              [form |-> "9", val |-> <<2, 1, 0, 0, 2, 0, 0, 0, 1>>],
              [form |-> "3x3", val |-> <<<<1, 1, 0>>, <<-1, 1, 0>>, <<0, 0, 3>>>>],
              [form |-> "bad", val |-> <<2, 2>>]}
MCWaves == {[qn |-> <<1, 1, 0>>, qd |-> 2], [qn |-> <<1, 0, 2>>, qd |-> 3], [qn |-> <<1, 2, 0>>, qd |-> 4],
            [qn |-> <<1, 1, 1>>, qd |-> 6], [qn |-> <<0, 0, 0>>, qd |-> 1], [qn |-> <<1, 0, 5>>, qd |-> 12]}
MCEigs == {<<[r |-> 3, k |-> 4]>>, <<[r |-> 3, k |-> 5], [r |-> 4, k |-> 11]>>, <<[r |-> 0, k |-> 0], [r |-> 5, k |-> 2]>>,
           <<[r |-> 2, k |-> 7], [r |-> 3, k |-> 1]>>}
MCMasses == <<4, 9>>
MCAmps == {1, 2}
MCPhis == {0, 1, 7}
====
"""
CFG_MOD = """SPECIFICATION Spec
CONSTANTS
 DimArgs <- MCDimArgs
 Waves <- MCWaves
 Eigs <- MCEigs
 Masses <- MCMasses
 Amps <- MCAmps
 Phis <- MCPhis
CHECK_DEADLOCK FALSE
INVARIANT TypeOK
INVARIANT InvDimension
INVARIANT InvBloch
INVARIANT InvPeriodic
INVARIANT InvModulus
INVARIANT InvArgument
"""
MC_MODT = """---- MODULE MC_ModulationTrace ----
EXTENDS ModulationTrace
MCDimArgs == {}
MCWaves == {}
MCEigs == {}
MCMasses == <<1, 1, 1, 1, 1, 1, 1, 1>>
MCAmps == {}
MCPhis == {}
MCEvents == {%s}
MCTol == %d
====
"""
CFG_MODT = """INIT TInit
NEXT TNext
CONSTANTS
 DimArgs <- MCDimArgs
 Waves <- MCWaves
 Eigs <- MCEigs
 Masses <- MCMasses
 Amps <- MCAmps
 Phis <- MCPhis
 Events <- MCEvents
 Tol <- MCTol
CHECK_DEADLOCK FALSE
INVARIANT TypeOK
INVARIANT InvDimension
INVARIANT InvBloch
INVARIANT InvPeriodic
INVARIANT ImplDimension
INVARIANT ImplSites
INVARIANT ImplCommensurate
INVARIANT ImplBloch
INVARIANT ImplPeriodicPart
INVARIANT ImplAmplitude
INVARIANT ImplEigenvector
INVARIANT ImplArgument
INVARIANT ImplPositions
INVARIANT ImplAdditive
INVARIANT ConformsBloch
"""


def run_modulation_model(ctx):
    res = ctx.tlc("MC_Modulation", cfg_text=CFG_MOD, extra_files={"MC_Modulation.tla": MC_MOD}, requirement=True, coverage=True,
                  what="the modulation machine violates its requirement on the exact model")
    cov = {k: v[1] for k, v in res.coverage.items()}
    ctx.extra["modulation_model"] = dict(action_coverage=cov)
    if not res.violated:
        for a in ("ChooseWith", "ParseDimension", "Displace", "Normalise"):
            if cov.get(a, 0) == 0:
                raise tlcmod.MachineryError("action %s of Modulation never fired" % a)
    ctx.count(("modulation-model", res.distinct), n=max(res.distinct // 6, 1))


def run_modulation(ctx, oracles):
    rng = random.Random(11 * ctx.seed + 2)
    cases = list(MOD_QUICK) + ([] if ctx.quick else MOD_MORE)
    events, worst = [], {}
    for case in cases:
        evs, infos = modulation_events(ctx, oracles[case[0]], case, rng)
        events += evs
        for info in infos:
            for k, v in info["err"].items():
                worst[k] = max(worst.get(k, 0.0), v)
        if infos and len(ctx.samples) < 4:
            ctx.sample(infos[-1])
    ctx.traces += len(events)
    ctx.extra["modulation_events"] = len(events)
    ctx.extra["modulation_worst_deviation"] = worst
    if worst and max(worst.values()) > 1e-3 * TOL * 1e-12 and max(worst.values()) <= TOL * 1e-12:
        raise tlcmod.MachineryError("modulation deviation %g too close to the tolerance" % max(worst.values()))
    if not events:
        return

    def wit(e):
        return dict(label=e.get("label"), wave=e.get("wave"), mode=e.get("mode"), num=e.get("num"), exact=e.get("exact"))

    mc = MC_MODT % (",\n".join(to_tla(e) for e in events), TOL)
    res = judge(ctx, "modulation", "MC_ModulationTrace", CFG_MODT, mc, wit, coverage=not ctx.quick)
    ndist = len(set(to_tla(e) for e in events))
    if not res.violations and res.distinct != 6 * ndist:
        raise tlcmod.MachineryError("modulation trace validation incomplete: %d states for %d events" % (res.distinct, ndist))


def build_oracles(ctx):
    by_entry = {}
    cases = [(c[0], c[1]) for c in UNF_QUICK + MOD_QUICK + ([] if ctx.quick else UNF_MORE + MOD_MORE)]
    for entry, S in cases:
        by_entry.setdefault(entry, [])
        if S not in by_entry[entry]:
            by_entry[entry].append(S)
    return {e: Oracle(e, sorted(m), seed=ctx.seed + 9, ctx=ctx) for e, m in sorted(by_entry.items())}


def run(ctx):
    warnings.simplefilter("ignore")
    np.seterr(all="ignore")
    ctx.rule = ("unfolding: every (crystal, supercell, centring, wave vector) of an ideal supercell, plus every supercell "
                "matrix x atoms per cell x folding vector of the exact model; modulation: every (crystal, dimension "
                "argument, commensurate q, band, amplitude, argument) mode, plus every behaviour of the exact model")
    only = None
    if ctx.replay_path:       # ./check X02 --replay <file>: same tier and seed, the part that produced the violation
        import json
        with open(ctx.replay_path) as f:
            rec = json.load(f)
        ctx.tier, ctx.seed = rec.get("tier", ctx.tier), rec.get("seed", ctx.seed)
        only = "unfolding" if "nfolding" in rec.get("key", "") else "modulation"
        print("replaying %s: %s" % (rec.get("key"), json.dumps(rec.get("detail", {}).get("witness", rec.get("detail")), default=str)[:500]))
    oracles = build_oracles(ctx)
    if only == "unfolding":
        run_unfolding_model(ctx)
        return run_unfolding(ctx, oracles)
    if only == "modulation":
        run_modulation_model(ctx)
        return run_modulation(ctx, oracles)
    run_unfolding_model(ctx)
    run_unfolding(ctx, oracles)
    run_modulation_model(ctx)
    run_modulation(ctx, oracles)
    ctx.exhaustive = False
    ctx.assumptions += [
        "real-valued primitives (eigh, exp, phases outside twelfths of a turn) are interpreted by numpy on the exact "
        "spring-model force constants; dynamical matrices are rebuilt by the harness (minimum-image averaging), the real "
        "code's are not used as reference",
        "cell geometry of the real Supercell/Primitive objects is trusted (C04); POSCAR reading by phonopy's reader (C17)",
        "ideal supercells only (no vacancies/interstitials); no non-analytical term correction",
        "modulation amplitude normalisation 1/sqrt(N_a m_j) with N_a = atoms of the modulation supercell, as documented",
    ]
