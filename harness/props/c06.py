"""C06 - force constants <-> dynamical matrices at commensurate points is lossless.

Spec: spec/Commensurate.tla (definition of the commensurate set, counting theorem,
perfect pairing = character orthogonality, requirement on recorded point sets and
their partition).  Conformance:
  code -> spec: get_commensurate_points / _in_integers / categorize for thousands of
                supercell matrices, and the point sets actually used by
                DynmatToForceConstants objects, validated by TLC;
  spec -> code: exact spring-model force constants (TLC-computed oracle) and random
                translationally periodic integer arrays are pushed through the real
                forward (DynamicalMatrix) and inverse (DynmatToForceConstants, C and
                Python, full and compact) transforms and through Phonopy.ph2ph.
"""
from __future__ import annotations

import io
import itertools
import contextlib

import numpy as np

from harness import bootstrap  # noqa: F401
from harness import tlc as tlcmod
from harness.oracle import Oracle, class_key
from harness.tla_values import to_tla
from harness import xtal

from phonopy import Phonopy
from phonopy.harmonic.dynmat_to_fc import (DynmatToForceConstants, categorize_commensurate_points,
                                           get_commensurate_points, get_commensurate_points_in_integers)


def det3(m):
    return int(round(np.linalg.det(np.array(m, dtype=float))))


def s_space(ctx):
    R = (-1, 0, 1)
    mats = [[list(t[0:3]), list(t[3:6]), list(t[6:9])] for t in itertools.product(R, repeat=9)]
    mats = [m for m in mats if 0 < det3(m) <= 4]
    ctx.rng.shuffle(mats)
    if ctx.quick:
        mats = mats[:500]
    extra = []
    n_extra = 150 if ctx.quick else 3000
    while len(extra) < n_extra:
        m = [[ctx.rng.randint(-2, 3) for _ in range(3)] for _ in range(3)]
        if 0 < det3(m) <= 8:
            extra.append(m)
    diag = [[[a, 0, 0], [0, b, 0], [0, 0, c]] for a in (1, 2, 3, 4) for b in (1, 2) for c in (1, 2) if a * b * c <= 8]
    seen, out = set(), []
    for m in mats + extra + diag:
        k = tuple(map(tuple, m))
        if k not in seen:
            seen.add(k)
            out.append(m)
    return out


def point_event(S, pts=None):
    """Run the real point generators for S and project to integers over N = det S."""
    N = abs(det3(S))
    with contextlib.redirect_stdout(io.StringIO()):
        p = get_commensurate_points(S) if pts is None else np.array(pts)
        ip = get_commensurate_points_in_integers(S)
        ii, ij = categorize_commensurate_points(ip)
    x = p * N
    n = np.rint(x)
    exact = bool(len(p) == 0 or np.abs(x - n).max() < 1e-6)
    return dict(S=S, pts=n.astype(int).tolist(), ipts=np.array(ip).astype(int).tolist(),
                ii=[int(i) for i in ii], ij=[int(i) for i in ij], exact=exact)


CFG = """SPECIFICATION Spec
CONSTANTS
 Events <- MCEvents
CHECK_DEADLOCK FALSE
INVARIANT CountTheorem
INVARIANT PerfectPairing
INVARIANT NegationClosed
INVARIANT ImplExact
INVARIANT ImplCount
INVARIANT ImplDistinct
INVARIANT ImplIntegral
INVARIANT ImplComplete
INVARIANT ImplBothAgree
INVARIANT ImplCategorize
"""


def validate_points(ctx, events):
    mc = "---- MODULE MC_Commensurate ----\nEXTENDS Commensurate\nMCEvents == {%s}\n====\n" % \
         ",\n".join(to_tla(e) for e in events)
    res = ctx.tlc("MC_Commensurate", cfg_text=CFG, extra_files={"MC_Commensurate.tla": mc},
                  requirement=False, extra_args=("-continue",), keep=True)
    for name, tr in res.violations:
        e = tr[-1][1].get("ev", {}) if tr else {}
        if name in ("CountTheorem", "PerfectPairing", "NegationClosed"):
            tlcmod.cleanup(res)
            raise tlcmod.MachineryError("theorem %s of Commensurate.tla fails for S=%s (specification defect)" % (name, e.get("S")))
        ctx.violation("points:" + name, "commensurate points of the implementation violate %s" % name,
                      dict(invariant=name, S=e.get("S"), pts=e.get("pts"), ipts=e.get("ipts"), ii=e.get("ii"), ij=e.get("ij")))
    tlcmod.cleanup(res)


# ---------------------------------------------------------------------------------------------
ROUNDTRIP = [
    # entry, supercell matrix, primitive matrix
    ("sc", [[2, 0, 0], [0, 2, 0], [0, 0, 2]], None),
    ("sc", [[2, 1, 0], [0, 2, 0], [0, 0, 1]], None),
    ("sc", [[0, 1, 1], [1, 0, 1], [1, 1, 0]], None),
    ("cscl", [[2, 0, 0], [0, 2, 0], [0, 0, 2]], None),
    ("cscl", [[-1, 1, 1], [1, -1, 1], [1, 1, -1]], None),
    ("hcp", [[2, 0, 0], [0, 2, 0], [0, 0, 1]], None),
    ("hcp", [[3, 0, 0], [0, 3, 0], [0, 0, 1]], None),
    ("tric", [[1, 1, 0], [-1, 1, 0], [0, 0, 2]], None),
    ("tric", [[2, 0, 0], [0, 1, 0], [0, 0, 2]], None),
    ("nacl", [[1, 0, 0], [0, 1, 0], [0, 0, 1]], "F"),
    ("nacl", [[2, 0, 0], [0, 1, 0], [0, 0, 1]], "F"),
    ("naclg", [[1, 0, 0], [0, 1, 0], [0, 0, 2]], "F"),
    ("bcc", [[2, 0, 0], [0, 2, 0], [0, 0, 2]], "I"),
    ("tetab", [[2, 0, 0], [0, 2, 0], [0, 0, 1]], None),
    ("wz", [[2, 0, 0], [0, 2, 0], [0, 0, 1]], None),
]


def periodic_random_fc(orc, S, ph, rng):
    """Translationally periodic, index-permutation symmetric, otherwise arbitrary array
    (no acoustic sum rule, no point-group symmetry): fc[i,j] depends only on
    (primitive atom of i, class of x_j - x_i modulo the supercell lattice)."""
    sc = ph.supercell
    u, _ = xtal.project_to_unit(sc.positions, orc.L, orc.D)
    s2p = ph.primitive.s2p_map
    n = len(sc)
    table = {}
    fc = np.zeros((n, n, 3, 3))
    for i in range(n):
        for j in range(n):
            key = (int(s2p[i]), class_key(S, orc.D, u[j] - u[i]))
            if key not in table:
                table[key] = rng.integers(-3, 4, size=(3, 3)).astype(float)
            fc[i, j] = table[key]
    # force constants proper obey index-permutation symmetry (otherwise the dynamical matrix is
    # Hermitian-ised by design, C03, and the transform cannot be lossless); symmetrising keeps periodicity
    return (fc + fc.transpose(1, 0, 3, 2)) / 2


PRESENTATIONS = ["c-array", "strided-dm", "fortran-dm", "transposed-points", "fortran-points", "strided-points"]


def present(kind, pts, dms, rng):
    """Return (commensurate points or None, dynamical matrices) holding the same values in another presentation."""
    P = np.array(pts, dtype="double")
    D = np.array(dms, dtype="cdouble")
    if kind == "list":
        return None, dms
    if kind == "c-array":
        return None, np.array(D, order="C")
    if kind == "strided-dm":          # every other entry of a longer q-point list
        big = rng.normal(size=(2 * len(D),) + D.shape[1:]) + 1j * rng.normal(size=(2 * len(D),) + D.shape[1:])
        big[::2] = D
        return None, big[::2]
    if kind == "fortran-dm":
        return None, np.asfortranarray(D)
    if kind == "transposed-points":   # e.g. built as (3, N) and transposed
        return np.array(P.T, order="C").T, D
    if kind == "fortran-points":
        return np.asfortranarray(P), D
    if kind == "strided-points":      # columns of a wider table
        wide = rng.normal(size=(len(P), 5))
        wide[:, 1:4] = P
        return wide[:, 1:4], D
    raise ValueError(kind)


def roundtrip(ctx, events):
    rng = np.random.default_rng(ctx.seed + 11)
    # quick: every other scenario, always including the interleaved-species + centring cases (s2pp_map[j] != j // N)
    cases = ROUNDTRIP if not ctx.quick else [c for i, c in enumerate(ROUNDTRIP) if i % 2 == 0 or i in (1, 3) or c[0] in ("nacl", "naclg")]
    worst = 0.0
    n_pres = 0
    n_ph2ph = 0
    for entry, S, P in cases:
        orc = Oracle(entry, [S], seed=ctx.seed, ctx=ctx)
        ph = Phonopy(orc.unitcell(), supercell_matrix=S, primitive_matrix=P)
        fc_spring = orc.supercell_fc(S, ph.supercell)
        fc_rand = periodic_random_fc(orc, S, ph, rng)
        p2s = ph.primitive.p2s_map
        for kind, fc in (("spring", fc_spring), ("random-periodic", fc_rand)):
            scale = max(np.abs(fc).max(), 1.0)
            for layout in ("full", "compact"):
                fc_in = fc if layout == "full" else np.array(fc[p2s], dtype="double", order="C")
                ph.force_constants = fc_in.copy()
                for is_full in (True, False):
                    d2f_shared = DynmatToForceConstants(ph.primitive, ph.supercell, is_full_fc=is_full)
                    pts = d2f_shared.commensurate_points
                    dms = []
                    for q in pts:
                        ph.dynamical_matrix.run(q)
                        dms.append(ph.dynamical_matrix.dynamical_matrix.copy())
                    Sp = np.rint(np.linalg.inv(ph.primitive.primitive_matrix)).astype(int).tolist()
                    if layout == "full" and is_full and kind == "spring":
                        events.append(point_event(Sp, pts))
                    for lang, pres in [("C", "list"), ("Py", "list"), ("C", PRESENTATIONS[n_pres % len(PRESENTATIONS)]),
                                       ("Py", PRESENTATIONS[(n_pres + 1) % len(PRESENTATIONS)])]:
                        n_pres += 1 if pres != "list" else 0
                        case = dict(entry=entry, S=S, P=P, fc=kind, input_layout=layout, output_full=is_full, lang=lang,
                                    presentation=pres)
                        try:
                            # the same VALUES handed over in another container / memory layout (what a caller who
                            # computed them with numpy may well hold): the result may depend on the values only
                            # "list" runs re-use ONE converter (a second run() on the same instance must not see
                            # anything of the first); the other presentations get a fresh one
                            d2f = d2f_shared if pres == "list" else DynmatToForceConstants(ph.primitive, ph.supercell, is_full_fc=is_full)
                            pp, dd = present(pres, pts, dms, rng)
                            if pp is not None:
                                d2f.commensurate_points = pp
                            d2f.dynamical_matrices = dd
                            d2f.run(lang=lang)
                            out = d2f.force_constants
                        except Exception as e:
                            ctx.violation("roundtrip:exception", "DynmatToForceConstants raised %s" % type(e).__name__,
                                          dict(case=case, error=repr(e)))
                            continue
                        want = fc if is_full else fc[p2s]
                        err = float(np.abs(out - want).max() / scale)
                        worst = max(worst, err)
                        ctx.count(("rt", entry, str(S), str(P), kind, layout, is_full, lang, pres))
                        ctx.traces += 1
                        if err > 1e-9:
                            ctx.violation("roundtrip:%s:%s%s" % (lang, "full" if is_full else "compact",
                                                                  "" if pres == "list" else ":presentation"),
                                          "fc -> D(q_c) -> fc does not return the force constants (rel. error %.3g)" % err,
                                          dict(case=case, rel_error=err))
        # ph2ph: re-express in another supercell; dynamical matrices at q commensurate with the original S.
        # Every other scenario first assigns non-tabulated masses through the masses setter (isotopes): the
        # re-expressed object must carry the object's CURRENT masses, however they were set.
        ph.force_constants = fc_spring.copy()
        if n_ph2ph % 2 == 1:
            ph.masses = [m * (1.0 + 0.07 * (k + 1)) for k, m in enumerate(ph.primitive.masses)]
        n_ph2ph += 1
        Sp = np.rint(np.linalg.inv(ph.primitive.primitive_matrix)).astype(int)
        pts = get_commensurate_points(Sp)
        ref = []
        for q in pts:
            ph.dynamical_matrix.run(q)
            ref.append(ph.dynamical_matrix.dynamical_matrix.copy())
        for S2 in ([[2, 0, 0], [0, 2, 0], [0, 0, 2]], [[3, 0, 0], [0, 3, 0], [0, 0, 2]] if not ctx.quick else None):
            if S2 is None:
                continue
            # the target must contain the original commensurate points: multiply the original matrix
            S2m = (np.array(S) @ np.array(S2)).tolist()
            if len(orc.num) * abs(det3(S2m)) > (128 if ctx.quick else 432):
                continue
            try:
                with contextlib.redirect_stdout(io.StringIO()):
                    ph2 = ph.ph2ph(S2m)
                err = 0.0
                for q, d0 in zip(pts, ref):
                    ph2.dynamical_matrix.run(q)
                    err = max(err, float(np.abs(ph2.dynamical_matrix.dynamical_matrix - d0).max()))
                err /= max(np.abs(np.array(ref)).max(), 1.0)
            except Exception as e:
                ctx.violation("ph2ph:exception", "Phonopy.ph2ph raised %s" % type(e).__name__,
                              dict(entry=entry, S=S, P=P, target=S2m, error=repr(e)))
                continue
            worst = max(worst, err)
            ctx.count(("ph2ph", entry, str(S), str(S2m)))
            ctx.traces += 1
            if err > 1e-9:
                ctx.violation("ph2ph:dynmat", "ph2ph changes the dynamical matrices at q commensurate with the original "
                              "supercell (rel. error %.3g)" % err, dict(entry=entry, S=S, P=P, target=S2m, rel_error=err))
    ctx.extra["roundtrip_worst_rel_error"] = worst
    ctx.extra["tolerance"] = 1e-9


def run(ctx):
    ctx.rule = ("point cases: supercell matrices S (entries -1..1 with det 1..4, random -2..3 with det<=8, diagonals); "
                "round-trip cases: (catalogue crystal, S, primitive matrix, fc kind, input layout, output layout, language)")
    events = []
    for S in s_space(ctx):
        try:
            events.append(point_event(S))
        except Exception as e:
            ctx.violation("points:exception", "commensurate point generator raised %s" % type(e).__name__,
                          dict(S=S, error=repr(e)))
        ctx.count(("pts", tuple(map(tuple, S))))
    roundtrip(ctx, events)
    ctx.traces += len(events)
    ctx.extra["point_events"] = len(events)
    ctx.sample(events[0])
    ctx.sample(events[-1])
    import copy
    bad = copy.deepcopy(next(e for e in events if len(e["pts"]) >= 2))
    bad["pts"][1] = bad["pts"][0]                # one commensurate point lost, another duplicated
    ctx.binding_demo("duplicate commensurate point", "MC_Commensurate", CFG,
                     "---- MODULE MC_Commensurate ----\nEXTENDS Commensurate\nMCEvents == {%s}\n====\n" % to_tla(bad),
                     "ImplDistinct")
    for i in range(0, len(events), 4000):
        validate_points(ctx, events[i:i + 4000])
    ctx.assumptions.append("lossless round trip = perfect pairing (TLC, exact) + svec congruence (C05/C02) + numeric "
                           "replay of the real transforms at 1e-9 relative")
