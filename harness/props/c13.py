"""C13 - compiled kernels match reference semantics, any thread count, memory-safe.

Specs: spec/KernelsOMP.tla (thread-interleaving model of every `omp parallel
for`, regenerated from /repo/c on every run by harness/c13_omp.py),
spec/KernelRuns.tla (run matrix and contracts of the 19 kernels at the
phonopy._phonopy boundary), spec/KernelExact.tla (exact integer contracts
computed by TLC and replayed on the kernels).  See DESIGN.md section 5/C13.
"""
from __future__ import annotations

import math
import os
import pickle
import re
import shutil
import subprocess
import sys
import tempfile
import time

import numpy as np

from harness import bootstrap  # noqa: F401
from harness import c13_kernels as K
from harness import c13_omp
from harness import c13_refs as R
from harness import tlc as tlcmod
from harness.tla_values import to_tla

REPO = bootstrap.REPO
VERIF = bootstrap.VERIF

# --------------------------------------------------------------------------
# A. the OpenMP race model
# --------------------------------------------------------------------------
OMP_INVS = ["SiteModelled", "ReductionOnlyAccumulated", "LastprivateIndependentOfSchedule", "ImagesVisited", "NoDataRace", "NoConflictingIterations", "ReadsFromSequential", "NoUndefinedPrivateRead",
            "ResultIndependentOfSchedule", "NoOutOfBounds", "RegionModelled", "TypeOK"]

OMP_CFG = """SPECIFICATION Spec
CONSTANTS
 Sites <- MCSites
 NThreads = %d
 MaxAnyOrder = %d
CHECK_DEADLOCK FALSE
%s
"""


def site_tla(m):
    acc = "<<" + ", ".join("<<" + ", ".join("<<%d,%d>>" % e for e in row) + ">>" for row in m["acc"]) + ">>"
    cls = "<<" + ", ".join('"%s"' % c for c in m["cls"]) + ">>"
    sc = m["scan"]
    seq = lambda xs: "<<" + ", ".join(str(int(x)) for x in xs) + ">>"  # noqa: E731
    scan = '[kind |-> "%s", np |-> %d, ns |-> %d, s2p |-> %s, p2s |-> %s, fcloc |-> %s, iters |-> %s]' % (
        sc["kind"], sc["np"], sc["ns"], seq(sc["s2p"]), seq(sc["p2s"]), seq(sc["fcloc"]), seq(m["iters"]))
    maywr = "{" + ", ".join("<<%d,%d>>" % x for x in m.get("maywr", [])) + "}"
    return '[name |-> "%s", acc |-> %s, cls |-> %s, oob |-> %d, parallel |-> %s, scan |-> %s, maywr |-> %s, unmodelled |-> %d]' % (
        m["name"], acc, cls, len(m["oob"]), "TRUE" if m["parallel"] else "FALSE", scan, maywr, len(m.get("unmodelled", [])))


def mc_sites(models):
    return ("---- MODULE MC_KernelsOMP ----\nEXTENDS KernelsOMP\nMCSites == <<\n"
            + ",\n".join(site_tla(m) for m in models) + "\n>>\n====\n")


def omp_violation_detail(models, name, trace):
    st = trace[-1][1] if trace else {}
    d = dict(invariant=name)
    si = st.get("site")
    if isinstance(si, int) and 1 <= si <= len(models):
        m = models[si - 1]
        d.update(site=m["name"], file=m["file"], line=m["line"], pragma=m["pragma"], loopvar=m["loopvar"])
        pre = st.get("pre") or {}
        rel = pre.get("rel")
        if rel:
            d["conflicting_locations"] = sorted(m["locs"][l - 1] + " (" + m["cls"][l - 1] + ")" for l in rel)[:20]
        for key in ("badRF", "badUndef"):
            if st.get(key):
                d[key] = [dict((k, (m["locs"][v - 1] if k == "loc" else v)) for k, v in dict(b).items())
                          for b in list(st[key])[:5]]
        if m["oob"]:
            d["out_of_bounds"] = m["oob"][:5]
        if m.get("unmodelled"):
            d["unmodelled_constructs"] = m["unmodelled"][:5]
        for key in ("taken", "lpw", "lastthread"):
            if key in st:
                d[key] = st[key]
        d["schedule"] = [dict(step=a, cur=s.get("cur"), pc=s.get("pc"), claimed=sorted(s.get("claimed", [])))
                         for a, s in trace[-8:]]
    return d


def check_omp(ctx):
    t0 = time.time()
    models, prog = c13_omp.build_models(REPO)
    ctx.extra["omp_sites"] = [dict(site=m["name"], line=m["line"], pragma=m["pragma"], iterations=len(m["iters"]),
                                   locations=len(m["locs"]), accesses=sum(len(a) for a in m["acc"]),
                                   private=sorted(set(m["locs"][i] for i, c in enumerate(m["cls"]) if c != "shared"))[:12])
                              for m in models]
    ctx.extra["omp_extract_s"] = round(time.time() - t0, 1)
    for m in models:
        ctx.count(("omp-site", m["name"]))
    if not models:
        raise tlcmod.MachineryError("no OpenMP site found in %s/c: extraction broken" % REPO)
    runs = [(2, 4, models)]
    if not ctx.quick:
        small = [m for m in models if len(m["iters"]) <= 9]
        runs.append((3, 4, small))     # three threads
        runs.append((2, 9, small))     # two threads, iterations claimed in any order
    # action coverage on the smallest site (coverage statistics are expensive on the big ones)
    smallest = min(models, key=lambda m: sum(len(a) for a in m["acc"]))
    cfgc = OMP_CFG % (2, 4, "\n".join("INVARIANT " + i for i in OMP_INVS))
    rc = ctx.tlc("MC_KernelsOMP", cfg_text=cfgc, extra_files={"MC_KernelsOMP.tla": mc_sites([smallest])},
                 requirement=False, workers=2, timeout=300, coverage=True)
    ctx.extra["omp_action_coverage"] = {k: v[1] for k, v in rc.coverage.items()}
    if not rc.violated and any(rc.coverage.get(a, (0, 0))[1] == 0 for a in ("Claim", "Step")):
        raise tlcmod.MachineryError("KernelsOMP: an action never fired: %r" % (rc.coverage,))
    for nthreads, anyorder, ms in runs:
        cfg = OMP_CFG % (nthreads, anyorder, "\n".join("INVARIANT " + i for i in OMP_INVS))
        res = ctx.tlc("MC_KernelsOMP", cfg_text=cfg, extra_files={"MC_KernelsOMP.tla": mc_sites(ms)},
                      requirement=False, workers=6, timeout=900)
        if res.violated:
            name = res.violated
            trace = res.trace
            if not trace:
                iv = initial_state_violations(res.stdout)
                if iv:
                    name, st0 = iv[0]
                    trace = [("Init", st0)]
            det = omp_violation_detail(ms, name, trace)
            # an interleaving counterexample for the same site (operational invariants only)
            si = det.get("site")
            if si and name in ("NoConflictingIterations", "SiteModelled"):
                one = [m for m in ms if m["name"] == si]
                cfg2 = OMP_CFG % (2, 4, "\n".join("INVARIANT " + i for i in
                                                 ["NoDataRace", "ReadsFromSequential", "NoUndefinedPrivateRead",
                                                  "ResultIndependentOfSchedule", "LastprivateIndependentOfSchedule",
                                                  "ReductionOnlyAccumulated", "NoConflictingIterations"]))
                try:
                    r2 = ctx.tlc("MC_KernelsOMP", cfg_text=cfg2, extra_files={"MC_KernelsOMP.tla": mc_sites(one)},
                                 requirement=False, workers=4, timeout=120)
                    if r2.violated:
                        tr2 = r2.trace
                        nm2 = r2.violated
                        if not tr2:
                            iv2 = initial_state_violations(r2.stdout)
                            if iv2:
                                nm2, st2 = iv2[0]
                                tr2 = [("Init", st2)]
                        det["interleaving"] = omp_violation_detail(one, nm2, tr2)
                        if name == "SiteModelled":
                            # what the model can still say about the partly modelled site
                            ctx.violation("omp:%s:%s" % (nm2, si), "OpenMP region %s (%s:%s) violates %s"
                                          % (si, det.get("file"), det.get("line"), nm2), det["interleaving"])
                except tlcmod.MachineryError:
                    pass
            if name == "SiteModelled":
                name = "Unmodelled"
            ctx.violation("omp:%s:%s" % (name, det.get("site", "?")),
                          "OpenMP region %s (%s:%s) violates %s" % (det.get("site"), det.get("file"), det.get("line"), name),
                          det)
    return models, prog


# --------------------------------------------------------------------------
# B. kernel contracts at the extension boundary
# --------------------------------------------------------------------------
RUNS_INVS = ["ImplMatchesReference", "ImplThreadsRepsBitwise", "ImplBuildsAgree", "ImplGuardsIntact",
             "ImplConstInputsUnchanged", "ImplUseOpenmpFlagIrrelevant", "ImplNoException", "ImplNoSanitizerReport", "ImplCoversMatrix",
             "ImplKernelKnown", "ImplGlue", "ImplAllKernelsCovered", "ImplIndexMapCoverage", "ImplShapeCoverage",
             "ImplFlagCellsCovered", "ImplDivergentCovered"]

RUNS_CFG = """SPECIFICATION Spec
CONSTANTS
 Kernels <- MCKernels
 ThreadCounts <- MCThreads
 Reps <- MCReps
 WithSerial = %s
 WithAsan = %s
 Groups <- MCGroups
 Glue <- MCGlue
 FlagArgs <- MCFlagArgs
 Divergent <- MCDivergent
 TwoPass <- MCTwoPass
 NoiseClasses <- MCNoiseClasses
CHECK_DEADLOCK FALSE
%s
"""

UNIT = 1e-16
CAP = 2_000_000_000


def units(x):
    if x is None or not math.isfinite(x):
        return CAP
    return int(min(CAP, math.ceil(x / UNIT)))


def relerr(c, r):
    c = np.atleast_1d(np.asarray(c, dtype=float))
    r = np.atleast_1d(np.asarray(r, dtype=float))
    if c.shape != r.shape:
        return float("inf")
    if c.size == 0:
        return 0.0
    both = np.isnan(c) & np.isnan(r)
    same_inf = np.isinf(c) & np.isinf(r) & (np.sign(c) == np.sign(r))
    with np.errstate(all="ignore"):
        d = np.abs(c - r)
    d[both | same_inf] = 0
    if np.isnan(d).any() or np.isinf(d).any():
        return float("inf")
    fin = np.abs(r[np.isfinite(r)])
    sc = fin.max() if fin.size else 0.0
    return float(d.max() / (sc if sc > 0 else 1.0))


def mc_runs(kernels, threads, reps, groups, glue, flagargs=(), divergent=(), twopass=(), noiseclasses=()):
    return ("---- MODULE MC_KernelRuns ----\nEXTENDS KernelRuns\n"
            "MCKernels == %s\nMCThreads == %s\nMCReps == %s\nMCGroups == {%s}\nMCGlue == {%s}\n"
            "MCFlagArgs == {%s}\nMCDivergent == {%s}\nMCTwoPass == {%s}\nMCNoiseClasses == {%s}\n====\n"
            % (to_tla(set(kernels)), to_tla(set(threads)), to_tla(set(reps)),
               ",\n".join(to_tla(g) for g in groups), ",\n".join(to_tla(g) for g in glue),
               ", ".join('<<"%s", "%s">>' % fa for fa in flagargs),
               ", ".join('[site |-> "%s", kernels |-> %s]' % (d["site"], to_tla(set(d["kernels"]))) for d in divergent),
               ",\n".join(to_tla(e) for e in twopass),
               ", ".join('<<"%s", %d, %d>>' % c for c in noiseclasses)))


FLAG_CTYPES = ("long", "int", "bool", "_Bool", "const char *", "unsigned long", "long long")


def flag_positions(gt):
    """{kernel: [(position, name)]} of the integer / bool / char* scalar arguments, from the glue signatures."""
    out = {}
    for kname in K.KERNELS:
        g = gt.get(kname)
        if g is None:
            continue
        out[kname] = [(pos, nm) for pos, (nm, t) in enumerate(zip(g["params"], g["ptypes"]))
                      if "ndarray" not in t and t.replace("const ", "", 1).strip() in
                      [x.replace("const ", "", 1).strip() for x in FLAG_CTYPES] or t in FLAG_CTYPES]
    return out


def plan(ctx, threads, reps, with_serial, with_asan):
    """spec -> code: TLC enumerates the run matrix."""
    cfg = RUNS_CFG % ("TRUE" if with_serial else "FALSE", "TRUE" if with_asan else "FALSE", "")
    mc = mc_runs(K.KERNELS, threads, reps, [], [])
    res = ctx.tlc("MC_KernelRuns", cfg_text=cfg, extra_files={"MC_KernelRuns.tla": mc}, dump=True, keep=True,
                  workers=1)
    from harness.tla_values import parse_dump

    try:
        states = parse_dump(res.dump_path)
    finally:
        tlcmod.cleanup(res)
    keys = [dict(s["cfg"]) for s in states if s.get("phase") == "plan"]
    if not keys:
        raise tlcmod.MachineryError("KernelRuns: empty run matrix")
    return keys


def asan_runtime():
    try:
        p = subprocess.run(["clang", "-print-file-name=libclang_rt.asan-x86_64.so"], stdout=subprocess.PIPE)
        path = p.stdout.decode().strip()
        return path if os.path.exists(path) else None
    except OSError:
        return None


def launch_workers(ctx, cases, keys, tmp):
    """One sub-process per (build, threads); all repetitions inside."""
    cases_path = os.path.join(tmp, "cases.pkl")
    with open(cases_path, "wb") as f:
        pickle.dump([dict(id=c["id"], kernel=c["kernel"], args=c["args"]) for c in cases], f)
    jobs = {}
    for k in keys:
        jobs.setdefault((k["build"], k["threads"]), set()).add(k["rep"])
    procs = []
    pending = sorted(jobs.items(), key=lambda kv: -kv[0][1])
    results = {}
    maxpar = 3
    running = []

    def start(job, start_after=-1, attempt=0, crashed=None):
        (build, threads), reps = job
        out = os.path.join(tmp, "out_%s_%d.pkl" % (build, threads))
        err = os.path.join(tmp, "err_%s_%d_%d.txt" % (build, threads, attempt))
        env = dict(os.environ)
        env.update(VERIF_EXT_VARIANT=build, OMP_NUM_THREADS=str(threads), OMP_WAIT_POLICY="passive",
                   GOMP_SPINCOUNT="0", OMP_DYNAMIC="false", VERIF_REPO=REPO, PYTHONPATH=VERIF,
                   C13_START_AFTER=str(start_after))
        if build == "asan":
            rt = asan_runtime()
            if rt is None:
                raise tlcmod.MachineryError("AddressSanitizer runtime not found")
            env["LD_PRELOAD"] = rt
            env["ASAN_OPTIONS"] = "detect_leaks=0:halt_on_error=1:abort_on_error=0:allocator_may_return_null=1"
            env["UBSAN_OPTIONS"] = "print_stacktrace=1:halt_on_error=0"
        p = subprocess.Popen([sys.executable, "-m", "harness.c13_worker", cases_path, out, str(max(reps))],
                             cwd=VERIF, env=env, stdout=subprocess.DEVNULL, stderr=open(err, "w"))
        return dict(p=p, job=job, out=out, err=err, t0=time.time(), attempt=attempt, crashed=crashed or [],
                    stderr_all="")

    last_id = max(c["id"] for c in cases)
    while pending or running:
        while pending and len(running) < maxpar:
            running.append(start(pending.pop(0)))
        for r in list(running):
            rc = r["p"].poll()
            if rc is None:
                if time.time() - r["t0"] > 1500:
                    r["p"].kill()
                    raise tlcmod.MachineryError("C13 worker timeout %s" % (r["job"][0],))
                continue
            running.remove(r)
            with open(r["err"]) as f:
                errtxt = f.read()
            r["stderr_all"] += errtxt
            if "C13DONE" not in errtxt:
                ids = re.findall(r"C13CASE (\d+) (\d+)", errtxt)
                if not ids:
                    raise tlcmod.MachineryError("C13 worker %s failed before the first case rc=%s\n%s"
                                                % (r["job"][0], rc, errtxt[-1500:]))
                cid = int(ids[-1][0])
                r["crashed"].append(dict(id=cid, rc=rc, log=errtxt[-2500:]))
                if cid < last_id and r["attempt"] < 12:
                    nr = start(r["job"], start_after=cid, attempt=r["attempt"] + 1, crashed=r["crashed"])
                    nr["stderr_all"] = r["stderr_all"]
                    running.append(nr)
                    continue
            runs, header = [], None
            if os.path.exists(r["out"]):
                with open(r["out"], "rb") as f:
                    while True:
                        try:
                            o = pickle.load(f)
                        except EOFError:
                            break
                        except Exception:
                            break
                        if o.get("header"):
                            header = o
                        else:
                            runs.append(o)
            results[r["job"][0]] = dict(rc=rc, stderr=r["stderr_all"], crashed=r["crashed"],
                                        res=dict(header or {}, runs=runs) if header else None)
        time.sleep(0.05)
    return results


def record_subprocess(ctx, seed):
    """Drive the Python layer (recording proxy) in a sub-process: a kernel that corrupts memory
    must not take the harness down.  A crash here is a violation (the calls are the Python layer's own)."""
    tmp = tempfile.mkdtemp(prefix="c13rec_", dir=os.path.join(VERIF, ".run"))
    try:
        out = os.path.join(tmp, "rec.pkl")
        env = dict(os.environ)
        env.update(VERIF_EXT_VARIANT="omp", OMP_NUM_THREADS="4", OMP_WAIT_POLICY="passive", GOMP_SPINCOUNT="0",
                   VERIF_REPO=REPO, PYTHONPATH=VERIF)
        p = subprocess.run([sys.executable, "-m", "harness.c13_worker", "--record", str(seed), ctx.tier, out],
                           cwd=VERIF, env=env, stdout=subprocess.DEVNULL, stderr=subprocess.PIPE, timeout=1500)
        err = p.stderr.decode(errors="replace")
        if p.returncode != 0 or not os.path.exists(out):
            if p.returncode < 0 or p.returncode in (134, 139) or "corrupted" in err or "free()" in err or "malloc" in err:
                ctx.violation("kernels:ImplNoCrash:python-layer-session",
                              "the extension crashed (rc=%s) while the Python layer was driven over the C13 crystals"
                              % p.returncode, dict(returncode=p.returncode, stderr=err[-3000:], seed=seed, tier=ctx.tier,
                                                   driver="harness.c13_kernels.drive"))
                return None
            raise tlcmod.MachineryError("C13 recording failed rc=%s\n%s" % (p.returncode, err[-2000:]))
        with open(out, "rb") as f:
            d = pickle.load(f)
        return d["calls"], d["notes"]
    finally:
        shutil.rmtree(tmp, ignore_errors=True)


def sanitizer_findings(stderr):
    """-> (list of (case id, text)) from a worker's stderr."""
    out = []
    cur = None
    lines = stderr.splitlines()
    for i, l in enumerate(lines):
        m = re.match(r"C13CASE (\d+) (\d+)", l)
        if m:
            cur = int(m.group(1))
            continue
        if "runtime error:" in l or "ERROR: AddressSanitizer" in l or "ERROR: UndefinedBehaviorSanitizer" in l:
            out.append((cur, "\n".join(lines[i:i + 12])))
    return out


def check_kernels(ctx, prog):
    quick = ctx.quick
    threads = [1, 2, 5, 16] if quick else [1, 2, 3, 4, 5, 7, 8, 16]
    reps = [1, 2] if quick else [1, 2, 3, 4, 5]
    with_asan = os.environ.get("C13_ASAN", "1") != "0"
    keys = plan(ctx, threads, reps, True, with_asan)
    ctx.extra["run_matrix"] = len(keys)

    t0 = time.time()
    calls, notes = [], {}
    for sd in ([ctx.seed] if quick else [ctx.seed, ctx.seed + 1, ctx.seed + 2]):
        rec = record_subprocess(ctx, sd)
        if rec is None:
            return None
        for c in rec[0]:
            c["tag"] = "%s#%d" % (c["tag"], sd)
        calls += rec[0]
        notes.update(rec[1])
    ctx.extra["record_s"] = round(time.time() - t0, 1)
    ctx.extra["recorded_calls"] = len(calls)
    ctx.extra["configurations"] = notes
    nprng = np.random.default_rng(ctx.seed + 1000)
    cases = K.select_cases(calls, nprng, per_kernel=24 if quick else 60, per_kernel_random=24 if quick else 40)
    ctx.extra["cases"] = len(cases)

    # ---- glue table against the recorded dtypes / ranks (static, from the AST) ----
    gt = c13_omp.glue_table(prog)
    fpos = flag_positions(gt)
    flagargs = sorted((k, nm) for k, lst in fpos.items() for _p, nm in lst)
    ctx.extra["flag_arguments"] = ["%s.%s" % fa for fa in flagargs]
    # code compiled only with / only without _OPENMP, and the kernels that reach it
    dsites = c13_omp.build_divergent_sites(prog)
    reach = c13_omp.kernels_reaching(prog, set(d["func"] for d in dsites))
    divergent = []
    for d in dsites:
        ks = sorted(k for k, fs in reach.items() if d["func"] in fs)
        divergent.append(dict(site="%s:%s:%s:%s" % (d["file"], d["line"], d["branch"], d["func"]), kernels=ks,
                              code=d["code"][:4]))
    ctx.extra["build_divergent_sites"] = divergent
    glue_events = []
    for kname in K.KERNELS:
        g = gt.get(kname)
        if g is None:
            glue_events.append(dict(kernel=kname, arg="(not exported)", ctype="?", dtypes={"missing"}, maxaxis=0, minndim=0))
            continue
        for pos, pn in enumerate(g["params"]):
            if pn not in g["casts"]:
                continue
            metas = [c["meta"][pos] for c in calls if c["kernel"] == kname and pos < len(c["meta"]) and c["meta"][pos]]
            if not metas:
                continue
            glue_events.append(dict(kernel=kname, arg=pn, ctype=g["casts"][pn][0] if len(g["casts"][pn]) == 1 else "mixed",
                                    # a complex128 array is, in memory, interleaved (re, im) float64 pairs: what
                                    # a `double (*)[2]` cast expects (Gonze-Lee dd_q0 is passed without .view)
                                    dtypes=set(("float64" if (m["dtype"] == "complex128" and g["casts"][pn] == ["float64"])
                                                else m["dtype"]) for m in metas)
                                    | ({"non-contiguous"} if not all(m["c"] for m in metas) else set()),
                                    maxaxis=g["axes"].get(pn, -1), minndim=min(len(m["shape"]) for m in metas)))
    ctx.extra["glue_arguments_checked"] = len(glue_events)

    # ---- run the matrix on the real extension builds ----
    tmp = tempfile.mkdtemp(prefix="c13_", dir=os.path.join(VERIF, ".run"))
    try:
        t0 = time.time()
        results = launch_workers(ctx, cases, keys, tmp)
        ctx.extra["replay_s"] = round(time.time() - t0, 1)
    finally:
        shutil.rmtree(tmp, ignore_errors=True)

    # ---- reference semantics ----
    import phonopy._phonopy as phonoc

    def wfn(fp, tet):
        t = np.array(tet, dtype="double", order="C")
        return np.array([phonoc.tetrahedra_integration_weight(float(f), t, "I") for f in fp])

    t0 = time.time()
    refs = {}
    for c in cases:
        a = [np.array(x, copy=True) if isinstance(x, np.ndarray) else x for x in c["args"]]
        try:
            refs[c["id"]] = R.REF[c["kernel"]](a, wfn) if c["kernel"] == "tetrahedron_method_dos" else R.REF[c["kernel"]](a)
        except Exception as e:
            # the recorded arguments are not a well-formed input of this kernel (they are produced by
            # the Python layer from the results of earlier kernel calls): logged as a maximal deviation
            refs[c["id"]] = dict(out={}, ret=None, undefined="reference raised %r" % (e,))
    ctx.extra["reference_s"] = round(time.time() - t0, 1)

    def err_vs(out, ret, ref):
        e = 0.0
        for pos, exp in ref["out"].items():
            got = out[pos]
            cn = (ref.get("canon") or {}).get(pos)
            if cn is not None:
                got = cn(got)
            e = max(e, relerr(got, exp))
        if ref.get("ret") is not None:
            e = max(e, relerr(ret, ref["ret"]))
        return e

    serial = results.get(("serial", 1))
    serial_out = {}
    if serial and serial["res"]:
        for r in serial["res"]["runs"]:
            if r["rep"] == 1:
                serial_out[r["id"]] = r
    groups = {}
    observed_err = {}
    san = {}
    crashes = {}
    for (build, th), w in results.items():
        finds = sanitizer_findings(w["stderr"])
        for cid, txt in finds:
            san.setdefault((build, th, cid), txt)
        # a worker that died in a case (sanitizer abort, segfault, heap corruption): the run is logged
        # as observed with a sanitizer report / a crash; the worker was restarted after that case
        for cr in w.get("crashed", []):
            crashes[(build, th, cr["id"])] = cr
        if w["res"] is None:
            if not finds and not w.get("crashed"):
                raise tlcmod.MachineryError("C13 worker %s/%d failed rc=%s\n%s" % (build, th, w["rc"], w["stderr"][-1500:]))
            continue
        if build == "omp" and not w["res"]["use_openmp"]:
            raise tlcmod.MachineryError("omp build reports use_openmp()=0")
        if build == "omp" and w["res"]["max_threads"] != th:
            raise tlcmod.MachineryError("OMP_NUM_THREADS=%d not honoured (max_threads=%d)" % (th, w["res"]["max_threads"]))
        first = {}
        for r in w["res"]["runs"]:
            if r["rep"] == 1:
                first[r["id"]] = r
        for r in w["res"]["runs"]:
            c = cases[r["id"]]
            f = first[r["id"]]
            ref = refs[c["id"]]
            if ref.get("ambiguous"):
                continue
            e = err_vs(f["out"], f["ret"], ref) if not (f["err"] or ref.get("undefined")) else float("inf")
            observed_err[c["kernel"]] = max(observed_err.get(c["kernel"], 0.0), e if math.isfinite(e) else 1.0)
            xb = 0.0
            so = serial_out.get(r["id"])
            if so is not None and not f["err"] and not so["err"]:
                for pos in f["out"]:
                    xb = max(xb, relerr(f["out"][pos], so["out"][pos]))
                if f["ret"] is not None:
                    xb = max(xb, relerr(f["ret"], so["ret"]))
            g = groups.setdefault(c["id"], dict(kernel=c["kernel"], case=c["id"], variant=c["variant"], tag=c["tag"], runs=[]))
            g["runs"].append(dict(build=build, threads=th, rep=r["rep"], digest=r["digest"], referr=units(e), xbuild=units(xb),
                                  guards=bool(r["guards"]), constok=bool(r["constok"]), raised=bool(r["err"]),
                                  flagok=bool(r.get("flagok", True)),
                                  sanitizer=(build, th, c["id"]) in san))
        ctx.traces += len(w["res"]["runs"])
    # a crashed run leaves no result record: log it as observed (all repetitions), crashed
    ids = set(c["id"] for c in cases)
    for (build, th, cid), cr in crashes.items():
        if cid not in ids:
            continue
        c = cases[cid]
        is_san = (build, th, cid) in san
        g = groups.setdefault(cid, dict(kernel=c["kernel"], case=cid, variant=c["variant"], tag=c["tag"], runs=[]))
        have = set((r["build"], r["threads"], r["rep"]) for r in g["runs"])
        for k in keys:
            if k["build"] == build and k["threads"] == th and (build, th, k["rep"]) not in have:
                g["runs"].append(dict(build=build, threads=th, rep=k["rep"], digest="crashed", referr=0, xbuild=0, guards=True,
                                      constok=True, raised=not is_san, flagok=True, sanitizer=is_san))
        if not is_san:
            san[(build, th, cid)] = "process died rc=%s\n%s" % (cr["rc"], cr["log"][-1500:])
    for c in cases:
        ctx.count((c["kernel"], c["tag"], c["variant"], tuple(str(m) for m in c["meta"])))
    ctx.extra["observed_max_relerr"] = {k: float("%.3g" % v) for k, v in observed_err.items()}
    gl = []
    for g in groups.values():
        facts = K.index_map_facts(cases[g["case"]])
        cargs = cases[g["case"]]["args"]
        flags = c13set((nm, str(K.scalar_sig(cargs[pos]))) for pos, nm in fpos.get(g["kernel"], []) if pos < len(cargs))
        gl.append(dict(kernel=g["kernel"], case=g["case"], variant=g["variant"], indexmaps=facts["indexmaps"],
                       noncontig=facts["noncontig"], p2sprefix=facts["p2sprefix"], gllimit=facts["gllimit"],
                       shapecls=K.shape_class(cases[g["case"]]), flags=flags, runs=set_of(g["runs"])))
    ctx.sample(dict(kernel=gl[0]["kernel"], case=gl[0]["case"], runs=len(gl[0]["runs"]))) if gl else None

    # ---- code -> spec: TLC judges every group ----
    cfg = RUNS_CFG % ("TRUE", "TRUE" if with_asan else "FALSE", "\n".join("INVARIANT " + i for i in RUNS_INVS))
    mc = mc_runs(K.KERNELS, threads, reps, gl, glue_events, flagargs, divergent)
    res = ctx.tlc("MC_KernelRuns", cfg_text=cfg, extra_files={"MC_KernelRuns.tla": mc}, requirement=False,
                  extra_args=("-continue",), workers=4, timeout=900)
    ctx.extra["groups_checked"] = len(gl)
    seen = set()
    for name, st in initial_state_violations(res.stdout):
        if name in ("ImplFlagCellsCovered", "ImplDivergentCovered"):
            have = {}
            for g in gl:
                for (a, v) in g["flags"]:
                    have.setdefault((g["kernel"], a), set()).add(v)
            missing = ["%s.%s has only %s" % (k, a, sorted(have.get((k, a), []))) for (k, a) in flagargs
                       if len(have.get((k, a), [])) < 2]
            raise tlcmod.MachineryError("C13 case generator: %s of KernelRuns.tla not met: %s" % (name, missing))
        if name == "ImplShapeCoverage":
            have = sorted(set((g["kernel"], g["shapecls"], g["variant"], g["p2sprefix"]) for g in gl if g["shapecls"] != "na"))
            raise tlcmod.MachineryError("C13 case generator: ImplShapeCoverage of KernelRuns.tla not met; present: %s" % have)
        if name in ("ImplAllKernelsCovered", "ImplIndexMapCoverage"):
            # the inputs do not span what the property quantifies over: the run proves nothing
            raise tlcmod.MachineryError("C13 case generator: coverage requirement %s of KernelRuns.tla not met "
                                        "(kernel without a case, an index-map kernel without a case with "
                                        "non-contiguous images / non-prefix p2s_map, or no K -> 0 case with a "
                                        "q-direction and use_openmp=1 for recip_dipole_dipole)" % name)
        grp = st.get("grp") or {}
        kern = grp.get("kernel", "?") if isinstance(grp, dict) else "?"
        key = "kernels:%s:%s" % (name, kern)
        if key in seen:
            continue
        seen.add(key)
        det = dict(invariant=name, kernel=kern)
        if isinstance(grp, dict) and "case" in grp:
            cid = grp["case"]
            c = cases[cid]
            det.update(case=cid, variant=c["variant"], configuration=c["tag"],
                       shapes=[m for m in c["meta"]], scalars=[K.scalar_sig(x) for x in c["args"]],
                       worst_runs=sorted(({k: v for k, v in dict(r).items()} for r in grp["runs"]),
                                         key=lambda r: -(r["referr"] + r["xbuild"]))[:4])
            if refs[cid].get("undefined"):
                det["reference"] = refs[cid]["undefined"]
            det["arguments"] = [x if not isinstance(x, np.ndarray) else (x if x.size <= 400 else "array%s" % (x.shape,))
                                for x in c["args"]]
            for (b, th, ci), txt in san.items():
                if ci == cid:
                    det["sanitizer_log"] = txt
        elif isinstance(grp, dict):
            det.update({k: v for k, v in grp.items()})
        ctx.violation(key, "kernel %s violates %s at the phonopy._phonopy boundary" % (kern, name), det)
    return cases


def initial_state_violations(stdout):
    """[(invariant, state dict)] for every `Invariant X is violated by the initial state` block
    (TLC -continue prints one block per violating initial state)."""
    from harness.tla_values import parse_state_body

    out = []
    for m in re.finditer(r"Invariant (\S+) is violated by the initial state:\n", stdout):
        body = stdout[m.end():].split("\n\n")[0]
        try:
            out.append((m.group(1), parse_state_body(body)))
        except ValueError:
            out.append((m.group(1), {}))
    return out


def set_of(runs):
    """list of dict -> list usable by to_tla as a set of records (records are unhashable: emit as list
    and let to_tla print a set literal)."""
    return _RecSet(runs)


class _RecSet(list):
    pass


def c13set(pairs):
    """set of <<name, value>> string pairs for to_tla"""
    return _RecSet(sorted(set((str(a), str(b)) for a, b in pairs)))


_orig_to_tla = to_tla


def _to_tla(v):
    if isinstance(v, _RecSet):
        return "{" + ", ".join(_to_tla(x) for x in v) + "}"
    if isinstance(v, tuple):
        return "<<" + ", ".join(_to_tla(x) for x in v) + ">>"
    if isinstance(v, dict) and v and all(isinstance(k, str) for k in v):
        return "[" + ", ".join("%s |-> %s" % (k, _to_tla(x)) for k, x in v.items()) + "]"
    if isinstance(v, (list, tuple)) and not isinstance(v, _RecSet):
        return "<<" + ", ".join(_to_tla(x) for x in v) + ">>"
    if isinstance(v, (np.integer,)):
        return str(int(v))
    return _orig_to_tla(v)


to_tla = _to_tla  # noqa: F811  (records containing sets of records)




# --------------------------------------------------------------------------
# B2. two-pass contract of the dense shortest-vector kernel on near-tie structures
# --------------------------------------------------------------------------
def check_twopass(ctx):
    sts = K.neartie_structures(ctx.seed, ctx.tier)
    classes = sorted(set((st["crystal"], st["noise"], st["sp"]) for st in sts))
    tmp = tempfile.mkdtemp(prefix="c13tp_", dir=os.path.join(VERIF, ".run"))
    events = []
    try:
        for build, threads in (("omp", 2), ("serial", 1)):
            out = os.path.join(tmp, "tp_%s.pkl" % build)
            env = dict(os.environ)
            env.update(VERIF_EXT_VARIANT=build, OMP_NUM_THREADS=str(threads), OMP_WAIT_POLICY="passive",
                       GOMP_SPINCOUNT="0", VERIF_REPO=REPO, PYTHONPATH=VERIF)
            p = subprocess.run([sys.executable, "-m", "harness.c13_worker", "--twopass", str(ctx.seed), ctx.tier, out],
                               cwd=VERIF, env=env, stdout=subprocess.DEVNULL, stderr=subprocess.PIPE, timeout=1500)
            err = p.stderr.decode(errors="replace")
            got = []
            if os.path.exists(out):
                with open(out, "rb") as f:
                    while True:
                        try:
                            got.append(pickle.load(f))
                        except Exception:
                            break
            for e in got:
                e["build"] = build
                events.append(e)
            if "C13DONE" not in err:
                labs = re.findall(r"C13TWOPASS (\S+)", err)
                if not labs:
                    raise tlcmod.MachineryError("C13 two-pass worker failed before the first structure rc=%s\n%s"
                                                % (p.returncode, err[-1500:]))
                # the process died inside the kernel on this structure: logged as a record that breaks the contract
                st = [x for x in sts if x["label"] == labs[-1]][0]
                events.append(dict(label=st["label"], crystal=st["crystal"], noise=st["noise"], sp=st["sp"], count1=[],
                                   addr1=[], fill2=[0], filltotal=-1, alloc=0, guards1=False, guards2=False, build=build,
                                   crashed="rc=%s %s" % (p.returncode, err[-400:])))
    finally:
        shutil.rmtree(tmp, ignore_errors=True)
    ctx.traces += len(events)
    ctx.extra["twopass_records"] = len(events)
    for e in events:
        ctx.count(("twopass", e["label"], e["build"]))
    tl = [dict((k, v) for k, v in e.items() if k not in ("crashed",)) for e in events]
    cfg = RUNS_CFG % ("TRUE", "FALSE", "INVARIANT ImplTwoPassContract\nINVARIANT ImplTwoPassCovered")
    mc = mc_runs(K.KERNELS, [1], [1], [], [], twopass=tl, noiseclasses=classes)
    res = ctx.tlc("MC_KernelRuns", cfg_text=cfg, extra_files={"MC_KernelRuns.tla": mc}, requirement=False,
                  extra_args=("-continue",), workers=2, timeout=600)
    seen = set()
    for name, st in initial_state_violations(res.stdout):
        if name == "ImplTwoPassCovered":
            raise tlcmod.MachineryError("C13 near-tie generator: ImplTwoPassCovered of KernelRuns.tla not met (a noise "
                                        "class is missing on a build, or no class splits a tie)")
        g = st.get("grp") or {}
        key = "kernels:%s:gsv_set_smallest_vectors_dense" % name
        if key in seen:
            continue
        seen.add(key)
        det = dict(invariant=name, record={k: v for k, v in dict(g).items()} if isinstance(g, dict) else None)
        if isinstance(g, dict) and g.get("label"):
            stx = [x for x in sts if x["label"] == g["label"]]
            if stx:
                det["structure"] = dict(label=stx[0]["label"], symprec=stx[0]["symprec"], noise_factor=K.NOISE_FACTORS[stx[0]["noise"]],
                                        bases=stx[0]["bases"], supercell_positions=stx[0]["spos"], primitive_positions=stx[0]["ppos"])
            bad = [(i, a, b) for i, (a, b) in enumerate(zip(g.get("count1", []), g.get("fill2", []))) if a != b][:6]
            det["pairs_where_fill_differs_from_count"] = bad
            for e in events:
                if e["label"] == g["label"] and e.get("crashed"):
                    det["crash"] = e["crashed"]
        ctx.violation(key, "dense shortest-vector kernel: the filling pass does not write what the counting pass "
                           "counted (%s) on a near-tie structure" % name, det)


# --------------------------------------------------------------------------
# C. exact integer contracts computed by TLC (spec/KernelExact.tla)
# --------------------------------------------------------------------------
EXACT_CONFIGS = [
    dict(P=1, N1=2, N2=1, A=1, B=1), dict(P=1, N1=3, N2=1, A=2, B=1), dict(P=1, N1=4, N2=1, A=3, B=2),
    dict(P=1, N1=2, N2=2, A=3, B=1), dict(P=1, N1=3, N2=3, A=2, B=4), dict(P=1, N1=2, N2=3, A=5, B=1),
    dict(P=2, N1=2, N2=1, A=3, B=1), dict(P=2, N1=3, N2=1, A=5, B=2), dict(P=2, N1=2, N2=2, A=3, B=5),
    dict(P=2, N1=4, N2=1, A=3, B=1), dict(P=2, N1=3, N2=2, A=5, B=3),
]

EXACT_CFG = """SPECIFICATION Spec
CONSTANTS
 Configs <- MCConfigs
 Events <- MCEvents
CHECK_DEADLOCK FALSE
INVARIANT InvScenario
INVARIANT ImplTransposeCompact
INVARIANT ImplDistribute
INVARIANT ImplKnownKernel
"""


def check_exact(ctx):
    import phonopy._phonopy as phonoc
    from harness.tla_values import parse_dump

    def mc(events):
        return ("---- MODULE MC_KernelExact ----\nEXTENDS KernelExact\nMCConfigs == {%s}\nMCEvents == {%s}\n====\n"
                % (", ".join(to_tla(c) for c in EXACT_CONFIGS), ",\n".join(to_tla(e) for e in events)))

    # spec -> code: TLC computes the inputs (and, for itself, the expected outputs)
    res = ctx.tlc("MC_KernelExact", cfg_text=EXACT_CFG, extra_files={"MC_KernelExact.tla": mc([])}, dump=True, keep=True,
                  workers=4, what="KernelExact scenario")
    try:
        states = [s for s in parse_dump(res.dump_path) if s.get("phase") == "plan"]
    finally:
        tlcmod.cleanup(res)
    if len(states) != len(EXACT_CONFIGS):
        raise tlcmod.MachineryError("KernelExact: %d plan states for %d configurations" % (len(states), len(EXACT_CONFIGS)))
    events = []
    for st in states:
        c = dict(st["cfg"])
        inp = st["inp"]
        n = c["P"] * c["N1"] * c["N2"]
        fc = np.array(inp["fc"], dtype="double").reshape(c["P"], n, 3, 3).copy()
        args = [fc, np.array(inp["perms"], dtype="intc", order="C"), np.array(inp["s2pp"], dtype="intc"),
                np.array(inp["p2s"], dtype="intc"), np.array(inp["nsym"], dtype="intc")]
        try:
            phonoc.transpose_compact_fc(*args)
            out = [int(round(x)) for x in fc.reshape(-1)]
            if not np.array_equal(fc.reshape(-1), np.array(out, dtype="double")):
                out = [-999999]
        except Exception as e:
            out = [-999998]
            ctx.extra.setdefault("exact_exceptions", []).append(repr(e))
        events.append(dict(kernel="transpose_compact_fc", cfg=c, out=out))
        ctx.count(("exact", "transpose_compact_fc", tuple(sorted(c.items()))))
        d = inp.get("dist")
        if d:
            fc2 = np.array(d["fc"], dtype="double").reshape(n, n, 3, 3).copy()
            try:
                phonoc.distribute_fc2(fc2, np.arange(n, dtype="intc"), np.arange(n, dtype="intc"),
                                      np.array(d["rot"], dtype="double", order="C"),
                                      np.array(d["opperm"], dtype="intc", order="C"),
                                      np.full(n, d["done"], dtype="intc"), np.array(d["mapsyms"], dtype="intc"))
                out = [int(round(x)) for x in fc2.reshape(-1)]
                if not np.array_equal(fc2.reshape(-1), np.array(out, dtype="double")):
                    out = [-999999]
            except Exception as e:
                out = [-999998]
                ctx.extra.setdefault("exact_exceptions", []).append(repr(e))
            events.append(dict(kernel="distribute_fc2", cfg=c, out=out))
            ctx.count(("exact", "distribute_fc2", tuple(sorted(c.items()))))
    ctx.traces += len(events)
    ctx.extra["exact_events"] = len(events)
    # code -> spec: TLC compares the kernels' outputs with the definition
    res = ctx.tlc("MC_KernelExact", cfg_text=EXACT_CFG, extra_files={"MC_KernelExact.tla": mc(events)}, requirement=False,
                  extra_args=("-continue",), workers=4)
    seen = set()
    for name, st in initial_state_violations(res.stdout):
        e = st.get("ev") or {}
        kern = e.get("kernel", "?") if isinstance(e, dict) else "?"
        key = "exact:%s:%s" % (name, kern)
        if key in seen:
            continue
        seen.add(key)
        det = dict(invariant=name, kernel=kern)
        if isinstance(e, dict) and "cfg" in e:
            c = dict(e["cfg"])
            det["scenario"] = c
            det["kernel_output"] = list(e.get("out", []))[:200]
            for stp in states:
                if dict(stp["cfg"]) == c:
                    det["inputs"] = {k: v for k, v in stp["inp"].items() if k not in ("dist",)}
                    if kern == "distribute_fc2":
                        det["inputs"] = dict(stp["inp"]["dist"])
        ctx.violation(key, "kernel %s differs from the exact value TLC computes from the definition (%s)" % (kern, name), det)


# --------------------------------------------------------------------------
def run(ctx):
    ctx.rule = ("race model: one case per `omp parallel for` site of /repo/c (regenerated), all interleavings of 2 "
                "(thorough: also 3) threads; kernels: one case per (kernel, crystal configuration, argument shapes/"
                "dtypes/flags, recorded|randomised data), each run on every (build, OMP_NUM_THREADS, repetition) of "
                "the matrix TLC enumerates; non-trivial = distinct case keys")
    want = None
    if ctx.replay_path:
        # re-run the recorded failing class: same seed and tier, only that class is reported
        import json

        with open(ctx.replay_path) as f:
            rp = json.load(f)
        want = rp.get("key")
        ctx.seed = int(rp.get("seed", ctx.seed))
        ctx.tier = rp.get("tier", ctx.tier)
    models, prog = check_omp(ctx)
    ctx.extra["omp_exhaustive_within_bounds"] = True
    if not (want and want.startswith("omp:")):
        check_exact(ctx)
        check_twopass(ctx)
        check_kernels(ctx, prog)
    if want:
        ctx.violations = [v for v in ctx.violations if v["key"] == want]
        print("replay of %s: %s" % (want, "reproduced" if ctx.violations else "not reproduced"))
    ctx.assumptions += [
        "race model: inner data values are abstract; integer index arithmetic is concrete on one small scenario per site",
        "memory safety is monitored (guard zones; ASan/UBSan build in the thorough tier) on the replayed inputs, not proved",
        "reference semantics of float kernels are numpy transcriptions / the in-repository Python versions; tolerances in KernelRuns.tla",
    ]
